(** C10 — Nothing is reused from a cache beyond its validity.
    Property theorems only; definitions in C10/Model.v, vocabulary and proofs in
    C10/Proofs.v, C10/Sound.v, C10/SoundHist.v; the correspondence evaluator in
    Run/Eval_C10.v.  Unit: nanoseconds in [Z]; `exp`/NotAfter in whole seconds.

    [f : fixes] selects the code: [fx_none] = the originally pinned tree,
    [fx1 .. fx5 f = true] = with the fix: commits 637ae67 (C10-F1), c971513
    (C10-F2), e0dc5e2 (C10-F3), a3cbbb3 (C10-F4), 8647e06 (C10-F5); /repo contains all
    five ([fx_all]); [fx_before_F4] = the tree with the first three only.  Theorems about
    repaired defects carry the hypothesis [fx<n> f = true] and no guard; what the
    code did before is kept as [C10_F<n>_pinned_refuted]. *)
From HV Require Import Base.Prelude Base.Time C10.Model C10.Proofs C10.Mixed Run.Eval_C10 C10.Sound C10.SoundHist.
Open Scope Z_scope.

(** an introspection response / JWK / session / access token is stored only with
    a positive ttl, and the entry is gone strictly before the thing's own expiry
    (so also before expiry + any validity leeway), even if the cache applies the
    ttl up to [max_delay] = 4 s after it was computed.  For ALL expiry instants,
    clock readings and ttl states. *)
Theorem C10_ttl_within_lifetime : forall f m st e now d ttl,
  fx1 f = true ->
  expiry_mech m = true ->
  store f m st (Some e) now = Some ttl ->
  0 <= d <= max_delay ->
  0 < ttl /\ now + d + ttl < expiry_instant m e.
Proof. exact ttl_within_lifetime_fixed. Qed.
Print Assumptions C10_ttl_within_lifetime.

(** no mechanism ever hands a non-positive ttl to the cache (the in-memory cache
    would keep such an entry for ever) *)
Theorem C10_store_positive : forall f m st exp now ttl,
  store f m st exp now = Some ttl -> 0 < ttl.
Proof. exact store_positive. Qed.
Print Assumptions C10_store_positive.

(** a JWT issued by the jwt finalizer at [now] with lifetime [val st] carries
    [exp = (now + ttl).Unix()]; whenever the cached copy can still be served
    ([t <= set instant + cache ttl]) the token is not yet expired *)
Theorem C10_finalizer_token_not_expired : forall f st now d s t,
  store f MJwtFin st None now = Some s ->
  0 <= d <= max_delay ->
  t <= now + d + s ->
  t < secs (unix (now + val st)).
Proof. exact finalizer_token_not_expired. Qed.
Print Assumptions C10_finalizer_token_not_expired.

(** a ttl of zero -- or a negative one -- in force for the rule (rule-level setting,
    else the mechanism's) disables both the lookup and the store.  The jwt
    finalizer is excepted: its `ttl` is the lifetime of the token it issues, it
    always looks up, and a value <= 5 s only disables the store
    ([C10_store_positive], [C10_finalizer_token_not_expired]) *)
Theorem C10_zero_disables : forall f m conf rule c,
  fx3 f = true ->
  m <> MJwtFin ->
  spec_cfg m conf rule = Some c -> c <= 0 ->
  let st := withconfig_ttl f m (create_ttl m conf) rule in
  lookup_enabled m st = false /\ forall exp now, store f m st exp now = None.
Proof. exact nonpositive_disables_fixed. Qed.
Print Assumptions C10_zero_disables.

(** a configured ttl is an upper bound of what is handed to the cache (together
    with C10_ttl_within_lifetime: it can only shorten the lifetime) *)
Theorem C10_config_only_shortens : forall f m c exp now ttl,
  store f m (Some c) exp now = Some ttl -> ttl <= c.
Proof. exact config_only_shortens. Qed.
Print Assumptions C10_config_only_shortens.

(** the ttl in force for a rule -- the rule-level value, else the prototype's --
    bounds what an instance created for that rule hands to the cache *)
Theorem C10_rule_level_ttl_bounds : forall f m conf rule c exp now ttl,
  fx3 f = true ->
  spec_cfg m conf rule = Some c ->
  store f m (withconfig_ttl f m (create_ttl m conf) rule) exp now = Some ttl ->
  ttl <= c.
Proof. exact rule_level_ttl_bounds. Qed.
Print Assumptions C10_rule_level_ttl_bounds.

(** RFC 7234 responses, for ALL values of max-age / Expires (absent, unparsable,
    any instant) / Date / Age and any default ttl: [rfc_remaining] (C10/Proofs.v,
    transcribed from RFC 7234 4.2.1, 4.2.3, 5.3, independent of the model) is the
    freshness a response has left when it arrives (the lifetime part is
    independent of the model; the current-age term max(Age, now - Date) is the
    same expression in model and specification): lifetime (max-age, else
    Expires - Date, unparsable Expires = expired, else the default ttl) minus
    current age (max of Age and now - Date).  What [cacheResponse] hands to the
    cache is positive and within it (repair of C10-F4, a3cbbb3: [fx4]) *)
Theorem C10_http_within_rfc_freshness : forall f cachable h dflt now1 now2 ttl,
  fx2 f = true -> fx4 f = true -> now1 <= now2 -> 0 <= hv_age h ->
  http_store_hdr f cachable h dflt now1 now2 = Some ttl ->
  exists l, rfc_remaining h dflt now2 = Some l /\ 0 < ttl /\ ttl <= l.
Proof. exact http_hdr_within_rfc_fixed. Qed.
Print Assumptions C10_http_within_rfc_freshness.

(** ... so a response whose remaining freshness is zero or negative is not handed
    to the cache at all, nor is one without any lifetime *)
Theorem C10_http_not_stored_when_stale : forall f cachable h dflt now1 now2 l,
  fx2 f = true -> fx4 f = true -> now1 <= now2 -> 0 <= hv_age h ->
  rfc_remaining h dflt now2 = Some l -> l <= 0 ->
  http_store_hdr f cachable h dflt now1 now2 = None.
Proof. exact http_hdr_not_stored_when_stale_fixed. Qed.
Print Assumptions C10_http_not_stored_when_stale.

(** time passes between the arrival of a response ([now1]: headers there, expiry
    computed) and the Set ([now2]: after the body has been read and dumped): the
    ttl handed to the cache lies within the freshness left AT THE TIME OF THE SET
    -- what was left on arrival minus the time passed -- so a response that goes
    stale while its body is still arriving is not stored *)
Theorem C10_http_within_rfc_freshness_at_set : forall f cachable h dflt now1 now2 ttl,
  fx2 f = true -> fx4 f = true -> now1 <= now2 -> 0 <= hv_age h ->
  http_store_hdr f cachable h dflt now1 now2 = Some ttl ->
  exists l, rfc_remaining h dflt now1 = Some l /\ 0 < ttl /\ ttl <= l - (now2 - now1).
Proof. exact http_hdr_within_rfc_at_set. Qed.
Print Assumptions C10_http_within_rfc_freshness_at_set.

Theorem C10_http_not_stored_when_stale_at_set : forall f cachable h dflt now1 now2 l,
  fx2 f = true -> fx4 f = true -> now1 <= now2 -> 0 <= hv_age h ->
  rfc_remaining h dflt now1 = Some l -> l <= now2 - now1 ->
  http_store_hdr f cachable h dflt now1 now2 = None.
Proof. exact http_hdr_not_stored_when_stale_at_set. Qed.
Print Assumptions C10_http_not_stored_when_stale_at_set.

Theorem C10_http_not_stored_without_lifetime : forall f cachable h dflt now1 now2,
  rfc_remaining h dflt now2 = None ->
  http_store_hdr f cachable h dflt now1 now2 = None.
Proof. exact http_hdr_not_stored_without_lifetime. Qed.
Print Assumptions C10_http_not_stored_without_lifetime.

(** with or without the repair of C10-F4 the code respects the lifetime the
    response declares (before a3cbbb3: only not its age): the ttl is positive and at
    most the declared lifetime / the default ttl *)
Theorem C10_http_declared_lifetime_bound : forall f cachable h dflt now1 now2 ttl,
  fx2 f = true -> now1 <= now2 ->
  http_store_decision f cachable (lib_expires h now1) dflt now1 now2 = Some ttl ->
  0 < ttl /\
  ((bad_expires h = true /\ ttl <= dflt /\ 0 < dflt) \/
   (bad_expires h = false /\ exists l, lifetime_or_default h dflt now2 = Some l /\ ttl <= l)).
Proof. exact core_decision_bound. Qed.
Print Assumptions C10_http_declared_lifetime_bound.

(** C10-F4 before a3cbbb3: `Age: 3599, max-age=3600` stored for the full hour;
    `Expires: 0` + `default_ttl: 5s` stored for 5 s *)
Theorem C10_F4_pinned_refuted :
  (guard_F4 fx_before_F4 h_aged 0 (secs 1000) = true /\
   rfc_remaining h_aged 0 (secs 1000) = Some (secs 1) /\
   http_store_hdr fx_before_F4 true h_aged 0 (secs 1000) (secs 1000) = Some (secs 3600)) /\
  (guard_F4 fx_before_F4 h_badexp (secs 5) (secs 1000) = true /\
   rfc_remaining h_badexp (secs 5) (secs 1000) = Some 0 /\
   http_store_hdr fx_before_F4 true h_badexp (secs 5) (secs 1000) (secs 1000) = Some (secs 5)).
Proof. exact F4_refuted. Qed.
Print Assumptions C10_F4_pinned_refuted.

(** all request sequences over time, both cache semantics: whatever is served
    from cache is served strictly before its own expiry *)
Theorem C10_no_hit_after_expiry : forall b f m st h now0,
  fx1 f = true ->
  expiry_mech m = true ->
  wf_hist max_delay h ->
  forall t v e,
    In (Hit t v) (run b (lookup_enabled m st) (mech_policy f m st) now0 [] h) ->
    r_exp v = Some e -> t < expiry_instant m e.
Proof. exact no_hit_after_expiry_mech_fixed. Qed.
Print Assumptions C10_no_hit_after_expiry.

(** round-tripper histories: no hit later than [e + D], where [e] = [r_exp] is the
    expiry instant the LIBRARY computed for the response (its clock + lifetime; no
    Age -- [http_policy] does not subtract the current age) and [D] bounds the
    delay between [time.Until] and the cache applying the ttl.  This is NOT a
    statement in terms of RFC 7234 remaining freshness: for that the store
    decision ([C10_http_within_rfc_freshness_at_set]) and the cache's expiry
    enforcement ([C10_cache_expiry_enforced]) are proved separately and not
    composed over histories *)
Theorem C10_no_hit_after_expiry_http : forall b f dflt D h now0,
  fx2 f = true ->
  wf_hist D h ->
  forall t v e,
    In (Hit t v) (run b true (http_policy f dflt) now0 [] h) ->
    r_exp v = Some e -> t <= e + D.
Proof. exact no_hit_after_expiry_http_fixed. Qed.
Print Assumptions C10_no_hit_after_expiry_http.

(** requests under DIFFERENT rules (different ttl states of one prototype) against
    one cache, all request sequences, both cache semantics:
    (i) whichever rule stored an entry, it is served strictly before the payload's
    own expiry -- this held before the repair of C10-F5 too; *)
Theorem C10_no_hit_after_expiry_any_rule : forall b f m h now cs,
  fx1 f = true -> expiry_mech m = true -> wf_mhist max_delay h ->
  minv (mech_lim m) cs ->
  forall t st v e, In (MHit t st v) (runm b f m now cs h) -> r_exp v = Some e -> t < expiry_instant m e.
Proof. exact no_hit_after_expiry_mixed. Qed.
Print Assumptions C10_no_hit_after_expiry_any_rule.

(** (ii) the cache key contains the ttl (always for the remote authorizer, the
    contextualizer and the jwt finalizer; for the authenticators and client
    credentials since the repair of C10-F5, 8647e06: [fx5]): what a request under
    a configured ttl [c] is answered with was fetched by an earlier request under
    the same ttl, at most [c] ago -- "a configured TTL can only shorten", per request *)
Theorem C10_hit_age_within_ttl_in_force : forall b f m,
  fx5 f = true ->
  forall h now0 t c v,
    wf_mhist max_delay h ->
    In (MHit t (Some c) v) (runm b f m now0 [] h) ->
    exists tc ts ttl,
      In (MMiss tc ts (Some c) v (Some ttl)) (runm b f m now0 [] h) /\ ttl <= c /\ ts <= t /\ t <= ts + ttl.
Proof. exact hit_age_within_ttl_in_force_fixed. Qed.
Print Assumptions C10_hit_age_within_ttl_in_force.

(** C10-F5 before 8647e06: the introspection authenticator's key had no ttl; a
    request under `cache_ttl: 5s` was answered from the entry a request under 1 h
    stored 100 s ago *)
Theorem C10_F5_pinned_refuted :
  let fr := {| r_id := 7; r_exp := Some 9000 |} in
  let h := [MReq 1 (Some (secs 3600)) fr 0; MAdv (secs 100); MReq 1 (Some (secs 5)) {| r_id := 8; r_exp := Some 9000 |} 0] in
  guard_F5 fx_before_F4 MIntro [Some (secs 3600); Some (secs 5)] = true /\
  wf_mhist max_delay h /\
  In (MHit (secs 1100) (Some (secs 5)) fr) (runm Mem fx_before_F4 MIntro (secs 1000) [] h) /\
  ~ (exists tc ts ttl, In (MMiss tc ts (Some (secs 5)) fr (Some ttl)) (runm Mem fx_before_F4 MIntro (secs 1000) [] h)).
Proof. exact F5_refuted. Qed.
Print Assumptions C10_F5_pinned_refuted.

(** ** what the originally pinned code did instead (fixed by 637ae67, c971513, e0dc5e2) *)

(** C10-F1: expiry inside the leeway + configured (or default) ttl => cached for the full ttl *)
Theorem C10_F1_pinned_refuted : forall m, ptr_mech m = true ->
  exists st e now ttl,
    guard_F1 fx_none m st (Some e) now = true /\
    store fx_none m st (Some e) now = Some ttl /\
    ~ (now + ttl < expiry_instant m e + secs 10).
Proof. exact F1_refuted. Qed.
Print Assumptions C10_F1_pinned_refuted.

Theorem C10_F1_history_pinned_refuted :
  exists h t v e, wf_hist max_delay h /\
    In (Hit t v) (run Mem (lookup_enabled MIntro s300) (mech_policy fx_none MIntro s300) (secs 1000) [] h) /\
    r_exp v = Some e /\ ~ (t < expiry_instant MIntro e + secs 10).
Proof. exact F1_history_refuted. Qed.
Print Assumptions C10_F1_history_pinned_refuted.

(** C10-F2: `max-age=0` stored in the in-memory cache without expiry, served an hour later *)
Theorem C10_F2_pinned_refuted :
  exists now l, http_lifetime (Some now) 0 now = Some l /\ l <= 0 /\
    guard_F2 fx_none Mem (Some now) 0 now = true /\
    exists ttl, http_store_decision fx_none true (Some now) 0 now now = Some ttl /\
      cget Mem (now + secs 3600) 1 (cset Mem now 1 {| r_id := 7; r_exp := Some now |} ttl []) <> None.
Proof. exact F2_refuted. Qed.
Print Assumptions C10_F2_pinned_refuted.

(** C10-F3: remote authorizer, prototype 30 s, rule-level `cache_ttl: 0s`: still cached *)
Theorem C10_F3_pinned_refuted :
  exists conf rule, spec_cfg MRemote conf rule = Some 0 /\ guard_F3 fx_none MRemote conf rule = true /\
    lookup_enabled MRemote (withconfig_ttl fx_none MRemote (create_ttl MRemote conf) rule) = true.
Proof. exact F3_refuted. Qed.
Print Assumptions C10_F3_pinned_refuted.

(** non-vacuity under the repaired code: ordinary inputs are cached, the former
    witnesses of C10-F1/F2/F3 are not; a mechanism history and a round-tripper
    history contain a hit; an aged response with freshness left is stored for what
    is left; a request under the same ttl is answered from cache with the ttl in
    the key *)
Theorem C10_nonvacuous :
  (store fx_all MIntro s300 (Some 1005) (secs 1000) = None /\
   store fx_all MJwtKey None (Some 1005) (secs 1000) = None /\
   store fx_all MClientCred s300 (Some (secs 1003)) (secs 1000) = None /\
   store fx_all MIntro s300 (Some 1100) (secs 1000) = Some (secs 90) /\
   store fx_all MJwtKey None (Some 2000) (secs 1000) = Some (secs 600) /\
   store fx_all MClientCred None (Some (secs 1100)) (secs 1000) = Some (secs 95) /\
   http_store_decision fx_all true (Some (secs 1000)) 0 (secs 1000) (secs 1000) = None /\
   lookup_enabled MRemote (withconfig_ttl fx_all MRemote (create_ttl MRemote (Some (secs 30))) (Some 0)) = false) /\
  ((exists t v, In (Hit t v) (run Redis (lookup_enabled MIntro s300) (mech_policy fx_all MIntro s300) (secs 1000) []
      [Req 1 {| r_id := 7; r_exp := Some 1100 |} 0; Adv (secs 50); Req 1 {| r_id := 8; r_exp := Some 1300 |} 0])) /\
   (exists t v, In (Hit t v) (run Mem true (http_policy fx_all 0) (secs 1000) []
      [Req 1 {| r_id := 7; r_exp := Some (secs 1010) |} 0; Adv (secs 5); Req 1 {| r_id := 8; r_exp := Some (secs 1020) |} 0])) /\
   http_store_hdr fx_all true h_aged 0 (secs 1000) (secs 1000) = Some (secs 1)) /\
  (let fr := {| r_id := 7; r_exp := Some 9000 |} in
   In (MHit (secs 1010) (Some (secs 60)) fr)
      (runm Mem fx_all MIntro (secs 1000) []
         [MReq 1 (Some (secs 60)) fr 0; MAdv (secs 10); MReq 1 (Some (secs 60)) {| r_id := 8; r_exp := Some 9000 |} 0])).
Proof. exact (conj fixed_witnesses (conj nonvacuous_fixed mixed_hit_fixed)). Qed.
Print Assumptions C10_nonvacuous.

(** ** the correspondence evaluator is sound w.r.t. these theorems

    [Run.Eval_C10.check f c] computes, for a recorded case [c] (input + the
    implementation's observation): [v_corr] (the model answers like the
    implementation), [v_prop] (the property predicate, written from the property
    text, on the observation) and the finding guards.  [v_corr] is REFINEMENT: the
    implementation may look up less, store less and for a shorter time than the
    model, never more.  For EVERY well-formed case of the kinds CExec, CHttp,
    CCache, CHist (not CMix) -- all inputs, all observations -- correspondence without a
    firing guard implies the property predicate; for the repaired code no guard
    can fire, so there correspondence alone implies it.  Hence every property
    failure the check reports is a disagreement between implementation and model.
    [wf_case] (C10/SoundHist.v) is what the driver guarantees: measured bracket
    at most [max_delay] wide; no expiry information for mechanisms without one; a
    non-negative Age value and body delay; for histories non-decreasing instants
    and unique payload ids.  [wf_case] is [False] for CMix and CBroken: mixed-rule
    cases have no soundness theorem, their [v_prop] is checked as it is. *)
Theorem C10_check_sound : forall f c,
  wf_case f c ->
  v_corr (check f c) = true -> v_guards (check f c) = [] -> v_prop (check f c) = true.
Proof. exact check_sound. Qed.
Print Assumptions C10_check_sound.

Theorem C10_check_sound_fixed : forall c,
  wf_case fx_all c -> v_corr (check fx_all c) = true -> v_prop (check fx_all c) = true.
Proof. exact check_sound_fixed. Qed.
Print Assumptions C10_check_sound_fixed.

(** expiry enforcement demanded of the OBSERVED cache (real memory.Cache / redis
    cache), for all recorded Set/Get sequences: the evaluator's predicate
    [cache_prop] says that whatever a Get returned was put there by the last
    successful Set of that key and, if that Set carried a positive ttl, the Get was
    issued no later than ttl after the Set returned.  It follows from
    correspondence, which for a real cache means: it never answers what the model
    cache -- Sets at their return instants, Gets at their issue instants -- no
    longer holds; in particular never at or after set-return + ttl (an early or
    late miss is no disagreement) *)
Theorem C10_cache_expiry_enforced : forall f b ops,
  let v := check f (CCache b ops) in
  v_corr v = true -> v_guards v = [] -> v_prop v = true.
Proof. exact check_sound_cache. Qed.
Print Assumptions C10_cache_expiry_enforced.
