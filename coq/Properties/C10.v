(** C10 — Nothing is reused from a cache beyond its validity.
    Property theorems only; definitions in C10/Model.v, vocabulary and proofs in
    C10/Proofs.v.  Unit: nanoseconds in [Z]; `exp`/NotAfter in whole seconds.

    [f : fixes] selects the code: [fx_none] = the pinned tree, [fx<n> f = true]
    = after fixes/C10-F<n>.diff.  A guard is [false] whenever its fix is applied, so
    every theorem below is unguarded for the repaired code. *)
From HV Require Import Base.Prelude Base.Time C10.Model C10.Proofs Run.Eval_C10 C10.Sound C10.SoundHist.
Open Scope Z_scope.

(** an introspection response / JWK / session / access token is stored only with
    a positive ttl, and the entry is gone strictly before the thing's own expiry
    (so also before expiry + any validity leeway), even if the cache applies the
    ttl up to [max_delay] = 4 s after it was computed *)
Theorem C10_ttl_within_lifetime : forall f m st e now d ttl,
  expiry_mech m = true ->
  guard_F1 f m st (Some e) now = false ->
  store f m st (Some e) now = Some ttl ->
  0 <= d <= max_delay ->
  0 < ttl /\ now + d + ttl < expiry_instant m e.
Proof. exact ttl_within_lifetime. Qed.
Print Assumptions C10_ttl_within_lifetime.

(** no mechanism ever hands a non-positive ttl to the cache (the in-memory cache
    would keep such an entry for ever) *)
Theorem C10_store_positive : forall f m st exp now ttl,
  store f m st exp now = Some ttl -> 0 < ttl.
Proof. exact store_positive. Qed.
Print Assumptions C10_store_positive.

(** a JWT issued by the jwt finalizer at [now] with lifetime [val st] carries
    [exp = (now + ttl).Unix()]; whenever the cached copy can still be served
    ([t <= set instant + cache ttl]) the token is not yet expired *)
Theorem C10_finalizer_token_not_expired : forall f st now d s t,
  store f MJwtFin st None now = Some s ->
  0 <= d <= max_delay ->
  t <= now + d + s ->
  t < secs (unix (now + val st)).
Proof. exact finalizer_token_not_expired. Qed.
Print Assumptions C10_finalizer_token_not_expired.

(** a ttl of zero in force for the rule (rule-level setting, else the
    mechanism's) disables both the lookup and the store *)
Theorem C10_zero_disables : forall f m conf rule,
  m <> MJwtFin ->
  spec_cfg m conf rule = Some 0 ->
  guard_F3 f m conf rule = false ->
  let st := withconfig_ttl f m (create_ttl m conf) rule in
  lookup_enabled m st = false /\ forall exp now, store f m st exp now = None.
Proof. exact zero_disables. Qed.
Print Assumptions C10_zero_disables.

(** a configured ttl is an upper bound of what is handed to the cache (together
    with C10_ttl_within_lifetime: it can only shorten the lifetime) *)
Theorem C10_config_only_shortens : forall f m c exp now ttl,
  store f m (Some c) exp now = Some ttl -> ttl <= c.
Proof. exact config_only_shortens. Qed.
Print Assumptions C10_config_only_shortens.

(** a response whose RFC 7234 freshness lifetime (explicit, or the configured
    default) is zero or negative leaves the cache unchanged *)
Theorem C10_http_not_stored_when_nonpositive : forall f b cachable expires dflt now1 now2 ts k (v : result) c l,
  now1 <= now2 ->
  http_lifetime expires dflt now2 = Some l -> l <= 0 ->
  guard_F2 f b expires dflt now2 = false ->
  match http_store_decision f cachable expires dflt now1 now2 with
  | Some ttl => cset b ts k v ttl c = c
  | None => True
  end.
Proof. exact http_not_stored_when_nonpositive. Qed.
Print Assumptions C10_http_not_stored_when_nonpositive.

(** and a stored response expires exactly at its freshness limit / within the default ttl *)
Theorem C10_http_ttl_within_lifetime : forall f cachable expires dflt now1 now2 ttl,
  now1 <= now2 ->
  http_store_decision f cachable expires dflt now1 now2 = Some ttl ->
  match expires with Some e => now2 + ttl = e | None => ttl <= dflt end.
Proof. exact http_ttl_within_lifetime. Qed.
Print Assumptions C10_http_ttl_within_lifetime.

(** all request sequences over time, both cache semantics: whatever is served
    from cache is served strictly before its own expiry *)
Theorem C10_no_hit_after_expiry : forall b f m st h now0,
  expiry_mech m = true ->
  wf_hist max_delay h ->
  (forall tc ts fresh s,
      In (Miss tc ts fresh s) (run b (lookup_enabled m st) (mech_policy f m st) now0 [] h) ->
      guard_F1 f m st (r_exp fresh) tc = false) ->
  forall t v e,
    In (Hit t v) (run b (lookup_enabled m st) (mech_policy f m st) now0 [] h) ->
    r_exp v = Some e -> t < expiry_instant m e.
Proof. exact no_hit_after_expiry_mech. Qed.
Print Assumptions C10_no_hit_after_expiry.

(** the same for responses cached by the RFC 7234 round tripper ([D]: bound on
    the delay between [time.Until] and the cache's own clock reading) *)
Theorem C10_no_hit_after_expiry_http : forall b f dflt D h now0,
  wf_hist D h ->
  (forall tc ts fresh s,
      In (Miss tc ts fresh s) (run b true (http_policy f dflt) now0 [] h) ->
      guard_F2 f b (r_exp fresh) dflt tc = false) ->
  forall t v e,
    In (Hit t v) (run b true (http_policy f dflt) now0 [] h) ->
    r_exp v = Some e -> t <= e + D.
Proof. exact no_hit_after_expiry_http. Qed.
Print Assumptions C10_no_hit_after_expiry_http.

(** the three findings on the pinned code *)
Theorem C10_F1_refuted : forall m, ptr_mech m = true ->
  exists st e now ttl,
    guard_F1 fx_none m st (Some e) now = true /\
    store fx_none m st (Some e) now = Some ttl /\
    ~ (now + ttl < expiry_instant m e + secs 10).
Proof. exact F1_refuted. Qed.
Print Assumptions C10_F1_refuted.

Theorem C10_F1_history_refuted :
  exists h t v e, wf_hist max_delay h /\
    In (Hit t v) (run Mem (lookup_enabled MIntro s300) (mech_policy fx_none MIntro s300) (secs 1000) [] h) /\
    r_exp v = Some e /\ ~ (t < expiry_instant MIntro e + secs 10).
Proof. exact F1_history_refuted. Qed.
Print Assumptions C10_F1_history_refuted.

Theorem C10_F2_refuted :
  exists now l, http_lifetime (Some now) 0 now = Some l /\ l <= 0 /\
    guard_F2 fx_none Mem (Some now) 0 now = true /\
    exists ttl, http_store_decision fx_none true (Some now) 0 now now = Some ttl /\
      cget Mem (now + secs 3600) 1 (cset Mem now 1 {| r_id := 7; r_exp := Some now |} ttl []) <> None.
Proof. exact F2_refuted. Qed.
Print Assumptions C10_F2_refuted.

Theorem C10_F3_refuted :
  exists conf rule, spec_cfg MRemote conf rule = Some 0 /\ guard_F3 fx_none MRemote conf rule = true /\
    lookup_enabled MRemote (withconfig_ttl fx_none MRemote (create_ttl MRemote conf) rule) = true.
Proof. exact F3_refuted. Qed.
Print Assumptions C10_F3_refuted.

(** non-vacuity: the hypotheses of the main theorems hold for ordinary inputs *)
Theorem C10_nonvacuous :
  guard_F1 fx_none MIntro s300 (Some 1100) (secs 1000) = false /\
  store fx_none MIntro s300 (Some 1100) (secs 1000) = Some (secs 90) /\
  store fx_none MJwtKey None (Some 2000) (secs 1000) = Some (secs 600) /\
  store fx_none MGeneric (Some (secs 300)) (Some 1005) (secs 1000) = None /\
  store fx_none MClientCred None (Some (secs 1100)) (secs 1000) = Some (secs 95).
Proof. exact nonvacuous_ttl. Qed.
Print Assumptions C10_nonvacuous.

(** ** the correspondence evaluator is sound w.r.t. these theorems

    [Run.Eval_C10.check f c] computes, for a generated case [c] and the
    implementation's observation in it: [v_corr] (the model answers like the
    implementation), [v_prop] (the property predicate, written from the property
    text, on the observation) and the finding guards.  For EVERY case of the five
    kinds below -- all inputs, all observations -- correspondence without a firing
    guard implies the property predicate: a property failure on an unguarded input
    is always a disagreement between implementation and model. *)
Theorem C10_check_sound_fn : forall f m st exp now dmax o,
  0 <= dmax <= max_delay ->
  let v := check f (CFn m st exp now dmax o) in
  v_corr v = true -> v_guards v = [] -> v_prop v = true.
Proof. exact check_sound_fn. Qed.
Print Assumptions C10_check_sound_fn.

Theorem C10_check_sound_exec : forall f m conf rule exp now dmax o,
  0 <= dmax <= max_delay ->
  wf_exec m exp ->
  let v := check f (CExec m conf rule exp now dmax o) in
  v_corr v = true -> v_guards v = [] -> v_prop v = true.
Proof. exact check_sound_exec. Qed.
Print Assumptions C10_check_sound_exec.

Theorem C10_check_sound_http : forall f b cachable life dflt dmax o_set o_hit,
  0 <= dmax ->
  let v := check f (CHttp b cachable life dflt dmax o_set o_hit) in
  v_corr v = true -> v_guards v = [] -> v_prop v = true.
Proof. exact check_sound_http. Qed.
Print Assumptions C10_check_sound_http.

(** expiry enforcement of both cache semantics, for all operation sequences *)
Theorem C10_check_sound_cache : forall f b ops,
  let v := check f (CCache b ops) in
  v_corr v = true -> v_guards v = [] -> v_prop v = true.
Proof. exact check_sound_cache. Qed.
Print Assumptions C10_check_sound_cache.

(** request histories, both cache semantics, mechanisms and the round tripper.
    [hist_wf] (C10/SoundHist.v) is what the driver guarantees about a recorded
    history: request instants do not decrease, every remote answer carries a
    fresh payload id, a mechanism without expiry information reports none, and
    every ttl the model computes exceeds the measurement slack. *)
Theorem C10_check_sound_hist : forall f b hk slack evs obs,
  hist_wf f hk slack evs ->
  let v := check f (CHist b hk slack evs obs) in
  v_corr v = true -> v_guards v = [] -> v_prop v = true.
Proof. exact check_sound_hist. Qed.
Print Assumptions C10_check_sound_hist.
