(** C09 — Forwarded headers from untrusted peers never influence a decision.
    Property theorems only; model in C09/Model.v, specification vocabulary and
    proofs in C09/Proofs.v (parse results) and C09/Request.v (strings as supplied).

    [handle parse_uri parse_ip parse_cidr split_host_port fixed m cfg r raw] is what
    heimdall's decision ([m = Decision]) or proxy ([m = Proxy]) entry point makes
    of one request: [cfg] the two configured trusted_proxies options as strings
    ([None] = not set), [r] RemoteAddr, TLS state and request line, [raw] the
    header lines as sent (names in any casing, any number of lines per name).
    The result is the request view used for matching and shown to the mechanisms
    and, for proxy mode, method and headers of the request sent to the upstream.
    That the decision itself (matched rule, pipeline outcome) depends on the request
    only through the view is an ASSUMPTION (matching and mechanisms are not modelled
    here, C02/C03/C04); the stream ties it in by its rule / pair / leaks comparison.
    The four functions are the net package, net/url: arbitrary, subject to [net_ok]
    (what the net package guarantees about its answers; re-checked on every case
    of the correspondence run).

    [fixed = true] is the tree as it is now: the loader of trustedproxy.New after
    the repair of finding C09-F1 (fix: commit e501d3a, fixes/C09-F1.diff);
    [fixed = false] is the loader as pinned, kept only in the two [..._refuted]
    witnesses that document the finding.  The theorems are about the repaired
    loader and carry no guard. *)
From HV Require Import Base.Prelude C09.Model C09.Proofs C09.Request.

(** on parse results: the trust decision of the middleware is exactly membership of the peer address
    in the configured list (single address = itself, IPv4 == IPv4-mapped IPv6; CIDR by family and
    mask; entries and peers that do not parse cover / are covered by nothing) *)
Theorem C09_trust_is_membership : forall es peer,
  Forall wf_entry es -> wf_ip peer ->
  (trusted_peer true es peer = true <-> listed es peer).
Proof. exact trust_is_membership. Qed.
Print Assumptions C09_trust_is_membership.

(** on what is configured and connected, in either mode: the middleware of a service trusts the peer
    exactly when some string of THAT service's trusted_proxies option (not set = empty) reads as the
    peer's address or as a range containing it; the peer's address is the host part of RemoteAddr,
    a RemoteAddr without host:port is nobody's address *)
Theorem C09_trust_is_membership_configured : forall parse_ip parse_cidr split_host_port,
  net_ok parse_ip parse_cidr split_host_port ->
  forall m cfg remote,
    trusted_peer true (map (entry_of parse_ip parse_cidr) (configured m cfg))
                 (parse_ip (ip_from_host_port split_host_port remote)) = true
    <-> listed_cfg parse_ip parse_cidr split_host_port m cfg remote.
Proof. exact trust_is_membership_cfg. Qed.
Print Assumptions C09_trust_is_membership_configured.

(** 2-safety: for a peer that is not listed, two requests that differ at most in header lines named
    (in any casing) like one of the seven — any values, any number of repetitions — produce the same
    view - hence the same decision, provided the decision depends on the view only (assumption) - and the
    same upstream request *)
Theorem C09_untrusted_noninterference : forall parse_uri parse_ip parse_cidr split_host_port,
  net_ok parse_ip parse_cidr split_host_port ->
  forall m cfg r raw raw',
    ~ listed_cfg parse_ip parse_cidr split_host_port m cfg (r_remote r) ->
    same_except_forwarded_raw raw raw' ->
    handle parse_uri parse_ip parse_cidr split_host_port true m cfg r raw =
    handle parse_uri parse_ip parse_cidr split_host_port true m cfg r raw'.
Proof. exact handle_noninterference. Qed.
Print Assumptions C09_untrusted_noninterference.

(** for a peer that is not listed: method, scheme, host, path, query and the client address list come
    only from the connection and the request line; the pipeline sees the header lines not named like
    one of the seven; the upstream receives these and one Forwarded header made from the connection *)
Theorem C09_untrusted_connection_only : forall parse_uri parse_ip parse_cidr split_host_port,
  net_ok parse_ip parse_cidr split_host_port ->
  forall m cfg r raw,
    ~ listed_cfg parse_ip parse_cidr split_host_port m cfg (r_remote r) ->
    handle parse_uri parse_ip parse_cidr split_host_port true m cfg r raw =
      {| s_view := {| v_method := r_method r; v_scheme := if r_tls r then "https" else "http"; v_host := r_host r;
                      v_rawpath := r_escpath r; v_query := r_rawquery r;
                      v_ips := [peer_host split_host_port (r_remote r)];
                      v_hdrs := parse_headers (not_forwarded_raw raw) |};
         s_up_hdrs := (parse_headers (not_forwarded_raw raw) ++ [(FWD, fresh_forwarded split_host_port r)])%list;
         s_up_method := r_method r |}.
Proof. exact handle_untrusted. Qed.
Print Assumptions C09_untrusted_connection_only.

(** ... so a header line named like one of the seven, in any casing, is neither visible to the pipeline
    nor passed on as received: the only such header at the upstream is the fresh Forwarded *)
Theorem C09_untrusted_not_passed_on : forall parse_uri parse_ip parse_cidr split_host_port,
  net_ok parse_ip parse_cidr split_host_port ->
  forall m cfg r raw n,
    ~ listed_cfg parse_ip parse_cidr split_host_port m cfg (r_remote r) ->
    is_forwarded_ci n = true ->
    has (canon_key n) (v_hdrs (s_view (handle parse_uri parse_ip parse_cidr split_host_port true m cfg r raw))) = false /\
    forall v, In (canon_key n, v) (s_up_hdrs (handle parse_uri parse_ip parse_cidr split_host_port true m cfg r raw)) ->
              canon_key n = FWD /\ v = fresh_forwarded split_host_port r.
Proof. exact handle_untrusted_hidden. Qed.
Print Assumptions C09_untrusted_not_passed_on.

(** for a listed peer every present, non-empty header (first line of that name, any casing) overrides
    its component (Proto -> scheme, Host -> host, Uri -> path and query, Method -> method,
    Forwarded / X-Forwarded-For -> the announced clients before the peer) and everything else
    falls back to the actual request.  [announced_of] is written with [is_split] / [is_trim]
    only, not with the model's string functions. *)
Theorem C09_trusted_overrides : forall parse_uri parse_ip parse_cidr split_host_port,
  net_ok parse_ip parse_cidr split_host_port ->
  forall m cfg r raw,
    listed_cfg parse_ip parse_cidr split_host_port m cfg (r_remote r) ->
    exists xs, announced_of (hdr_ci FWD raw) (hdr_ci XFF raw) xs /\
    s_view (handle parse_uri parse_ip parse_cidr split_host_port true m cfg r raw) =
    let uri := match hdr_ci XFU raw with Some v => if nonempty v then Some (read_uri parse_uri v) else None | None => None end in
    {| v_method := override (hdr_ci XFM raw) (r_method r);
       v_scheme := override (hdr_ci XFP raw) (if r_tls r then "https" else "http");
       v_host := override (hdr_ci XFH raw) (r_host r);
       v_rawpath := override (option_map fst uri) (r_escpath r);
       v_query := override (option_map snd uri) (r_rawquery r);
       v_ips := (xs ++ [peer_host split_host_port (r_remote r)])%list;
       v_hdrs := parse_headers raw |}.
Proof. exact handle_trusted. Qed.
Print Assumptions C09_trusted_overrides.

(** "exactly its component": for a listed peer a component depends on no header but its own — two
    requests that agree in the header of a component agree in that component, whatever else differs
    (other forwarded headers, X-Forwarded-Path, look-alike names) *)
Theorem C09_trusted_exactly_its_component : forall parse_uri parse_ip parse_cidr split_host_port,
  net_ok parse_ip parse_cidr split_host_port ->
  forall m cfg r raw raw',
    listed_cfg parse_ip parse_cidr split_host_port m cfg (r_remote r) ->
    let v := s_view (handle parse_uri parse_ip parse_cidr split_host_port true m cfg r raw) in
    let v' := s_view (handle parse_uri parse_ip parse_cidr split_host_port true m cfg r raw') in
    (hdr_ci XFM raw = hdr_ci XFM raw' -> v_method v = v_method v') /\
    (hdr_ci XFP raw = hdr_ci XFP raw' -> v_scheme v = v_scheme v') /\
    (hdr_ci XFH raw = hdr_ci XFH raw' -> v_host v = v_host v') /\
    (hdr_ci XFU raw = hdr_ci XFU raw' -> v_rawpath v = v_rawpath v' /\ v_query v = v_query v') /\
    (hdr_ci FWD raw = hdr_ci FWD raw' -> hdr_ci XFF raw = hdr_ci XFF raw' -> v_ips v = v_ips v').
Proof. exact handle_trusted_frame. Qed.
Print Assumptions C09_trusted_exactly_its_component.

(** histories: one instance of a service serves a sequence of requests.  What the i-th request gets is what it
    would get alone - nothing an earlier request (of a listed peer, of a peer whose address is written with the
    same leading text, ...) did can change it: IN THE MODEL, BY CONSTRUCTION ([run_instance = map handle]; a
    corollary, not new content).  That instances of the real middleware ARE stateless is what the history
    stream checks, not what Coq proves. *)
Theorem C09_history_pointwise : forall parse_uri parse_ip parse_cidr split_host_port m cfg reqs i r raw,
  nth_error reqs i = Some (r, raw) ->
  nth_error (run_instance parse_uri parse_ip parse_cidr split_host_port true m cfg reqs) i =
    Some (handle parse_uri parse_ip parse_cidr split_host_port true m cfg r raw).
Proof. exact history_pointwise. Qed.
Print Assumptions C09_history_pointwise.

(** ... so after ANY history a request of a peer that is not listed is served from the connection and the
    request line alone *)
Theorem C09_history_untrusted : forall parse_uri parse_ip parse_cidr split_host_port,
  net_ok parse_ip parse_cidr split_host_port ->
  forall m cfg reqs i r raw,
    nth_error reqs i = Some (r, raw) ->
    ~ listed_cfg parse_ip parse_cidr split_host_port m cfg (r_remote r) ->
    nth_error (run_instance parse_uri parse_ip parse_cidr split_host_port true m cfg reqs) i =
      Some {| s_view := {| v_method := r_method r; v_scheme := if r_tls r then "https" else "http"; v_host := r_host r;
                           v_rawpath := r_escpath r; v_query := r_rawquery r;
                           v_ips := [peer_host split_host_port (r_remote r)];
                           v_hdrs := parse_headers (not_forwarded_raw raw) |};
              s_up_hdrs := (parse_headers (not_forwarded_raw raw) ++ [(FWD, fresh_forwarded split_host_port r)])%list;
              s_up_method := r_method r |}.
Proof. exact history_untrusted. Qed.
Print Assumptions C09_history_untrusted.

(** supporting lemma about the model's upstream step, for an arbitrary header list [h] the middleware left
    (not stated on [handle]): clearing removes every received value of the seven names, so at the upstream they
    carry what heimdall composed and nothing else; X-Forwarded-Method/-Uri/-Path never arrive *)
Theorem C09_upstream_forwarding_is_composed : forall c h k,
  is_forwarded_name k = true ->
  values k (upstream_headers c h) = values k (composed_forwarding c h).
Proof. exact upstream_forwarding_is_composed. Qed.
Print Assumptions C09_upstream_forwarding_is_composed.

(** the model totalises nothing: for what net.ParseCIDR returns, IPNet.Contains never takes its nil
    branch and never indexes out of range *)
Theorem C09_contains_never_panics : forall a m p,
  wf_entry (ECidr a m) ->
  (exists nn mk, network_number_and_mask a m = Some (nn, mk)) /\ contains_panics a m p = false.
Proof. exact contains_never_panics. Qed.
Print Assumptions C09_contains_never_panics.

(** --- finding C09-F1 (repaired by fix: e501d3a), documented by witnesses about the pinned loader --- *)

(** with the pinned loader an entry that does not parse made every peer that does not parse trusted ... *)
Theorem C09_F1_pinned_refuted :
  exists es peer, Forall wf_entry es /\ wf_ip peer /\ guard_F1 es peer = true /\
                  trusted_peer false es peer = true /\ ~ listed es peer.
Proof. exact F1_refuted. Qed.
Print Assumptions C09_F1_pinned_refuted.

(** ... so that its forwarded headers changed the view; the repaired loader ignores them on the same input.
    Stated at the parse-result level ([serve], with [parse_uri := fun _ => None]); there is no [handle]-level twin. *)
Theorem C09_F1_pinned_noninterference_refuted :
  exists es peer c h h',
    Forall wf_entry es /\ wf_ip peer /\ ~ listed es peer /\ guard_F1 es peer = true /\
    same_except_forwarded h h' /\
    s_view (serve (fun _ => None) false es peer c h) <> s_view (serve (fun _ => None) false es peer c h') /\
    s_view (serve (fun _ => None) true es peer c h) = s_view (serve (fun _ => None) true es peer c h').
Proof. exact F1_pinned_noninterference_refuted. Qed.
Print Assumptions C09_F1_pinned_noninterference_refuted.

(** --- the hypotheses are satisfiable by non-trivial inputs (not counted as property theorems) --- *)

Example C09_nonvacuous_net_ok : net_ok ex_parse_ip ex_parse_cidr ex_split.
Proof. exact ex_net_ok. Qed.

Example C09_nonvacuous_untrusted :
  ~ listed_cfg ex_parse_ip ex_parse_cidr ex_split Proxy ex_cfg "8.8.4.4:53" /\
  ~ listed_cfg ex_parse_ip ex_parse_cidr ex_split Decision ex_cfg "10.1.2.3:80" /\
  ~ listed_cfg ex_parse_ip ex_parse_cidr ex_split Proxy ex_cfg "garbage" /\
  same_except_forwarded_raw [("x-forwarded-METHOD", "POST"); ("X-Custom", "1"); ("X-FORWARDED-URI", "/pst/a")]%string
                            [("X-Custom", "1"); ("forwarded", "for=1.1.1.1")]%string.
Proof. exact ex_untrusted. Qed.

Example C09_nonvacuous_trusted :
  listed_cfg ex_parse_ip ex_parse_cidr ex_split Proxy ex_cfg "10.1.2.3:80" /\
  listed_cfg ex_parse_ip ex_parse_cidr ex_split Proxy ex_cfg "[::ffff:10.1.2.3]:80".
Proof. exact ex_trusted. Qed.

(** the former finding input satisfies the hypotheses of the unguarded parse-level theorems *)
Example C09_nonvacuous_former_F1_input :
  let es := [EIp []; ECidr [10;0;0;0]%N [255;0;0;0]%N] in
  let peer : ip := [] in
  Forall wf_entry es /\ wf_ip peer /\ ~ listed es peer /\ guard_F1 es peer = true /\
  trusted_peer true es peer = false /\ trusted_peer false es peer = true.
Proof. exact nonvacuous_former_F1_input. Qed.
