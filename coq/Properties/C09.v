(** C09 — Forwarded headers from untrusted peers never influence a decision.
    Property theorems only; model in C09/Model.v, specification vocabulary and
    proofs in C09/Proofs.v.

    [serve parse_uri fixed es peer c h] is what heimdall's decision and proxy
    entry points make of one request: [es] the configured trusted_proxies
    entries with the net package's parse results, [peer] the parsed peer
    address ([[]] = does not parse), [c] the connection and request line, [h]
    the request headers (canonical keys, any number of values per name).  The
    result is the request view used for matching and shown to the mechanisms
    and, for proxy mode, the forwarded headers / method / request URI sent to
    the upstream.  The decision itself (matched rule, pipeline outcome) is a
    function of the view, so equal views give equal decisions.

    [fixed = true] is the tree as it is now: the loader of trustedproxy.New after
    the repair of finding C09-F1 (fix: commit e501d3a, fixes/C09-F1.diff);
    [fixed = false] is the loader as pinned, kept to document the finding
    ([..._pinned], [..._pinned_refuted]).  The main theorems are about the
    repaired loader and carry no guard.  [parse_uri] (url.Parse) is arbitrary. *)
From HV Require Import Base.Prelude C09.Model C09.Proofs.

(** the trust decision of the middleware is exactly membership of the peer address in the
    configured list (single address = itself, IPv4 == IPv4-mapped IPv6; CIDR by family and mask;
    entries and peers that do not parse cover / are covered by nothing) *)
Theorem C09_trust_is_membership : forall es peer,
  Forall wf_entry es -> wf_ip peer ->
  (trusted_peer true es peer = true <-> listed es peer).
Proof. exact trust_is_membership. Qed.
Print Assumptions C09_trust_is_membership.

(** 2-safety: for a peer that is not listed, two requests that differ at most in
    the seven forwarded headers (any values, any number of repetitions) produce
    the same view, hence the same decision, and the same upstream request *)
Theorem C09_untrusted_noninterference : forall parse_uri es peer c h h',
  Forall wf_entry es -> wf_ip peer ->
  ~ listed es peer ->
  same_except_forwarded h h' ->
  serve parse_uri true es peer c h = serve parse_uri true es peer c h' /\
  forall (D : Type) (decide : view -> D),
    decide (s_view (serve parse_uri true es peer c h)) = decide (s_view (serve parse_uri true es peer c h')).
Proof. exact noninterference_fixed. Qed.
Print Assumptions C09_untrusted_noninterference.

(** for a peer that is not listed: method, scheme, host, path, query and the
    client address list come only from the connection and the request line, the
    pipeline sees none of the seven headers, and the upstream receives one freshly
    made Forwarded header and none of the received ones *)
Theorem C09_untrusted_not_passed_on : forall parse_uri es peer c h,
  Forall wf_entry es -> wf_ip peer ->
  ~ listed es peer ->
  serve parse_uri true es peer c h =
    {| s_view := {| v_method := c_method c; v_scheme := if c_tls c then "https" else "http";
                    v_host := c_host c; v_rawpath := c_escpath c; v_query := c_rawquery c;
                    v_ips := [c_peer c]; v_hdrs := not_forwarded h |};
       s_up_fwd := spec_upstream_untrusted c;
       s_up_method := c_method c;
       s_up_uri := (c_escpath c ++ (if nonempty (c_rawquery c) then "?" ++ c_rawquery c else ""))%string |} /\
  forall k, In k untrusted_header -> has k (v_hdrs (s_view (serve parse_uri true es peer c h))) = false.
Proof. exact not_passed_on_fixed. Qed.
Print Assumptions C09_untrusted_not_passed_on.

(** for a listed peer every present, non-empty header overrides exactly its
    component (Proto -> scheme, Host -> host, Uri -> path and query, Method ->
    method, Forwarded / X-Forwarded-For -> client list) and everything else
    falls back to the actual request (both loaders) *)
Theorem C09_trusted_overrides_exactly : forall parse_uri fixed es peer c h,
  Forall wf_entry es -> wf_ip peer -> listed es peer ->
  s_view (serve parse_uri fixed es peer c h) =
  let uri := match hdr XFU h with Some v => if nonempty v then parse_uri v else None | None => None end in
  {| v_method := override (hdr XFM h) (c_method c);
     v_scheme := override (hdr XFP h) (if c_tls c then "https" else "http");
     v_host := override (hdr XFH h) (c_host c);
     v_rawpath := override (option_map fst uri) (c_escpath c);
     v_query := override (option_map snd uri) (c_rawquery c);
     v_ips := spec_forwarded_clients h ++ [c_peer c];
     v_hdrs := h |}.
Proof. exact trusted_overrides_gen. Qed.
Print Assumptions C09_trusted_overrides_exactly.

(** --- the pinned loader (before fix: e501d3a), documented --- *)

(** outside the inputs of C09-F1 the pinned middleware decided membership too *)
Theorem C09_trust_is_membership_pinned : forall es peer,
  Forall wf_entry es -> wf_ip peer -> guard_F1 es peer = false ->
  (trusted_peer false es peer = true <-> listed es peer).
Proof. exact trust_is_membership_pinned. Qed.
Print Assumptions C09_trust_is_membership_pinned.

(** ... and was non-interfering there *)
Theorem C09_untrusted_noninterference_pinned : forall parse_uri fixed es peer c h h',
  Forall wf_entry es -> wf_ip peer ->
  ~ listed es peer -> (fixed = false -> guard_F1 es peer = false) ->
  same_except_forwarded h h' ->
  serve parse_uri fixed es peer c h = serve parse_uri fixed es peer c h' /\
  forall (D : Type) (decide : view -> D),
    decide (s_view (serve parse_uri fixed es peer c h)) = decide (s_view (serve parse_uri fixed es peer c h')).
Proof. exact noninterference_gen. Qed.
Print Assumptions C09_untrusted_noninterference_pinned.

(** C09-F1 (repaired): with the pinned loader an entry that does not parse made every peer that
    does not parse trusted ... *)
Theorem C09_F1_pinned_refuted :
  exists es peer, Forall wf_entry es /\ wf_ip peer /\ guard_F1 es peer = true /\
                  trusted_peer false es peer = true /\ ~ listed es peer.
Proof. exact F1_refuted. Qed.
Print Assumptions C09_F1_pinned_refuted.

(** ... so that its forwarded headers changed the view; the repaired loader ignores them on the same input *)
Theorem C09_F1_pinned_noninterference_refuted :
  exists es peer c h h',
    Forall wf_entry es /\ wf_ip peer /\ ~ listed es peer /\ guard_F1 es peer = true /\
    same_except_forwarded h h' /\
    s_view (serve (fun _ => None) false es peer c h) <> s_view (serve (fun _ => None) false es peer c h') /\
    s_view (serve (fun _ => None) true es peer c h) = s_view (serve (fun _ => None) true es peer c h').
Proof. exact F1_pinned_noninterference_refuted. Qed.
Print Assumptions C09_F1_pinned_noninterference_refuted.

(** the hypotheses are satisfiable by non-trivial inputs *)
Example C09_nonvacuous_untrusted :
  let es := [ECidr [10;0;0;0]%N [255;0;0;0]%N; EIp []] in
  let peer := [0;0;0;0;0;0;0;0;0;0;255;255;8;8;4;4]%N in
  Forall wf_entry es /\ wf_ip peer /\ ~ listed es peer /\
  same_except_forwarded [(XFM, "POST"); ("X-Custom", "1"); (XFU, "/pst/a")]%string [("X-Custom", "1"); (FWD, "for=1.1.1.1")]%string.
Proof.
  split; [repeat constructor; simpl; auto|]. split; [right; right; reflexivity|].
  split; [intro L; apply listedb_listed in L; vm_compute in L; discriminate|].
  reflexivity.
Qed.

(** in particular by the inputs of the former finding *)
Example C09_nonvacuous_former_F1_input :
  let es := [EIp []; ECidr [10;0;0;0]%N [255;0;0;0]%N] in
  let peer : ip := [] in
  Forall wf_entry es /\ wf_ip peer /\ ~ listed es peer /\ guard_F1 es peer = true /\
  trusted_peer true es peer = false /\ trusted_peer false es peer = true.
Proof. exact nonvacuous_former_F1_input. Qed.

Example C09_nonvacuous_trusted :
  let es := [ECidr [10;0;0;0]%N [255;0;0;0]%N] in
  let peer := [0;0;0;0;0;0;0;0;0;0;255;255;10;1;2;3]%N in
  Forall wf_entry es /\ wf_ip peer /\ listed es peer.
Proof.
  split; [repeat constructor; simpl; auto|]. split; [right; right; reflexivity|].
  apply listedb_listed. vm_compute. reflexivity.
Qed.
