(** C01 — A request is allowed only after its whole effective pipeline succeeded.
    Property theorems only; proofs are in C01/Proofs.v (which builds on C12 for
    the error translators and on Base/ErrChain.v for errors.Is/As).

    [serve en c l q] is one request through entry point [en] (decision service,
    proxy, Envoy ext-auth) configured by [c], where the rule lookup gave [l]
    (a matching rule, the default rule, or nothing): rule executor -> rule
    (authenticators with fallback, authorizers/contextualizers, finalizers, each
    with an optional `if` condition and continue-on-error) -> error pipeline ->
    recorded pipeline error -> Finalize -> error translator -> recovery
    middleware.  A rule's step lists are arbitrary lists (no bound); the outcome
    of every step and condition is data: success, any error value (arbitrary
    tree), a panic.

    Specification vocabulary (C01/Proofs.v, first section): [pipeline_succeeded],
    [applied], [positive], [non_success].

    Hypotheses, all on configuration: [sane c r] =
      no status override is a 1xx/2xx code                 ([overrides_not_success], see C12),
      no error value / redirect handler carries such a code ([redirects_ok]),
      the rule has an authenticator                         (guaranteed by the rule factory, C14),
      every error handler is default/redirect/www_authenticate, or fails, or panics ([real_handlers]);
    and, to tell a positive decision-service answer from an error response, the
    accepted status is a 1xx/2xx code.  Each is shown to be needed below. *)
From HV Require Import Base.Prelude Base.ErrChain C12.Model C12.Proofs C01.Model C01.Proofs Run.Eval_C01 C01.EvalSound.
Local Open Scope Z_scope.

(** a positive answer (accepted status / forwarded to the upstream / Envoy OK)
    only if a rule or the default rule applied and its pipeline completed *)
Theorem C01_positive_only_if : forall en c l q,
  (forall r, applied l r -> sane c r) -> success_like (accepted_code c) = true ->
  overrides_not_success (c_respond c) ->
  positive en c (serve en c l q) ->
  exists r, applied l r /\ pipeline_succeeded r.
Proof. exact positive_only_if. Qed.
Print Assumptions C01_positive_only_if.

(** in every other case (no applicable rule, a mechanism error, a condition that
    cannot be evaluated, a failing or non-applicable error handler, a panic) the
    caller receives a non-success response and nothing reaches the upstream *)
Theorem C01_failed_never_reaches_upstream : forall en c l q,
  (forall r, applied l r -> sane c r) -> overrides_not_success (c_respond c) ->
  (forall r, applied l r -> ~ pipeline_succeeded r) ->
  non_success (serve en c l q).
Proof. exact failed_never_reaches_upstream. Qed.
Print Assumptions C01_failed_never_reaches_upstream.

(** there is no third kind of answer: every request is answered either by a
    non-success response without any upstream contact, or - a rule applied and its
    pipeline completed - by exactly the positive answer (accepted status and no
    upstream contact / the upstream's answer after exactly one forwarded request /
    Envoy OK) *)
Theorem C01_answer_dichotomy : forall en c l q,
  (forall r, applied l r -> sane c r) -> overrides_not_success (c_respond c) ->
  non_success (serve en c l q) \/
  (exists r, applied l r /\ pipeline_succeeded r /\
     serve en c l q = match en with
                      | Decision => AHttp (accepted_code c) 0
                      | Proxy => AHttp upstream_status 1
                      | Envoy => AEnvoyOk
                      end).
Proof. exact answer_dichotomy. Qed.
Print Assumptions C01_answer_dichotomy.

(** no error pipeline, whatever its handlers, conditions and their outcomes,
    turns a failed pipeline into a positive answer *)
Theorem C01_error_handler_cannot_rescue : forall en c r q ehs,
  sane c (with_eh r ehs) -> ~ pipeline_succeeded r ->
  non_success (serve en c (Matched (with_eh r ehs)) q) /\ non_success (serve en c (Default (with_eh r ehs)) q).
Proof. exact error_handler_cannot_rescue. Qed.
Print Assumptions C01_error_handler_cannot_rescue.

(** ... because every existing handler records a pipeline error, which Finalize
    checks first: a handler reporting success without recording one would rescue *)
Theorem C01_silent_handler_would_rescue :
  ~ pipeline_succeeded silent_rule /\ ~ real_handlers silent_rule /\
  serve Decision plain_config (Matched silent_rule) plain_request = AHttp 200 0 /\
  serve Envoy plain_config (Matched silent_rule) plain_request = AEnvoyOk.
Proof. exact silent_handler_would_rescue. Qed.
Print Assumptions C01_silent_handler_would_rescue.

(** a panic anywhere (mechanism, condition, error handler) is a non-success: the
    internal-error response of the HTTP services, a gRPC Internal status (no
    CheckResponse at all) under Envoy *)
Theorem C01_panic_is_non_success : forall en c r q v,
  sane c r -> run_rule en r q = RPanic v ->
  serve_rule en c r q = fail_answer en c (ScPanic v) /\
  non_success (serve_rule en c r q) /\
  (en = Envoy -> serve_rule en c r q = AEnvoyStatus GInternal) /\
  (en <> Envoy -> v = None -> valid_code (http_code (ov_internal (c_respond c)) 500) = true ->
     serve_rule en c r q = AHttp (http_code (ov_internal (c_respond c)) 500) 0).
Proof. exact panic_is_non_success. Qed.
Print Assumptions C01_panic_is_non_success.

(** converse: a completed pipeline (without panicking steps) is answered
    positively — the accepted status, the upstream's answer after exactly one
    forwarded request, Envoy OK *)
Theorem C01_success_is_positive : forall en c l r q,
  applied l r -> pipeline_succeeded r -> quiet r -> slash_rejected en r q = false ->
  (en = Decision -> valid_code (accepted_code c) = true) -> (en = Proxy -> backend r = true) ->
  serve en c l q = match en with
                   | Decision => AHttp (accepted_code c) 0
                   | Proxy => AHttp upstream_status 1
                   | Envoy => AEnvoyOk
                   end /\
  positive en c (serve en c l q).
Proof. exact success_is_positive. Qed.
Print Assumptions C01_success_is_positive.

(** the executable predicate used on the implementation's observations is the specification *)
Theorem C01_succeeded_b_spec : forall r, succeeded_b r = true <-> pipeline_succeeded r.
Proof. exact succeeded_b_spec. Qed.
Print Assumptions C01_succeeded_b_spec.

(** the correspondence evaluator's property predicate (Run/Eval_C01.v: under the
    executable hypotheses, a failed or absent pipeline must be observed as a
    non-success with zero upstream hits, a completed quiet one as exactly the
    positive answer) is a consequence of the theorems above: it holds on every
    case on which the implementation's observations agree with the model *)
Theorem C01_check_sound : forall k, v_corr (check k) = true -> v_prop (check k) = true.
Proof. exact check_sound. Qed.
Print Assumptions C01_check_sound.

(** the hypotheses are needed: a rule without authenticators runs with a nil subject ... *)
Theorem C01_no_authenticator_is_positive :
  ~ pipeline_succeeded empty_rule /\
  serve Decision plain_config (Matched empty_rule) plain_request = AHttp 200 0 /\
  serve Proxy plain_config (Matched empty_rule) plain_request = AHttp 200 1 /\
  serve Envoy plain_config (Matched empty_rule) plain_request = AEnvoyOk.
Proof. exact no_authenticator_is_positive. Qed.
Print Assumptions C01_no_authenticator_is_positive.

(** ... and a redirect error handler with `code: 200` answers a failed pipeline with a success status *)
Theorem C01_success_redirect_is_positive :
  ~ pipeline_succeeded redirect200_rule /\ ~ redirects_ok redirect200_rule /\
  positive Decision plain_config (serve Decision plain_config (Matched redirect200_rule) plain_request).
Proof. exact success_redirect_is_positive. Qed.
Print Assumptions C01_success_redirect_is_positive.

(** since fix: 6c5864d the loader accepts redirect handlers with a code in 300..399
    (or none = 302) only: the redirect-code hypothesis holds for every loaded
    redirect handler, and the witness above cannot be loaded any more *)
Theorem C01_loader_redirect_never_success : forall h,
  loader_created h -> good_cond (e_if h) ->
  match e_kind h with EhFails e => good_err e | EhPanics v => good_panic v | _ => True end ->
  good_eh h /\
  match e_kind h with
  | EhReal (MRedirect code _) => 300 <= redirect_status code <= 399 /\ success_like (redirect_status code) = false
  | _ => True
  end.
Proof. exact loader_redirect_never_success. Qed.
Print Assumptions C01_loader_redirect_never_success.

Theorem C01_success_redirect_rule_not_loadable : ~ Forall loader_created (eh redirect200_rule).
Proof. exact success_redirect_rule_not_loadable. Qed.
Print Assumptions C01_success_redirect_rule_not_loadable.

(** non-vacuity *)
Example C01_nonvacuous :
  sane plain_config (ex_rule Ok) /\ pipeline_succeeded (ex_rule Ok) /\ quiet (ex_rule Ok) /\
  serve Proxy plain_config (Matched (ex_rule Ok)) plain_request = AHttp 200 1 /\
  sane plain_config (ex_rule (Fail (Sentinel KInternal))) /\
  ~ pipeline_succeeded (ex_rule (Fail (Sentinel KInternal))) /\
  serve Proxy plain_config (Matched (ex_rule (Fail (Sentinel KInternal)))) plain_request = AHttp 302 0 /\
  serve Envoy plain_config (Default (ex_rule (Fail (Sentinel KInternal)))) plain_request
    = AEnvoyDenied GFailedPrecondition 302.
Proof. exact nonvacuous. Qed.
Print Assumptions C01_nonvacuous.
