(** C01 — A request is allowed only after its whole effective pipeline succeeded.
    Property theorems only; proofs are in C01/Proofs.v (which builds on C12 for
    the error translators and on Base/ErrChain.v for errors.Is/As).

    [serve en c l q] is one request through entry point [en] (decision service,
    proxy, Envoy ext-auth) configured by [c], where the rule lookup gave [l]
    (a matching rule, the default rule, or nothing): rule executor -> rule
    (authenticators with fallback, authorizers/contextualizers, finalizers, each
    with an optional `if` condition and continue-on-error) -> error pipeline ->
    recorded pipeline error -> Finalize -> error translator -> recovery
    middleware -> (proxy) the upstream, which answers or drops the connection.
    A rule's step lists are arbitrary lists (no bound); the outcome of every
    step, condition and error handler on the request is data: success, any error
    value (arbitrary tree), a panic; error handlers may be ARBITRARY ([EhAny f]).

    Specification vocabulary (C01/Proofs.v, first section, independent of the
    model's functions): [pipeline_completed], [applied], [positive], [non_success],
    [positive_shape], [records], [reaches_panic].

    Hypotheses ([sane c r]):
      on the configuration — no status override is a 1xx/2xx code (see C12); the
        rule has an authenticator (guaranteed by the rule factory, C14); for the
        decision service only, the accepted status is a 1xx/2xx code (to tell its
        positive answer from an error response);
      on the error VALUES produced by mechanisms, conditions and panics — none
        carries a RedirectError with a 1xx/2xx code ([redirects_ok]; heimdall's own
        redirect handler cannot have one, [C01_loader_redirect_never_success]);
      on error handlers — each records a pipeline error before it reports
        "handled" ([handlers_record]; shown for heimdall's three mechanisms).
    Each is shown to be needed by a witness below. *)
From HV Require Import Base.Prelude Base.ErrChain C12.Model C12.Proofs C01.Model C01.Proofs Run.Eval_C01 C01.EvalSound.
Local Open Scope Z_scope.

(** * Property theorems *)

(** a positive answer (accepted status / forwarded to the upstream / Envoy OK)
    only if a rule or the default rule applied and its pipeline completed *)
Theorem C01_positive_only_if : forall en c l q,
  (forall r, applied l r -> sane c r) -> (en = Decision -> success_like (accepted_code c) = true) ->
  overrides_not_success (c_respond c) ->
  positive en c (serve en c l q) ->
  exists r, applied l r /\ pipeline_completed r.
Proof. exact positive_only_if. Qed.
Print Assumptions C01_positive_only_if.

(** in every other case (no applicable rule, a mechanism error, a condition that
    cannot be evaluated, a failing or non-applicable error handler, a panic) the
    caller receives a non-success response and nothing reaches the upstream *)
Theorem C01_failed_never_reaches_upstream : forall en c l q,
  (forall r, applied l r -> sane c r) -> overrides_not_success (c_respond c) ->
  (forall r, applied l r -> ~ pipeline_completed r) ->
  non_success (serve en c l q).
Proof. exact failed_never_reaches_upstream. Qed.
Print Assumptions C01_failed_never_reaches_upstream.

(** there is no third kind of answer: every request is answered either by a
    non-success response without any upstream contact, or - a rule applied and its
    pipeline completed - by exactly the positive answer (accepted status and no
    upstream contact / exactly one forwarded request / Envoy OK) *)
Theorem C01_answer_dichotomy : forall en c l q,
  (forall r, applied l r -> sane c r) -> overrides_not_success (c_respond c) ->
  non_success (serve en c l q) \/
  (exists r, applied l r /\ pipeline_completed r /\ positive_shape en c (serve en c l q)).
Proof. exact answer_dichotomy. Qed.
Print Assumptions C01_answer_dichotomy.

(** the error pipeline, made of ANY handlers behind any conditions of which only
    [records] is assumed, never reports "handled" with no pipeline error recorded *)
Theorem C01_error_pipeline_never_forgets : forall ehs cause ret p,
  Forall handler_records ehs -> run_eh ehs cause = EhRet ret p -> ret = None -> p <> None.
Proof. exact error_pipeline_never_forgets. Qed.
Print Assumptions C01_error_pipeline_never_forgets.

(** ... hence no error pipeline turns a failed pipeline into a positive answer *)
Theorem C01_error_handler_cannot_rescue : forall en c r q ehs,
  overrides_not_success (c_respond c) -> redirects_ok r -> sc r <> [] ->
  Forall good_eh ehs -> Forall handler_records ehs ->
  ~ pipeline_completed r ->
  non_success (serve en c (Matched (with_eh r ehs)) q) /\ non_success (serve en c (Default (with_eh r ehs)) q).
Proof. exact error_handler_cannot_rescue. Qed.
Print Assumptions C01_error_handler_cannot_rescue.

(** ... and heimdall's three mechanisms (default, redirect, www_authenticate; C12's
    model of them, tied to the code by the three correspondence streams of this
    check and by C12's) do record *)
Theorem C01_real_mechanisms_record : forall m, records (h_sem (EhReal m)).
Proof. exact real_mechanisms_record. Qed.
Print Assumptions C01_real_mechanisms_record.

(** a panic that is reached — by an authenticator after legitimate fallbacks, by a
    step or its condition after steps that went on, by an error handler or its
    condition after non-applicable handlers; [reaches_panic] is stated on the rule
    alone — is a non-success: the internal-error response of the HTTP services,
    a gRPC Internal status (no CheckResponse at all) under Envoy.  This includes
    panicking continue-on-error steps, which [pipeline_completed] exempts. *)
Theorem C01_reached_panic_is_non_success : forall en c l r q v,
  applied l r -> sane c r -> reaches_panic r v ->
  non_success (serve en c l q) /\
  (en = Envoy -> slash_rejected en r q = false -> serve en c l q = AEnvoyStatus GInternal) /\
  (en <> Envoy -> slash_rejected en r q = false -> v = None ->
     valid_code (http_code (ov_internal (c_respond c)) 500) = true ->
     serve en c l q = AHttp (http_code (ov_internal (c_respond c)) 500) 0).
Proof. exact reached_panic_is_non_success. Qed.
Print Assumptions C01_reached_panic_is_non_success.

(** converse (liveness, not part of the statement; with C04's reading of fallback):
    a succeeded pipeline without panicking steps is answered positively *)
Theorem C01_success_is_positive : forall en c l r q,
  applied l r -> pipeline_succeeded r -> quiet r -> slash_rejected en r q = false ->
  (en = Decision -> valid_code (accepted_code c) = true) -> (en = Proxy -> backend r = true) ->
  positive_shape en c (serve en c l q) /\ positive en c (serve en c l q) /\
  (en = Proxy -> forall s, q_upstream q = UpOk s -> serve en c l q = AHttp s 1).
Proof. exact success_is_positive. Qed.
Print Assumptions C01_success_is_positive.

(** since fix: 6c5864d the loader accepts redirect handlers with a code in 300..399
    (or none = 302) only: the redirect-code hypothesis holds for every loaded
    redirect handler *)
Theorem C01_loader_redirect_never_success : forall h,
  loader_created h -> good_cond (e_if h) ->
  match e_kind h with
  | EhFails e => good_err e | EhPanics v => good_panic v
  | EhAny f => forall cause, good_err cause -> good_eh_res (f cause)
  | _ => True
  end ->
  good_eh h /\
  match e_kind h with
  | EhReal (MRedirect code _) => 300 <= redirect_status code <= 399 /\ success_like (redirect_status code) = false
  | _ => True
  end.
Proof. exact loader_redirect_never_success. Qed.
Print Assumptions C01_loader_redirect_never_success.

(** * Witnesses (computations on concrete rules: the hypotheses are needed, the
      theorems are not vacuous, how the statement is read) *)

(** a handler reporting success without recording a pipeline error would rescue *)
Theorem C01_silent_handler_would_rescue :
  ~ pipeline_completed silent_rule /\ ~ handlers_record silent_rule /\
  serve Decision plain_config (Matched silent_rule) plain_request = AHttp 200 0 /\
  serve Envoy plain_config (Matched silent_rule) plain_request = AEnvoyOk.
Proof. exact silent_handler_would_rescue. Qed.
Print Assumptions C01_silent_handler_would_rescue.

(** a rule without authenticators runs with a nil subject *)
Theorem C01_no_authenticator_is_positive :
  ~ pipeline_completed empty_rule /\
  serve Decision plain_config (Matched empty_rule) plain_request = AHttp 200 0 /\
  serve Proxy plain_config (Matched empty_rule) plain_request = AHttp 200 1 /\
  serve Envoy plain_config (Matched empty_rule) plain_request = AEnvoyOk.
Proof. exact no_authenticator_is_positive. Qed.
Print Assumptions C01_no_authenticator_is_positive.

(** the redirect-code hypothesis, part 1 (historical): a redirect HANDLER with code
    200 answers a failed pipeline with a success status.  The loader rejects such a
    handler since fix 6c5864d ([C01_success_redirect_rule_not_loadable] below,
    [C01_loader_redirect_never_success] above); kept to show why the loader check matters *)
Theorem C01_success_redirect_is_positive :
  ~ pipeline_completed redirect200_rule /\ ~ redirects_ok redirect200_rule /\
  positive Decision plain_config (serve Decision plain_config (Matched redirect200_rule) plain_request).
Proof. exact success_redirect_is_positive. Qed.
Print Assumptions C01_success_redirect_is_positive.

(** the redirect-code hypothesis, part 2 (live): an error VALUE carrying a
    RedirectError with code 200, returned by a mechanism and passed through by an
    empty error pipeline, is answered with status 200 by both translators — the
    accepted status of the decision service.  Nothing proves that heimdall's
    mechanisms never return such a value; [redirects_ok] assumes it. *)
Theorem C01_success_redirect_value_is_positive :
  ~ pipeline_completed redirect200_value_rule /\ ~ redirects_ok redirect200_value_rule /\
  eh redirect200_value_rule = [] /\ handlers_record redirect200_value_rule /\
  serve Decision plain_config (Matched redirect200_value_rule) plain_request = AHttp 200 0 /\
  positive Decision plain_config (serve Decision plain_config (Matched redirect200_value_rule) plain_request) /\
  serve Envoy plain_config (Matched redirect200_value_rule) plain_request = AEnvoyDenied GFailedPrecondition 200.
Proof. exact success_redirect_value_is_positive. Qed.
Print Assumptions C01_success_redirect_value_is_positive.

(** a panicking continue-on-error step: completed by the letter, a reached panic, answered 500 *)
Example C01_continue_step_panic_is_reached :
  pipeline_completed panicking_continue_rule /\ reaches_panic panicking_continue_rule None /\
  serve Proxy plain_config (Matched panicking_continue_rule) plain_request = AHttp 500 0.
Proof. exact continue_step_panic_is_reached. Qed.
Print Assumptions C01_continue_step_panic_is_reached.

(** reading of the statement: continue-on-error steps are exempt as a whole — the
    evaluation error of such a step's condition is swallowed like the step's own error *)
Example C01_continue_step_condition_error_is_swallowed :
  pipeline_completed swallowed_condition_rule /\
  serve Decision plain_config (Matched swallowed_condition_rule) plain_request = AHttp 200 0 /\
  serve Proxy plain_config (Matched swallowed_condition_rule) plain_request = AHttp 200 1.
Proof. exact continue_step_condition_error_is_swallowed. Qed.
Print Assumptions C01_continue_step_condition_error_is_swallowed.

(** non-vacuity *)
Example C01_nonvacuous :
  sane plain_config (ex_rule Ok) /\ pipeline_succeeded (ex_rule Ok) /\ quiet (ex_rule Ok) /\
  serve Proxy plain_config (Matched (ex_rule Ok)) plain_request = AHttp 200 1 /\
  sane plain_config (ex_rule (Fail (Sentinel KInternal))) /\
  ~ pipeline_completed (ex_rule (Fail (Sentinel KInternal))) /\
  serve Proxy plain_config (Matched (ex_rule (Fail (Sentinel KInternal)))) plain_request = AHttp 302 0 /\
  serve Envoy plain_config (Default (ex_rule (Fail (Sentinel KInternal)))) plain_request
    = AEnvoyDenied GFailedPrecondition 302.
Proof. exact nonvacuous. Qed.
Print Assumptions C01_nonvacuous.

(** * Supporting lemmas about the evaluator (not counted as property theorems) *)

(** the executable predicates used on the observations are the specification *)
Lemma C01_completed_b_spec : forall r, completed_b r = true <-> pipeline_completed r.
Proof. exact completed_b_spec. Qed.
Print Assumptions C01_completed_b_spec.

(** the witness rule of [C01_success_redirect_is_positive] cannot be loaded since fix 6c5864d *)
Lemma C01_success_redirect_rule_not_loadable : ~ Forall loader_created (eh redirect200_rule).
Proof. exact success_redirect_rule_not_loadable. Qed.
Print Assumptions C01_success_redirect_rule_not_loadable.

(** the evaluator's property predicate demands nothing the theorems do not give: it
    holds whenever the observations equal the model's answers and the hypotheses hold *)
Lemma C01_prop_of_exact : forall en k o,
  ans_match (serve en (k_cfg k) (k_l k) (k_q k)) o = true -> hyps_b en k = true -> prop_entry en k o = true.
Proof. exact prop_entry_of_exact. Qed.
Print Assumptions C01_prop_of_exact.
