(** C13 — All three entry points decide alike and show the pipeline the same request.
    Property theorems only; model in C13/Model.v, guards, well-formedness and proofs in C13/Proofs.v.

    Vocabulary.  [L : lreq] is a logical request (method, scheme, host, path as on the request line,
    query, header lines in any casing, body, peer).  [mk_envoy L] is the ext_authz CheckRequest for it;
    the HTTP services get it through net/http's parser.  [find] is rule lookup (C02/C03): ANY function
    from the lookup view (path, method, scheme, host) to a matched rule and the raw captured values.
    A rule carries its encoded-slash mode and a pipeline [r_prog : prog] — ANY terminating program
    that reads the request view through queries ([Ask q k]: method, scheme, host, URL.Path, RawPath,
    RawQuery, String(), one capture / all captures, Header(n), Headers(), Cookie(n), Body(), client
    addresses), calls AddHeaderForUpstream / AddCookieForUpstream ([Emit]) and ends with [Allow] or
    [Fail kind].  [decode] (the body decoders) is arbitrary.
      [serve_decision fx], [serve_proxy fx], [serve_envoy fx]  = error kind | matched rule + hand-over of
    the three entry points.  [fx : fixes] says which recorded findings are repaired in the modelled tree
    (one flag per finding with a repair: F1 = fix: b2286d8, F2 = 7c3e9fc, F3 = a5ef279, F4 = ae6db4f,
    F6 = 06faa19, F7 = 19923cd, F9 = 58408fc, F11 = 9fe653a).  [pinned] = none, [repo_now] = [all_fixed]
    = all of them (/repo today).  Every theorem holds for every [fx]; the guard of a repaired
    finding is switched off, so for [repo_now] only C13-F5 (a Cookie(n) read whose OWN parts of the Cookie
    line are not plain; sanitised cookie values on hand-over), C13-F8 (Headers() read as a whole map: the
    key Host — every other key agrees, [C13_headers_agree_except_host]) and C13-F3b (blanks around the values of a header that is added twice) guard
    anything.  [l_pack L] says which CheckRequest field carries the body under Envoy; all statements
    hold for each conveyance.  The pinned behaviour of each repaired finding is
    kept as a [..._pinned_refuted] witness.

    [wf_lreqb L]: header names are tokens, no Host / X-Forwarded-* / Forwarded line (C09), values
    without surrounding blanks, at most one Cookie line, a path that starts with "/" and is validly
    encoded.  [guards_fire fx L]: one of the findings that is open in [fx] applies to a read
    the pipeline makes on L, to the encoded-slash check or to what it hands over (see C13/Proofs.v). *)
From HV Require Import Base.Prelude Base.GoUrl C13.Http C13.Model C13.Proofs.

(** ------------------------------------------------------------------ the tree as it is (/repo since f446e16) *)

(** the property: same decision, same matched rule, same hand-over at all three entry points.
    [guards_fire ... repo_now] only looks at cookies (F5), Headers() (F8) and blank-padded values of a
    header added twice (F3b) — see [C13_repo_guards], [C13_repo_guards_fire]. *)
Theorem C13_three_entry_points_agree_repo : forall decode find L,
  wf_lreqb L = true -> guards_fire decode find repo_now L = false ->
  serve_decision decode find repo_now L = serve_proxy decode find repo_now L /\
  serve_decision decode find repo_now L = serve_envoy decode find repo_now L.
Proof. intros decode find L. exact (three_entry_points_agree decode find repo_now L). Qed.
Print Assumptions C13_three_entry_points_agree_repo.

(** (Read-outs of the guard definitions for [repo_now]; by unfolding.  Listed for the reader, not
    counted as property theorems.) *)
Lemma C13_repo_guards : forall decode s caps L q,
  guard_query decode repo_now s caps L q = g_F5_query L q || g_F8_query q.
Proof. exact repo_guards. Qed.

Lemma C13_repo_guards_fire : forall decode find L,
  guards_fire decode find repo_now L =
  match find (lookup_of (build_http L)) with
  | None => false
  | Some (rl, caps) =>
    let ans := answer (acc_http decode L) (http_mech L (r_slashes rl) caps) in
    existsb (fun q => g_F5_query L q || g_F8_query q) (trace ans (rule_prog rl)) ||
    g_F3_adds true (snd (run_prog ans (rule_prog rl))) || g_F5_adds (snd (run_prog ans (rule_prog rl)))
  end.
Proof. exact repo_guards_fire. Qed.

(** the encoded-slash check rejects at all entry points alike *)
Theorem C13_slash_check_agrees_repo : forall find L rl caps,
  wf_lreqb L = true ->
  find (lookup_of (build_http L)) = Some (rl, caps) ->
  g_F4_decision (r_slashes rl) L = true ->
  mech_view find true (build_http L) = inl EArgument /\
  mech_view find (fx_F1 repo_now) (build_envoy (fx_F4 repo_now) (norm_envoy (fx_F11 repo_now) (mk_envoy L))) = inl EArgument.
Proof. intros find L rl caps W. exact (slash_check_agrees find true true L rl caps W eq_refl). Qed.
Print Assumptions C13_slash_check_agrees_repo.

(** ------------------------------------------------------------------ every tree (any subset of the repairs) *)

(** rule lookup reads the same path, method, scheme and host at all entry points: the same rule
    matches and the same values are captured, for every lookup function *)
Theorem C13_same_lookup : forall fixed_F4 fixed_F11 L,
  wf_lreqb L = true -> fixed_F11 || negb (g_F11 L) = true ->
  lookup_of (build_http L) = lookup_of (build_envoy fixed_F4 (norm_envoy fixed_F11 (mk_envoy L))).
Proof. exact same_lookup. Qed.
Print Assumptions C13_same_lookup.

(** same view: whatever a mechanism of the matched rule asks of the request view (two-phase use:
    lookup wrote the captures, the slash switch and the capture decoding of ruleImpl.Execute happened
    on the object the context handed out), outside the guards the HTTP contexts and the Envoy context
    answer alike — captures, headers, cookies, decoded body, URL parts *)
Theorem C13_same_view : forall decode find fx L rl caps q,
  wf_lreqb L = true -> fx_F11 fx || negb (g_F11 L) = true ->
  find (lookup_of (build_http L)) = Some (rl, caps) ->
  g_F4_decision (r_slashes rl) L = false ->
  guard_query decode fx (r_slashes rl) caps L q = false ->
  exists vh ve, mech_view find true (build_http L) = inr (rl, vh) /\
                mech_view find (fx_F1 fx) (build_envoy (fx_F4 fx) (norm_envoy (fx_F11 fx) (mk_envoy L))) = inr (rl, ve) /\
                answer (acc_http decode L) vh q = answer (acc_envoy decode fx (mk_envoy L)) ve q.
Proof. exact same_view. Qed.
Print Assumptions C13_same_view.

(** same decision: for every rule set and every pipeline program the executor ends with the same
    error kind / matched rule and the same AddHeaderForUpstream / AddCookieForUpstream calls *)
Theorem C13_same_decision : forall decode find fx L,
  wf_lreqb L = true -> guards_fire decode find fx L = false ->
  exec_http decode find L = exec_envoy decode find fx L.
Proof. exact same_execution. Qed.
Print Assumptions C13_same_decision.

(** same hand-over: for every list of pipeline headers and cookies the three Finalize hand the same
    header values and cookie values over, unless a header name was added twice (pinned Finalize: always
    a difference, F3; repaired: only with blanks around a value, F3b) or net/http rewrites a cookie (F5) *)
Theorem C13_same_upstream_headers : forall fixed_F3 adds,
  g_F3_adds fixed_F3 adds = false -> g_F5_adds adds = false ->
  finalize_decision fixed_F3 adds = finalize_proxy fixed_F3 adds /\
  finalize_decision fixed_F3 adds = finalize_envoy adds.
Proof. exact same_upstream. Qed.
Print Assumptions C13_same_upstream_headers.

Theorem C13_three_entry_points_agree : forall decode find fx L,
  wf_lreqb L = true -> guards_fire decode find fx L = false ->
  serve_decision decode find fx L = serve_proxy decode find fx L /\
  serve_decision decode find fx L = serve_envoy decode find fx L.
Proof. exact three_entry_points_agree. Qed.
Print Assumptions C13_three_entry_points_agree.

(** (The decision and the proxy service are ONE Go type, requestcontext.RequestContext, and one model
    function: that they execute alike is definitional here and tied to the code by the correspondence
    run only.  Not counted as a property theorem.) *)
Lemma C13_decision_proxy_same_execution : forall decode find fx L,
  s_err (serve_decision decode find fx L) = s_err (serve_proxy decode find fx L) /\
  s_rule (serve_decision decode find fx L) = s_rule (serve_proxy decode find fx L) /\
  forall adds, ho_headers (finalize_decision (fx_F3 fx) adds) = ho_headers (finalize_proxy (fx_F3 fx) adds).
Proof. exact decision_proxy_same_execution. Qed.

(** Headers(): every key other than Host has the same value in both maps, for all header multisets;
    the key Host is the whole of C13-F8 *)
Theorem C13_headers_agree_except_host : forall L k,
  wf_lreqb L = true -> String.eqb k "Host" = false ->
  assoc_opt k (headers_http (http_hdrs L) (l_host L)) = assoc_opt k (canonicalize_headers (envoy_wire_hdrs L)).
Proof. exact headers_agree_except_host. Qed.
Print Assumptions C13_headers_agree_except_host.

Theorem C13_headers_host_key : forall L,
  wf_lreqb L = true ->
  assoc_opt "Host" (headers_http (http_hdrs L) (l_host L)) = Some (l_host L) /\
  assoc_opt "Host" (canonicalize_headers (envoy_wire_hdrs L)) = None.
Proof. exact headers_host_key. Qed.
Print Assumptions C13_headers_host_key.

(** the two header accessors: requestcontext's Header() with a canonical name other than Host reads
    what Envoy's canonicalised header map holds under that name — for all header multisets *)
Theorem C13_header_lookup_agrees : forall L k,
  forallb wf_hdr (l_hdrs L) = true ->
  (length (values "Cookie" (http_hdrs_wire L)) <= 1)%nat ->
  canon k = k -> String.eqb k "Host" = false ->
  header_http (http_hdrs L) (l_host L) k = assoc k (canonicalize_headers (envoy_wire_hdrs L)).
Proof. exact header_map_agree. Qed.
Print Assumptions C13_header_lookup_agrees.

(** ... and Header(n) for ANY name n in the repaired tree (no guard), in any tree under the guards of
    F2 and F6 as far as they are open *)
Theorem C13_header_accessors_agree_repo : forall L n,
  wf_lreqb L = true ->
  header_http (http_hdrs L) (l_host L) n =
  header_envoy repo_now (canonicalize_headers (envoy_wire_hdrs L)) (l_host L) n.
Proof. intros L n W. apply (header_agree repo_now L n W); reflexivity. Qed.
Print Assumptions C13_header_accessors_agree_repo.

Theorem C13_header_accessors_agree : forall fx L n,
  wf_lreqb L = true ->
  negb (fx_F2 fx) && g_F2_query (fx_F6 fx) L (QHeader n) = false ->
  negb (fx_F6 fx) && g_F6_query (QHeader n) = false ->
  header_http (http_hdrs L) (l_host L) n =
  header_envoy fx (canonicalize_headers (envoy_wire_hdrs L)) (l_host L) n.
Proof. exact header_agree. Qed.
Print Assumptions C13_header_accessors_agree.

(** the two cookie readers (net/http's and grpcv3's) find the same value under the name [n] whenever
    the parts of the Cookie line that CONCERN [n] (one of the readers takes their name to be [n]) are
    plain — whatever the other parts look like; in particular on a wholly plain line for every name *)
Theorem C13_cookie_readers_agree : forall n line,
  plain_for n line = true ->
  http_cookie [line] n =
  match first_some (envoy_cookie_part n) (split_on ";" line) with Some v => v | None => ""%string end.
Proof. exact cookie_line_agree. Qed.
Print Assumptions C13_cookie_readers_agree.

Theorem C13_plain_line_plain_for : forall n line, plain_line line = true -> plain_for n line = true.
Proof. exact plain_line_plain_for. Qed.
Print Assumptions C13_plain_line_plain_for.

(** ------------------------------------------------------------------ the repaired findings, documented.
    [tree_Fi] = the repaired tree without the repair of C13-Fi.  Each witness: a well-formed request on
    which the guard fires and the entry points differ in [tree_Fi], and agree in [repo_now]. *)
Theorem C13_F1_pinned_refuted :
  wf_lreqb w1_req = true /\
  guards_fire w_decode w1_find tree_F1 w1_req = true /\
  guards_fire w_decode w1_find repo_now w1_req = false /\
  serve_decision w_decode w1_find tree_F1 w1_req <> serve_envoy w_decode w1_find tree_F1 w1_req /\
  serve_decision w_decode w1_find repo_now w1_req = serve_envoy w_decode w1_find repo_now w1_req /\
  serve_decision w_decode w1_find pinned w1_req <> serve_envoy w_decode w1_find pinned w1_req.
Proof. exact F1_refuted. Qed.
Print Assumptions C13_F1_pinned_refuted.

Theorem C13_F1_pinned_refuted_decision :
  s_err (serve_decision w_decode w1b_find tree_F1 (w_req "GET" "/c1/admin" [] "")) = None /\
  s_err (serve_envoy w_decode w1b_find tree_F1 (w_req "GET" "/c1/admin" [] "")) = Some EInternal /\
  s_err (serve_envoy w_decode w1b_find repo_now (w_req "GET" "/c1/admin" [] "")) = None.
Proof. exact F1_refuted_decision. Qed.
Print Assumptions C13_F1_pinned_refuted_decision.

Theorem C13_F2_pinned_refuted :
  wf_lreqb w2_req = true /\ guards_fire w_decode w2_find tree_F2 w2_req = true /\
  existsb (g_F2_query true w2_req) [QHeader "x-role"] = true /\
  s_err (serve_decision w_decode w2_find tree_F2 w2_req) = None /\
  s_err (serve_envoy w_decode w2_find tree_F2 w2_req) = Some EAuthz /\
  guards_fire w_decode w2_find repo_now w2_req = false /\
  s_err (serve_envoy w_decode w2_find repo_now w2_req) = None.
Proof. exact F2_refuted. Qed.
Print Assumptions C13_F2_pinned_refuted.

Theorem C13_F3_pinned_refuted :
  let adds := [AddHeader "X-Out" "one"; AddHeader "x-out" "two"] in
  g_F3_adds false adds = true /\ g_F3_adds true adds = false /\ g_F5_adds adds = false /\
  finalize_decision false adds = finalize_proxy false adds /\
  ho_headers (finalize_decision false adds) = [("X-Out", "one")]%string /\
  ho_headers (finalize_envoy adds) = [("X-Out", "one,two")]%string /\
  finalize_decision true adds = finalize_envoy adds /\ finalize_proxy true adds = finalize_envoy adds.
Proof. exact F3_refuted. Qed.
Print Assumptions C13_F3_pinned_refuted.

Theorem C13_F4_pinned_refuted :
  wf_lreqb w4_req = true /\ g_F4_decision SOff w4_req = true /\ guards_fire w_decode w4_find tree_F4 w4_req = true /\
  s_err (serve_decision w_decode w4_find tree_F4 w4_req) = Some EArgument /\
  s_err (serve_envoy w_decode w4_find tree_F4 w4_req) = None /\
  guards_fire w_decode w4_find repo_now w4_req = false /\
  s_err (serve_envoy w_decode w4_find repo_now w4_req) = Some EArgument.
Proof. exact F4_refuted. Qed.
Print Assumptions C13_F4_pinned_refuted.

Theorem C13_F4_pinned_refuted_view :
  wf_lreqb w4b_req = true /\ g_F4_query SOff w4b_req QPath = true /\
  s_handover (serve_decision w_decode w4b_find tree_F4 w4b_req) = Some {| ho_headers := [("X-Path", "/c4/a b")]%string; ho_cookies := [] |} /\
  s_handover (serve_envoy w_decode w4b_find tree_F4 w4b_req) = Some {| ho_headers := [("X-Path", "/c4/a%20b")]%string; ho_cookies := [] |} /\
  guards_fire w_decode w4b_find repo_now w4b_req = false /\
  s_handover (serve_envoy w_decode w4b_find repo_now w4b_req) = Some {| ho_headers := [("X-Path", "/c4/a b")]%string; ho_cookies := [] |}.
Proof. exact F4_refuted_view. Qed.
Print Assumptions C13_F4_pinned_refuted_view.

Theorem C13_F6_pinned_refuted :
  wf_lreqb w6_req = true /\ g_F6_query (QHeader "Host") = true /\ guards_fire w_decode w6_find tree_F6 w6_req = true /\
  s_err (serve_decision w_decode w6_find tree_F6 w6_req) = None /\
  s_err (serve_envoy w_decode w6_find tree_F6 w6_req) = Some EAuthz /\
  guards_fire w_decode w6_find repo_now w6_req = false /\
  s_err (serve_envoy w_decode w6_find repo_now w6_req) = None.
Proof. exact F6_refuted. Qed.
Print Assumptions C13_F6_pinned_refuted.

Theorem C13_F7_pinned_refuted :
  wf_lreqb w7_req = true /\ g_F7_query w_decode w7_req QBody = true /\ guards_fire w_decode w7_find tree_F7 w7_req = true /\
  serve_decision w_decode w7_find tree_F7 w7_req <> serve_envoy w_decode w7_find tree_F7 w7_req /\
  guards_fire w_decode w7_find repo_now w7_req = false /\
  serve_decision w_decode w7_find repo_now w7_req = serve_envoy w_decode w7_find repo_now w7_req.
Proof. exact F7_refuted. Qed.
Print Assumptions C13_F7_pinned_refuted.

Theorem C13_F9_pinned_refuted :
  wf_lreqb w9_req = true /\ g_F9_query w9_req QBody = true /\ guards_fire w_decode w7_find tree_F9 w9_req = true /\
  s_handover (serve_decision w_decode w7_find tree_F9 w9_req) = Some {| ho_headers := [("X-Body", "{""user"":1}")]%string; ho_cookies := [] |} /\
  s_handover (serve_envoy w_decode w7_find tree_F9 w9_req) = Some {| ho_headers := [("X-Body", json_empty_string)]; ho_cookies := [] |} /\
  guards_fire w_decode w7_find repo_now w9_req = false /\
  serve_decision w_decode w7_find repo_now w9_req = serve_envoy w_decode w7_find repo_now w9_req.
Proof. exact F9_refuted. Qed.
Print Assumptions C13_F9_pinned_refuted.

Theorem C13_F11_pinned_refuted :
  wf_lreqb w11_req = true /\ g_F11 w11_req = true /\ guards_fire w_decode w11_find tree_F11 w11_req = true /\
  s_handover (serve_decision w_decode w11_find tree_F11 w11_req) = Some {| ho_headers := [("X-User", "abc"); ("X-Q", "x=1")]%string; ho_cookies := [] |} /\
  s_handover (serve_envoy w_decode w11_find tree_F11 w11_req) = Some {| ho_headers := [("X-User", "abc?x=1"); ("X-Q", "")]%string; ho_cookies := [] |} /\
  s_err (serve_decision w_decode w11_find_literal tree_F11 w11_req) = None /\
  s_err (serve_envoy w_decode w11_find_literal tree_F11 w11_req) = Some ENoRule /\
  guards_fire w_decode w11_find repo_now w11_req = false /\
  serve_decision w_decode w11_find repo_now w11_req = serve_envoy w_decode w11_find repo_now w11_req.
Proof. exact F11_refuted. Qed.
Print Assumptions C13_F11_pinned_refuted.

(** ------------------------------------------------------------------ the open findings: each guard is needed *)
Theorem C13_F3b_refuted :
  let adds := [AddHeader "X-Out" " a "; AddHeader "X-Out" "b"] in
  g_F3_adds true adds = true /\
  ho_headers (finalize_decision true adds) = [("X-Out", "a,b")]%string /\
  ho_headers (finalize_envoy adds) = [("X-Out", "a ,b")]%string.
Proof. exact F3_refuted_blanks. Qed.
Print Assumptions C13_F3b_refuted.

Theorem C13_F5_refuted :
  wf_lreqb w5_req = true /\ g_F5_query w5_req (QCookie "sid") = true /\
  guards_fire w_decode w5_find repo_now w5_req = true /\
  s_err (serve_decision w_decode w5_find repo_now w5_req) = None /\
  s_err (serve_envoy w_decode w5_find repo_now w5_req) = Some EAuthz.
Proof. exact F5_refuted. Qed.
Print Assumptions C13_F5_refuted.

Theorem C13_F5_refuted_handover : forall fixed3,
  let adds := [AddCookie "pc1" "v 1"] in
  g_F5_adds adds = true /\ g_F3_adds fixed3 adds = false /\
  finalize_decision fixed3 adds = finalize_proxy fixed3 adds /\
  finalize_decision fixed3 adds <> finalize_envoy adds.
Proof. exact F5_refuted_handover. Qed.
Print Assumptions C13_F5_refuted_handover.

Theorem C13_F8_refuted :
  wf_lreqb w6_req = true /\ g_F8_query QHeaders = true /\ guards_fire w_decode w8_find repo_now w6_req = true /\
  s_handover (serve_decision w_decode w8_find repo_now w6_req) = Some {| ho_headers := [("X-Host", "a.example.com")]%string; ho_cookies := [] |} /\
  s_handover (serve_envoy w_decode w8_find repo_now w6_req) = Some {| ho_headers := [("X-Host", "")]%string; ho_cookies := [] |}.
Proof. exact F8_refuted. Qed.
Print Assumptions C13_F8_refuted.

(** ------------------------------------------------------------------ non-vacuity *)
(** the hypotheses of the main theorem for the repaired tree are satisfied by a request with an escaped
    path with an encoded slash, headers in odd casing read through a lower-case name, the Host header, a
    cookie and a JSON body through a rule with allow_encoded_slashes: on whose pipeline reads a capture,
    headers, a cookie and URL parts and sets a header twice; in the pinned tree a guard fires on it *)
Theorem C13_nonvacuous :
  wf_lreqb nv_req = true /\ guards_fire w_decode nv_find repo_now nv_req = false /\
  guards_fire w_decode nv_find pinned nv_req = true /\
  serve_envoy w_decode nv_find repo_now nv_req =
    {| s_err := None; s_rule := "files";
       s_handover := Some {| ho_headers := [("X-User", "2024/report.pdf,a.example.com:8443"); ("X-Path", "/files/2024/report.pdf");
                                            ("X-Url", "https://a.example.com:8443/files/2024/report.pdf?v=2")]%string;
                             ho_cookies := [("session", "dark")]%string |} |}.
Proof. exact nonvacuous. Qed.
Print Assumptions C13_nonvacuous.

Theorem C13_nonvacuous_pinned :
  guards_fire w_decode nv2_find pinned nv2_req = false /\
  s_handover (serve_envoy w_decode nv2_find pinned nv2_req) =
    Some {| ho_headers := [("X-Q", "v=2")]%string; ho_cookies := [("c", "application/json")]%string |}.
Proof. exact nonvacuous_pinned. Qed.
Print Assumptions C13_nonvacuous_pinned.

(** ... and by a denial that the rule's error pipeline answers with a redirect whose target echoes a read *)
Theorem C13_nonvacuous_redirect :
  guards_fire w_decode nv3_find repo_now nv2_req = false /\
  s_err (serve_envoy w_decode nv3_find repo_now nv2_req) =
    Some (ERedirect "http://login.example.com/?o=https://a.example.com:8443/files/report.pdf?v=2") /\
  serve_decision w_decode nv3_find repo_now nv2_req = serve_envoy w_decode nv3_find repo_now nv2_req.
Proof. exact nonvacuous_redirect. Qed.
Print Assumptions C13_nonvacuous_redirect.

(** ------------------------------------------------------------------ the decision service as deployed *)
(** Described by X-Forwarded-Method / -Proto / -Host / -Uri from a trusted proxy (how an API gateway uses
    the decision service) a logical request gives the same method, scheme, host, path and query as when
    a service receives it directly, unless the query is not its own re-encoding (C13-F10) *)
Theorem C13_deployed_decision_same_url : forall fixed_F10 L,
  wf_lreqb L = true -> nonempty (l_method L) = true -> fixed_F10 || negb (g_F10 L) = true ->
  url_parts (view_tp fixed_F10 L) = url_parts (view_direct L).
Proof. exact deployed_decision_same_url. Qed.
Print Assumptions C13_deployed_decision_same_url.

(** the tree as it is (fix: f446e16): no guard *)
Theorem C13_deployed_decision_same_url_repo : forall L,
  wf_lreqb L = true -> nonempty (l_method L) = true ->
  url_parts (view_tp true L) = url_parts (view_direct L).
Proof. intros L W Hm. exact (deployed_decision_same_url true L W Hm eq_refl). Qed.
Print Assumptions C13_deployed_decision_same_url_repo.

(** C13-F10 (repaired by fix: f446e16; [false] = the pinned extractURL, [true] = the tree as it is) *)
Theorem C13_F10_pinned_refuted :
  wf_lreqb (w10_req "b=2&a=1") = true /\ g_F10 (w10_req "b=2&a=1") = true /\
  v_query (view_direct (w10_req "b=2&a=1")) = "b=2&a=1"%string /\ v_query (view_tp false (w10_req "b=2&a=1")) = "a=1&b=2"%string /\
  v_query (view_tp false (w10_req "q=a%20b")) = "q=a+b"%string /\ v_query (view_tp false (w10_req "a=1;b=2")) = ""%string /\
  g_F10 (w10_req "a=1&b=2") = false /\ url_parts (view_tp false (w10_req "a=1&b=2")) = url_parts (view_direct (w10_req "a=1&b=2")) /\
  url_parts (view_tp true (w10_req "b=2&a=1")) = url_parts (view_direct (w10_req "b=2&a=1")) /\
  v_query (view_tp true (w10_req "a=1;b=2")) = "a=1;b=2"%string.
Proof. exact F10_refuted. Qed.
Print Assumptions C13_F10_pinned_refuted.

(** ------------------------------------------------------------------ over time: requests in flight together *)
(** (Lemmas about the MODEL's assumption, not counted as property theorems.)  The model gives every request
    in flight its own context with its own cache of the decoded body and ASSUMES that the contexts share no
    state.  Under that assumption a read of request i's body returns the decoding of request i's own body
    whatever else is read in between, and the HTTP and Envoy accessors agree on every sequence of reads.
    Whether the implementation satisfies the assumption (pooled buffers, aliasing decoders, ...) is what the
    correspondence stream `interleaved` tests; these lemmas cannot fail for any implementation. *)
Lemma C13_body_reads_stable : forall bodyf ops st,
  flight_ok bodyf st ->
  Forall (fun iv => snd iv = option_map bodyf (nth_error (map fst st) (fst iv))) (run_reads bodyf ops st).
Proof. exact body_reads_stable. Qed.

Lemma C13_body_reads_agree : forall decode fx ops (st : flight),
  Forall (fun L => wf_lreqb L = true /\ guard_query decode fx SOff [] L QBody = false) (map fst st) ->
  run_reads (fun L => a_body (acc_http decode L)) ops st =
  run_reads (fun L => a_body (acc_envoy decode fx (mk_envoy L))) ops st.
Proof. exact body_reads_agree. Qed.
