(** C20 — Config file and environment variables are equivalent; environment
    wins per leaf.  Property theorems only; proofs are in C20/*.v.

    [load sh to_real fix3 fix4 prefix defaults file env] is the loader of
    internal/config/parser up to the tree it hands to the decoder
    (defaults, then file, then environment).  [sh] is the iteration order of
    every Go map on the way (any family of permutations, [perm_fun]).
    [fix3] = the repair of C20-F3 (cleanSuffix merges same-named entries) is in
    the code: /repo since 0f39207 is [fix3 = true], the model the check runs;
    [fix4 = false]: C20-F4 is open.  [to_real] is the YAML typing of
    a scalar text (oracle).

    [view p t] is what a tree shows at path [p]; [spec_view d f tenv p] is the
    specification: the environment's node if it has one there, else the file's,
    else the default's (lists grow to the longest).  [domain] is the property's
    domain for one load: values typed as scalars, well-formed names, well-formed
    trees, no two variables for one leaf, all sources agreeing on the shape at
    every path, outside the shape of the open finding C20-F4 and — only for
    [fix3 = false], the code before the repair — of C20-F3.  The first block of
    theorems uses the syntactic guard of C20-F4 ([guard_F4]: no variable
    continues with two or more name segments below a list index) and is
    parametric in [fix3]; the `_F4n` block restates the sentences for [fix3 =
    true] under the narrowed guard [guard_F4n] (the defect's actual shape). *)
From HV Require Import Base.Prelude C20.Model C20.Spec C20.Facts C20.MergeProofs C20.LoadProofs C20.Proofs.
From HV Require Import C20.SchemaModel C20.SchemaPinned Gen.SchemaTables C20.SchemaProofs C20.ScopeProofs C20.MergePanic C20.NamingProofs C20.SplitProofs.
From HV Require Import C20.DottedBase C20.DottedMerge C20.DottedProofs C20.DottedSplit.
From Coq Require Import Permutation.
Open Scope string_scope.

Theorem C20_load_meets_spec :
  forall sh fix3 to_real pfx d f env tenv,
    perm_fun sh -> domain fix3 to_real pfx d f env tenv ->
    exists t, load sh to_real fix3 false pfx d (Some f) env = Ok t /\ Tidy (Map t) /\
              forall p, view p (Map t) = spec_view d f tenv p.
Proof. exact load_meets_spec_domain. Qed.
Print Assumptions C20_load_meets_spec.

Theorem C20_env_order_independent :
  forall sh sh' fix3 to_real pfx d f env env' tenv,
    perm_fun sh -> perm_fun sh' -> Permutation env env' ->
    domain fix3 to_real pfx d f env tenv ->
    exists t t', load sh to_real fix3 false pfx d (Some f) env = Ok t /\
                 load sh' to_real fix3 false pfx d (Some f) env' = Ok t' /\
                 Tidy (Map t) /\ Tidy (Map t') /\
                 forall p, view p (Map t) = view p (Map t').
Proof. exact env_order_independent. Qed.
Print Assumptions C20_env_order_independent.

Theorem C20_env_wins_per_leaf :
  forall sh fix3 to_real pfx d f env tenv,
    perm_fun sh -> domain fix3 to_real pfx d f env tenv ->
    exists t, load sh to_real fix3 false pfx d (Some f) env = Ok t /\
              forall e, In e tenv -> view (fst e) (Map t) = NLeaf (snd e).
Proof. exact env_wins_per_leaf. Qed.
Print Assumptions C20_env_wins_per_leaf.

Theorem C20_defaults_fill :
  forall sh fix3 to_real pfx d f env tenv,
    perm_fun sh -> domain fix3 to_real pfx d f env tenv ->
    exists t, load sh to_real fix3 false pfx d (Some f) env = Ok t /\
              forall p, env_view tenv p = NNone ->
                        view p (Map t) = njoin (view p (Map d)) (view p (Map f)) /\
                        (view p (Map f) = NNone -> view p (Map t) = view p (Map d)).
Proof. exact defaults_fill. Qed.
Print Assumptions C20_defaults_fill.

Theorem C20_file_env_equivalent :
  forall sh sh' fix3 to_real pfx d c f env tenv,
    perm_fun sh -> perm_fun sh' ->
    domain fix3 to_real pfx d f env tenv -> domain fix3 to_real pfx d c [] [] ->
    split_of c f tenv ->
    exists t t', load sh to_real fix3 false pfx d (Some f) env = Ok t /\
                 load sh' to_real fix3 false pfx d (Some c) [] = Ok t' /\
                 Tidy (Map t) /\ Tidy (Map t') /\
                 forall p, view p (Map t) = view p (Map t').
Proof. exact file_env_equivalent. Qed.
Print Assumptions C20_file_env_equivalent.

(** ... in particular for every split of the leaves of a configuration [c]:
    [keep_map sel c] is the file without the leaves selected by [sel] (holes in
    lists, dropped keys in maps, also inside list elements), [sel_leaves sel]
    the selected leaves, given by variables in any order *)
Theorem C20_file_env_equivalent_splits :
  forall sh sh' fix3 to_real pfx d c sel env tenv,
    perm_fun sh -> perm_fun sh' ->
    domain fix3 to_real pfx d c [] [] ->
    typed_env to_real (norm_env pfx env) = Some tenv ->
    Permutation tenv (sel_leaves sel (Map c)) ->
    (fix3 = true \/ guard_F3 (norm_env pfx env) = false) -> guard_F4 (norm_env pfx env) = false ->
    exists t t', load sh to_real fix3 false pfx d (Some (keep_map sel c)) env = Ok t /\
                 load sh' to_real fix3 false pfx d (Some c) [] = Ok t' /\
                 Tidy (Map t) /\ Tidy (Map t') /\
                 forall p, view p (Map t) = view p (Map t').
Proof. exact file_env_equivalent_splits. Qed.
Print Assumptions C20_file_env_equivalent_splits.

Theorem C20_merge_later_wins_no_panic :
  forall sh, perm_fun sh -> forall cl dest src,
    dest <> Nil -> src <> Nil -> Tidy dest -> Tidy src -> compat dest src ->
    exists r, merge_with sh cl dest src = Ok r /\ r <> Nil /\ Tidy r /\
              forall p, view p r = njoin (view p dest) (view p src).
Proof. exact merge_with_view. Qed.
Print Assumptions C20_merge_later_wins_no_panic.

(** the documented naming rules: [env_name pfx segs] = prefix, segments
    upper-cased and joined by "_", a literal underscore written "__";
    koanfFromEnv's normalisation reads it back as the path of the segments
    (all-digit segments as list indices) *)
Theorem C20_env_name_read_back :
  forall pfx segs, segs <> [] -> forallb valid_seg segs = true ->
    normalise_key pfx (env_name pfx segs) = join "." segs /\
    parse_path (normalise_key pfx (env_name pfx segs)) = psegs segs.
Proof. exact env_name_read_back. Qed.
Print Assumptions C20_env_name_read_back.

(** merge.go's panic as an explicit outcome, characterised: [clash_at dest src p]
    = at [p], reached through nodes of equal kind, [dest] holds a map or a list
    and [src] something of another kind *)
Theorem C20_merge_panic_iff :
  forall sh, perm_fun sh -> forall cl dest src,
    dest <> Nil -> src <> Nil -> Tidy dest -> Tidy src ->
    (merge_with sh cl dest src = Panic <-> exists p, clash_at dest src p).
Proof. exact merge_panic_iff. Qed.
Print Assumptions C20_merge_panic_iff.

(** the evaluator's executable domain check (finitely many candidate paths) is
    sound for the domain of the theorems (all paths) *)
Theorem C20_in_scope_b_sound :
  forall d f tenv, in_scope_b d f (Some tenv) = true -> in_scope d f tenv.
Proof. exact in_scope_b_sound. Qed.
Print Assumptions C20_in_scope_b_sound.

(** [guard_F4n] is the evaluator's version of the C20-F4 guard, narrowed to where the defect
    shows (no map at the list element in defaults and file, or two variables sharing element
    and first name segment); the theorems' syntactic [guard_F4] implies it, so no load the
    theorems speak about is excused.  Names of the F4 shape outside [guard_F4n] are covered by
    the `_F4n` theorems below (for the code as it is, [fix3 = true]). *)
Theorem C20_guard_F4n_narrower :
  forall d f ne, guard_F4 ne = false -> guard_F4n d f ne = false.
Proof. exact guard_F4n_narrower. Qed.
Print Assumptions C20_guard_F4n_narrower.

(* ------------------------------------------------------------------ the same sentences under the NARROWED guard of C20-F4

   For the code as it is in /repo ([fix3 = true], [fix4 = false]).  [domainN] is
   [domain] with the evaluator's [guard_F4n d f ... = false] in place of the
   syntactic [guard_F4 ... = false]: a variable may continue with two or more
   name segments below a list index (MECHANISMS_AUTHENTICATORS_0_CONFIG_USER)
   provided defaults or file hold a map at that list element and no other
   variable shares the element and the first name segment.  [convert] leaves
   such a remainder as ONE entry with a dotted key ("config.user"); the proofs
   (C20/Dotted*.v) follow it through koanfFromEnv — maps.Unflatten inside
   mergeMaps resolves it only when its map arrives as the SOURCE of a merge —
   to the last merge into defaults+file, after which no dotted key is left.
   The theorems above (for [fix3 = true]) are instances: [C20_domain_in_domainN]. *)

Theorem C20_domain_in_domainN :
  forall to_real pfx d f env tenv,
    domain true to_real pfx d f env tenv -> domainN to_real pfx d f env tenv.
Proof. exact domain_domainN. Qed.
Print Assumptions C20_domain_in_domainN.

Theorem C20_load_meets_spec_F4n :
  forall sh to_real pfx d f env tenv,
    perm_fun sh -> domainN to_real pfx d f env tenv ->
    exists t, load sh to_real true false pfx d (Some f) env = Ok t /\ Tidy (Map t) /\
              forall p, view p (Map t) = spec_view d f tenv p.
Proof. exact load_meets_spec_n. Qed.
Print Assumptions C20_load_meets_spec_F4n.

Theorem C20_env_order_independent_F4n :
  forall sh sh' to_real pfx d f env env' tenv,
    perm_fun sh -> perm_fun sh' -> Permutation env env' ->
    domainN to_real pfx d f env tenv ->
    exists t t', load sh to_real true false pfx d (Some f) env = Ok t /\
                 load sh' to_real true false pfx d (Some f) env' = Ok t' /\
                 Tidy (Map t) /\ Tidy (Map t') /\
                 forall p, view p (Map t) = view p (Map t').
Proof. exact env_order_independent_n. Qed.
Print Assumptions C20_env_order_independent_F4n.

Theorem C20_env_wins_per_leaf_F4n :
  forall sh to_real pfx d f env tenv,
    perm_fun sh -> domainN to_real pfx d f env tenv ->
    exists t, load sh to_real true false pfx d (Some f) env = Ok t /\
              forall e, In e tenv -> view (fst e) (Map t) = NLeaf (snd e).
Proof. exact env_wins_per_leaf_n. Qed.
Print Assumptions C20_env_wins_per_leaf_F4n.

Theorem C20_defaults_fill_F4n :
  forall sh to_real pfx d f env tenv,
    perm_fun sh -> domainN to_real pfx d f env tenv ->
    exists t, load sh to_real true false pfx d (Some f) env = Ok t /\
              forall p, env_view tenv p = NNone ->
                        view p (Map t) = njoin (view p (Map d)) (view p (Map f)) /\
                        (view p (Map f) = NNone -> view p (Map t) = view p (Map d)).
Proof. exact defaults_fill_n. Qed.
Print Assumptions C20_defaults_fill_F4n.

Theorem C20_file_env_equivalent_F4n :
  forall sh sh' to_real pfx d c f env tenv,
    perm_fun sh -> perm_fun sh' ->
    domainN to_real pfx d f env tenv -> domainN to_real pfx d c [] [] ->
    split_of c f tenv ->
    exists t t', load sh to_real true false pfx d (Some f) env = Ok t /\
                 load sh' to_real true false pfx d (Some c) [] = Ok t' /\
                 Tidy (Map t) /\ Tidy (Map t') /\
                 forall p, view p (Map t) = view p (Map t').
Proof. exact file_env_equivalent_n. Qed.
Print Assumptions C20_file_env_equivalent_F4n.

(** ... for every subset [sel] of the leaves of [c] moved to the environment;
    the guard is evaluated on the file that remains ([keep_map sel c]) *)
Theorem C20_file_env_equivalent_splits_F4n :
  forall sh sh' to_real pfx d c sel env tenv,
    perm_fun sh -> perm_fun sh' ->
    in_scope d c [] ->
    typed_env to_real (norm_env pfx env) = Some tenv ->
    Permutation tenv (sel_leaves sel (Map c)) ->
    guard_F4n d (keep_map sel c) (norm_env pfx env) = false ->
    exists t t', load sh to_real true false pfx d (Some (keep_map sel c)) env = Ok t /\
                 load sh' to_real true false pfx d (Some c) [] = Ok t' /\
                 Tidy (Map t) /\ Tidy (Map t') /\
                 forall p, view p (Map t) = view p (Map t').
Proof. exact file_env_equivalent_splits_n. Qed.
Print Assumptions C20_file_env_equivalent_splits_F4n.

(** ... and with a condition on the variables alone: the file that remains after a
    split still holds every map and list of [c], so only the second clause of
    [guard_F4n] can fire; [guard_F4s ne = false] = no two variables lie below the
    same list element and first name segment where one of them continues with two
    or more name segments (…_0_CONFIG_USER + …_0_CONFIG_PASSWORD is such a pair,
    and there the loader does lose one of them for some map order) *)
Theorem C20_file_env_equivalent_splits_F4s :
  forall sh sh' to_real pfx d c sel env tenv,
    perm_fun sh -> perm_fun sh' ->
    in_scope d c [] ->
    typed_env to_real (norm_env pfx env) = Some tenv ->
    Permutation tenv (sel_leaves sel (Map c)) ->
    guard_F4s (norm_env pfx env) = false ->
    exists t t', load sh to_real true false pfx d (Some (keep_map sel c)) env = Ok t /\
                 load sh' to_real true false pfx d (Some c) [] = Ok t' /\
                 Tidy (Map t) /\ Tidy (Map t') /\
                 forall p, view p (Map t) = view p (Map t').
Proof. exact file_env_equivalent_splits_s. Qed.
Print Assumptions C20_file_env_equivalent_splits_F4s.

(** merge.go on trees that hold dotted keys ([DT]: keys may be dotted, first
    segments unique within a map; [dview] = the view through the dotted keys;
    [DK t pi s] = at [pi] the tree still holds a dotted key starting with [s];
    [ExclL dest src] = [src] shows nothing where [dest] holds a dotted key):
    no panic, later wins per leaf, and a dotted key of the result was one of
    the destination, or one of the source where the destination holds nothing *)
Theorem C20_merge_dotted_keys :
  forall sh, perm_fun sh -> forall cl dest src,
    dest <> Nil -> src <> Nil -> DT dest -> DT src -> dcompat dest src -> ExclL dest src ->
    exists r, merge_with sh cl dest src = Ok r /\ r <> Nil /\ DT r /\
              (forall p, dview p r = njoin (dview p dest) (dview p src)) /\
              (forall pi s, DK r pi s -> DK dest pi s \/ (DK src pi s /\ dview pi dest = NNone)).
Proof. exact merge_with_dview. Qed.
Print Assumptions C20_merge_dotted_keys.

(** the hypotheses of the F4n theorems are satisfiable by a load OUTSIDE the
    syntactic guard: the file holds an authenticator with a [config] map, the
    environment sets MECHANISMS_AUTHENTICATORS_0_CONFIG_PASSWORD, another key
    of the same element, a key of a new element and a plain leaf *)
Theorem C20_domainN_nonvacuous :
  exists tenv, domainN (fun s => Leaf s) "P_" [] exn_f exn_env tenv /\ length tenv = 4 /\
               guard_F4 (norm_env "P_" exn_env) = true /\
               In ([SK "mechanisms"; SK "authenticators"; SI 0; SK "config"; SK "password"], "secret") tenv.
Proof. exact domainN_nonvacuous. Qed.
Print Assumptions C20_domainN_nonvacuous.

(** ... and those of the splits theorem by a split that moves a nested option
    of a list element (MECHANISMS_AUTHENTICATORS_0_CONFIG_PASSWORD) and a plain
    leaf to the environment, the element and its [config] map staying in the file *)
Theorem C20_split_example_F4n :
  exists tenv,
    in_scope [] exn_c [] /\
    typed_env (fun s => Leaf s) (norm_env "P_" exn_senv) = Some tenv /\
    Permutation tenv (sel_leaves exn_sel (Map exn_c)) /\
    guard_F4n [] (keep_map exn_sel exn_c) (norm_env "P_" exn_senv) = false /\
    guard_F4 (norm_env "P_" exn_senv) = true /\ length tenv = 2.
Proof. exact split_example_n. Qed.
Print Assumptions C20_split_example_F4n.

Theorem C20_split_guard_example :
  guard_F4s (norm_env "P_" exn_senv) = false /\
  guard_F4s (norm_env "P_" [("P_A_0_CONFIG_USER", "u"); ("P_A_0_CONFIG_PASSWORD", "p")]) = true.
Proof. exact split_example_s. Qed.
Print Assumptions C20_split_guard_example.

(** the hypotheses of the theorems above are satisfiable by a load with
    defaults, a file with a list hole, an overriding variable, a variable that
    extends a list and one with a literal underscore *)
Theorem C20_domain_nonvacuous :
  exists tenv, domain true (fun s => Leaf s) "P_" ex_d ex_f ex_env tenv /\ length tenv = 3.
Proof. exact domain_nonvacuous. Qed.
Print Assumptions C20_domain_nonvacuous.

(** the hypotheses of C20_file_env_equivalent are satisfiable by a split that
    moves a key of a list element, an element of a nested list and a map leaf
    with a literal underscore to the environment ([split_of_b_sound] makes
    [split_of] checkable on finitely many paths) *)
Theorem C20_split_example :
  exists tenv,
    domain true (fun s => Leaf s) "P_" [] ex_cf ex_cenv tenv /\ domain true (fun s => Leaf s) "P_" [] ex_c [] [] /\
    split_of ex_c ex_cf tenv.
Proof. exact split_example. Qed.
Print Assumptions C20_split_example.

(** [schema_tbl] / [loader_tbl] are regenerated on every run from
    schema/config.schema.json and from the loader's type registries and config
    structs (Gen/SchemaTables.v); a row is a mechanism type, its config object or
    one of its options *)
Theorem C20_schema_loader_agree :
  forall r, In r (all_rows schema_tbl loader_tbl) -> guard_F1 fixed_F1a fixed_F1b r = false ->
            guard_F6_row schema_tbl loader_tbl r = false ->
            row_agrees schema_tbl loader_tbl r = true.
Proof. exact schema_loader_agree. Qed.
Print Assumptions C20_schema_loader_agree.

(** acceptance equivalence: agreement of the tables row by row (no wildcard, no
    excused row) implies that they accept the same mechanism definitions — for
    all tables; and the current tables do agree that way once the value classes
    are erased ([erase_classes] erases EVERY [CClass]: the duration syntax of
    C20-F6 and also the non-emptiness cells of the F1d/F1e kind, so
    C20_schema_loader_accept_equal says nothing about emptiness constraints) *)
Theorem C20_tables_agree_accept_equal :
  forall s l, strict_ok s l = true -> forall p, accepts s p = accepts l p.
Proof. exact strict_ok_accepts. Qed.
Print Assumptions C20_tables_agree_accept_equal.

Theorem C20_schema_loader_accept_equal :
  forall p, accepts (erase_classes (mech_only schema_tbl)) p = accepts (erase_classes (mech_only loader_tbl)) p.
Proof. exact schema_loader_accept_equal. Qed.
Print Assumptions C20_schema_loader_accept_equal.

(** C20-F1 groups a, b, c as they were before 80621e4 / 6c5864d / c343928: the
    witnesses of the REPAIRED groups are stated about the tables as extracted
    when the finding was recorded ([pinned_*], C20/SchemaPinned.v), so that the
    repaired tree does not break the build.  [guard_F1 false false r = true]
    holds because the repair flags of groups a and b are passed as [false]
    (the variant before the repairs); with the flags of the tree as it is
    ([fixed_F1a]/[fixed_F1b] = true) these rows are not excused any more *)
Theorem C20_F1_pinned_refuted :
  exists r, In r (all_rows pinned_schema_tbl pinned_loader_tbl) /\ guard_F1 false false r = true /\
            row_agrees pinned_schema_tbl pinned_loader_tbl r = false.
Proof. exact F1_refuted. Qed.
Print Assumptions C20_F1_pinned_refuted.

Theorem C20_F1_pinned_rows_all_disagree :
  (forall r, In r (known_F1a ++ known_F1b) ->
     In r (all_rows pinned_schema_tbl pinned_loader_tbl) /\ row_agrees pinned_schema_tbl pinned_loader_tbl r = false) /\
  (forall r, In r known_F1c ->
     In r (all_rows pinned_c_schema_tbl pinned_c_loader_tbl) /\ row_agrees pinned_c_schema_tbl pinned_c_loader_tbl r = false).
Proof. exact F1_rows_all_disagree. Qed.
Print Assumptions C20_F1_pinned_rows_all_disagree.

(** the OPEN group f of C20-F1, on the tables of the tree as it is (regenerated
    on every run): every recorded row is a row of the tables and the two sides
    disagree on it (also: no stale guard for group f).  Of the 10 rows only the
    four serve.* rows are an observable file/environment asymmetry, see
    findings/C20.json.  When group f is repaired this theorem breaks and has to
    move to a pinned snapshot like groups a-c. *)
Lemma F1f_recorded : recorded_all_disagree known_F1f schema_tbl loader_tbl = true.
Proof. vm_compute. reflexivity. Qed.

Theorem C20_F1f_refuted :
  forall r, In r known_F1f ->
    In r (all_rows schema_tbl loader_tbl) /\ row_agrees schema_tbl loader_tbl r = false.
Proof. exact (recorded_sound _ _ _ F1f_recorded). Qed.
Print Assumptions C20_F1f_refuted.

(** the table-level part of the open C20-F6 (duration syntax: the schema's
    pattern against time.ParseDuration) on the current tables: a row excused by
    [guard_F6_row] on which the two sides do disagree.  The container-level
    `required` part of C20-F6 and C20-F5 have no model; they are observed by
    stream meta only. *)
Theorem C20_F6_refuted :
  exists r, In r (all_rows schema_tbl loader_tbl) /\ guard_F6_row schema_tbl loader_tbl r = true /\
            row_agrees schema_tbl loader_tbl r = false.
Proof.
  destruct (find (fun r => guard_F6_row schema_tbl loader_tbl r && negb (row_agrees schema_tbl loader_tbl r))
                 (all_rows schema_tbl loader_tbl)) as [r|] eqn:E.
  - apply find_some in E as [A B]. apply andb_true_iff in B as [B1 B2]. apply negb_true_iff in B2.
    exists r. auto.
  - vm_compute in E. discriminate E.
Qed.
Print Assumptions C20_F6_refuted.

(** C20-F3 as it was before 0f39207 ([fix3 = false]): the pinned behaviour *)
Theorem C20_F3_pinned_refuted :
  exists env env' p,
    Permutation env env' /\
    guard_F3 (norm_env "P_" env) = true /\ guard_F4 (norm_env "P_" env) = false /\
    top_view p (load (sh_bits []) tr_id false false "P_" [] None env) <>
    top_view p (load (sh_bits []) tr_id false false "P_" [] None env').
Proof. exact F3_refuted. Qed.
Print Assumptions C20_F3_pinned_refuted.

(** ... and the repaired code on the same witness, in either order *)
Theorem C20_F3_repaired_on_witness :
  forall env, Permutation [("P_M_L_0", "x"); ("P_M_L_1", "y")] env ->
    load (sh_bits []) tr_id true false "P_" [] None env
    = Ok [(K "m", Map [(K "l", Lst [Leaf "x"; Leaf "y"])])].
Proof. exact F3_repaired_on_witness. Qed.
Print Assumptions C20_F3_repaired_on_witness.

Theorem C20_F4_refuted :
  exists env nk v r,
    norm_env "P_" env = [(nk, v)] /\
    guard_F4 (norm_env "P_" env) = true /\ guard_F3 (norm_env "P_" env) = false /\
    load (sh_bits []) tr_id true false "P_" [] None env = Ok r /\
    view (parse_path nk) (Map r) <> NLeaf v.
Proof. exact F4_refuted. Qed.
Print Assumptions C20_F4_refuted.

(** C20-F4 where the list element EXISTS: the second clause of [guard_F4n] is the
    defect, not caution.  Two options of one element from the environment
    (A_0_CONFIG_USER, A_0_CONFIG_PASSWORD; the file holds the element and its
    [config] map; each variable alone is inside the F4n theorems) give different
    results for the two orders of the environment: one of them is dropped *)
Theorem C20_F4_sharing_refuted :
  exists env env' p,
    Permutation env env' /\
    in_scope_b [] exs_f (typed_env tr_id (norm_env "P_" env)) = true /\
    (forall a, In a env -> guard_F4n [] exs_f (norm_env "P_" [a]) = false) /\
    guard_F4s (norm_env "P_" env) = true /\
    top_view p (load (sh_bits []) tr_id true false "P_" [] (Some exs_f) env) <>
    top_view p (load (sh_bits []) tr_id true false "P_" [] (Some exs_f) env').
Proof. exact F4_sharing_refuted. Qed.
Print Assumptions C20_F4_sharing_refuted.

(* ------------------------------------------------------------------ sequences of loads in one process *)

From HV Require Import C20.History.

(** Loading is a function of its three inputs — over SEQUENCES of loads in one
    process (seeded round 5, C20-10).  C20/History.v models what
    config.NewConfiguration does around the tree-level loader: a Configuration
    value holds its reference-typed settings (cache.config, the provider
    settings: map[string]any; slices; pointers) as references into a heap,
    decoding writes into the instance the value refers to, a deep look at a
    value dereferences at the time of looking; [share = false] = defaultConfig()
    makes new instances per call (the code as it is).  Generic form: any loader
    [ld k d input] (k = number of the load in the process), any way [sub]/[put]
    of reading a setting out of / putting it into a tree with
    [put p (sub p t) t = t].  Every result of every sequence, looked at after
    ALL its loads, is what its own input gives alone on the built-in defaults:
    the n-th load inherits nothing, earlier results never change. *)
Theorem C20_history_independent :
  forall (T V I P : Type) (ld : nat -> T -> I -> res T) (sub : P -> T -> V) (put : P -> V -> T -> T),
    (forall p t, put p (sub p t) t = t) ->
    forall d0 rps h0 ins s' cs,
      run ld sub put d0 rps false (start sub d0 rps h0) ins = (s', cs) ->
      forall k inp, nth_error ins k = Some inp ->
        exists oc, nth_error cs k = Some oc /\ observe put (hp s') oc = ld k d0 inp.
Proof. exact history_independent. Qed.
Print Assumptions C20_history_independent.

(** the same for the tree-level loader of this development, every load with its own Go map orders [shs k] *)
Theorem C20_load_history_independent :
  forall shs to_real pfx d0 rps h0 ins s' cs,
    run_loads shs to_real pfx d0 rps false h0 ins = (s', cs) ->
    forall k f env, nth_error ins k = Some (f, env) ->
      exists oc, nth_error cs k = Some oc /\
                 look s' oc = load (shs k) to_real true false pfx d0 f env.
Proof.
  intros shs to_real pfx d0 rps h0 ins s' cs E k f env H.
  exact (history_independent _ _ _ _ (proc_load shs to_real pfx) subp putp putp_subp d0 rps h0 ins s' cs E k (f, env) H).
Qed.
Print Assumptions C20_load_history_independent.

(** ... so that the main sentence holds for every load of every sequence: whatever was loaded before and
    after, a load of the property's domain shows — at any later time — the specification's tree of its OWN
    (built-in defaults, file, environment) *)
Theorem C20_load_sequence_meets_spec :
  forall shs to_real pfx d0 rps h0 ins s' cs,
    (forall k, perm_fun (shs k)) ->
    run_loads shs to_real pfx d0 rps false h0 ins = (s', cs) ->
    forall k f env tenv, nth_error ins k = Some (Some f, env) ->
      domainN to_real pfx d0 f env tenv ->
      exists oc t, nth_error cs k = Some oc /\ look s' oc = Ok t /\ Tidy (Map t) /\
                   forall p, view p (Map t) = spec_view d0 f tenv p.
Proof.
  intros shs to_real pfx d0 rps h0 ins s' cs Hp E k f env tenv H D.
  destruct (C20_load_history_independent _ _ _ _ _ _ _ _ _ E _ _ _ H) as (oc & H1 & H2).
  destruct (load_meets_spec_n (shs k) to_real pfx d0 f env tenv (Hp k) D) as (t & L & Ti & Vw).
  exists oc, t. rewrite H2. auto.
Qed.
Print Assumptions C20_load_sequence_meets_spec.

(** the sentence is not empty: with a defaults value assembled once and copied shallowly ([share = true]) it
    fails on three loads (file sets cache.config.address/db; environment names log.level only; file sets
    cache.config.db = 2) — the second result shows the first load's cache.config, and the first result,
    looked at again after the third load, shows db = 2; with [share = false] both are as they should be *)
Theorem C20_shared_defaults_refuted :
  hw_look true 2 1 <> hw_alone 1 /\ hw_look true 1 0 <> hw_look true 3 0 /\
  hw_look false 2 1 = hw_alone 1 /\ hw_look false 1 0 = hw_look false 3 0.
Proof. vm_compute. splits; try reflexivity; intro H; discriminate H. Qed.
Print Assumptions C20_shared_defaults_refuted.
