(** C20 — Config file and environment variables are equivalent; environment
    wins per leaf.  Property theorems only; proofs are in C20/*.v.

    [load sh to_real fix3 fix4 prefix defaults file env] is the loader of
    internal/config/parser up to the tree it hands to the decoder
    (defaults, then file, then environment).  [sh] is the iteration order of
    every Go map on the way (any family of permutations, [perm_fun]).
    [fix3] = the repair of C20-F3 (cleanSuffix merges same-named entries) is in
    the code: /repo since 0f39207 is [fix3 = true], the model the check runs;
    [fix4 = false]: C20-F4 is open.  [to_real] is the YAML typing of
    a scalar text (oracle).

    [view p t] is what a tree shows at path [p]; [spec_view d f tenv p] is the
    specification: the environment's node if it has one there, else the file's,
    else the default's (lists grow to the longest).  [domain] is the property's
    domain for one load: values typed as scalars, well-formed names, well-formed
    trees, no two variables for one leaf, all sources agreeing on the shape at
    every path, outside the shape of the open finding C20-F4 and — only for
    [fix3 = false], the code before the repair — of C20-F3. *)
From HV Require Import Base.Prelude C20.Model C20.Spec C20.Facts C20.MergeProofs C20.LoadProofs C20.Proofs.
From HV Require Import C20.SchemaModel C20.SchemaPinned Gen.SchemaTables C20.SchemaProofs C20.ScopeProofs C20.MergePanic C20.NamingProofs C20.SplitProofs.
From Coq Require Import Permutation.
Open Scope string_scope.

Theorem C20_load_meets_spec :
  forall sh fix3 to_real pfx d f env tenv,
    perm_fun sh -> domain fix3 to_real pfx d f env tenv ->
    exists t, load sh to_real fix3 false pfx d (Some f) env = Ok t /\ Tidy (Map t) /\
              forall p, view p (Map t) = spec_view d f tenv p.
Proof. exact load_meets_spec_domain. Qed.
Print Assumptions C20_load_meets_spec.

Theorem C20_env_order_independent :
  forall sh sh' fix3 to_real pfx d f env env' tenv,
    perm_fun sh -> perm_fun sh' -> Permutation env env' ->
    domain fix3 to_real pfx d f env tenv ->
    exists t t', load sh to_real fix3 false pfx d (Some f) env = Ok t /\
                 load sh' to_real fix3 false pfx d (Some f) env' = Ok t' /\
                 Tidy (Map t) /\ Tidy (Map t') /\
                 forall p, view p (Map t) = view p (Map t').
Proof. exact env_order_independent. Qed.
Print Assumptions C20_env_order_independent.

Theorem C20_env_wins_per_leaf :
  forall sh fix3 to_real pfx d f env tenv,
    perm_fun sh -> domain fix3 to_real pfx d f env tenv ->
    exists t, load sh to_real fix3 false pfx d (Some f) env = Ok t /\
              forall e, In e tenv -> view (fst e) (Map t) = NLeaf (snd e).
Proof. exact env_wins_per_leaf. Qed.
Print Assumptions C20_env_wins_per_leaf.

Theorem C20_defaults_fill :
  forall sh fix3 to_real pfx d f env tenv,
    perm_fun sh -> domain fix3 to_real pfx d f env tenv ->
    exists t, load sh to_real fix3 false pfx d (Some f) env = Ok t /\
              forall p, env_view tenv p = NNone ->
                        view p (Map t) = njoin (view p (Map d)) (view p (Map f)) /\
                        (view p (Map f) = NNone -> view p (Map t) = view p (Map d)).
Proof. exact defaults_fill. Qed.
Print Assumptions C20_defaults_fill.

Theorem C20_file_env_equivalent :
  forall sh sh' fix3 to_real pfx d c f env tenv,
    perm_fun sh -> perm_fun sh' ->
    domain fix3 to_real pfx d f env tenv -> domain fix3 to_real pfx d c [] [] ->
    split_of c f tenv ->
    exists t t', load sh to_real fix3 false pfx d (Some f) env = Ok t /\
                 load sh' to_real fix3 false pfx d (Some c) [] = Ok t' /\
                 Tidy (Map t) /\ Tidy (Map t') /\
                 forall p, view p (Map t) = view p (Map t').
Proof. exact file_env_equivalent. Qed.
Print Assumptions C20_file_env_equivalent.

(** ... in particular for every split of the leaves of a configuration [c]:
    [keep_map sel c] is the file without the leaves selected by [sel] (holes in
    lists, dropped keys in maps, also inside list elements), [sel_leaves sel]
    the selected leaves, given by variables in any order *)
Theorem C20_file_env_equivalent_splits :
  forall sh sh' fix3 to_real pfx d c sel env tenv,
    perm_fun sh -> perm_fun sh' ->
    domain fix3 to_real pfx d c [] [] ->
    typed_env to_real (norm_env pfx env) = Some tenv ->
    Permutation tenv (sel_leaves sel (Map c)) ->
    (fix3 = true \/ guard_F3 (norm_env pfx env) = false) -> guard_F4 (norm_env pfx env) = false ->
    exists t t', load sh to_real fix3 false pfx d (Some (keep_map sel c)) env = Ok t /\
                 load sh' to_real fix3 false pfx d (Some c) [] = Ok t' /\
                 Tidy (Map t) /\ Tidy (Map t') /\
                 forall p, view p (Map t) = view p (Map t').
Proof. exact file_env_equivalent_splits. Qed.
Print Assumptions C20_file_env_equivalent_splits.

Theorem C20_merge_later_wins_no_panic :
  forall sh, perm_fun sh -> forall cl dest src,
    dest <> Nil -> src <> Nil -> Tidy dest -> Tidy src -> compat dest src ->
    exists r, merge_with sh cl dest src = Ok r /\ r <> Nil /\ Tidy r /\
              forall p, view p r = njoin (view p dest) (view p src).
Proof. exact merge_with_view. Qed.
Print Assumptions C20_merge_later_wins_no_panic.

(** the documented naming rules: [env_name pfx segs] = prefix, segments
    upper-cased and joined by "_", a literal underscore written "__";
    koanfFromEnv's normalisation reads it back as the path of the segments
    (all-digit segments as list indices) *)
Theorem C20_env_name_read_back :
  forall pfx segs, segs <> [] -> forallb valid_seg segs = true ->
    normalise_key pfx (env_name pfx segs) = join "." segs /\
    parse_path (normalise_key pfx (env_name pfx segs)) = psegs segs.
Proof. exact env_name_read_back. Qed.
Print Assumptions C20_env_name_read_back.

(** merge.go's panic as an explicit outcome, characterised: [clash_at dest src p]
    = at [p], reached through nodes of equal kind, [dest] holds a map or a list
    and [src] something of another kind *)
Theorem C20_merge_panic_iff :
  forall sh, perm_fun sh -> forall cl dest src,
    dest <> Nil -> src <> Nil -> Tidy dest -> Tidy src ->
    (merge_with sh cl dest src = Panic <-> exists p, clash_at dest src p).
Proof. exact merge_panic_iff. Qed.
Print Assumptions C20_merge_panic_iff.

(** the evaluator's executable domain check (finitely many candidate paths) is
    sound for the domain of the theorems (all paths) *)
Theorem C20_in_scope_b_sound :
  forall d f tenv, in_scope_b d f (Some tenv) = true -> in_scope d f tenv.
Proof. exact in_scope_b_sound. Qed.
Print Assumptions C20_in_scope_b_sound.

(** [guard_F4n] is the evaluator's version of the C20-F4 guard, narrowed to where the defect
    shows (no map at the list element in defaults and file, or two variables sharing element
    and first name segment); the theorems' syntactic [guard_F4] implies it, so no load the
    theorems speak about is excused.  For names of the F4 shape outside [guard_F4n] the
    property is checked on every run (v_prop must hold, all orders), not proved. *)
Theorem C20_guard_F4n_narrower :
  forall d f ne, guard_F4 ne = false -> guard_F4n d f ne = false.
Proof. exact guard_F4n_narrower. Qed.
Print Assumptions C20_guard_F4n_narrower.

(** the hypotheses of the theorems above are satisfiable by a load with
    defaults, a file with a list hole, an overriding variable, a variable that
    extends a list and one with a literal underscore *)
Theorem C20_domain_nonvacuous :
  exists tenv, domain true (fun s => Leaf s) "P_" ex_d ex_f ex_env tenv /\ length tenv = 3.
Proof. exact domain_nonvacuous. Qed.
Print Assumptions C20_domain_nonvacuous.

(** the hypotheses of C20_file_env_equivalent are satisfiable by a split that
    moves a key of a list element, an element of a nested list and a map leaf
    with a literal underscore to the environment ([split_of_b_sound] makes
    [split_of] checkable on finitely many paths) *)
Theorem C20_split_example :
  exists tenv,
    domain true (fun s => Leaf s) "P_" [] ex_cf ex_cenv tenv /\ domain true (fun s => Leaf s) "P_" [] ex_c [] [] /\
    split_of ex_c ex_cf tenv.
Proof. exact split_example. Qed.
Print Assumptions C20_split_example.

(** [schema_tbl] / [loader_tbl] are regenerated on every run from
    schema/config.schema.json and from the loader's type registries and config
    structs (Gen/SchemaTables.v); a row is a mechanism type, its config object or
    one of its options *)
Theorem C20_schema_loader_agree :
  forall r, In r (all_rows schema_tbl loader_tbl) -> guard_F1 fixed_F1a fixed_F1b r = false ->
            guard_F6_row schema_tbl loader_tbl r = false ->
            row_agrees schema_tbl loader_tbl r = true.
Proof. exact schema_loader_agree. Qed.
Print Assumptions C20_schema_loader_agree.

(** the witnesses of C20-F1 are stated about the tables as extracted when the
    finding was recorded ([pinned_*], C20/SchemaPinned.v), so that a repaired tree
    does not break the build; whether the current tree still shows them is
    reported by the replay stream on every run *)
(** acceptance equivalence: agreement of the tables row by row (no wildcard, no
    excused row) implies that they accept the same mechanism definitions — for
    all tables; and the current tables do agree that way once the value syntax of
    durations (C20-F6) is set aside *)
Theorem C20_tables_agree_accept_equal :
  forall s l, strict_ok s l = true -> forall p, accepts s p = accepts l p.
Proof. exact strict_ok_accepts. Qed.
Print Assumptions C20_tables_agree_accept_equal.

Theorem C20_schema_loader_accept_equal :
  forall p, accepts (erase_classes (mech_only schema_tbl)) p = accepts (erase_classes (mech_only loader_tbl)) p.
Proof. exact schema_loader_accept_equal. Qed.
Print Assumptions C20_schema_loader_accept_equal.

Theorem C20_F1_refuted :
  exists r, In r (all_rows pinned_schema_tbl pinned_loader_tbl) /\ guard_F1 false false r = true /\
            row_agrees pinned_schema_tbl pinned_loader_tbl r = false.
Proof. exact F1_refuted. Qed.
Print Assumptions C20_F1_refuted.

Theorem C20_F1_rows_all_disagree :
  (forall r, In r (known_F1a ++ known_F1b) ->
     In r (all_rows pinned_schema_tbl pinned_loader_tbl) /\ row_agrees pinned_schema_tbl pinned_loader_tbl r = false) /\
  (forall r, In r known_F1c ->
     In r (all_rows pinned_c_schema_tbl pinned_c_loader_tbl) /\ row_agrees pinned_c_schema_tbl pinned_c_loader_tbl r = false).
Proof. exact F1_rows_all_disagree. Qed.
Print Assumptions C20_F1_rows_all_disagree.

(** C20-F3 as it was before 0f39207 ([fix3 = false]): the pinned behaviour *)
Theorem C20_F3_pinned_refuted :
  exists env env' p,
    Permutation env env' /\
    guard_F3 (norm_env "P_" env) = true /\ guard_F4 (norm_env "P_" env) = false /\
    top_view p (load (sh_bits []) tr_id false false "P_" [] None env) <>
    top_view p (load (sh_bits []) tr_id false false "P_" [] None env').
Proof. exact F3_refuted. Qed.
Print Assumptions C20_F3_pinned_refuted.

(** ... and the repaired code on the same witness, in either order *)
Theorem C20_F3_repaired_on_witness :
  forall env, Permutation [("P_M_L_0", "x"); ("P_M_L_1", "y")] env ->
    load (sh_bits []) tr_id true false "P_" [] None env
    = Ok [(K "m", Map [(K "l", Lst [Leaf "x"; Leaf "y"])])].
Proof. exact F3_repaired_on_witness. Qed.
Print Assumptions C20_F3_repaired_on_witness.

Theorem C20_F4_refuted :
  exists env nk v r,
    norm_env "P_" env = [(nk, v)] /\
    guard_F4 (norm_env "P_" env) = true /\ guard_F3 (norm_env "P_" env) = false /\
    load (sh_bits []) tr_id true false "P_" [] None env = Ok r /\
    view (parse_path nk) (Map r) <> NLeaf v.
Proof. exact F4_refuted. Qed.
Print Assumptions C20_F4_refuted.
