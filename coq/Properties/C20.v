(** C20 — Config file and environment variables are equivalent; environment
    wins per leaf.  Property theorems only; proofs are in C20/Proofs.v.

    [load to_real fix3 fix4 flip prefix defaults file env] is the loader of
    internal/config/parser; [fix3 = fix4 = false] is the tree as it is,
    [true] selects the candidate repairs fixes/C20-F3.diff / fixes/C20-F4.diff. *)
From HV Require Import Base.Prelude C20.Model C20.Spec C20.Proofs.
From Coq Require Import Permutation.
Open Scope string_scope.

Theorem C20_F3_refuted :
  exists env env' p,
    Permutation env env' /\
    guard_F3 (norm_env "P_" env) = true /\ guard_F4 (norm_env "P_" env) = false /\
    top_view p (load (sh_bits []) tr_id false false "P_" [] None env) <>
    top_view p (load (sh_bits []) tr_id false false "P_" [] None env').
Proof. exact F3_refuted. Qed.
Print Assumptions C20_F3_refuted.

Theorem C20_F4_refuted :
  exists env nk v r,
    norm_env "P_" env = [(nk, v)] /\
    guard_F4 (norm_env "P_" env) = true /\ guard_F3 (norm_env "P_" env) = false /\
    load (sh_bits []) tr_id false false "P_" [] None env = Ok r /\
    view (parse_path nk) (Map r) <> NLeaf v.
Proof. exact F4_refuted. Qed.
Print Assumptions C20_F4_refuted.
