(** C06 — After any rule-set history, matching equals a fresh load of the current
    rule sets.  Property theorems only; proofs are in C06/Proofs.v (and the files
    it imports), witnesses in C06/Witness.v.

    Vocabulary (C06/Model.v, C06/Spec.v):
    - [run fx ops] the repository model (AddRuleSet / UpdateRuleSet / DeleteRuleSet of
      repository_impl.go over the abstract index) after the history [ops]; [fx]
      says which of the repairs of C06-F3 / F4 / F5 the code contains:
      [all_fix] is the tree as it is now (fix: commits 2d9cd1f, 003095f, f6ce52b),
      [no_fix] the pinned commit;
    - [current ops] the rule sets that exist after [ops] according to the
      specification: a creation / update that can be applied ([spec_ok]: all
      path expressions valid, no expression owned by another rule set) replaces
      the set, one that cannot is ignored, a deletion removes it;
    - [fresh fx S] the model after loading the sets [S] once into an empty instance;
    - [wf_history] a rule set is only created when it does not exist;
    - [open_guards ops] one of the guards of the OPEN findings fires on [ops]:
      C06-F1 (order after an update), C06-F2 (node flag), C06-F6 (duplicate ids);
    - [no_guard_fx fx ops] no guard of a finding that the code [fx] has fires;
      [no_guard_fx no_fix] is all six guards.  ([guard_F3] and [guard_F5] are about
      node compression and stale key names, which the abstract index does not
      have; for the pinned commit they are hypotheses because the implementation
      is only claimed to behave like this model outside them.) *)
From HV Require Import Base.Prelude C06.Pat C06.Model C06.Spec C06.Tree C06.Proofs C06.Witness.

(** THE TREE AS IT IS NOW: the index after any history is the index of a fresh
    load of the current rule sets (the index is kept in a canonical order, so this
    is equality) — outside the guards of the three open findings *)
Theorem C06_history_equals_fresh : forall ops,
  wf_history ops = true -> open_guards ops = false ->
  index (run all_fix ops) = index (fresh all_fix (current ops)).
Proof. exact now_history_equals_fresh. Qed.
Print Assumptions C06_history_equals_fresh.

(** the same for every combination of the repairs, in particular the pinned
    commit ([no_fix]: all six guards) *)
Theorem C06_history_equals_fresh_any : forall fx ops,
  wf_history ops = true -> no_guard_fx fx ops = true ->
  index (run fx ops) = index (fresh fx (current ops)).
Proof. exact history_equals_fresh. Qed.
Print Assumptions C06_history_equals_fresh_any.

(** hence every request, under every outcome of the rules' conditions, finds the
    same rule as in a fresh instance *)
Theorem C06_lookups_equal_fresh : forall ops,
  wf_history ops = true -> open_guards ops = false ->
  forall pinned_lookup path (conditions : route -> bool),
    find_rule pinned_lookup (index (run all_fix ops)) path conditions =
    find_rule pinned_lookup (index (fresh all_fix (current ops))) path conditions.
Proof. exact now_lookups_equal_fresh. Qed.
Print Assumptions C06_lookups_equal_fresh.

(** a rejected change leaves the repository unchanged — for every state and
    every operation, no hypothesis *)
Theorem C06_rejected_is_noop : forall fx (st : repo) o st' e,
  step fx st o = (st', Some e) -> st' = st.
Proof. exact rejected_is_noop. Qed.
Print Assumptions C06_rejected_is_noop.

(** after any history, an operation is rejected exactly when it cannot be applied
    (invalid path expression, incompatible wildcard names, expression owned by
    another rule set), and then nothing changes *)
Theorem C06_rejected_iff_cannot_apply : forall ops o,
  wf_history (ops ++ [o]) = true -> open_guards (ops ++ [o]) = false ->
  exists st' res, step all_fix (run all_fix ops) o = (st', res) /\
    (res = None <-> spec_ok (current ops) o = true) /\ (res <> None -> st' = run all_fix ops).
Proof. exact now_rejected_iff_cannot_apply. Qed.
Print Assumptions C06_rejected_iff_cannot_apply.

(** rules of deleted or replaced versions never match again: whatever a lookup
    returns belongs to the current version of an existing rule set *)
Theorem C06_deleted_never_match : forall ops,
  wf_history ops = true -> open_guards ops = false ->
  forall pinned_lookup path conditions r,
    find_rule pinned_lookup (index (run all_fix ops)) path conditions = Some r ->
    In (r_def r) (get_set (current ops) (r_src r)).
Proof. exact now_found_is_current. Qed.
Print Assumptions C06_deleted_never_match.

(** same-source constraint: the rules sharing a path expression come from one rule set *)
Theorem C06_same_source_constraint : forall ops,
  wf_history ops = true -> open_guards ops = false ->
  forall q n x y, get (index (run all_fix ops)) q = Some n -> In x (vals n) -> In y (vals n) -> rt_src x = rt_src y.
Proof. exact now_node_has_one_source. Qed.
Print Assumptions C06_same_source_constraint.

(** ** the open findings: each guard fires on a history on which the property
    fails, for the tree as it is now *)

Theorem C06_F1_refuted : exists ops meth path,
  wf_history ops = true /\ guard_F1 ops = true /\
  m_answer (run all_fix ops) meth path <> m_answer (fresh all_fix (current ops)) meth path.
Proof. exists w_F1, 0, "/x"%string. destruct w_F1_now as (A & B & C & D). rewrite C, D. repeat split; auto. discriminate. Qed.
Print Assumptions C06_F1_refuted.

Theorem C06_F2_refuted : exists ops meth path,
  wf_history ops = true /\ guard_F2 ops = true /\
  m_answer (run all_fix ops) meth path <> m_answer (fresh all_fix (current ops)) meth path.
Proof. exists w_F2, 0, "/y"%string. destruct w_F2_now as (A & B & C & D). rewrite C, D. repeat split; auto. discriminate. Qed.
Print Assumptions C06_F2_refuted.

Theorem C06_F6_refuted : exists ops meth path,
  wf_history ops = true /\ guard_dupid ops = true /\
  m_answer (run all_fix ops) meth path <> m_answer (fresh all_fix (current ops)) meth path.
Proof. exists w_F6_now, 0, "/p"%string. destruct w_F6_now_ok as (A & B & C & D). rewrite C, D. repeat split; auto. discriminate. Qed.
Print Assumptions C06_F6_refuted.

(** ** the repaired findings C06-F3, F4, F5: witnesses for the pinned commit
    ([no_fix]; F3 and F5 on the transcribed tree: node compression, key names) *)

Theorem C06_F3_pinned_refuted : exists ops meth path,
  wf_history ops = true /\ guard_F3 ops = true /\
  t_answer (t_run ops) meth path <> t_answer (t_run (fresh_ops (current ops))) meth path.
Proof. exists w_F3, 0, "/a:b"%string. destruct w_F3_ok as (A & B & _ & C & D). rewrite C, D. repeat split; auto. discriminate. Qed.
Print Assumptions C06_F3_pinned_refuted.

Theorem C06_F4_pinned_refuted : exists ops meth path,
  wf_history ops = true /\ guard_F4 ops = true /\
  m_answer (run no_fix ops) meth path <> m_answer (fresh no_fix (current ops)) meth path.
Proof. exists w_F4, 0, "/d"%string. destruct w_F4_ok as (A & B & C & D). rewrite C, D. repeat split; auto. discriminate. Qed.
Print Assumptions C06_F4_pinned_refuted.

(** the same defect could end in a Go panic instead of an error *)
Theorem C06_F4_pinned_panic : exists ops s,
  guard_F4 ops = true /\ snd (t_step no_fix (t_run ops) (Delete s)) = Some EPanic.
Proof. exists w_F4p, 0. exact w_F4p_ok. Qed.
Print Assumptions C06_F4_pinned_panic.

Theorem C06_F5_pinned_refuted : exists ops meth path,
  wf_history ops = true /\ guard_F5 ops = true /\
  t_answer (t_run ops) meth path <> t_answer (t_run (fresh_ops (current ops))) meth path.
Proof. exists w_F5, 0, "/a/1"%string. destruct w_F5_ok as (A & B & C & D). rewrite C, D. repeat split; auto. discriminate. Qed.
Print Assumptions C06_F5_pinned_refuted.

(** with the repairs the same witnesses pass (models with [all_fix]) *)
Example C06_repaired_examples :
  m_answer (run all_fix w_F4) 0 "/d" = m_answer (fresh all_fix (current w_F4)) 0 "/d" /\
  t_answer (t_run_fx all_fix w_F3) 0 "/a:b" = t_answer (t_run_fx all_fix (fresh_ops (current w_F3))) 0 "/a:b" /\
  t_answer (t_run_fx all_fix w_F5) 0 "/a/1" = t_answer (t_run_fx all_fix (fresh_ops (current w_F5))) 0 "/a/1" /\
  snd (t_step all_fix (t_run_fx all_fix w_F4p) (Delete 0)) = None.
Proof. vm_compute. repeat split; reflexivity. Qed.
Print Assumptions C06_repaired_examples.

(** non-vacuity: the hypotheses of the theorems for the tree as it is now hold for
    (1) a history with three sources, shared prefixes, wildcards, rules sharing an
    expression, an update changing one of several rules, a rejected creation, an
    invalid expression, deletion and re-creation, and (2) a history in the
    territory of the repaired findings (node boundary in front of ':', a path
    listed twice, a renamed path parameter next to a kept node) *)
Example C06_nonvacuous :
  (wf_history w_plain = true /\ open_guards w_plain = false /\
   length (index (run all_fix w_plain)) = 3 /\ m_answer (run all_fix w_plain) 1 "/b/x" = Some 10) /\
  (wf_history w_now = true /\ open_guards w_now = false /\
   guard_F3 w_now = true /\ guard_F4 w_now = true /\ guard_F5 w_now = true /\
   length (current w_now) = 3 /\ length (index (run all_fix w_now)) = 3 /\
   m_answer (run all_fix w_now) 0 "/d" = Some 1 /\ m_answer (run all_fix w_now) 0 "/k/7" = Some 0).
Proof.
  destruct w_plain_now as (A & B & C & D). destruct w_now_ok as (E & F & G & H & I & J & K & L & M & _).
  repeat split; assumption.
Qed.
Print Assumptions C06_nonvacuous.
