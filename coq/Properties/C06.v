(** C06 — After any rule-set history, matching equals a fresh load of the current
    rule sets.  Property theorems only; proofs are in C06/Proofs.v (and the files
    it imports), witnesses in C06/Witness.v.

    Vocabulary (C06/Model.v, C06/Spec.v):
    - [run fx ops] the repository model (AddRuleSet / UpdateRuleSet / DeleteRuleSet of
      repository_impl.go over the abstract index; [Refused]: stopped by the rule-set
      processor) after the history [ops]; [fx] says which of the repairs of
      C06-F3 / F4 / F5 the code contains: [all_fix] is the tree as it is now
      (fix: commits 2d9cd1f, 003095f, f6ce52b), [no_fix] the pinned commit;
    - [current ops] the rule sets that exist after [ops] according to the
      specification: a creation / update that can be applied ([spec_ok]: all path
      expressions valid — which includes compatible wildcard names for equal
      patterns, tree.go reports both as "invalid path" —, no expression owned by
      another rule set) replaces the set, one that cannot is ignored, a deletion
      removes it;
    - [fresh fx S] the model after loading the sets [S] once into an empty instance;
    - [wf_history] a rule set is only created when it does not exist;
    - [guard_dupid ops] some rule set submitted in [ops] has two rules with the same
      id (open finding C06-F6);
    - [dirty ops] the sources that, after [ops], are in the state the open findings
      C06-F1 (an update re-appended a changed rule behind unchanged siblings on the
      same expression, or ignored a reordering) or C06-F2 (an accepted rule set in
      which rules sharing an expression differ in backtracking_enabled) leave;
      deleting the rule set cleans its source ([C06_delete_cleans]);
    - [no_guard_fx fx ops] the coarse, history-global form: no guard of a finding
      that the code [fx] has fires anywhere in [ops]. *)
From HV Require Import Base.Prelude C06.Pat C06.Model C06.Spec C06.Tree C06.ReprFacts C06.Proofs C06.Witness.

(** THE TREE AS IT IS NOW: when no source is left in the state C06-F1 / C06-F2
    leave, the index after the history is the index of a fresh load of the current
    rule sets (the index is kept in a canonical order, so this is equality) *)
Theorem C06_history_equals_fresh : forall ops,
  wf_history ops = true -> guard_dupid ops = false -> dirty ops = [] ->
  index (run all_fix ops) = index (fresh all_fix (current ops)).
Proof. exact now_history_equals_fresh. Qed.
Print Assumptions C06_history_equals_fresh.

(** the coarse form, for every combination of the repairs, in particular the
    pinned commit ([no_fix]: all six guards) *)
Theorem C06_history_equals_fresh_any : forall fx ops,
  wf_history ops = true -> no_guard_fx fx ops = true ->
  index (run fx ops) = index (fresh fx (current ops)).
Proof. exact history_equals_fresh_guards. Qed.
Print Assumptions C06_history_equals_fresh_any.

(** hence every request, under every outcome of the rules' conditions, finds the
    same rule as in a fresh instance *)
Theorem C06_lookups_equal_fresh : forall ops,
  wf_history ops = true -> guard_dupid ops = false -> dirty ops = [] ->
  forall pinned_lookup path (conditions : route -> bool),
    find_rule pinned_lookup (index (run all_fix ops)) path conditions =
    find_rule pinned_lookup (index (fresh all_fix (current ops))) path conditions.
Proof. exact now_lookups_equal_fresh. Qed.
Print Assumptions C06_lookups_equal_fresh.

(** deleting a rule set ends whatever C06-F1 / C06-F2 did to its source *)
Theorem C06_delete_cleans : forall ops s, ~ In s (dirty (ops ++ [Delete s])).
Proof. exact delete_cleans. Qed.
Print Assumptions C06_delete_cleans.

(** The following hold ALSO for histories that went through C06-F1 / C06-F2 (no
    hypothesis on [dirty]). *)

(** after any history, an operation is rejected exactly when it cannot be applied
    (invalid path expression incl. incompatible wildcard names, expression owned by
    another rule set), and then nothing changes *)
Theorem C06_rejected_iff_cannot_apply : forall ops o,
  wf_history (ops ++ [o]) = true -> guard_dupid (ops ++ [o]) = false ->
  exists st' res, step all_fix (run all_fix ops) o = (st', res) /\
    (res = None <-> spec_ok (current ops) o = true) /\ (res <> None -> st' = run all_fix ops).
Proof. exact now_rejected_iff_cannot_apply. Qed.
Print Assumptions C06_rejected_iff_cannot_apply.

(** rules of deleted or replaced versions never match again: whatever a lookup
    returns belongs to the current version of an existing rule set *)
Theorem C06_deleted_never_match : forall ops,
  wf_history ops = true -> guard_dupid ops = false ->
  forall pinned_lookup path conditions r,
    find_rule pinned_lookup (index (run all_fix ops)) path conditions = Some r ->
    In (r_def r) (get_set (current ops) (r_src r)).
Proof. exact now_found_is_current. Qed.
Print Assumptions C06_deleted_never_match.

(** unchanged (and all other current) rules keep working: every route of every
    rule of a current rule set is a value of the node of its pattern *)
Theorem C06_current_rules_indexed : forall ops,
  wf_history ops = true -> guard_dupid ops = false ->
  forall r x p, In (r_def r) (get_set (current ops) (r_src r)) -> In x (routes_of r) -> rpat x = Some p ->
    exists n, get (index (run all_fix ops)) p = Some n /\ In x (vals n).
Proof. exact now_current_rules_indexed. Qed.
Print Assumptions C06_current_rules_indexed.

(** same-source constraint: the rules sharing a path expression come from one rule set *)
Theorem C06_same_source_constraint : forall ops,
  wf_history ops = true -> guard_dupid ops = false ->
  forall q n x y, get (index (run all_fix ops)) q = Some n -> In x (vals n) -> In y (vals n) -> rt_src x = rt_src y.
Proof. exact now_node_has_one_source. Qed.
Print Assumptions C06_same_source_constraint.

(** ** the open findings: each guard fires on a history on which the property
    fails, for the tree as it is now *)

Theorem C06_F1_refuted : exists ops meth path,
  wf_history ops = true /\ guard_F1 ops = true /\
  m_answer (run all_fix ops) meth path <> m_answer (fresh all_fix (current ops)) meth path.
Proof. exists w_F1, 0, "/x"%string. destruct w_F1_now as (A & B & C & D). rewrite C, D. repeat split; auto. discriminate. Qed.
Print Assumptions C06_F1_refuted.

Theorem C06_F2_refuted : exists ops meth path,
  wf_history ops = true /\ guard_F2 ops = true /\
  m_answer (run all_fix ops) meth path <> m_answer (fresh all_fix (current ops)) meth path.
Proof. exists w_F2, 0, "/y"%string. destruct w_F2_now as (A & B & C & D). rewrite C, D. repeat split; auto. discriminate. Qed.
Print Assumptions C06_F2_refuted.

Theorem C06_F6_refuted : exists ops meth path,
  wf_history ops = true /\ guard_dupid ops = true /\
  m_answer (run all_fix ops) meth path <> m_answer (fresh all_fix (current ops)) meth path.
Proof. exists w_F6_now, 0, "/p"%string. destruct w_F6_now_ok as (A & B & C & D). rewrite C, D. repeat split; auto. discriminate. Qed.
Print Assumptions C06_F6_refuted.

(** ** the repaired findings C06-F3, F4, F5: witnesses for the pinned commit
    ([no_fix]; F3 and F5 on the transcribed tree: node compression, key names) *)

Theorem C06_F3_pinned_refuted : exists ops meth path,
  wf_history ops = true /\ guard_F3 ops = true /\
  t_answer (t_run ops) meth path <> t_answer (t_run (fresh_ops (current ops))) meth path.
Proof. exists w_F3, 0, "/a:b"%string. destruct w_F3_ok as (A & B & _ & C & D). rewrite C, D. repeat split; auto. discriminate. Qed.
Print Assumptions C06_F3_pinned_refuted.

Theorem C06_F4_pinned_refuted : exists ops meth path,
  wf_history ops = true /\ guard_F4 ops = true /\
  m_answer (run no_fix ops) meth path <> m_answer (fresh no_fix (current ops)) meth path.
Proof. exists w_F4, 0, "/d"%string. destruct w_F4_ok as (A & B & C & D). rewrite C, D. repeat split; auto. discriminate. Qed.
Print Assumptions C06_F4_pinned_refuted.

(** the same defect could end in a Go panic instead of an error *)
Theorem C06_F4_pinned_panic : exists ops s,
  guard_F4 ops = true /\ snd (t_step no_fix (t_run ops) (Delete s)) = Some EPanic.
Proof. exists w_F4p, 0. exact w_F4p_ok. Qed.
Print Assumptions C06_F4_pinned_panic.

Theorem C06_F5_pinned_refuted : exists ops meth path,
  wf_history ops = true /\ guard_F5 ops = true /\
  t_answer (t_run ops) meth path <> t_answer (t_run (fresh_ops (current ops))) meth path.
Proof. exists w_F5, 0, "/a/1"%string. destruct w_F5_ok as (A & B & C & D). rewrite C, D. repeat split; auto. discriminate. Qed.
Print Assumptions C06_F5_pinned_refuted.

(** with the repairs the same witnesses pass (models with [all_fix]) *)
Example C06_repaired_examples :
  m_answer (run all_fix w_F4) 0 "/d" = m_answer (fresh all_fix (current w_F4)) 0 "/d" /\
  t_answer (t_run_fx all_fix w_F3) 0 "/a:b" = t_answer (t_run_fx all_fix (fresh_ops (current w_F3))) 0 "/a:b" /\
  t_answer (t_run_fx all_fix w_F5) 0 "/a/1" = t_answer (t_run_fx all_fix (fresh_ops (current w_F5))) 0 "/a/1" /\
  snd (t_step all_fix (t_run_fx all_fix w_F4p) (Delete 0)) = None.
Proof. vm_compute. repeat split; reflexivity. Qed.
Print Assumptions C06_repaired_examples.

(** non-vacuity: the hypotheses of the theorems for the tree as it is now hold for
    (1) a history with three sources, shared prefixes, wildcards, rules sharing an
    expression, an update changing one of several rules, a rejected creation, an
    invalid expression, deletion and re-creation; (2) a history in the territory of
    the repaired findings (node boundary in front of ':', a path listed twice, a
    renamed path parameter next to a kept node); (3) a history that goes through
    C06-F1 and C06-F2 (the history-global guards fire) and recovers by deleting and
    re-creating the rule sets *)
Example C06_nonvacuous :
  (wf_history w_plain = true /\ guard_dupid w_plain = false /\ dirty w_plain = [] /\
   length (index (run all_fix w_plain)) = 3 /\ m_answer (run all_fix w_plain) 1 "/b/x" = Some 10) /\
  (wf_history w_now = true /\ guard_dupid w_now = false /\ dirty w_now = [] /\
   guard_F3 w_now = true /\ guard_F4 w_now = true /\ guard_F5 w_now = true /\
   length (current w_now) = 3 /\ length (index (run all_fix w_now)) = 3 /\
   m_answer (run all_fix w_now) 0 "/d" = Some 1 /\ m_answer (run all_fix w_now) 0 "/k/7" = Some 0) /\
  (wf_history w_reset = true /\ guard_dupid w_reset = false /\ guard_F1 w_reset = true /\ guard_F2 w_reset = true /\
   dirty (firstn 4 w_reset) = [0; 1; 0] /\ dirty w_reset = [] /\
   length (index (run all_fix w_reset)) = 2 /\ m_answer (run all_fix w_reset) 0 "/x" = Some 2).
Proof. vm_compute. repeat split; reflexivity. Qed.
Print Assumptions C06_nonvacuous.
