(** C06 — After any rule-set history, matching equals a fresh load of the current
    rule sets.  Property theorems only; proofs are in C06/Proofs.v (and the files
    it imports), witnesses in C06/Witness.v.

    Vocabulary (C06/Model.v, C06/Spec.v):
    - [run fx ops] the repository model (AddRuleSet / UpdateRuleSet / DeleteRuleSet of
      repository_impl.go over the abstract index; [Refused]: stopped by the rule-set
      processor) after the history [ops]; [fx] says which of the repairs of
      C06-F3 / F4 / F5 the code contains: [all_fix] is the tree as it is now
      (fix: commits 2d9cd1f, 003095f, f6ce52b), [no_fix] the tree as it is with
      these three repairs reverted (NOT the pinned commit: the other tree.go repairs
      20f92b3, e897fef, 88da16a, 16cf34b stay in place in every variant);
    - [current ops] the rule sets that exist after [ops] according to the
      specification: a creation / update that can be applied ([spec_ok]: all path
      expressions valid — which includes compatible wildcard names for equal
      patterns, tree.go reports both as "invalid path" —, no expression owned by
      another rule set) replaces the set, one that cannot is ignored, a deletion
      removes it;
    - [fresh fx S] the model after loading the sets [S] once into an empty instance;
    - [wf_history] a rule set is only created when it does not exist;
    - [guard_dupid ops] some rule set submitted in [ops] has two rules with the same
      id (finding C06-F6, repaired by fix: commit 5e2c60e: the rule-set processor now
      refuses such a rule set).  [run] is the repository WITHOUT that check; the
      system as it is now is [prun true] / [pstep true] (C06/Processor.v): the
      repository behind the processor, with the specification [pspec_ok] /
      [pcurrent] / [pwf] / [pdirty] in which a rule set with a duplicate id cannot be
      applied.  THE MAIN STATEMENTS FOR THE TREE AS IT IS NOW ARE THE
      [C06_F6_repaired_*] THEOREMS near the end of this file: they have no
      hypothesis on ids.  The theorems right below are the same statements for the
      bare repository, with the hypothesis [guard_dupid ops = false];
    - [dirty ops] the sources that, after [ops], are in the state the open findings
      C06-F1 (an update re-appended a changed rule behind unchanged siblings on the
      same expression, or ignored a reordering) or C06-F2 (an accepted rule set in
      which rules sharing an expression differ in backtracking_enabled) leave;
      deleting the rule set cleans its source ([C06_delete_cleans]);
    - [no_guard_fx fx ops] the coarse, history-global form: no guard of a finding
      that the code [fx] has fires anywhere in [ops];
    - (last part of this file) [t_run_fx all_fix ops] the repository over the TRANSCRIBED
      COMPRESSED RADIX TREE of C06/Tree.v (tree.go function by function: addNode,
      splitCommonPrefix, delNode, deleteChild, findNode; the model the implementation is
      compared with on every run) after the history [ops]; [t_step], [t_find_rule] one
      operation / one lookup on it; [t_rel t d] the tree [t] and the abstract index [d]
      hold, pattern by pattern, the same values and flag, the key names of a tree node are
      those of its values, and [t] is well-formed: the kind flags of its nodes agree with
      the slots they hang in ([flags_ok]) and the tree satisfies the shape invariant of
      Find / Add ([wfb], Radix/Tree.v) and of Delete ([shape], C06/TreeDel.v). *)
From HV Require Import Base.Prelude C06.Pat C06.Model C06.Spec C06.Tree C06.ReprFacts C06.Proofs C06.Witness C06.Processor.
From HV Require Import C06.RepoSim C06.TreeBridge C06.TreeTheorems.
From HV Require Radix.Spec Radix.Machine Radix.Tree Radix.TreeAddProofs C06.TreeDel C06.TreeDelProofs.

(** THE TREE AS IT IS NOW: when no source is left in the state C06-F1 / C06-F2
    leave, the index after the history is the index of a fresh load of the current
    rule sets (the index is kept in a canonical order, so this is equality) *)
Theorem C06_history_equals_fresh : forall ops,
  wf_history ops = true -> guard_dupid ops = false -> dirty ops = [] ->
  index (run all_fix ops) = index (fresh all_fix (current ops)).
Proof. exact now_history_equals_fresh. Qed.
Print Assumptions C06_history_equals_fresh.

(** the coarse form, for every combination of the repairs, in particular the
    variant [no_fix] (the repairs of C06-F3/F4/F5 reverted: all six guards) *)
Theorem C06_history_equals_fresh_any : forall fx ops,
  wf_history ops = true -> no_guard_fx fx ops = true ->
  index (run fx ops) = index (fresh fx (current ops)).
Proof. exact history_equals_fresh_guards. Qed.
Print Assumptions C06_history_equals_fresh_any.

(** hence every request, under every outcome of the rules' conditions, finds the
    same rule as in a fresh instance *)
Theorem C06_lookups_equal_fresh : forall ops,
  wf_history ops = true -> guard_dupid ops = false -> dirty ops = [] ->
  forall pinned_lookup path (conditions : route -> bool),
    find_rule pinned_lookup (index (run all_fix ops)) path conditions =
    find_rule pinned_lookup (index (fresh all_fix (current ops))) path conditions.
Proof. exact now_lookups_equal_fresh. Qed.
Print Assumptions C06_lookups_equal_fresh.

(** deleting a rule set ends whatever C06-F1 / C06-F2 did to its source *)
Theorem C06_delete_cleans : forall ops s, ~ In s (dirty (ops ++ [Delete s])).
Proof. exact delete_cleans. Qed.
Print Assumptions C06_delete_cleans.

(** The following hold ALSO for histories that went through C06-F1 / C06-F2 (no
    hypothesis on [dirty]). *)

(** after any history, an operation is rejected exactly when it cannot be applied
    (invalid path expression incl. incompatible wildcard names, expression owned by
    another rule set), and then nothing changes *)
Theorem C06_rejected_iff_cannot_apply : forall ops o,
  wf_history (ops ++ [o]) = true -> guard_dupid (ops ++ [o]) = false ->
  exists st' res, step all_fix (run all_fix ops) o = (st', res) /\
    (res = None <-> spec_ok (current ops) o = true) /\ (res <> None -> st' = run all_fix ops).
Proof. exact now_rejected_iff_cannot_apply. Qed.
Print Assumptions C06_rejected_iff_cannot_apply.

(** rules of deleted or replaced versions never match again: whatever a lookup
    returns belongs to the current version of an existing rule set *)
Theorem C06_deleted_never_match : forall ops,
  wf_history ops = true -> guard_dupid ops = false ->
  forall pinned_lookup path conditions r,
    find_rule pinned_lookup (index (run all_fix ops)) path conditions = Some r ->
    In (r_def r) (get_set (current ops) (r_src r)).
Proof. exact now_found_is_current. Qed.
Print Assumptions C06_deleted_never_match.

(** unchanged (and all other current) rules keep working: every route of every
    rule of a current rule set is a value of the node of its pattern *)
Theorem C06_current_rules_indexed : forall ops,
  wf_history ops = true -> guard_dupid ops = false ->
  forall r x p, In (r_def r) (get_set (current ops) (r_src r)) -> In x (routes_of r) -> rpat x = Some p ->
    exists n, get (index (run all_fix ops)) p = Some n /\ In x (vals n).
Proof. exact now_current_rules_indexed. Qed.
Print Assumptions C06_current_rules_indexed.

(** same-source constraint: the rules sharing a path expression come from one rule set *)
Theorem C06_same_source_constraint : forall ops,
  wf_history ops = true -> guard_dupid ops = false ->
  forall q n x y, get (index (run all_fix ops)) q = Some n -> In x (vals n) -> In y (vals n) -> rt_src x = rt_src y.
Proof. exact now_node_has_one_source. Qed.
Print Assumptions C06_same_source_constraint.

(** ** the open findings C06-F1, C06-F2, for the code AS IT IS NOW (repository
    behind the processor, [prun true all_fix]): on the witness both forms of the
    guard fire — the history-global one ([guard_F1] / [guard_F2], hypothesis of
    [C06_history_equals_fresh_any]) and the per-source one the main theorems and the
    evaluator use ([pdirty ops <> []]) — and the property fails *)

Theorem C06_F1_refuted : exists ops meth path,
  pwf ops = true /\ guard_F1 ops = true /\ pdirty ops <> [] /\
  m_answer (prun true all_fix ops) meth path <> m_answer (fresh all_fix (pcurrent ops)) meth path.
Proof.
  exists w_F1, 0, "/x"%string. destruct w_F1_f6 as (A & B & C & D & E). rewrite C, D, E.
  repeat split; auto; discriminate.
Qed.
Print Assumptions C06_F1_refuted.

Theorem C06_F2_refuted : exists ops meth path,
  pwf ops = true /\ guard_F2 ops = true /\ pdirty ops <> [] /\
  m_answer (prun true all_fix ops) meth path <> m_answer (fresh all_fix (pcurrent ops)) meth path.
Proof.
  exists w_F2, 0, "/y"%string. destruct w_F2_f6 as (A & B & C & D & E). rewrite C, D, E.
  repeat split; auto; discriminate.
Qed.
Print Assumptions C06_F2_refuted.

(** ** the repaired findings: witnesses for the model variant BEFORE the named commit.
    C06-F3 (before 2d9cd1f), C06-F4 (before 003095f), C06-F5 (before f6ce52b): variant
    [no_fix] (F3 and F5 on the transcribed tree: node compression, key names);
    C06-F6 (before 5e2c60e): [prun false], the repository without the processor's check *)

Theorem C06_F3_pinned_refuted : exists ops meth path,
  wf_history ops = true /\ guard_F3 ops = true /\
  t_answer (t_run ops) meth path <> t_answer (t_run (fresh_ops (current ops))) meth path.
Proof. exists w_F3, 0, "/a:b"%string. destruct w_F3_ok as (A & B & _ & C & D). rewrite C, D. repeat split; auto. discriminate. Qed.
Print Assumptions C06_F3_pinned_refuted.

Theorem C06_F4_pinned_refuted : exists ops meth path,
  wf_history ops = true /\ guard_F4 ops = true /\
  m_answer (run no_fix ops) meth path <> m_answer (fresh no_fix (current ops)) meth path.
Proof. exists w_F4, 0, "/d"%string. destruct w_F4_ok as (A & B & C & D). rewrite C, D. repeat split; auto. discriminate. Qed.
Print Assumptions C06_F4_pinned_refuted.

(** the same defect could end in a Go panic instead of an error *)
Theorem C06_F4_pinned_panic : exists ops s,
  wf_history (ops ++ [Delete s]) = true /\ guard_F4 ops = true /\
  snd (t_step no_fix (t_run ops) (Delete s)) = Some EPanic.
Proof. exists w_F4p, 0. exact w_F4p_ok. Qed.
Print Assumptions C06_F4_pinned_panic.

Theorem C06_F5_pinned_refuted : exists ops meth path,
  wf_history ops = true /\ guard_F5 ops = true /\
  t_answer (t_run ops) meth path <> t_answer (t_run (fresh_ops (current ops))) meth path.
Proof. exists w_F5, 0, "/a/1"%string. destruct w_F5_ok as (A & B & C & D). rewrite C, D. repeat split; auto. discriminate. Qed.
Print Assumptions C06_F5_pinned_refuted.

(** C06-F6 (repaired by 5e2c60e in the processor): without the check ([prun false],
    which is [run]) a rule set with a duplicate id reaches the repository, which
    loses the unchanged twin; with the check the same history passes
    ([C06_F6_repaired_example]) *)
Theorem C06_F6_pinned_refuted : exists ops meth path,
  wf_history ops = true /\ guard_dupid ops = true /\
  m_answer (prun false all_fix ops) meth path <> m_answer (fresh all_fix (current ops)) meth path.
Proof.
  exists w_F6_now, 0, "/p"%string. rewrite prun_false. destruct w_F6_now_ok as (A & B & C & D). rewrite C, D.
  repeat split; auto. discriminate.
Qed.
Print Assumptions C06_F6_pinned_refuted.

(** with the repairs the same witnesses pass (models with [all_fix]) *)
Example C06_repaired_examples :
  m_answer (run all_fix w_F4) 0 "/d" = m_answer (fresh all_fix (current w_F4)) 0 "/d" /\
  t_answer (t_run_fx all_fix w_F3) 0 "/a:b" = t_answer (t_run_fx all_fix (fresh_ops (current w_F3))) 0 "/a:b" /\
  t_answer (t_run_fx all_fix w_F5) 0 "/a/1" = t_answer (t_run_fx all_fix (fresh_ops (current w_F5))) 0 "/a/1" /\
  snd (t_step all_fix (t_run_fx all_fix w_F4p) (Delete 0)) = None.
Proof. vm_compute. repeat split; reflexivity. Qed.
Print Assumptions C06_repaired_examples.

(** non-vacuity: the hypotheses of the theorems for the tree as it is now hold for
    (1) a history with three sources, shared prefixes, wildcards, rules sharing an
    expression, an update changing one of several rules, a rejected creation, an
    invalid expression, deletion and re-creation; (2) a history in the territory of
    the repaired findings (node boundary in front of ':', a path listed twice, a
    renamed path parameter next to a kept node); (3) a history that goes through
    C06-F1 and C06-F2 (the history-global guards fire) and recovers by deleting and
    re-creating the rule sets; (4) the hypotheses [pwf] / [pdirty] of the main
    ([C06_F6_repaired_*]) statements hold for all three, and for a history in which
    two updates with a duplicate rule id are refused between accepted operations and
    leave no trace *)
Example C06_nonvacuous :
  (wf_history w_plain = true /\ guard_dupid w_plain = false /\ dirty w_plain = [] /\
   length (index (run all_fix w_plain)) = 3 /\ m_answer (run all_fix w_plain) 1 "/b/x" = Some 10) /\
  (wf_history w_now = true /\ guard_dupid w_now = false /\ dirty w_now = [] /\
   guard_F3 w_now = true /\ guard_F4 w_now = true /\ guard_F5 w_now = true /\
   length (current w_now) = 3 /\ length (index (run all_fix w_now)) = 3 /\
   m_answer (run all_fix w_now) 0 "/d" = Some 1 /\ m_answer (run all_fix w_now) 0 "/k/7" = Some 0) /\
  (wf_history w_reset = true /\ guard_dupid w_reset = false /\ guard_F1 w_reset = true /\ guard_F2 w_reset = true /\
   dirty (firstn 4 w_reset) = [0; 1; 0] /\ dirty w_reset = [] /\
   length (index (run all_fix w_reset)) = 2 /\ m_answer (run all_fix w_reset) 0 "/x" = Some 2) /\
  (pwf w_plain = true /\ pdirty w_plain = [] /\ pwf w_reset = true /\ pdirty w_reset = [] /\
   pwf w_now = true /\ pdirty w_now = []) /\
  (pwf w_refused = true /\ pdirty w_refused = [] /\ guard_dupid w_refused = true /\
   length (pcurrent w_refused) = 1 /\ length (index (prun true all_fix w_refused)) = 3 /\
   m_answer (prun true all_fix (firstn 2 w_refused)) 0 "/p" = Some 0 /\
   m_answer (prun true all_fix w_refused) 0 "/p" = Some 1 /\ m_answer (prun true all_fix w_refused) 0 "/r" = None).
Proof. vm_compute. repeat split; reflexivity. Qed.
Print Assumptions C06_nonvacuous.

(** ** THE COMPRESSED RADIX TREE.  Everything above is about the repository over the abstract
    pattern-map index; the following theorems carry it down to the transcription of tree.go
    (node compression, prefix splits in addNode, child pruning and merging in deleteChild,
    wildcard key names), for the code as it is now (repairs 2d9cd1f, 003095f, f6ce52b). *)

(** one Tree.Add of a route: same outcome (applied / invalid path / constraint violated) on the
    tree and on the abstract index, and the relation - which includes the tree invariant - is kept *)
Theorem C06_tree_add_refines : forall t d v,
  t_rel t d -> osim t_rel (t_add1 t v) (m_add1 d v).
Proof. exact t_add1_sim. Qed.
Print Assumptions C06_tree_add_refines.

(** one Tree.Delete of a route with a valid path expression (the repository only deletes
    routes it has added): it fails on the tree iff it fails on the abstract index; otherwise
    the relation - with the invariant, through child pruning and node merging - is kept *)
Theorem C06_tree_delete_refines : forall t d r v,
  t_rel t d -> valid v -> osim t_rel (t_del1 all_fix t r v) (m_del1 all_fix d r v).
Proof. exact t_del1_sim. Qed.
Print Assumptions C06_tree_delete_refines.

(** the same at the level of the radix tree alone, for any type of values: on a tree that
    satisfies the invariant, Delete of a valid expression is the pattern-map machine's delete
    on the abstraction of the tree, and the invariant is preserved *)
Theorem C06_radix_delete_refines_machine : forall (V : Type) (matcher : V -> bool) (t : Radix.Tree.tree V) e p ks,
  C06.TreeDel.wfd t = true -> Radix.Spec.parse_expr e = Some (p, ks) ->
  match C06.TreeDel.tree_delete matcher t e with
  | None => Radix.Machine.delete (Radix.Tree.abs t) p matcher = Radix.Machine.DFailed
  | Some t' =>
    C06.TreeDel.wfd t' = true /\
    exists d', Radix.Machine.delete (Radix.Tree.abs t) p matcher = Radix.Machine.DOk d' /\
               Radix.TreeAddProofs.same_entries V (Radix.Tree.abs t') d'
  end.
Proof. exact C06.TreeDelProofs.tree_delete_refines. Qed.
Print Assumptions C06_radix_delete_refines_machine.

(** after EVERY history of rule-set creations / updates / deletions the transcribed tree is
    well-formed ... *)
Theorem C06_tree_invariant : forall ops,
  flags_ok (index (t_run_fx all_fix ops)) = true /\
  C06.TreeDel.wfd (emb (index (t_run_fx all_fix ops))) = true.
Proof. exact tree_invariant. Qed.
Print Assumptions C06_tree_invariant.

(** ... and the repository over it behaves like the repository over the abstract index: same
    known rules, every lookup finds the same rule, every further operation has the same
    outcome (no hypothesis on the history: also through C06-F1 / F2 / F6) *)
Theorem C06_tree_refines_index : forall ops,
  known (t_run_fx all_fix ops) = known (run all_fix ops) /\
  (forall path (conditions : route -> bool),
     t_find_rule false (index (t_run_fx all_fix ops)) path conditions =
     find_rule false (index (run all_fix ops)) path conditions) /\
  (forall o, snd (t_step all_fix (t_run_fx all_fix ops) o) = snd (step all_fix (run all_fix ops) o)).
Proof. exact tree_refines_index. Qed.
Print Assumptions C06_tree_refines_index.

(** hence the main theorem holds of the compressed tree: when no source is left in the state
    C06-F1 / C06-F2 leave, every request, under every outcome of the rules' conditions, finds in
    the tree that went through the history the rule it finds in a tree freshly loaded with the
    current rule sets *)
Theorem C06_tree_history_equals_fresh : forall ops,
  wf_history ops = true -> guard_dupid ops = false -> dirty ops = [] ->
  forall path (conditions : route -> bool),
    t_find_rule false (index (t_run_fx all_fix ops)) path conditions =
    t_find_rule false (index (t_run_fx all_fix (fresh_ops (current ops)))) path conditions.
Proof. exact tree_history_equals_fresh. Qed.
Print Assumptions C06_tree_history_equals_fresh.

(** "exactly": rule, wildcard key names AND captured path values.  [Radix.Tree.tree_find] is
    findNode (Radix/Tree.v: the transcription with key names and captures, all lookup repairs)
    with conditions that may read the key names and the captures (path_params conditions);
    run on the tree that went through the history it returns what it returns on a freshly
    loaded tree.  ([t_find_rule] above is the rule part of this answer: [t_find_rule_is_radix_find].) *)
Theorem C06_tree_captures_equal_fresh : forall ops,
  wf_history ops = true -> guard_dupid ops = false -> dirty ops = [] ->
  forall path (conditions : route -> list str -> list str -> bool),
    Radix.Tree.tree_find true true true conditions (emb (index (t_run_fx all_fix ops))) path =
    Radix.Tree.tree_find true true true conditions (emb (index (t_run_fx all_fix (fresh_ops (current ops))))) path.
Proof. exact tree_captures_equal_fresh. Qed.
Print Assumptions C06_tree_captures_equal_fresh.

(** no creation / update / deletion of any history ends in one of the panics the
    transcription models — the slice bound in delNode (former C06-F4, cf.
    [C06_F4_pinned_panic] for the variant before 003095f) and fuel exhaustion;
    lookups, captures ([found.wildcardKeys[i]]) and nil dereferences are not covered *)
Theorem C06_tree_never_panics : forall ops o,
  snd (t_step all_fix (t_run_fx all_fix ops) o) <> Some EPanic.
Proof. exact tree_never_panics. Qed.
Print Assumptions C06_tree_never_panics.

(** non-vacuity of the Delete side: an update that removes a rule prunes a whole subtree
    (static, single-wildcard and free-wildcard nodes) and merges the node "ab" with its
    remaining child "c": the tree becomes, node by node, the freshly loaded one *)
Example C06_tree_prune_merge_example :
  let ops := [Add 0 [mkd 0 0 false [] ["/abc"; "/ab"]; mkd 1 0 false [] ["/abd"; "/x/:id/y"; "/x/*rest"]];
              Update 0 [mkd 0 0 false [] ["/abc"; "/ab"]];
              Update 0 [mkd 0 1 false [] ["/abc"]]]%string in
  index (t_run_fx all_fix ops) = index (t_run_fx all_fix [Add 0 [mkd 0 1 false [] ["/abc"%string]]]) /\
  index (t_run_fx all_fix (firstn 2 ops)) <> index (t_run_fx all_fix (firstn 1 ops)).
Proof. vm_compute. split; [reflexivity | discriminate]. Qed.
Print Assumptions C06_tree_prune_merge_example.

(** ** THE TREE AS IT IS NOW, behind the rule-set processor (fix: commit 5e2c60e
    for C06-F6: the processor refuses a rule set in which a rule id occurs twice).  [prun true] / [pstep true]
    are the repository behind that processor, [pcurrent] / [pspec_ok] / [pwf] /
    [pdirty] the specification in which such a rule set cannot be applied.  "No
    duplicate ids" is then a consequence of acceptance, not a hypothesis. *)

Theorem C06_F6_repaired_history_equals_fresh : forall ops,
  pwf ops = true -> pdirty ops = [] ->
  index (prun true all_fix ops) = index (fresh all_fix (pcurrent ops)).
Proof. exact f6_history_equals_fresh. Qed.
Print Assumptions C06_F6_repaired_history_equals_fresh.

Theorem C06_F6_repaired_rejected_iff_cannot_apply : forall ops o,
  pwf (ops ++ [o]) = true ->
  exists st' res, pstep true all_fix (prun true all_fix ops) o = (st', res) /\
    (res = None <-> pspec_ok (pcurrent ops) o = true) /\ (res <> None -> st' = prun true all_fix ops).
Proof. exact f6_rejected_iff_cannot_apply. Qed.
Print Assumptions C06_F6_repaired_rejected_iff_cannot_apply.

Theorem C06_F6_repaired_deleted_never_match : forall ops,
  pwf ops = true ->
  forall pinned_lookup path conditions r,
    find_rule pinned_lookup (index (prun true all_fix ops)) path conditions = Some r ->
    In (r_def r) (get_set (pcurrent ops) (r_src r)).
Proof. exact f6_found_is_current. Qed.
Print Assumptions C06_F6_repaired_deleted_never_match.

Theorem C06_F6_repaired_current_rules_indexed : forall ops,
  pwf ops = true ->
  forall r x p, In (r_def r) (get_set (pcurrent ops) (r_src r)) -> In x (routes_of r) -> rpat x = Some p ->
    exists n, get (index (prun true all_fix ops)) p = Some n /\ In x (vals n).
Proof. exact f6_current_rules_indexed. Qed.
Print Assumptions C06_F6_repaired_current_rules_indexed.

(** on the transcribed radix tree *)
Theorem C06_F6_repaired_tree_history_equals_fresh : forall ops,
  pwf ops = true -> pdirty ops = [] ->
  forall path (conditions : route -> bool),
    t_find_rule false (index (t_prun true all_fix ops)) path conditions =
    t_find_rule false (index (t_run_fx all_fix (fresh_ops (pcurrent ops)))) path conditions.
Proof. exact f6_tree_history_equals_fresh. Qed.
Print Assumptions C06_F6_repaired_tree_history_equals_fresh.

Theorem C06_F6_repaired_lookups_equal_fresh : forall ops,
  pwf ops = true -> pdirty ops = [] ->
  forall pinned_lookup path (conditions : route -> bool),
    find_rule pinned_lookup (index (prun true all_fix ops)) path conditions =
    find_rule pinned_lookup (index (fresh all_fix (pcurrent ops))) path conditions.
Proof. exact f6_lookups_equal_fresh. Qed.
Print Assumptions C06_F6_repaired_lookups_equal_fresh.

Theorem C06_F6_repaired_same_source_constraint : forall ops,
  pwf ops = true ->
  forall q n x y, get (index (prun true all_fix ops)) q = Some n -> In x (vals n) -> In y (vals n) -> rt_src x = rt_src y.
Proof. exact f6_node_has_one_source. Qed.
Print Assumptions C06_F6_repaired_same_source_constraint.

(** key names and captured values (findNode as transcribed WITH them in Radix/Tree.v,
    run on the tree of C06/Tree.v) *)
Theorem C06_F6_repaired_tree_captures_equal_fresh : forall ops,
  pwf ops = true -> pdirty ops = [] ->
  forall path (conditions : Radix.Spec.matcher route),
    Radix.Tree.tree_find true true true conditions (emb (index (t_prun true all_fix ops))) path =
    Radix.Tree.tree_find true true true conditions (emb (index (t_run_fx all_fix (fresh_ops (pcurrent ops))))) path.
Proof. exact f6_tree_captures_equal_fresh. Qed.
Print Assumptions C06_F6_repaired_tree_captures_equal_fresh.

(** the witness of C06-F6 passes with the repair *)
Example C06_F6_repaired_example :
  pwf w_F6_now = true /\ pdirty w_F6_now = [] /\
  m_answer (prun true all_fix w_F6_now) 0 "/p" = Some 0 /\
  m_answer (fresh all_fix (pcurrent w_F6_now)) 0 "/p" = Some 0 /\
  t_answer (t_prun true all_fix w_F6_now) 0 "/p" = Some 0.
Proof. exact f6_repaired_example. Qed.
Print Assumptions C06_F6_repaired_example.
