(** C06 — After any rule-set history, matching equals a fresh load of the current
    rule sets.  Property theorems only; proofs are in C06/Proofs.v (and the files
    it imports), witnesses in C06/Witness.v.

    Vocabulary (C06/Model.v, C06/Spec.v):
    - [run fx ops] the repository model (AddRuleSet / UpdateRuleSet / DeleteRuleSet of
      repository_impl.go over the abstract index) after the history [ops]; [fx]
      says which of the candidate repairs fixes/C06-F3/F4/F5.diff the code
      contains ([no_fix]: none) — the theorems hold for every [fx];
    - [current ops] the rule sets that exist after [ops] according to the
      specification: a creation / update that can be applied ([spec_ok]: all
      path expressions valid, no expression owned by another rule set) replaces
      the set, one that cannot is ignored, a deletion removes it;
    - [fresh fx S] the model after loading the sets [S] once into an empty instance;
    - [wf_history] a rule set is only created when it does not exist;
    - [no_guard_fx fx ops] none of the guards of the findings C06-F1 … F6 that the
      code still has fires on [ops]; [no_guard_fx no_fix] is all six guards.
      ([guard_F3] and [guard_F5] are about node compression and stale key names,
      which the abstract index does not have; they are hypotheses here because the
      implementation is only claimed to behave like this model outside them — see
      the level note.  With the repairs they are not needed.) *)
From HV Require Import Base.Prelude C06.Pat C06.Model C06.Spec C06.Tree C06.Proofs C06.Witness.

(** the index after any history is the index of a fresh load of the current
    rule sets (the index is kept in a canonical order, so this is equality) *)
Theorem C06_history_equals_fresh : forall fx ops,
  wf_history ops = true -> no_guard_fx fx ops = true ->
  index (run fx ops) = index (fresh fx (current ops)).
Proof. exact history_equals_fresh. Qed.
Print Assumptions C06_history_equals_fresh.

(** hence every request, under every outcome of the rules' conditions, finds the
    same rule as in a fresh instance *)
Theorem C06_lookups_equal_fresh : forall fx ops,
  wf_history ops = true -> no_guard_fx fx ops = true ->
  forall pinned_lookup path (conditions : route -> bool),
    find_rule pinned_lookup (index (run fx ops)) path conditions =
    find_rule pinned_lookup (index (fresh fx (current ops))) path conditions.
Proof. exact lookups_equal_fresh. Qed.
Print Assumptions C06_lookups_equal_fresh.

(** a rejected change leaves the repository unchanged — for every state and
    every operation, no hypothesis *)
Theorem C06_rejected_is_noop : forall fx (st : repo) o st' e,
  step fx st o = (st', Some e) -> st' = st.
Proof. exact rejected_is_noop. Qed.
Print Assumptions C06_rejected_is_noop.

(** after any history, an operation is rejected exactly when it cannot be applied
    (invalid path expression, expression owned by another rule set), and then
    nothing changes *)
Theorem C06_rejected_iff_cannot_apply : forall fx ops o,
  wf_history (ops ++ [o]) = true -> no_guard_fx fx (ops ++ [o]) = true ->
  exists st' res, step fx (run fx ops) o = (st', res) /\
    (res = None <-> spec_ok (current ops) o = true) /\ (res <> None -> st' = run fx ops).
Proof. exact rejected_iff_cannot_apply. Qed.
Print Assumptions C06_rejected_iff_cannot_apply.

(** rules of deleted or replaced versions never match again: whatever a lookup
    returns belongs to the current version of an existing rule set *)
Theorem C06_deleted_never_match : forall fx ops,
  wf_history ops = true -> no_guard_fx fx ops = true ->
  forall pinned_lookup path conditions r,
    find_rule pinned_lookup (index (run fx ops)) path conditions = Some r ->
    In (r_def r) (get_set (current ops) (r_src r)).
Proof. exact found_is_current. Qed.
Print Assumptions C06_deleted_never_match.

(** same-source constraint: the rules sharing a path expression come from one rule set *)
Theorem C06_same_source_constraint : forall fx ops,
  wf_history ops = true -> no_guard_fx fx ops = true ->
  forall q n x y, get (index (run fx ops)) q = Some n -> In x (vals n) -> In y (vals n) -> rt_src x = rt_src y.
Proof. exact node_has_one_source. Qed.
Print Assumptions C06_same_source_constraint.

(** ** the findings: each guard fires on a history on which the property fails
    (for the code without the candidate repairs: [run] is [Model.run no_fix] etc.) *)

Theorem C06_F1_refuted : exists ops meth path,
  wf_history ops = true /\ guard_F1 ops = true /\
  m_answer (run no_fix ops) meth path <> m_answer (fresh no_fix (current ops)) meth path.
Proof. exists w_F1, 0, "/x"%string. destruct w_F1_ok as (A & B & C & D). rewrite C, D. repeat split; auto. discriminate. Qed.
Print Assumptions C06_F1_refuted.

Theorem C06_F2_refuted : exists ops meth path,
  wf_history ops = true /\ guard_F2 ops = true /\
  m_answer (run no_fix ops) meth path <> m_answer (fresh no_fix (current ops)) meth path.
Proof. exists w_F2, 0, "/y"%string. destruct w_F2_ok as (A & B & C & D). rewrite C, D. repeat split; auto. discriminate. Qed.
Print Assumptions C06_F2_refuted.

(** on the transcribed tree (node compression, key names) *)
Theorem C06_F3_refuted : exists ops meth path,
  wf_history ops = true /\ guard_F3 ops = true /\
  t_answer (t_run ops) meth path <> t_answer (t_run (fresh_ops (current ops))) meth path.
Proof. exists w_F3, 0, "/a:b"%string. destruct w_F3_ok as (A & B & _ & C & D). rewrite C, D. repeat split; auto. discriminate. Qed.
Print Assumptions C06_F3_refuted.

Theorem C06_F4_refuted : exists ops meth path,
  wf_history ops = true /\ guard_F4 ops = true /\
  m_answer (run no_fix ops) meth path <> m_answer (fresh no_fix (current ops)) meth path.
Proof. exists w_F4, 0, "/d"%string. destruct w_F4_ok as (A & B & C & D). rewrite C, D. repeat split; auto. discriminate. Qed.
Print Assumptions C06_F4_refuted.

(** the same defect can end in a Go panic instead of an error *)
Theorem C06_F4_panic : exists ops s,
  guard_F4 ops = true /\ snd (t_step no_fix (t_run ops) (Delete s)) = Some EPanic.
Proof. exists w_F4p, 0. exact w_F4p_ok. Qed.
Print Assumptions C06_F4_panic.

Theorem C06_F5_refuted : exists ops meth path,
  wf_history ops = true /\ guard_F5 ops = true /\
  t_answer (t_run ops) meth path <> t_answer (t_run (fresh_ops (current ops))) meth path.
Proof. exists w_F5, 0, "/a/1"%string. destruct w_F5_ok as (A & B & C & D). rewrite C, D. repeat split; auto. discriminate. Qed.
Print Assumptions C06_F5_refuted.

Theorem C06_F6_refuted : exists ops meth path,
  wf_history ops = true /\ guard_dupid ops = true /\
  m_answer (run no_fix ops) meth path <> m_answer (fresh no_fix (current ops)) meth path.
Proof. exists w_F6, 0, "/p"%string. destruct w_F6_ok as (A & B & C & D). rewrite C, D. repeat split; auto. discriminate. Qed.
Print Assumptions C06_F6_refuted.

(** the witnesses of C06-F3, F4, F5 with the candidate repairs: history = fresh *)
Example C06_repaired_examples :
  m_answer (run all_fix w_F4) 0 "/d" = m_answer (fresh all_fix (current w_F4)) 0 "/d" /\
  t_answer (t_run_fx all_fix w_F3) 0 "/a:b" = t_answer (t_run_fx all_fix (fresh_ops (current w_F3))) 0 "/a:b" /\
  t_answer (t_run_fx all_fix w_F5) 0 "/a/1" = t_answer (t_run_fx all_fix (fresh_ops (current w_F5))) 0 "/a/1" /\
  snd (t_step all_fix (t_run_fx all_fix w_F4p) (Delete 0)) = None.
Proof. vm_compute. repeat split; reflexivity. Qed.
Print Assumptions C06_repaired_examples.

(** non-vacuity: a history with three sources, shared prefixes, wildcards, rules
    sharing an expression, an update changing one of several rules, a rejected
    creation, an invalid expression, deletion and re-creation satisfies the
    hypotheses of the theorems above *)
Example C06_nonvacuous :
  wf_history w_plain = true /\ no_guard_fx no_fix w_plain = true /\
  length (current w_plain) = 3 /\ length (index (run no_fix w_plain)) = 3 /\
  m_answer (run no_fix w_plain) 1 "/b/x" = Some 10 /\ m_answer (run no_fix w_plain) 0 "/ab/zz" = Some 50.
Proof. destruct w_plain_ok as (A & B & _ & C & D & E & _ & F & _). repeat split; assumption. Qed.
Print Assumptions C06_nonvacuous.
