(** C08 — placeholder, filled below *)
From HV Require Import Base.Prelude Base.GoUrl.
