(** C08 — Percent-encoding cannot change the matched rule; encoded slashes obey
    the rule.  Property theorems only; proofs are in C08/Proofs.v, the
    specification vocabulary in C08/Spec.v.

    [serve fx rules dflt host p q] is the way of one request with path [p] and
    query [q] through net/http's target parsing, requestcontext.extractURL,
    repository.FindRule, the route matchers and ruleImpl.Execute (C08/Model.v).
    [fx] says which repairs the modelled tree contains:
      [repaired]  the tree as it is now (fix: commits a779db8: lower-case %2f recognised,
                  72ba5d4: path_params decoded under `off`, 6d0a3af: captured values decoded
                  piece by piece without a place-holder, d3f6cd7: unparsable X-Forwarded-Uri used
                  as received, 41fd1db / 5270ed2: C15-F1 / C15-F6),
      [before_F6] the tree before d3f6cd7 (kept to document finding C08-F6),
      [before_F5] the tree before 6d0a3af (kept to document finding C08-F5),
      [fixed_F2]  the tree before 72ba5d4 (kept to document finding C08-F3),
      [pinned]    the tree before a779db8 (kept to document finding C08-F2).

    [reenc p p'] (Base/GoUrlFacts.v): [p'] spells the same path as [p] — any
    unreserved octet percent-encoded or decoded, the hex digits of any escape in
    either case (so %2F and %2f are equivalent spellings); both well-formed.

    Open findings and their guards (conditions on the input, C08/Spec.v):
      C08-F1 [guard_F1 rules p p']  some path expression of the rule set matches one of the two
                                    spellings (literals byte for byte) and not the other
      C08-F4 [guard_F4 p]           a byte net/url does not accept in an encoded path

    Entry points: [serve] = heimdall's own HTTP server (origin-form target), [serve_envoy] = Envoy
    ext_authz, [serve_xfu] = HTTP server with the target handed over in X-Forwarded-Uri (the
    proxy's own request goes to [own]).  Inside the guard of C08-F1 everything below except the
    four [C08_reencoding_invariant*] theorems (sections 1, 4, 6) still holds: only WHICH rule is
    found depends on the spelling; the found rule always matches the path as it is spelled
    (section 5).  [accepted_spec], [expected_wire] and the guards are defined in C08/Spec.v. *)
From HV Require Import Base.Prelude Base.GoUrl Base.GoUrlFacts C08.Model C08.Proofs.

Local Open Scope string_scope.

(** * 1. Re-encoding changes neither the answer, nor the rule, nor the captured values *)

(** for all rule sets, with or without default rule, all paths and all their
    equivalent spellings — outside C08-F1 *)
Theorem C08_reencoding_invariant : forall rules dflt host q p p',
  reenc p p' ->
  guard_F1 rules p p' = false ->
  decision_eq (serve repaired rules dflt host p q) (serve repaired rules dflt host p' q).
Proof. exact reencoding_invariant_repaired. Qed.
Print Assumptions C08_reencoding_invariant.

(** the same for every variant of the tree; the guards of repaired findings are not needed *)
Theorem C08_reencoding_invariant_parametric : forall fx rules dflt host q p p',
  reenc p p' ->
  guard_F1 rules p p' = false ->
  (fx2 fx = true \/ guard_F2 p p' = false) ->
  (fx3 fx = true \/ guard_F3 rules = false) ->
  decision_eq (serve fx rules dflt host p q) (serve fx rules dflt host p' q).
Proof. exact reencoding_invariant. Qed.
Print Assumptions C08_reencoding_invariant_parametric.

Theorem C08_F1_refuted : exists rules p p',
  reenc p p' /\ guard_F1 rules p p' = true /\
  ~ decision_eq (serve repaired rules false "h" p "") (serve repaired rules false "h" p' "").
Proof. exact F1_repaired_refuted. Qed.
Print Assumptions C08_F1_refuted.

(** C08-F3 on the tree before 72ba5d4: [guard_F3 rules] = a rule with `off` and path_params *)
Theorem C08_F3_pinned_refuted : exists rules p p',
  reenc p p' /\ guard_F1 rules p p' = false /\ guard_F3 rules = true /\
  ~ decision_eq (serve fixed_F2 rules false "h" p "") (serve fixed_F2 rules false "h" p' "").
Proof. exact F3_pinned_refuted. Qed.
Print Assumptions C08_F3_pinned_refuted.

(** C08-F2 on the tree before a779db8 *)
Theorem C08_F2_pinned_refuted : exists rules p p',
  reenc p p' /\ guard_F1 rules p p' = false /\ guard_F2 p p' = true /\ guard_F3 rules = false /\
  ~ decision_eq (serve pinned rules false "h" p "") (serve pinned rules false "h" p' "").
Proof. exact F2_refuted. Qed.
Print Assumptions C08_F2_pinned_refuted.

(** the hypotheses are satisfiable: an `off` rule with path_params whose parameter is
    spelled with escapes (the former C08-F3 situation), and a request matched
    through literal and wildcard segments with an encoded slash; both accepted *)
Theorem C08_reencoding_invariant_nonvacuous :
  reenc "/api/admin" "/api/%61dmi%6e" /\
  guard_F1 w_rules_F3 "/api/admin" "/api/%61dmi%6e" = false /\
  guard_F3 w_rules_F3 = true /\
  (exists up, serve repaired w_rules_F3 false "h" "/api/%61dmi%6e" "" = Accepted "pp" false [("p1", "admin")] up) /\
  reenc "/api/users/j%2Fd" "/api/users/%6A%2f%64" /\
  guard_F1 w_rules_ok "/api/users/j%2Fd" "/api/users/%6A%2f%64" = false /\
  exists up, serve repaired w_rules_ok false "h" "/api/users/%6A%2f%64" "" = Accepted "users" false [("id", "j%2Fd")] up.
Proof. exact reencoding_invariant_repaired_nonvacuous. Qed.
Print Assumptions C08_reencoding_invariant_nonvacuous.

(** through heimdall's own HTTP server a path with a malformed escape is refused with 400
    before heimdall sees it (so [reenc], which relates well-formed paths only, leaves nothing
    out there; through Envoy a malformed path reaches the rules as it is, through
    X-Forwarded-Uri as well since d3f6cd7) *)
Theorem C08_malformed_rejected : forall fx rules dflt host q p,
  unescape p = None -> serve fx rules dflt host p q = BadRequest.
Proof. exact malformed_rejected. Qed.
Print Assumptions C08_malformed_rejected.

(** every pair of spellings the invariance theorem speaks about is recognised as
    equivalent by the evaluator of the correspondence stream *)
Theorem C08_reenc_checked_by_evaluator : forall s s', reenc s s' -> equiv_paths s s' = true.
Proof. exact reenc_equiv_paths. Qed.
Print Assumptions C08_reenc_checked_by_evaluator.

(** * 2. `off` and the default rule *)

(** a request whose path contains an encoded slash, in either hex case, is never
    accepted by the default rule nor by a rule with `allow_encoded_slashes: off`
    — outside C08-F4 *)
Theorem C08_off_rejects_encoded_slash : forall rules dflt host q p rid d cs up,
  enc_slash p = true ->
  guard_F4 p = false ->
  serve repaired rules dflt host p q = Accepted rid d cs up ->
  d = false /\ exists r, In r rules /\ r_id r = rid /\ r_setting r <> Off.
Proof. exact off_rejects_encoded_slash_repaired. Qed.
Print Assumptions C08_off_rejects_encoded_slash.

Theorem C08_off_rejects_encoded_slash_parametric : forall fx rules dflt host q p rid d cs up,
  enc_slash p = true ->
  guard_F4 p = false ->
  (fx2 fx = true \/ contains "%2f" p = false) ->
  serve fx rules dflt host p q = Accepted rid d cs up ->
  d = false /\ exists r, In r rules /\ r_id r = rid /\ r_setting r <> Off.
Proof. exact off_rejects_encoded_slash. Qed.
Print Assumptions C08_off_rejects_encoded_slash_parametric.

Theorem C08_F4_off_refuted : exists rules p rid cs up,
  enc_slash p = true /\ guard_F4 p = true /\
  (forall r, In r rules -> r_setting r = Off) /\
  serve repaired rules true "h" p "" = Accepted rid false cs up.
Proof. exact F4_off_repaired_refuted. Qed.
Print Assumptions C08_F4_off_refuted.

Theorem C08_F2_off_pinned_refuted : exists rules p rid cs up,
  enc_slash p = true /\ guard_F4 p = false /\ contains "%2f" p = true /\
  (forall r, In r rules -> r_setting r = Off) /\
  serve pinned rules true "h" p "" = Accepted rid false cs up.
Proof. exact F2_off_refuted. Qed.
Print Assumptions C08_F2_off_pinned_refuted.

(** `off`: an accepted request has no encoded slash, and every captured value is a
    piece of the request path (a segment, or the rest of the path from some
    segment on), decoded — outside C08-F4 *)
Theorem C08_off_captures_decoded : forall rules dflt host q p rid cs up,
  p <> "*" ->
  guard_F4 p = false ->
  (forall r, In r rules -> r_id r = rid -> r_setting r = Off) ->
  serve repaired rules dflt host p q = Accepted rid false cs up ->
  enc_slash p = false /\
  Forall (fun kv => exists v, piece_of p v /\ snd kv = unescape_or_empty v) cs.
Proof. exact off_captures_decoded_repaired. Qed.
Print Assumptions C08_off_captures_decoded.

(** * 3. `no_decode` and `on` *)

(** rule_impl.go's [unescape] for `off` and `no_decode` (piece-by-piece decoding
    around the encoded slashes, since 6d0a3af) computes "decode everything except
    the encoded slash (either case), which stays encoded" for every well-formed
    value — no guard *)
Theorem C08_capture_decoding : forall st v,
  wfenc v -> st <> On ->
  unescape_capture repaired st v = decode_keep_slash v.
Proof. exact capture_decoding_repaired_nd. Qed.
Print Assumptions C08_capture_decoding.

(** the place-holder technique used before 6d0a3af computed the same outside
    C08-F2 and C08-F5 ([guard_F5 v] = a '$' in the decoded value) *)
Theorem C08_capture_decoding_parametric : forall fx st v,
  wfenc v ->
  (fx2 fx = true \/ contains "%2f" v = false) ->
  (fx5 fx = true \/ guard_F5 v = false) ->
  unescape_capture fx st v =
  match st with On => unescape_or_empty v | _ => decode_keep_slash v end.
Proof. exact capture_decoding. Qed.
Print Assumptions C08_capture_decoding_parametric.

(** `no_decode`: every captured value is a piece of the request path decoded
    except for the encoded slash, which stays encoded; a rule that forwards
    without rewriting sends the request path as it is — outside C08-F4 *)
Theorem C08_nodecode_keeps : forall rules dflt host q p rid cs up,
  p <> "*" ->
  guard_F4 p = false ->
  (forall r, In r rules -> r_id r = rid -> r_setting r = NoDecode) ->
  serve repaired rules dflt host p q = Accepted rid false cs up ->
  Forall (fun kv => exists v, piece_of p v /\ snd kv = decode_keep_slash v) cs /\
  ((forall r, In r rules -> r_id r = rid -> exists h, r_backend r = Some {| b_host := h; b_rw := None |}) ->
   exists u', up = Some u' /\ u_rawpath u' = p /\ wire_path u' = p).
Proof. exact nodecode_keeps_repaired. Qed.
Print Assumptions C08_nodecode_keeps.

(** `on`: every captured value is a piece of the request path fully decoded (an
    encoded slash becomes '/'); the upstream URL is built from the decoded path,
    its request line contains no encoded slash *)
Theorem C08_on_decodes : forall rules dflt host q p rid cs up,
  p <> "*" ->
  guard_F4 p = false ->
  (forall r, In r rules -> r_id r = rid -> r_setting r = On) ->
  serve repaired rules dflt host p q = Accepted rid false cs up ->
  Forall (fun kv => exists v, piece_of p v /\ snd kv = unescape_or_empty v) cs /\
  ((forall r, In r rules -> r_id r = rid -> exists h, r_backend r = Some {| b_host := h; b_rw := None |}) ->
   exists u', up = Some u' /\ u_rawpath u' = "" /\ u_path u' = unescape_or_empty p /\
              enc_slash (wire_path u') = false).
Proof. exact on_decodes_repaired. Qed.
Print Assumptions C08_on_decodes.

Theorem C08_nodecode_on_nonvacuous :
  serve repaired w_rules_nd false "h" "/files/a%2fb/c%20d" "" =
    Accepted "nd" false [("rest", "a%2Fb/c d")]
      (Some {| u_scheme := "http"; u_host := "up"; u_path := "/files/a/b/c d"; u_rawpath := "/files/a%2fb/c%20d"; u_query := "" |}) /\
  serve repaired w_rules_on false "h" "/files/a%2fb/c%20d" "" =
    Accepted "on" false [("rest", "a/b/c d")]
      (Some {| u_scheme := "http"; u_host := "up"; u_path := "/files/a/b/c d"; u_rawpath := ""; u_query := "" |}).
Proof. exact nodecode_on_repaired_nonvacuous. Qed.
Print Assumptions C08_nodecode_on_nonvacuous.

(** C08-F5 on the tree before 6d0a3af *)
Theorem C08_F5_nodecode_pinned_refuted :
  guard_F5 "/files/x$$$escaped-slash$$$y" = true /\
  (exists up, serve before_F5 w_rules_nd false "h" "/files/x$$$escaped-slash$$$y" "" = Accepted "nd" false [("rest", "x%2Fy")] up) /\
  decode_keep_slash "x$$$escaped-slash$$$y" = "x$$$escaped-slash$$$y".
Proof. exact F5_nodecode_pinned_refuted. Qed.
Print Assumptions C08_F5_nodecode_pinned_refuted.

(** C08-F2 under `no_decode` on the tree before a779db8: the lower-case slash was decoded *)
Theorem C08_F2_nodecode_pinned_refuted :
  contains "%2f" "/files/a%2fb" = true /\ guard_F5 "/files/a%2fb" = false /\
  serve pinned w_rules_nd false "h" "/files/a%2fb" "" =
    Accepted "nd" false [("rest", "a/b")]
      (Some {| u_scheme := "http"; u_host := "up"; u_path := "/files/a/b"; u_rawpath := "/files/a%2fb"; u_query := "" |}) /\
  decode_keep_slash "a%2fb" = "a%2Fb".
Proof. exact F2_nodecode_refuted. Qed.
Print Assumptions C08_F2_nodecode_pinned_refuted.

(** * 4. The Envoy entry point (grpcv3 request context, since fix: commit ae6db4f)

    [serve_envoy]: the received path is the raw path as it is, without net/http's
    target validation and without the EscapedPath round trip. *)

Theorem C08_reencoding_invariant_envoy : forall rules dflt host q p p',
  reenc p p' ->
  guard_F1 rules p p' = false ->
  decision_eq (serve_envoy repaired rules dflt host p q) (serve_envoy repaired rules dflt host p' q).
Proof. exact reencoding_invariant_envoy_repaired. Qed.
Print Assumptions C08_reencoding_invariant_envoy.

(** no guard at all: also with bytes net/url would not accept (C08-F4 does not
    reach the `off` check through Envoy) *)
Theorem C08_off_rejects_encoded_slash_envoy : forall rules dflt host q p rid d cs up,
  enc_slash p = true ->
  serve_envoy repaired rules dflt host p q = Accepted rid d cs up ->
  d = false /\ exists r, In r rules /\ r_id r = rid /\ r_setting r <> Off.
Proof. exact off_rejects_encoded_slash_envoy_repaired. Qed.
Print Assumptions C08_off_rejects_encoded_slash_envoy.

(** … but C08-F4 still shows in the upstream request line under `no_decode` *)
Theorem C08_F4_envoy_upstream_refuted :
  guard_F4 "/files/a%2Fb^" = true /\
  exists u, serve_envoy repaired w_rules_nd false "h" "/files/a%2Fb^" "" = Accepted "nd" false [("rest", "a%2Fb^")] (Some u) /\
            u_rawpath u = "/files/a%2Fb^" /\ wire_path u = "/files/a/b%5E".
Proof. exact F4_envoy_upstream_witness. Qed.
Print Assumptions C08_F4_envoy_upstream_refuted.

(** * 5. Which rule, which captured values, which answer — position by position

    [accepted_spec rules p rid cs up] (C08/Proofs.v): the accepted request was matched by a rule
    [r] with id [rid] through one of its path expressions [t] that matches the path as it is
    spelled ([rmatch]); the captured values are exactly the segments at [t]'s wildcards (the rest of
    the path for a free wildcard; [route_caps]), decoded as the rule's setting says ([spec_capture]:
    `no_decode` keeps the encoded slash); an `off` rule never accepts a path with an encoded slash;
    a `no_decode` rule sends upstream the request path as it is after its prefix rewriting
    ([expected_wire]), whenever net/url writes that path unchanged. *)
Theorem C08_accepted_request : forall rules dflt host q p rid cs up,
  p <> "*" -> guard_F4 p = false ->
  serve repaired rules dflt host p q = Accepted rid false cs up ->
  accepted_spec rules p rid cs up.
Proof. exact accepted_http. Qed.
Print Assumptions C08_accepted_request.

Theorem C08_accepted_request_envoy : forall rules dflt host q p rid cs up,
  is_empty p = false -> wfenc p ->
  serve_envoy repaired rules dflt host p q = Accepted rid false cs up ->
  accepted_spec rules p rid cs up.
Proof. exact accepted_envoy. Qed.
Print Assumptions C08_accepted_request_envoy.

Theorem C08_accepted_request_xfu : forall rules dflt host own q p rid cs up,
  guard_F6 p = false -> guard_F4 p = false -> has_prefix "/" p = true ->
  serve_xfu repaired rules dflt host own p q = Accepted rid false cs up ->
  accepted_spec rules p rid cs up.
Proof. exact accepted_xfu. Qed.
Print Assumptions C08_accepted_request_xfu.

(** the precondition answer, for mixed rule sets: if every path expression that matches the
    path as it is spelled belongs to an `off` rule, a path with an encoded slash is answered with
    the precondition error (400 from net/http aside) — or with "no rule", but only when no default
    rule is configured and every such expression carries path_params (pathParamMatcher reports a
    mismatch for a path with an encoded slash under `off`, the lookup backtracks; also when nothing
    matches at all).  Either way the request is rejected, never accepted. *)
Theorem C08_precondition_answer : forall rules dflt host q p,
  p <> "*" -> guard_F4 p = false -> enc_slash p = true ->
  (forall r t, In r rules -> In t (r_routes r) -> rmatch (rt_pat t) (segs_of p) = true -> r_setting r = Off) ->
  serve repaired rules dflt host p q = Precondition \/ serve repaired rules dflt host p q = BadRequest \/
  (dflt = false /\ serve repaired rules dflt host p q = NoRule /\
   forall r t, In r rules -> In t (r_routes r) -> rmatch (rt_pat t) (segs_of p) = true -> rt_params t <> []).
Proof. exact precondition_http. Qed.
Print Assumptions C08_precondition_answer.

Theorem C08_precondition_answer_envoy : forall rules dflt host q p,
  has_prefix "/" p = true -> enc_slash p = true ->
  (forall r t, In r rules -> In t (r_routes r) -> rmatch (rt_pat t) (segs_of p) = true -> r_setting r = Off) ->
  serve_envoy repaired rules dflt host p q = Precondition \/
  (dflt = false /\ serve_envoy repaired rules dflt host p q = NoRule /\
   forall r t, In r rules -> In t (r_routes r) -> rmatch (rt_pat t) (segs_of p) = true -> rt_params t <> []).
Proof. exact precondition_envoy. Qed.
Print Assumptions C08_precondition_answer_envoy.

(** the answers are reached: the precondition error; "no rule" for an `off` rule with path_params
    and no default rule (the same request with a default rule: precondition error); an accepted
    request through X-Forwarded-Uri *)
Theorem C08_precondition_nonvacuous :
  serve repaired w_rules_F2 false "h" "/a%2Fb" "" = Precondition /\
  serve repaired w_rules_F3 false "h" "/api/a%2Fb" "" = NoRule /\
  serve repaired w_rules_F3 true "h" "/api/a%2Fb" "" = Precondition /\
  exists up, serve_xfu repaired w_rules_nd false "h" "/zz-own" "/files/a%2fb/c%20d" "x=1" =
             Accepted "nd" false [("rest", "a%2Fb/c d")] up.
Proof. exact precondition_nonvacuous. Qed.
Print Assumptions C08_precondition_nonvacuous.

(** * 6. Delivery through X-Forwarded-Uri (decision mode behind a proxy)

    The forwarded value is an origin-form target whose path starts with exactly one '/' and has no
    '#' (the scheme/authority forms url.Parse also accepts, and an empty forwarded path, are outside
    the model: see the assumptions of the check). *)

Theorem C08_reencoding_invariant_xfu : forall rules dflt host own q p p',
  reenc p p' -> has_prefix "/" p = true -> guard_F1 rules p p' = false ->
  decision_eq (serve_xfu repaired rules dflt host own p q) (serve_xfu repaired rules dflt host own p' q).
Proof. exact reencoding_invariant_xfu_repaired. Qed.
Print Assumptions C08_reencoding_invariant_xfu.

Theorem C08_off_rejects_encoded_slash_xfu : forall rules dflt host own q p rid d cs up,
  enc_slash p = true -> guard_F6 p = false -> guard_F4 p = false -> has_prefix "/" p = true ->
  serve_xfu repaired rules dflt host own p q = Accepted rid d cs up ->
  d = false /\ exists r, In r rules /\ r_id r = rid /\ r_setting r <> Off.
Proof. exact off_rejects_encoded_slash_xfu. Qed.
Print Assumptions C08_off_rejects_encoded_slash_xfu.

(** also for a forwarded target that does not parse (it is looked up as received since d3f6cd7) *)
Theorem C08_off_rejects_encoded_slash_xfu_any : forall rules dflt host own q p rid d cs up,
  enc_slash p = true -> (guard_F6 p = false -> guard_F4 p = false) -> has_prefix "/" p = true ->
  serve_xfu repaired rules dflt host own p q = Accepted rid d cs up ->
  d = false /\ exists r, In r rules /\ r_id r = rid /\ r_setting r <> Off.
Proof. exact off_rejects_encoded_slash_xfu_any. Qed.
Print Assumptions C08_off_rejects_encoded_slash_xfu_any.

(** C08-F6 on the tree before d3f6cd7: a forwarded target with a malformed escape was silently
    replaced by the target of the proxy's own request, so a path with an encoded slash was accepted
    by the default rule; now it is answered with the precondition error *)
Theorem C08_F6_pinned_refuted :
  enc_slash "/a%2Fb%zz" = true /\ guard_F6 "/a%2Fb%zz" = true /\ guard_F4 "/a%2Fb%zz" = false /\
  serve_xfu before_F6 [] true "h" "/zz-own" "/a%2Fb%zz" "" = Accepted "default" true [] None /\
  serve_xfu repaired [] true "h" "/zz-own" "/a%2Fb%zz" "" = Precondition.
Proof. exact F6_pinned_refuted. Qed.
Print Assumptions C08_F6_pinned_refuted.
