(** C17 — mechanisms are immutable once loaded; rule-level overrides stay local.

    Two parts.

    (1) The *effect table*: for every mechanism type of heimdall and every
        method in its method set, the list of instructions that may write memory
        reachable from the receiver (or a package-level variable).  The table is
        NOT written by hand: [Gen/Effects.v] is regenerated from the current
        source of /repo by harness/tools/effects (go/ssa) on every check run.

    (2) A store-of-cells model of mechanism instances: a mechanism is a record
        of cell references; [WithConfig] allocates fresh cells for the overridden
        fields and shares the others with its source; an execution performs reads
        of the instance's cells and — only if the effect table lists a write for
        the executed method — arbitrary writes to them.  Threads interleave at
        the granularity of single accesses. *)
From HV Require Import Base.Prelude.
Open Scope string_scope.
Open Scope list_scope.

(* ------------------------------------------------------------------ effect table *)

Inductive eff_kind :=
| EStore | EMapUpdate | EDelete | EClear | ECopyInto | EAppendInto | EGlobalWrite | EUnknownCall.

(** [e_fn]: function containing the instruction; [e_detail]: written field / callee;
    [e_pos]: file:line in /repo. *)
Record effect := mk_eff { e_kind : eff_kind; e_fn : string; e_detail : string; e_pos : string }.

Record meth := mk_meth { m_name : string; m_effects : list effect }.

Inductive mkind := KAuthenticator | KAuthorizer | KContextualizer | KFinalizer | KErrorHandler.

Record mech_row := mk_row {
  r_pkg : string; r_type : string; r_kind : mkind;
  r_embeds : list string;           (* module types reachable through the fields (informative) *)
  r_methods : list meth }.

Definition meth_read_only (m : meth) : bool := is_nil (m_effects m).
Definition read_only (r : mech_row) : bool := forallb meth_read_only (r_methods r).

(** what the generated [Example effects_read_only] (Gen/EffectsOk.v) checks for every row of the
    table extracted from the current source: no method of the mechanism type has any effect.
    (Until the fix: commit 13721c3 the rows of [jwtAuthenticator] and
    [oauth2IntrospectionAuthenticator] listed the stores of [oauth2.MetadataEndpoint.init] — finding
    C17-F1; the check was then carried under a guard on exactly those effects.  The pinned
    jwtAuthenticator row is kept in C17/Proofs.v as the witness of [F1_pinned_refuted].) *)
Definition row_ok (r : mech_row) : bool := read_only r.

Definition find_row (tbl : list mech_row) (ty : string) : option mech_row :=
  find (fun r => String.eqb (r_type r) ty) tbl.

Definition find_meth (r : mech_row) (name : string) : option meth :=
  find (fun m => String.eqb (m_name m) name) (r_methods r).

(** may method [name] of row [r] write receiver-reachable memory?  An unknown
    method is not callable ([None]). *)
Definition may_write (r : mech_row) (name : string) : option bool :=
  match find_meth r name with
  | Some m => Some (negb (meth_read_only m))
  | None => None
  end.

(* ------------------------------------------------------------------ store of cells *)

Definition val := Z.
Definition cell := nat.
Definition store := list val.

Definition rd (s : store) (c : cell) : val := nth c s 0%Z.

Fixpoint upd (s : store) (c : cell) (v : val) : store :=
  match s, c with
  | [], _ => []
  | _ :: r, O => v :: r
  | x :: r, S c' => x :: upd r c' v
  end.

(** A mechanism instance: its row in the table, the cell of each field, and —
    ghost data used only to state the theorems — the catalogue prototype it
    derives from and the overrides applied on the way. *)
Record inst := {
  i_row : nat;
  i_cells : list cell;
  i_origin : nat;                            (* index of the prototype in the catalogue *)
  i_ovrs : list (list (option val)) }.       (* overrides, oldest first; one entry per field *)

Definition view (s : store) (i : inst) : list val := map (rd s) (i_cells i).

(** catalogue configuration overlaid with one override *)
Fixpoint overlay (base : list val) (ovr : list (option val)) : list val :=
  match base, ovr with
  | b :: br, Some v :: orr => v :: overlay br orr
  | b :: br, None :: orr => b :: overlay br orr
  | b :: br, [] => b :: br
  | [], _ => []
  end.

Inductive access := ARead (c : cell) | AWrite (c : cell) (v : val).

Definition acc_cell (a : access) : cell := match a with ARead c | AWrite c _ => c end.
Definition acc_is_write (a : access) : bool := match a with AWrite _ _ => true | ARead _ => false end.
Definition conflict (a b : access) : bool :=
  Nat.eqb (acc_cell a) (acc_cell b) && (acc_is_write a || acc_is_write b).

(** A running call: the instance it runs on, the accesses still to perform, and
    for a [WithConfig] call the overrides with which the variant is created at
    the end (allocation of the fresh cells and hand-over of the new instance are
    one step: nobody else can name the fresh cells before). *)
Record thread := { t_inst : inst; t_todo : list access; t_fin : option (list (option val)) }.

Record config := { c_store : store; c_insts : list inst; c_thr : list thread }.

(** cells of the variant: fresh cells (numbered from [next]) for overridden
    fields, the source's cells for the others; and the values of the fresh cells *)
Fixpoint variant_cells (next : nat) (cells : list cell) (ovr : list (option val)) : list cell * list val :=
  match cells, ovr with
  | c :: cr, Some v :: orr =>
      let '(cs, vs) := variant_cells (S next) cr orr in (next :: cs, v :: vs)
  | c :: cr, None :: orr =>
      let '(cs, vs) := variant_cells next cr orr in (c :: cs, vs)
  | c :: cr, [] => (c :: cr, [])
  | [], _ => ([], [])
  end.

Definition make_variant (s : store) (src : inst) (ovr : list (option val)) : store * inst :=
  let '(cs, vs) := variant_cells (length s) (i_cells src) ovr in
  (s ++ vs,
   {| i_row := i_row src; i_cells := cs; i_origin := i_origin src; i_ovrs := i_ovrs src ++ [ovr] |}).

(** the accesses of a call of method [name] on instance [i]: it reads the cells of
    the instance; it performs the writes [ws] only if the table allows the method
    to write, and then only to cells of the instance *)
Definition writes_allowed (tbl : list mech_row) (i : inst) (name : string) (ws : list (cell * val)) : Prop :=
  ws = [] \/
  (exists r, nth_error tbl (i_row i) = Some r /\ may_write r name = Some true /\
             forall c v, In (c, v) ws -> In c (i_cells i)).

Definition callable (tbl : list mech_row) (i : inst) (name : string) : Prop :=
  exists r b, nth_error tbl (i_row i) = Some r /\ may_write r name = Some b.

(** any interleaving of reads and the chosen writes *)
Definition accesses_of (i : inst) (ws : list (cell * val)) (l : list access) : Prop :=
  forall a, In a l ->
    match a with
    | ARead c => In c (i_cells i)
    | AWrite c v => In (c, v) ws
    end.

Fixpoint remove_nth {A} (n : nat) (l : list A) : list A :=
  match l, n with
  | [], _ => []
  | _ :: r, O => r
  | x :: r, S n' => x :: remove_nth n' r
  end.

Fixpoint set_nth {A} (n : nat) (x : A) (l : list A) : list A :=
  match l, n with
  | [], _ => []
  | _ :: r, O => x :: r
  | y :: r, S n' => y :: set_nth n' x r
  end.

Definition do_access (s : store) (a : access) : store :=
  match a with
  | ARead _ => s
  | AWrite c v => upd s c v
  end.

Section Sem.
  Variable tbl : list mech_row.

  Inductive step : config -> config -> Prop :=
  (** a request (or the rule loader calling an accessor) starts executing method [name]; also a
      [WithConfig] call that will reject its configuration and return an error *)
  | StCall c i name ws l :
      In i (c_insts c) ->
      callable tbl i name -> writes_allowed tbl i name ws -> accesses_of i ws l ->
      step c {| c_store := c_store c; c_insts := c_insts c;
                c_thr := c_thr c ++ [ {| t_inst := i; t_todo := l; t_fin := None |} ] |}
  (** the rule loader starts creating a variant of [i] with overrides [ovr] *)
  | StWith c i ovr ws l :
      In i (c_insts c) -> callable tbl i "WithConfig" ->
      writes_allowed tbl i "WithConfig" ws -> accesses_of i ws l ->
      step c {| c_store := c_store c; c_insts := c_insts c;
                c_thr := c_thr c ++ [ {| t_inst := i; t_todo := l; t_fin := Some ovr |} ] |}
  (** some thread performs its next access *)
  | StAccess c n t a rest :
      nth_error (c_thr c) n = Some t -> t_todo t = a :: rest ->
      step c {| c_store := do_access (c_store c) a; c_insts := c_insts c;
                c_thr := set_nth n {| t_inst := t_inst t; t_todo := rest; t_fin := t_fin t |} (c_thr c) |}
  (** a finished call returns; a finished [WithConfig] allocates and hands over the variant *)
  | StReturn c n t :
      nth_error (c_thr c) n = Some t -> t_todo t = [] -> t_fin t = None ->
      step c {| c_store := c_store c; c_insts := c_insts c; c_thr := remove_nth n (c_thr c) |}
  | StVariant c n t ovr :
      nth_error (c_thr c) n = Some t -> t_todo t = [] -> t_fin t = Some ovr ->
      step c {| c_store := fst (make_variant (c_store c) (t_inst t) ovr);
                c_insts := c_insts c ++ [snd (make_variant (c_store c) (t_inst t) ovr)];
                c_thr := remove_nth n (c_thr c) |}.

  Inductive steps : config -> config -> Prop :=
  | steps_refl c : steps c c
  | steps_step c1 c2 c3 : steps c1 c2 -> step c2 c3 -> steps c1 c3.

  (** a data race: two different running calls whose next accesses conflict *)
  Definition race (c : config) : Prop :=
    exists n1 n2 t1 t2 a1 r1 a2 r2,
      n1 <> n2 /\ nth_error (c_thr c) n1 = Some t1 /\ nth_error (c_thr c) n2 = Some t2 /\
      t_todo t1 = a1 :: r1 /\ t_todo t2 = a2 :: r2 /\ conflict a1 a2 = true.
End Sem.

(** the catalogue as loaded: prototype [k] of the catalogue has origin [k] and no overrides;
    all its cells exist *)
Definition catalogue_ok (s0 : store) (cat : list inst) : Prop :=
  forall k i, nth_error cat k = Some i ->
    i_origin i = k /\ i_ovrs i = [] /\ forall c, In c (i_cells i) -> c < length s0.

Definition init (s0 : store) (cat : list inst) : config :=
  {| c_store := s0; c_insts := cat; c_thr := [] |}.

(** what a rule is specified to observe: the catalogue configuration of its
    prototype, overlaid with its own overrides — nothing else *)
Definition spec_view (s0 : store) (cat : list inst) (i : inst) : option (list val) :=
  match nth_error cat (i_origin i) with
  | Some p => Some (fold_left overlay (i_ovrs i) (view s0 p))
  | None => None
  end.

(* ------------------------------------------------------------------ executable, sequential
   semantics used by the correspondence evaluator: operations run one after the
   other; a call of a read-only method changes nothing. *)

Inductive op :=
| OWith (src : nat) (ovr : list (option val))     (* create a variant of instance [src] *)
| OCall (i : nat) (name : string).               (* execute / call an accessor on instance [i] *)

(** [None]: the operation is impossible (unknown instance or method) or the
    method may write (then the model does not predict a single outcome) *)
Definition run_op (tbl : list mech_row) (c : store * list inst) (o : op) : option (store * list inst) :=
  let '(s, insts) := c in
  match o with
  | OWith src ovr =>
      match nth_error insts src with
      | Some i =>
          match nth_error tbl (i_row i) with
          | Some r =>
              match may_write r "WithConfig" with
              | Some false => let '(s', v) := make_variant s i ovr in Some (s', insts ++ [v])
              | _ => None
              end
          | None => None
          end
      | None => None
      end
  | OCall k name =>
      match nth_error insts k with
      | Some i =>
          match nth_error tbl (i_row i) with
          | Some r =>
              match may_write r name with
              | Some false => Some (s, insts)
              | _ => None
              end
          | None => None
          end
      | None => None
      end
  end.

Fixpoint run_ops (tbl : list mech_row) (c : store * list inst) (os : list op) : option (store * list inst) :=
  match os with
  | [] => Some c
  | o :: r => match run_op tbl c o with
              | Some c' => run_ops tbl c' r
              | None => None
              end
  end.
