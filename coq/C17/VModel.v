(** C17 — the variant table and the table-driven model of [WithConfig].

    [C17/Model.v] ASSUMES what [WithConfig] does ([make_variant]: fresh cells for the overridden
    fields, the receiver's cells for the others).  This file replaces the assumption by a table that
    harness/tools/effects (go/ssa, file variants.go) extracts from the CURRENT source of every
    mechanism type's [WithConfig] and of the constructors it calls ([Gen/Variants.v]):

    for every field (leaf of the mechanism struct; value structs of the module are flattened, so
    [cfg.Scopes] is a field of [oauth2ClientCredentialsFinalizer]) the list of SOURCES from which the
    returned instance's field may be built, the methods that may write the field later (from the
    effect analysis), and the writes to receiver-reachable memory performed during [WithConfig].

    The semantics below builds a variant FROM THE ROW: a source that shares memory with the
    receiver shares the cell, an in-place source writes the receiver's cell, a forgotten field is
    zero, a stale copy copies whatever the receiver holds at that moment.  [variant_row_ok] is the
    boolean condition under which the locality theorems (C17/VProofs.v) hold. *)
From HV Require Import Base.Prelude C17.Model.
Open Scope string_scope.
Open Scope list_scope.

(* ------------------------------------------------------------------ the table *)

(** where the value of a field of the instance returned by [WithConfig] comes from; [p] is the index
    of a field of the RECEIVER (same struct type, same field order) *)
Inductive vsrc :=
| VRecvShared (p : nat)   (* the receiver's field [p] as it is, a reference (pointer, map, slice, func, interface,
                             or a struct holding one): the result ALIASES the receiver's memory *)
| VRecvCopy (p : nat)     (* the receiver's field [p] copied by value (string, number, bool: nothing shared) *)
| VFresh                  (* built without reading receiver memory: from the override, constants, fresh allocations *)
| VMixFresh (p : nat)     (* freshly allocated, contents computed from the override AND the receiver's field [p]:
                             a shallow, element-wise copy in any spelling (maps.Clone, make + maps.Copy, copy(),
                             append(fresh, src...), slices.Insert/Concat on fresh, an assignment loop) plus inserts, or
                             expressions compiled in the shared environment.  The CONTAINER is new; what its elements
                             refer to is shared with the receiver (depth >= 1, printed next to the row).  Sharing below
                             the container is tolerated at every depth under ONE condition, which [src_ok] demands:
                             field [p] has no writers, i.e. no method has a write effect that can hit memory reachable
                             from the receiver's field [p] (elements and all they refer to included) *)
| VMixAlias (p : nat)     (* computed from the override and the receiver's field [p] and MAY SHARE MEMORY with it:
                             append(a.x[:0], …), slices.Clip(a.x), a sub-slice, an unanalysed callee; an override is
                             written IN PLACE *)
| VZero.                  (* no store into the field: the zero value (a field forgotten in the literal) *)

Record vfield := mk_vf {
  vf_name : string;              (* path of the field in the mechanism struct, e.g. "cfg.Scopes" *)
  vf_type : string;              (* its Go type (informative) *)
  vf_srcs : list vsrc;           (* every source some path through WithConfig may use *)
  vf_writers : list string }.    (* methods with a write effect that may hit this field *)

Record vrow := mk_vrow {
  v_pkg : string; v_type : string;
  v_self : bool;                 (* some path returns the receiver itself (informative) *)
  v_fields : list vfield;
  v_recv_writes : list effect }. (* writes to receiver-reachable memory during WithConfig *)

(* ------------------------------------------------------------------ the boolean check *)

Definition immutable_field (vr : vrow) (p : nat) : bool :=
  match nth_error (v_fields vr) p with
  | Some f => is_nil (vf_writers f)
  | None => false
  end.

(** field [k] of the result, built from source [s]:
    - what is taken from the receiver (shared or copied) is the SAME field, and nobody writes it later —
      otherwise the variant aliases state that changes, or starts from whatever the receiver holds now;
    - what is computed from a receiver field depends on a field nobody writes;
    - nothing may share memory with the receiver and be written; no field is forgotten. *)
Definition src_ok (vr : vrow) (k : nat) (s : vsrc) : bool :=
  match s with
  | VRecvShared p | VRecvCopy p => Nat.eqb p k && immutable_field vr k
  | VFresh => true
  | VMixFresh p => immutable_field vr p
  | VMixAlias _ => false
  | VZero => false
  end.

Fixpoint fields_ok (vr : vrow) (k : nat) (fs : list vfield) : bool :=
  match fs with
  | [] => true
  | f :: r => forallb (src_ok vr k) (vf_srcs f) && fields_ok vr (S k) r
  end.

(** the receiver is not written during [WithConfig], and every field is built locally *)
Definition variant_row_ok (vr : vrow) : bool :=
  is_nil (v_recv_writes vr) && fields_ok vr 0 (v_fields vr).

(** the two generated tables speak about the same mechanism types in the same order (an instance's
    [i_row] indexes both) *)
Definition tables_aligned (etbl : list mech_row) (vtbl : list vrow) : bool :=
  list_eqb String.eqb (map r_type etbl) (map v_type vtbl).

(* ------------------------------------------------------------------ building a variant from a row *)

(** one field: the store after building it, and the cell of the new instance.  [o] is what the code
    does on this path: [None] = it takes a receiver source, [Some v] = it builds the value [v]. *)
Definition build_field (rcells : list cell) (s : store) (pk : vsrc) (o : option val) : option (store * cell) :=
  match pk, o with
  | VRecvShared p, None => option_map (fun c => (s, c)) (nth_error rcells p)
  | VRecvCopy p, None => option_map (fun c => (s ++ [rd s c], length s)) (nth_error rcells p)
  | VZero, None => Some (s ++ [0%Z], length s)
  | VFresh, Some v => Some (s ++ [v], length s)
  | VMixFresh p, Some v => option_map (fun _ => (s ++ [v], length s)) (nth_error rcells p)
  | VMixAlias p, Some v => option_map (fun c => (upd s c v, c)) (nth_error rcells p)
  | _, _ => None
  end.

Fixpoint build (rcells : list cell) (s : store) (picks : list vsrc) (ovr : list (option val))
  : option (store * list cell) :=
  match picks, ovr with
  | [], [] => Some (s, [])
  | pk :: picks', o :: ovr' =>
      match build_field rcells s pk o with
      | Some (s1, c) =>
          match build rcells s1 picks' ovr' with
          | Some (s2, cs) => Some (s2, c :: cs)
          | None => None
          end
      | None => None
      end
  | _, _ => None
  end.

(** [picks] chooses, per field, one of the sources the row lists *)
Fixpoint picks_from (fs : list vfield) (picks : list vsrc) : Prop :=
  match fs, picks with
  | [], [] => True
  | f :: fr, pk :: pr => In pk (vf_srcs f) /\ picks_from fr pr
  | _, _ => False
  end.

(* ------------------------------------------------------------------ interleaving semantics *)

(** a write of a call of method [name] on instance [i] may only hit a cell of a field whose row
    entry lists [name] as a writer *)
Definition vwrites_allowed (vtbl : list vrow) (i : inst) (name : string) (ws : list (cell * val)) : Prop :=
  forall c v, In (c, v) ws ->
    exists vr k f, nth_error vtbl (i_row i) = Some vr /\ nth_error (i_cells i) k = Some c /\
                   nth_error (v_fields vr) k = Some f /\ In name (vf_writers f).

Section VSem.
  Variable etbl : list mech_row.
  Variable vtbl : list vrow.

  Inductive vstep : config -> config -> Prop :=
  (** a request (or the rule loader calling an accessor) starts executing method [name]; also a
      [WithConfig] call that rejects its configuration or returns the receiver itself *)
  | VsCall c i name ws l :
      In i (c_insts c) ->
      callable etbl i name -> writes_allowed etbl i name ws -> vwrites_allowed vtbl i name ws ->
      accesses_of i ws l ->
      vstep c {| c_store := c_store c; c_insts := c_insts c;
                 c_thr := c_thr c ++ [ {| t_inst := i; t_todo := l; t_fin := None |} ] |}
  (** the rule loader starts creating a variant of [i] with overrides [ovr] *)
  | VsWith c i ovr ws l :
      In i (c_insts c) -> callable etbl i "WithConfig" ->
      writes_allowed etbl i "WithConfig" ws -> vwrites_allowed vtbl i "WithConfig" ws ->
      accesses_of i ws l ->
      vstep c {| c_store := c_store c; c_insts := c_insts c;
                 c_thr := c_thr c ++ [ {| t_inst := i; t_todo := l; t_fin := Some ovr |} ] |}
  | VsAccess c n t a rest :
      nth_error (c_thr c) n = Some t -> t_todo t = a :: rest ->
      vstep c {| c_store := do_access (c_store c) a; c_insts := c_insts c;
                 c_thr := set_nth n {| t_inst := t_inst t; t_todo := rest; t_fin := t_fin t |} (c_thr c) |}
  | VsReturn c n t :
      nth_error (c_thr c) n = Some t -> t_todo t = [] -> t_fin t = None ->
      vstep c {| c_store := c_store c; c_insts := c_insts c; c_thr := remove_nth n (c_thr c) |}
  (** a finished [WithConfig] builds the variant AS THE ROW OF ITS TYPE SAYS, along any of the
      paths the row allows ([picks]), and hands it over *)
  | VsVariant c n t ovr vr picks s' cs :
      nth_error (c_thr c) n = Some t -> t_todo t = [] -> t_fin t = Some ovr ->
      nth_error vtbl (i_row (t_inst t)) = Some vr ->
      picks_from (v_fields vr) picks ->
      build (i_cells (t_inst t)) (c_store c) picks ovr = Some (s', cs) ->
      vstep c {| c_store := s';
                 c_insts := c_insts c ++ [ {| i_row := i_row (t_inst t); i_cells := cs;
                                              i_origin := i_origin (t_inst t);
                                              i_ovrs := i_ovrs (t_inst t) ++ [ovr] |} ];
                 c_thr := remove_nth n (c_thr c) |}.

  Inductive vsteps : config -> config -> Prop :=
  | vsteps_refl c : vsteps c c
  | vsteps_step c1 c2 c3 : vsteps c1 c2 -> vstep c2 c3 -> vsteps c1 c3.
End VSem.

(** the catalogue as loaded: as [catalogue_ok], and every prototype has one cell per field of its row *)
Definition vcatalogue_ok (vtbl : list vrow) (s0 : store) (cat : list inst) : Prop :=
  catalogue_ok s0 cat /\
  forall p, In p cat -> exists vr, nth_error vtbl (i_row p) = Some vr /\ length (i_cells p) = length (v_fields vr).

(** field [k] of instance [i] is one nobody writes *)
Definition immutable_at (vtbl : list vrow) (i : inst) (k : nat) : Prop :=
  exists vr, nth_error vtbl (i_row i) = Some vr /\ immutable_field vr k = true.
