(** C17 — proofs about the table-driven model of [WithConfig] (C17/VModel.v).

    Part 1: what [build] does for a row that passes [variant_row_ok].
    Part 2 (locality, for EVERY effect table): fields nobody writes keep the specified value in every
            instance, whatever the others do — needs only [forallb variant_row_ok vtbl = true].
    Part 3 (immutability): with a read-only effect table in addition, the theorems of C17/Proofs.v
            (store unchanged, race free, overrides local, order independent) for the table-driven
            semantics [vsteps].
    Part 4: the rows of two seeded changes fail the check and the model shows why. *)
From HV Require Import Base.Prelude C17.Model C17.Proofs C17.VModel.
Open Scope list_scope.

(* ------------------------------------------------------------------ small facts *)

Lemma rd_upd_other s c c' v : c <> c' -> rd (upd s c v) c' = rd s c'.
Proof.
  unfold rd. revert c c'. induction s as [|x s IH]; intros [|c] [|c'] H; simpl; try reflexivity.
  - exfalso. apply H. reflexivity.
  - apply IH. intros E. apply H. f_equal. exact E.
Qed.

Lemma rd_app_new s v : rd (s ++ [v]) (length s) = v.
Proof. unfold rd. rewrite app_nth2 by lia. replace (length s - length s) with 0 by lia. reflexivity. Qed.

Lemma overlay_nth : forall base ovr k,
  nth_error (overlay base ovr) k =
  match nth_error base k with
  | None => None
  | Some b => match nth_error ovr k with Some (Some v) => Some v | _ => Some b end
  end.
Proof.
  induction base as [|b br IH]; intros ovr k.
  - destruct ovr; destruct k; reflexivity.
  - destruct ovr as [|[v|] orr]; destruct k as [|k]; simpl; try reflexivity.
    + destruct (nth_error br k); reflexivity.
    + apply IH.
    + apply IH.
Qed.

Lemma skipn_cons_nth {A} : forall (l : list A) k x, nth_error l k = Some x -> skipn k l = x :: skipn (S k) l.
Proof.
  induction l as [|y l IH]; intros [|k] x H; simpl in *; try discriminate.
  - inversion H. reflexivity.
  - apply IH. exact H.
Qed.

Lemma in_skipn {A} : forall (l : list A) k x, In x (skipn k l) -> In x l.
Proof.
  induction l as [|y l IH]; intros [|k] x H; simpl in *; auto.
  right. eapply IH. exact H.
Qed.

Lemma nth_error_map_some {A B} (f : A -> B) l k x : nth_error l k = Some x -> nth_error (map f l) k = Some (f x).
Proof. intros H. rewrite nth_error_map, H. reflexivity. Qed.

(* ------------------------------------------------------------------ part 1: [build] under the check *)

Fixpoint picks_ok (vr : vrow) (k : nat) (picks : list vsrc) : Prop :=
  match picks with
  | [] => True
  | pk :: r => src_ok vr k pk = true /\ picks_ok vr (S k) r
  end.

Lemma fields_ok_picks vr : forall fs k picks,
  fields_ok vr k fs = true -> picks_from fs picks -> picks_ok vr k picks /\ length picks = length fs.
Proof.
  induction fs as [|f fr IH]; intros k [|pk pr] Hok Hp; simpl in *; try contradiction.
  - split; [exact I|reflexivity].
  - apply andb_true_iff in Hok as [H1 H2]. destruct Hp as [Hin Hp].
    destruct (IH (S k) pr H2 Hp) as [A B]. split; [|simpl; f_equal; exact B].
    split; [|exact A]. rewrite forallb_forall in H1. apply H1. exact Hin.
Qed.

(** one field under the check: the store is extended by at most one cell, the new instance's cell holds the
    overlay value, and it is either the receiver's own cell of a field nobody writes, or the new cell *)
Lemma build_field_spec vr (rcells : list cell) (s : store) k pk o s1 (c c0 : cell) :
  src_ok vr k pk = true -> nth_error rcells k = Some c0 -> c0 < length s ->
  build_field rcells s pk o = Some (s1, c) ->
  (exists ext, s1 = s ++ ext) /\ c < length s1 /\
  rd s1 c = match o with Some v => v | None => rd s c0 end /\
  ((c = c0 /\ s1 = s /\ immutable_field vr k = true) \/ (c = length s /\ length s1 = S (length s))).
Proof.
  intros Hok Hc0 Hlt E.
  destruct pk as [p|p| |p|p| ]; destruct o as [v|]; simpl in E, Hok; try discriminate.
  - (* shared *)
    apply andb_true_iff in Hok as [Hp Him]. apply Nat.eqb_eq in Hp. subst p.
    rewrite Hc0 in E. simpl in E. inversion E; subst. split; [exists []; rewrite app_nil_r; reflexivity|].
    split; [exact Hlt|]. split; [reflexivity|]. left. auto.
  - (* copy *)
    apply andb_true_iff in Hok as [Hp Him]. apply Nat.eqb_eq in Hp. subst p.
    rewrite Hc0 in E. simpl in E. inversion E; subst. split; [eexists; reflexivity|].
    rewrite app_length. simpl. split; [lia|]. split; [apply rd_app_new|]. right. split; [reflexivity|lia].
  - (* fresh *)
    inversion E; subst. split; [eexists; reflexivity|].
    rewrite app_length. simpl. split; [lia|]. split; [apply rd_app_new|]. right. split; [reflexivity|lia].
  - (* fresh, computed from a receiver field *)
    destruct (nth_error rcells p); simpl in E; [|discriminate].
    inversion E; subst. split; [eexists; reflexivity|].
    rewrite app_length. simpl. split; [lia|]. split; [apply rd_app_new|]. right. split; [reflexivity|lia].
Qed.

Lemma build_spec vr (rcells : list cell) : forall picks k ovr (s s' : store) (cs : list cell),
  picks_ok vr k picks -> k + length picks = length rcells ->
  (forall c, In c rcells -> c < length s) ->
  build rcells s picks ovr = Some (s', cs) ->
  (exists ext, s' = s ++ ext) /\
  map (rd s') cs = overlay (map (rd s) (skipn k rcells)) ovr /\
  (forall c, In c cs -> c < length s') /\
  length cs = length picks /\
  (forall j c, nth_error cs j = Some c ->
     (nth_error rcells (k + j) = Some c /\ immutable_field vr (k + j) = true) \/ length s <= c) /\
  (forall j1 j2 c, j1 <> j2 -> nth_error cs j1 = Some c -> nth_error cs j2 = Some c -> c < length s).
Proof.
  induction picks as [|pk pr IH]; intros k ovr s s' cs Hok Hlen Hlt E.
  - destruct ovr; simpl in E; [|discriminate]. inversion E; subst. clear E.
    simpl in Hlen. replace k with (length rcells) by lia. rewrite skipn_all. simpl.
    split; [exists []; rewrite app_nil_r; reflexivity|]. split; [reflexivity|]. split; [intros ? []|].
    split; [reflexivity|]. split.
    + intros [|j] c Hj; discriminate.
    + intros [|j1] j2 c _ Hj; discriminate.
  - destruct ovr as [|o orr]; simpl in E; [discriminate|].
    destruct (build_field rcells s pk o) as [[s1 c]|] eqn:EF; [|discriminate].
    destruct (build rcells s1 pr orr) as [[s2 cs']|] eqn:EB; [|discriminate].
    inversion E; subst. clear E. simpl in Hlen. destruct Hok as [Hok1 Hok2].
    destruct (nth_error rcells k) as [c0|] eqn:Ec0; [|apply nth_error_None in Ec0; lia].
    assert (Hc0 : c0 < length s) by (apply Hlt; eapply nth_error_In; eauto).
    destruct (build_field_spec _ _ _ _ _ _ _ _ _ Hok1 Ec0 Hc0 EF) as ((ext1 & E1) & Hc1 & Hv & Hcase).
    assert (Hlt1 : forall c', In c' rcells -> c' < length s1).
    { intros c' Hc'. subst s1. rewrite app_length. specialize (Hlt c' Hc'). lia. }
    assert (Hlen1 : S k + length pr = length rcells) by lia.
    destruct (IH (S k) orr s1 s' cs' Hok2 Hlen1 Hlt1 EB) as ((ext2 & E2) & Hview & Hb & Hl & Hd & He).
    split; [exists (ext1 ++ ext2); subst s' s1; rewrite app_assoc; reflexivity|].
    split; [|split; [|split; [|split]]].
    + rewrite (skipn_cons_nth _ _ _ Ec0). simpl.
      assert (Hhead : rd s' c = match o with Some v => v | None => rd s c0 end).
      { rewrite <- Hv. subst s'. apply rd_app_l. exact Hc1. }
      assert (Htail : map (rd s') cs' = overlay (map (rd s) (skipn (S k) rcells)) orr).
      { rewrite Hview. f_equal. apply map_ext_in. intros c' Hc'.
        subst s1. apply rd_app_l. apply Hlt. eapply in_skipn. exact Hc'. }
      destruct o as [v|]; rewrite Hhead, Htail; reflexivity.
    + intros c' [<-|Hc']; [subst s'; rewrite app_length; lia|apply Hb; exact Hc'].
    + simpl. f_equal. exact Hl.
    + intros [|j] c' Hj; simpl in Hj.
      * inversion Hj; subst c'. rewrite Nat.add_0_r.
        destruct Hcase as [(-> & _ & Him)|(-> & _)]; [left; split; assumption|right; lia].
      * destruct (Hd j c' Hj) as [(A & B)|A].
        -- left. replace (k + S j) with (S k + j) by lia. split; assumption.
        -- right. subst s1. rewrite app_length in A. lia.
    + assert (Hshared_or : forall j c', nth_error cs' j = Some c' -> c' < length s \/ length s1 <= c').
      { intros j c' Hj. destruct (Hd j c' Hj) as [(A & _)|A]; [left; apply Hlt; eapply nth_error_In; eauto|right; exact A]. }
      assert (Hhd : forall j c', nth_error cs' j = Some c' -> c' = c -> c' < length s).
      { intros j c' Hj ->. destruct Hcase as [(-> & _ & _)|(-> & Hl1)]; [exact Hc0|].
        destruct (Hshared_or j _ Hj) as [A|A]; [exact A|lia]. }
      intros [|j1] [|j2] c' Hne H1 H2; simpl in H1, H2.
      * contradiction.
      * inversion H1; subst c'. eapply Hhd; eauto.
      * inversion H2; subst c'. eapply Hhd; eauto.
      * assert (Hne' : j1 <> j2) by lia.
        specialize (He j1 j2 c' Hne' H1 H2).
        destruct (Hshared_or j1 c' H1) as [A|A]; [exact A|lia].
Qed.

(** the variant a row under the check builds: store extended, view = overlay, cells bounded, one cell per field;
    every cell is the receiver's cell of the same field — one nobody writes — or lies beyond the old store, and
    two fields of the variant never share a new cell *)
Lemma build_ok vr (rcells : list cell) picks ovr (s s' : store) (cs : list cell) :
  variant_row_ok vr = true -> picks_from (v_fields vr) picks ->
  length rcells = length (v_fields vr) ->
  (forall c, In c rcells -> c < length s) ->
  build rcells s picks ovr = Some (s', cs) ->
  (exists ext, s' = s ++ ext) /\
  map (rd s') cs = overlay (map (rd s) rcells) ovr /\
  (forall c, In c cs -> c < length s') /\
  length cs = length (v_fields vr) /\
  (forall j c, nth_error cs j = Some c ->
     (nth_error rcells j = Some c /\ immutable_field vr j = true) \/ length s <= c) /\
  (forall j1 j2 c, j1 <> j2 -> nth_error cs j1 = Some c -> nth_error cs j2 = Some c -> c < length s).
Proof.
  intros Hok Hp Hlen Hlt E. unfold variant_row_ok in Hok. apply andb_true_iff in Hok as [_ Hf].
  destruct (fields_ok_picks vr _ 0 picks Hf Hp) as [Hpk Hl].
  assert (H0 : 0 + length picks = length rcells) by (simpl; congruence).
  destruct (build_spec vr rcells picks 0 ovr s s' cs Hpk H0 Hlt E) as (A & B & C & D & F & G).
  simpl in B. repeat (split; [assumption|]). split; [congruence|]. split; assumption.
Qed.

(* ------------------------------------------------------------------ part 2: locality from the variant table alone *)

Definition writable_at (vtbl : list vrow) (i : inst) (l : nat) : Prop :=
  exists vr f name, nth_error vtbl (i_row i) = Some vr /\ nth_error (v_fields vr) l = Some f /\ In name (vf_writers f).

Lemma immutable_not_writable vtbl i k : immutable_at vtbl i k -> writable_at vtbl i k -> False.
Proof.
  intros (vr & Hr & Him) (vr' & f & name & Hr' & Hf & Hn). rewrite Hr in Hr'. inversion Hr'; subst vr'.
  unfold immutable_field in Him. rewrite Hf in Him. destruct (vf_writers f); [destruct Hn|discriminate].
Qed.

(** the specified value of field [k] of instance [i] *)
Definition spec_field (s0 : store) (cat : list inst) (i : inst) (k : nat) : option val :=
  match spec_view s0 cat i with
  | Some l => nth_error l k
  | None => None
  end.

(** no prototype keeps a field somebody writes in the cell of a field nobody writes *)
Definition cat_separate (vtbl : list vrow) (cat : list inst) : Prop :=
  forall i j k l c, In i cat -> In j cat ->
    nth_error (i_cells i) k = Some c -> nth_error (i_cells j) l = Some c ->
    immutable_at vtbl i k -> writable_at vtbl j l -> False.

Section Local.
  Variable etbl : list mech_row.
  Variable vtbl : list vrow.
  Variable s0 : store.
  Variable cat : list inst.

  Definition wf_inst (i : inst) : Prop :=
    exists vr, nth_error vtbl (i_row i) = Some vr /\ length (i_cells i) = length (v_fields vr).

  Definition write_ok (i : inst) (a : access) : Prop :=
    match a with
    | ARead _ => True
    | AWrite c _ => exists l, nth_error (i_cells i) l = Some c /\ writable_at vtbl i l
    end.

  Record LInv (c : config) : Prop := {
    l_cells : forall i, In i (c_insts c) -> wf_inst i /\ forall cl, In cl (i_cells i) -> cl < length (c_store c);
    l_spec : forall i k cl, In i (c_insts c) -> immutable_at vtbl i k -> nth_error (i_cells i) k = Some cl ->
               spec_field s0 cat i k = Some (rd (c_store c) cl);
    l_sep : forall i j k l cl, In i (c_insts c) -> In j (c_insts c) ->
               nth_error (i_cells i) k = Some cl -> nth_error (i_cells j) l = Some cl ->
               immutable_at vtbl i k -> writable_at vtbl j l -> False;
    l_thr : forall t, In t (c_thr c) -> In (t_inst t) (c_insts c) /\ forall a, In a (t_todo t) -> write_ok (t_inst t) a }.

  Hypothesis Hvtbl : forallb variant_row_ok vtbl = true.
  Hypothesis Hcat : vcatalogue_ok vtbl s0 cat.
  Hypothesis Hsep : cat_separate vtbl cat.

  Lemma linv_init : LInv (init s0 cat).
  Proof.
    destruct Hcat as [Hc Hw]. constructor; simpl.
    - intros i Hi. split; [apply Hw; exact Hi|].
      apply In_nth_error in Hi as [n Hn]. destruct (Hc n i Hn) as (_ & _ & Hlt). exact Hlt.
    - intros i k cl Hi _ Hk. apply In_nth_error in Hi as [n Hn].
      destruct (Hc n i Hn) as (Ho & Hov & _). unfold spec_field, spec_view. rewrite Ho, Hn, Hov. simpl.
      unfold view. apply nth_error_map_some. exact Hk.
    - intros i j k l cl Hi Hj. apply Hsep; assumption.
    - intros t [].
  Qed.

  Lemma accesses_write_ok i name ws l :
    vwrites_allowed vtbl i name ws -> accesses_of i ws l -> forall a, In a l -> write_ok i a.
  Proof.
    intros Hw Ha a Hin. specialize (Ha a Hin). destruct a as [c|c v]; simpl; [exact I|].
    destruct (Hw c v Ha) as (vr & k & f & Hr & Hk & Hf & Hn). exists k. split; [exact Hk|].
    exists vr, f, name. auto.
  Qed.

  Lemma vrow_ok vr n : nth_error vtbl n = Some vr -> variant_row_ok vr = true.
  Proof. intros H. rewrite forallb_forall in Hvtbl. apply Hvtbl. eapply nth_error_In; eauto. Qed.

  Lemma linv_step c c' : LInv c -> vstep etbl vtbl c c' -> LInv c'.
  Proof.
    intros [Hcl Hsp Hse Hth] St. inversion St; subst; clear St.
    - (* call *)
      constructor; simpl; auto.
      intros t Hin. apply in_app_or in Hin as [Hin|[<-|[]]]; [auto|]. simpl. split; [assumption|].
      eapply accesses_write_ok; eauto.
    - (* WithConfig starts *)
      constructor; simpl; auto.
      intros t Hin. apply in_app_or in Hin as [Hin|[<-|[]]]; [auto|]. simpl. split; [assumption|].
      eapply accesses_write_ok; eauto.
    - (* access *)
      assert (Hin : In t (c_thr c)) by (eapply nth_error_In; eauto).
      destruct (Hth t Hin) as (Hti & Hwr).
      assert (Hthr' : forall t', In t' (set_nth n {| t_inst := t_inst t; t_todo := rest; t_fin := t_fin t |} (c_thr c)) ->
                        In (t_inst t') (c_insts c) /\ forall a', In a' (t_todo t') -> write_ok (t_inst t') a').
      { intros t' Hin'. apply In_set_nth in Hin' as [->|Hin']; [|auto]. simpl. split; [exact Hti|].
        intros a' Ha'. apply Hwr. rewrite H0. right. exact Ha'. }
      destruct a as [cr|cw v]; simpl.
      + constructor; simpl; auto.
      + assert (Hw : write_ok (t_inst t) (AWrite cw v)) by (apply Hwr; rewrite H0; left; reflexivity).
        destruct Hw as (l & Hl & Hwl).
        constructor; simpl; auto.
        * intros i Hi. destruct (Hcl i Hi) as [A B]. split; [exact A|]. intros cl Hc. rewrite upd_length. auto.
        * intros i k cl Hi Him Hk. rewrite (Hsp i k cl Hi Him Hk). f_equal. symmetry. apply rd_upd_other.
          intros ->. exact (Hse i (t_inst t) k l cl Hi Hti Hk Hl Him Hwl).
    - (* return *)
      constructor; simpl; auto. intros t' Hin'. apply In_remove_nth in Hin'. auto.
    - (* the variant is built from the row *)
      assert (Hin : In t (c_thr c)) by (eapply nth_error_In; eauto).
      destruct (Hth t Hin) as (Hti & _).
      destruct (Hcl _ Hti) as ((vr' & Hr' & Hlen) & Hlt).
      rewrite H2 in Hr'. inversion Hr'; subst vr'. clear Hr'.
      pose proof (vrow_ok _ _ H2) as Hrow.
      destruct (build_ok vr _ picks ovr _ _ _ Hrow H3 Hlen Hlt H4) as ((ext & ->) & Hview & Hb & Hl & Hd & He).
      set (v := {| i_row := i_row (t_inst t); i_cells := cs; i_origin := i_origin (t_inst t);
                   i_ovrs := i_ovrs (t_inst t) ++ [ovr] |}).
      assert (Himm : forall k, immutable_at vtbl v k <-> immutable_at vtbl (t_inst t) k).
      { intros k. unfold immutable_at. simpl. reflexivity. }
      assert (Hwrt : forall k, writable_at vtbl v k <-> writable_at vtbl (t_inst t) k).
      { intros k. unfold writable_at. simpl. reflexivity. }
      constructor; simpl.
      + intros i Hi. apply in_app_or in Hi as [Hi|[<-|[]]].
        * destruct (Hcl i Hi) as [A B]. split; [exact A|]. intros cl Hc. rewrite app_length. specialize (B cl Hc). lia.
        * split; [exists vr; split; [exact H2|exact Hl]|exact Hb].
      + intros i k cl Hi Him Hk. apply in_app_or in Hi as [Hi|[<-|[]]].
        * rewrite (Hsp i k cl Hi Him Hk). f_equal. symmetry. apply rd_app_l.
          destruct (Hcl i Hi) as [_ B]. apply B. eapply nth_error_In; eauto.
        * simpl in Hk. apply Himm in Him.
          (* the cell of the same field of the receiver *)
          destruct (nth_error (i_cells (t_inst t)) k) as [c0|] eqn:Ec0.
          2:{ apply nth_error_None in Ec0. assert (k < length cs) by (apply nth_error_Some; congruence). lia. }
          pose proof (Hsp _ k c0 Hti Him Ec0) as Hs0.
          unfold spec_field, spec_view in *. simpl.
          destruct (nth_error cat (i_origin (t_inst t))) as [p|]; [|discriminate].
          rewrite fold_left_app. simpl. rewrite overlay_nth, Hs0.
          pose proof (f_equal (fun l => nth_error l k) Hview) as Hn. simpl in Hn.
          rewrite (nth_error_map_some _ _ _ _ Hk), overlay_nth, (nth_error_map_some _ _ _ _ Ec0) in Hn.
          symmetry. exact Hn.
      + intros i j k l cl Hi Hj Hk Hlc Him Hwl.
        apply in_app_or in Hi as [Hi|[<-|[]]]; apply in_app_or in Hj as [Hj|[<-|[]]].
        * exact (Hse i j k l cl Hi Hj Hk Hlc Him Hwl).
        * (* old field nobody writes / new written field *)
          simpl in Hlc. apply Hwrt in Hwl.
          destruct (Hd l cl Hlc) as [(_ & Hil)|Hge].
          -- eapply immutable_not_writable; [exists vr; split; [exact H2|exact Hil]|exact Hwl].
          -- destruct (Hcl i Hi) as [_ B]. assert (cl < length (c_store c)) by (apply B; eapply nth_error_In; eauto). lia.
        * (* new field nobody writes / old written field *)
          simpl in Hk. apply Himm in Him.
          destruct (Hd k cl Hk) as [(Hsrc & _)|Hge].
          -- exact (Hse (t_inst t) j k l cl Hti Hj Hsrc Hlc Him Hwl).
          -- destruct (Hcl j Hj) as [_ B]. assert (cl < length (c_store c)) by (apply B; eapply nth_error_In; eauto). lia.
        * (* both in the new instance *)
          simpl in Hk, Hlc. apply Himm in Him. apply Hwrt in Hwl.
          destruct (Nat.eq_dec k l) as [->|Hne]; [eapply immutable_not_writable; eauto|].
          pose proof (He k l cl Hne Hk Hlc) as Hold.
          destruct (Hd l cl Hlc) as [(_ & Hil)|Hge]; [|lia].
          eapply immutable_not_writable; [exists vr; split; [exact H2|exact Hil]|exact Hwl].
      + intros t' Hin'. apply In_remove_nth in Hin'. destruct (Hth t' Hin') as (A & B).
        split; [apply in_or_app; left; exact A|exact B].
  Qed.

  Lemma linv_vsteps c : vsteps etbl vtbl (init s0 cat) c -> LInv c.
  Proof.
    intros H. remember (init s0 cat) as c0. induction H; subst.
    - apply linv_init.
    - eapply linv_step; eauto.
  Qed.

  (** LOCALITY.  Whatever the effect table says (methods may write the fields the variant table lists for
      them), in every reachable configuration every field NOBODY WRITES of every instance holds exactly its
      prototype's catalogue value overlaid with the instance's own overrides. *)
  Theorem immutable_fields_local c i k cl :
    vsteps etbl vtbl (init s0 cat) c -> In i (c_insts c) -> immutable_at vtbl i k ->
    nth_error (i_cells i) k = Some cl -> spec_field s0 cat i k = Some (rd (c_store c) cl).
  Proof. intros H Hi Him Hk. destruct (linv_vsteps _ H) as [_ Hsp _ _]. eapply Hsp; eauto. Qed.

  (** … and a running call can only ever write a field of ITS OWN instance that the table lists as written;
      such a cell is never the cell of a field nobody writes, of any instance *)
  Theorem writes_stay_local c t cw v i k :
    vsteps etbl vtbl (init s0 cat) c -> In t (c_thr c) -> In (AWrite cw v) (t_todo t) ->
    In i (c_insts c) -> immutable_at vtbl i k -> nth_error (i_cells i) k <> Some cw.
  Proof.
    intros H Ht Ha Hi Him Hk. destruct (linv_vsteps _ H) as [_ _ Hse Hth].
    destruct (Hth t Ht) as (Hti & Hw). destruct (Hw _ Ha) as (l & Hl & Hwl).
    exact (Hse i (t_inst t) k l cw Hi Hti Hk Hl Him Hwl).
  Qed.
End Local.

(* ------------------------------------------------------------------ part 3: immutability, from both tables *)

Section Immut.
  Variable etbl : list mech_row.
  Variable vtbl : list vrow.
  Variable s0 : store.
  Variable cat : list inst.

  Record VInv (c : config) : Prop := {
    vi_store : exists ext, c_store c = s0 ++ ext;
    vi_inst : forall i, In i (c_insts c) ->
      ro_inst etbl i /\ wf_inst vtbl i /\ (forall cl, In cl (i_cells i) -> cl < length (c_store c)) /\
      spec_view s0 cat i = Some (view (c_store c) i);
    vi_thr : forall t, In t (c_thr c) -> In (t_inst t) (c_insts c) /\ reads_only (t_todo t) }.

  Hypothesis Hetbl : forallb row_ok etbl = true.
  Hypothesis Hvtbl : forallb variant_row_ok vtbl = true.
  Hypothesis Hcat : vcatalogue_ok vtbl s0 cat.
  Hypothesis Hun : forall p, In p cat -> has_row etbl p.

  Lemma vinv_init : VInv (init s0 cat).
  Proof.
    destruct Hcat as [Hc Hw]. constructor; simpl.
    - exists []. rewrite app_nil_r. reflexivity.
    - intros i Hi. split; [apply (has_row_ro etbl Hetbl); auto|]. split; [apply Hw; exact Hi|].
      apply In_nth_error in Hi as [k Hk]. destruct (Hc k i Hk) as (Ho & Hov & Hlt).
      split; [exact Hlt|]. unfold spec_view. rewrite Ho, Hk, Hov. reflexivity.
    - intros t [].
  Qed.

  Lemma vinv_step c c' : VInv c -> vstep etbl vtbl c c' -> VInv c' /\ exists ext, c_store c' = c_store c ++ ext.
  Proof.
    intros [Hs Hi Ht] St. inversion St; subst; clear St.
    - split; [|exists []; simpl; rewrite app_nil_r; reflexivity].
      constructor; simpl; auto.
      intros t Hin. apply in_app_or in Hin as [Hin|[<-|[]]]; [auto|]. simpl. split; [assumption|].
      destruct (Hi i H) as (Hroi & _). rewrite (ro_writes _ _ _ _ Hroi H1) in H3.
      eapply accesses_reads; eauto.
    - split; [|exists []; simpl; rewrite app_nil_r; reflexivity].
      constructor; simpl; auto.
      intros t Hin. apply in_app_or in Hin as [Hin|[<-|[]]]; [auto|]. simpl. split; [assumption|].
      destruct (Hi i H) as (Hroi & _). rewrite (ro_writes _ _ _ _ Hroi H1) in H3.
      eapply accesses_reads; eauto.
    - assert (Hin : In t (c_thr c)) by (eapply nth_error_In; eauto).
      destruct (Ht t Hin) as (Hti & Hrd).
      destruct (Hrd a) as (cl & ->); [rewrite H0; left; reflexivity|].
      simpl. split; [|exists []; rewrite app_nil_r; reflexivity].
      constructor; simpl; auto.
      intros t' Hin'. apply In_set_nth in Hin' as [->|Hin']; [|auto]. simpl. split; [exact Hti|].
      intros a Ha. apply Hrd. rewrite H0. right. exact Ha.
    - split; [|exists []; simpl; rewrite app_nil_r; reflexivity].
      constructor; simpl; auto. intros t' Hin'. apply In_remove_nth in Hin'. auto.
    - assert (Hin : In t (c_thr c)) by (eapply nth_error_In; eauto).
      destruct (Ht t Hin) as (Hti & _).
      destruct (Hi _ Hti) as (Hroi & (vr' & Hr' & Hlen) & Hlt & Hv).
      rewrite H2 in Hr'. inversion Hr'; subst vr'. clear Hr'.
      assert (Hrow : variant_row_ok vr = true).
      { rewrite forallb_forall in Hvtbl. apply Hvtbl. eapply nth_error_In; eauto. }
      destruct (build_ok vr _ picks ovr _ _ _ Hrow H3 Hlen Hlt H4) as ((ext & ->) & Hview & Hb & Hl & _ & _).
      simpl. split; [|exists ext; reflexivity].
      constructor; simpl.
      + destruct Hs as (e0 & ->). exists (e0 ++ ext). rewrite app_assoc. reflexivity.
      + intros i Hin'. apply in_app_or in Hin' as [Hin'|[<-|[]]].
        * destruct (Hi i Hin') as (A & W & B & C). split; [exact A|]. split; [exact W|]. split.
          -- intros cl Hcl. rewrite app_length. specialize (B cl Hcl). lia.
          -- rewrite C. f_equal. symmetry. apply view_app_l. exact B.
        * split; [|split; [|split]].
          -- destruct Hroi as (r & Hr & Hror). exists r. simpl. auto.
          -- exists vr. simpl. split; [exact H2|exact Hl].
          -- exact Hb.
          -- unfold spec_view in *. simpl.
             destruct (nth_error cat (i_origin (t_inst t))) as [p|]; [|discriminate].
             inversion Hv as [Hv']. rewrite fold_left_app. simpl. rewrite Hv'. unfold view. simpl.
             rewrite Hview. reflexivity.
      + intros t' Hin'. apply In_remove_nth in Hin'. destruct (Ht t' Hin') as (A & B).
        split; [apply in_or_app; left; exact A|exact B].
  Qed.

  Lemma vinv_vsteps c : vsteps etbl vtbl (init s0 cat) c -> VInv c.
  Proof.
    intros H. remember (init s0 cat) as c0. induction H; subst.
    - apply vinv_init.
    - eapply vinv_step; eauto.
  Qed.

  Lemma vsteps_extend c1 c2 : VInv c1 -> vsteps etbl vtbl c1 c2 -> VInv c2 /\ exists ext, c_store c2 = c_store c1 ++ ext.
  Proof.
    intros HI H. induction H.
    - split; [exact HI|exists []; rewrite app_nil_r; reflexivity].
    - destruct (IHvsteps HI) as (HI2 & ext & E).
      destruct (vinv_step _ _ HI2 H0) as (HI3 & ext' & E').
      split; [exact HI3|]. exists (ext ++ ext'). rewrite E', E, app_assoc. reflexivity.
  Qed.

  Lemma vinsts_grow c1 c2 : vsteps etbl vtbl c1 c2 -> exists more, c_insts c2 = c_insts c1 ++ more.
  Proof.
    intros H. induction H.
    - exists []. rewrite app_nil_r. reflexivity.
    - destruct IHvsteps as (m & E).
      assert (exists m', c_insts c3 = c_insts c2 ++ m') as (m' & E').
      { inversion H0; subst; simpl; try (exists []; rewrite app_nil_r; reflexivity). eexists. reflexivity. }
      exists (m ++ m'). rewrite E', E, app_assoc. reflexivity.
  Qed.

  (** whatever happens later (executions, accessor calls, creation of further variants BUILT AS THE VARIANT TABLE
      SAYS, in any interleaving), every mechanism that exists now still exists and the store is unchanged on all
      cells that exist now *)
  Theorem v_store_unchanged c1 c2 :
    vsteps etbl vtbl (init s0 cat) c1 -> vsteps etbl vtbl c1 c2 ->
    (exists ext, c_store c2 = c_store c1 ++ ext) /\
    (forall i, In i (c_insts c1) -> In i (c_insts c2) /\ view (c_store c2) i = view (c_store c1) i).
  Proof.
    intros H1 H2. pose proof (vinv_vsteps _ H1) as I1.
    destruct (vsteps_extend _ _ I1 H2) as (_ & ext & E).
    split; [exists ext; exact E|]. intros i Hi.
    destruct (vinsts_grow _ _ H2) as (m & Em). split.
    - rewrite Em. apply in_or_app. left. exact Hi.
    - rewrite E. apply view_app_l. destruct I1 as [_ Hinst _]. apply Hinst. exact Hi.
  Qed.

  Theorem v_race_free c : vsteps etbl vtbl (init s0 cat) c -> ~ race c.
  Proof.
    intros H. destruct (vinv_vsteps _ H) as [_ _ Ht].
    intros (n1 & n2 & t1 & t2 & a1 & r1 & a2 & r2 & _ & H1 & H2 & E1 & E2 & Hc).
    apply nth_error_In in H1, H2.
    destruct (Ht _ H1) as (_ & R1). destruct (Ht _ H2) as (_ & R2).
    destruct (R1 a1) as (c1 & ->); [rewrite E1; left; reflexivity|].
    destruct (R2 a2) as (c2 & ->); [rewrite E2; left; reflexivity|].
    unfold conflict in Hc. simpl in Hc. rewrite andb_false_r in Hc. discriminate.
  Qed.

  Theorem v_calls_read_only c t a :
    vsteps etbl vtbl (init s0 cat) c -> In t (c_thr c) -> In a (t_todo t) -> acc_is_write a = false.
  Proof.
    intros H Ht Ha. destruct (vinv_vsteps _ H) as [_ _ Hthr].
    destruct (Hthr t Ht) as (_ & R). destruct (R a Ha) as (cl & ->). reflexivity.
  Qed.

  Theorem v_overrides_local c i :
    vsteps etbl vtbl (init s0 cat) c -> In i (c_insts c) -> spec_view s0 cat i = Some (view (c_store c) i).
  Proof. intros H Hi. destruct (vinv_vsteps _ H) as [_ Hinst _]. apply Hinst. exact Hi. Qed.

  Theorem v_order_independent c c' i i' :
    vsteps etbl vtbl (init s0 cat) c -> vsteps etbl vtbl (init s0 cat) c' ->
    In i (c_insts c) -> In i' (c_insts c') ->
    i_origin i = i_origin i' -> i_ovrs i = i_ovrs i' ->
    view (c_store c) i = view (c_store c') i'.
  Proof.
    intros H H' Hi Hi' Eo Ev.
    pose proof (v_overrides_local _ _ H Hi) as V. pose proof (v_overrides_local _ _ H' Hi') as V'.
    unfold spec_view in *. rewrite Eo, Ev in V. rewrite V in V'. inversion V'. reflexivity.
  Qed.
End Immut.

(** the simple model of C17/Model.v ([make_variant], which the correspondence evaluator executes) and the
    table-driven one agree on what a variant shows, for every row under the check and every path through it *)
Theorem variant_views_agree vr (src : inst) picks ovr (s s' : store) (cs : list cell) :
  variant_row_ok vr = true -> picks_from (v_fields vr) picks ->
  length (i_cells src) = length (v_fields vr) ->
  (forall c, In c (i_cells src) -> c < length s) ->
  build (i_cells src) s picks ovr = Some (s', cs) ->
  map (rd s') cs = view (fst (make_variant s src ovr)) (snd (make_variant s src ovr)).
Proof.
  intros Hok Hp Hlen Hlt E.
  destruct (build_ok vr _ picks ovr _ _ _ Hok Hp Hlen Hlt E) as (_ & Hview & _).
  destruct (make_variant s src ovr) as [s2 v] eqn:EM.
  destruct (make_variant_spec _ _ _ _ _ Hlt EM) as (_ & Hv & _).
  simpl. rewrite Hview, Hv. reflexivity.
Qed.

(* ------------------------------------------------------------------ part 4: rows that fail the check, and why *)

Open Scope string_scope.

(** corpus/C17/mutations/M2: oauth2_client_credentials WithConfig re-uses the prototype's backing array,
    [cfg.Scopes = append(cfg.Scopes[:0], conf.Scopes...)].  The row as variants.go extracts it from the mutant
    (fields restricted to two). *)
Definition m2_vrow : vrow :=
  mk_vrow "finalizers" "oauth2ClientCredentialsFinalizer" false
    [ mk_vf "id" "string" [VRecvCopy 0] [];
      mk_vf "cfg.Scopes" "[]string" [VRecvShared 1; VMixAlias 1] ["WithConfig"] ]
    [ mk_eff EAppendInto "(*finalizers.oauth2ClientCredentialsFinalizer).WithConfig"
        "cfg.Scopes: cfg.Scopes (append writes into the spare capacity of its first argument)"
        "internal/rules/mechanisms/finalizers/oauth2_client_credentials_finalizer.go:115" ].

Definition m2_erow : mech_row :=
  mk_row "finalizers" "oauth2ClientCredentialsFinalizer" KFinalizer []
    [ mk_meth "Execute" [];
      mk_meth "WithConfig" [ mk_eff EAppendInto "(*finalizers.oauth2ClientCredentialsFinalizer).WithConfig" "_.Scopes"
                               "internal/rules/mechanisms/finalizers/oauth2_client_credentials_finalizer.go:115" ] ].

Definition two_proto : inst := {| i_row := 0; i_cells := [0; 1]; i_origin := 0; i_ovrs := [] |}.

Lemma two_catalogue vr s : length (v_fields vr) = 2 -> length s = 2 -> vcatalogue_ok [vr] s [two_proto].
Proof.
  intros Hf Hs. split.
  - intros [|[|k]] i E; simpl in E; try discriminate. inversion E; subst.
    repeat split; auto. intros c [<-|[<-|[]]]; lia.
  - intros p [<-|[]]. exists vr. split; [reflexivity|]. simpl. congruence.
Qed.

(** the row fails the check, and in the model creating a variant with other scopes changes the prototype *)
Lemma M2_refuted :
  variant_row_ok m2_vrow = false /\ vcatalogue_ok [m2_vrow] [1%Z; 10%Z] [two_proto] /\
  exists c, vsteps [m2_erow] [m2_vrow] (init [1%Z; 10%Z] [two_proto]) c /\
            view (c_store c) two_proto = [1%Z; 99%Z] /\ view [1%Z; 10%Z] two_proto = [1%Z; 10%Z].
Proof.
  split; [reflexivity|]. split; [apply two_catalogue; reflexivity|].
  set (c0 := init [1%Z; 10%Z] [two_proto]).
  set (ovr := [None; Some 99%Z]).
  set (tw := {| t_inst := two_proto; t_todo := []; t_fin := Some ovr |}).
  set (c1 := {| c_store := c_store c0; c_insts := c_insts c0; c_thr := c_thr c0 ++ [tw] |}).
  assert (S1 : vstep [m2_erow] [m2_vrow] c0 c1).
  { apply (VsWith [m2_erow] [m2_vrow] c0 two_proto ovr [] []).
    - left. reflexivity.
    - exists m2_erow, true. split; reflexivity.
    - left. reflexivity.
    - intros c v [].
    - intros a []. }
  pose proof (VsVariant [m2_erow] [m2_vrow] c1 0 tw ovr m2_vrow [VRecvCopy 0; VMixAlias 1] [1%Z; 99%Z; 1%Z] [2; 1]
                eq_refl eq_refl eq_refl eq_refl) as S2.
  eexists. split.
  { eapply vsteps_step; [eapply vsteps_step; [apply vsteps_refl|exact S1]|].
    apply S2; [simpl; auto|reflexivity]. }
  split; reflexivity.
Qed.

(** seeded/C17-9: clientcredentials.Config memoises its cache key in an atomic.Value on first use; the unchanged
    [cfg := f.cfg] of the finalizer's WithConfig copies the memo into every variant created afterwards.  Rows as
    extracted from the seeded tree (fields restricted to two). *)
Definition s9_vrow : vrow :=
  mk_vrow "finalizers" "oauth2ClientCredentialsFinalizer" false
    [ mk_vf "cfg.Scopes" "[]string" [VRecvShared 0; VFresh] [];
      mk_vf "cfg.cacheKey" "atomic.Value" [VRecvShared 1] ["Execute"] ]
    [].

Definition s9_erow : mech_row :=
  mk_row "finalizers" "oauth2ClientCredentialsFinalizer" KFinalizer []
    [ mk_meth "Execute" [ mk_eff EUnknownCall "(*oauth2/clientcredentials.Config).calculateCacheKey"
                            "(*sync/atomic.Value).Store <- c.cacheKey"
                            "internal/rules/oauth2/clientcredentials/clientcredentials.go:121" ];
      mk_meth "WithConfig" [] ].

(** the row fails the check (the offending field is [cfg.cacheKey]: taken from the receiver and written by
    Execute), and in the model a variant with its own scopes, created after the prototype has executed once,
    carries the prototype's memo instead of what catalogue + own overrides prescribe *)
Lemma S9_refuted :
  variant_row_ok s9_vrow = false /\ vcatalogue_ok [s9_vrow] [5%Z; 0%Z] [two_proto] /\
  exists c v, vsteps [s9_erow] [s9_vrow] (init [5%Z; 0%Z] [two_proto]) c /\ In v (c_insts c) /\
              i_origin v = 0 /\ i_ovrs v = [[Some 6%Z; None]] /\
              view (c_store c) v = [6%Z; 7%Z] /\ spec_view [5%Z; 0%Z] [two_proto] v = Some [6%Z; 0%Z].
Proof.
  split; [reflexivity|]. split; [apply two_catalogue; reflexivity|].
  set (c0 := init [5%Z; 0%Z] [two_proto]).
  set (te := {| t_inst := two_proto; t_todo := [AWrite 1 7%Z]; t_fin := None |}).
  set (c1 := {| c_store := c_store c0; c_insts := c_insts c0; c_thr := c_thr c0 ++ [te] |}).
  assert (S1 : vstep [s9_erow] [s9_vrow] c0 c1).
  { apply (VsCall [s9_erow] [s9_vrow] c0 two_proto "Execute" [(1, 7%Z)] [AWrite 1 7%Z]).
    - left. reflexivity.
    - exists s9_erow, true. split; reflexivity.
    - right. exists s9_erow. split; [reflexivity|]. split; [reflexivity|].
      intros c v [E|[]]. inversion E; subst. right. left. reflexivity.
    - intros c v [E|[]]. inversion E; subst.
      exists s9_vrow, 1, (mk_vf "cfg.cacheKey" "atomic.Value" [VRecvShared 1] ["Execute"]).
      repeat split. left. reflexivity.
    - intros a [<-|[]]. left. reflexivity. }
  pose proof (VsAccess [s9_erow] [s9_vrow] c1 0 te (AWrite 1 7%Z) [] eq_refl eq_refl) as S2. simpl in S2.
  set (c2 := {| c_store := [5%Z; 7%Z]; c_insts := [two_proto];
                c_thr := [ {| t_inst := two_proto; t_todo := []; t_fin := None |} ] |}) in S2.
  pose proof (VsReturn [s9_erow] [s9_vrow] c2 0 _ eq_refl eq_refl eq_refl) as S3. simpl in S3.
  set (c3 := {| c_store := [5%Z; 7%Z]; c_insts := [two_proto]; c_thr := [] |}) in S3.
  set (ovr := [Some 6%Z; None]).
  set (tw := {| t_inst := two_proto; t_todo := []; t_fin := Some ovr |}).
  set (c4 := {| c_store := c_store c3; c_insts := c_insts c3; c_thr := c_thr c3 ++ [tw] |}).
  assert (S4 : vstep [s9_erow] [s9_vrow] c3 c4).
  { apply (VsWith [s9_erow] [s9_vrow] c3 two_proto ovr [] []).
    - left. reflexivity.
    - exists s9_erow, false. split; reflexivity.
    - left. reflexivity.
    - intros c v [].
    - intros a []. }
  pose proof (VsVariant [s9_erow] [s9_vrow] c4 0 tw ovr s9_vrow [VFresh; VRecvShared 1] [5%Z; 7%Z; 6%Z] [2; 1]
                eq_refl eq_refl eq_refl eq_refl) as S5.
  eexists. eexists. split.
  { eapply vsteps_step; [eapply vsteps_step; [eapply vsteps_step; [eapply vsteps_step; [eapply vsteps_step;
      [apply vsteps_refl|exact S1]|exact S2]|exact S3]|exact S4]|].
    apply S5; [simpl; auto|reflexivity]. }
  simpl. split; [right; left; reflexivity|]. repeat split.
Qed.

(** the hypotheses of the locality theorem are satisfiable by a table in which a field IS written: the memo is
    rebuilt (never inherited) by WithConfig.  The prototype's memo changes — [v_store_unchanged] does not apply —
    yet a variant created afterwards is well defined. *)
Definition loc_vrow : vrow :=
  mk_vrow "finalizers" "memoFinalizer" true
    [ mk_vf "scopes" "[]string" [VRecvShared 0; VFresh] [];
      mk_vf "memo" "string" [VFresh] ["Execute"] ]
    [].

Example locality_nonvacuous :
  forallb variant_row_ok [loc_vrow] = true /\ vcatalogue_ok [loc_vrow] [5%Z; 0%Z] [two_proto] /\
  cat_separate [loc_vrow] [two_proto] /\
  immutable_at [loc_vrow] two_proto 0 /\ writable_at [loc_vrow] two_proto 1.
Proof.
  split; [reflexivity|]. split; [apply two_catalogue; reflexivity|]. split; [|split].
  - intros i j k l c [<-|[]] [<-|[]] Hk Hl Him Hw.
    assert (T : forall n x, nth_error (i_cells two_proto) n = Some x -> n = x).
    { intros [|[|[|n]]] x E; simpl in E; inversion E; reflexivity. }
    apply T in Hk, Hl. subst. eapply immutable_not_writable; eauto.
  - exists loc_vrow. split; reflexivity.
  - exists loc_vrow, (mk_vf "memo" "string" [VFresh] ["Execute"]), "Execute". repeat split. left. reflexivity.
Qed.

(** non-vacuity of the immutability theorems for the table-driven semantics: a row under the check, a run in
    which a variant is built from the row while the prototype executes *)
Definition vnv_vrow : vrow :=
  mk_vrow "finalizers" "headerFinalizer" true
    [ mk_vf "id" "string" [VRecvCopy 0] [];
      mk_vf "headers" "map[string]template.Template" [VRecvShared 1; VFresh] [] ]
    [].

Example v_nonvacuous :
  forallb row_ok [nv_row] = true /\ forallb variant_row_ok [vnv_vrow] = true /\ tables_aligned [nv_row] [vnv_vrow] = true /\
  vcatalogue_ok [vnv_vrow] [10%Z; 20%Z] [two_proto] /\ has_row [nv_row] two_proto /\
  exists c v, vsteps [nv_row] [vnv_vrow] (init [10%Z; 20%Z] [two_proto]) c /\ In v (c_insts c) /\
    i_ovrs v = [[None; Some 99%Z]] /\ view (c_store c) v = [10%Z; 99%Z] /\
    view (c_store c) two_proto = [10%Z; 20%Z] /\ c_thr c <> [].
Proof.
  split; [reflexivity|]. split; [reflexivity|]. split; [reflexivity|].
  split; [apply two_catalogue; reflexivity|]. split; [exists nv_row; reflexivity|].
  set (c0 := init [10%Z; 20%Z] [two_proto]).
  set (ovr := [None; Some 99%Z]).
  set (tw := {| t_inst := two_proto; t_todo := []; t_fin := Some ovr |}).
  set (te := {| t_inst := two_proto; t_todo := [ARead 0]; t_fin := None |}).
  set (c1 := {| c_store := c_store c0; c_insts := c_insts c0; c_thr := c_thr c0 ++ [tw] |}).
  set (c2 := {| c_store := c_store c1; c_insts := c_insts c1; c_thr := c_thr c1 ++ [te] |}).
  assert (S1 : vstep [nv_row] [vnv_vrow] c0 c1).
  { apply (VsWith [nv_row] [vnv_vrow] c0 two_proto ovr [] []).
    - left. reflexivity.
    - exists nv_row, false. split; reflexivity.
    - left. reflexivity.
    - intros c v [].
    - intros a []. }
  assert (S2 : vstep [nv_row] [vnv_vrow] c1 c2).
  { apply (VsCall [nv_row] [vnv_vrow] c1 two_proto "Execute" [] [ARead 0]).
    - left. reflexivity.
    - exists nv_row, false. split; reflexivity.
    - left. reflexivity.
    - intros c v [].
    - intros a [<-|[]]. left. reflexivity. }
  pose proof (VsVariant [nv_row] [vnv_vrow] c2 0 tw ovr vnv_vrow [VRecvCopy 0; VFresh] [10%Z; 20%Z; 10%Z; 99%Z] [2; 3]
                eq_refl eq_refl eq_refl eq_refl) as S3.
  eexists. eexists. split.
  { eapply vsteps_step; [eapply vsteps_step; [eapply vsteps_step; [apply vsteps_refl|exact S1]|exact S2]|].
    apply S3; [simpl; auto|reflexivity]. }
  simpl. split; [right; left; reflexivity|]. repeat split. discriminate.
Qed.

(* ------------------------------------------------------------------ the hypotheses of the main theorems have a witness for
   ANY non-empty pair of aligned tables (used for today's generated tables in Properties/C17.v) *)

Definition proto_of (vr : vrow) : inst :=
  {| i_row := 0; i_cells := seq 0 (length (v_fields vr)); i_origin := 0; i_ovrs := [] |}.

Lemma catalogue_exists er erest vr vrest :
  vcatalogue_ok (vr :: vrest) (repeat 0%Z (length (v_fields vr))) [proto_of vr] /\
  (forall p, In p [proto_of vr] -> has_row (er :: erest) p).
Proof.
  split; [split|].
  - intros [|k] i E; simpl in E; [|destruct k; discriminate]. inversion E; subst. clear E.
    split; [reflexivity|]. split; [reflexivity|]. intros c Hc. simpl in Hc. apply in_seq in Hc.
    rewrite repeat_length. lia.
  - intros p [<-|[]]. exists vr. split; [reflexivity|]. simpl. apply seq_length.
  - intros p [<-|[]]. exists er. reflexivity.
Qed.
