(** C17 — proofs about the store-of-cells model (C17/Model.v). *)
From HV Require Import Base.Prelude C17.Model.
Open Scope list_scope.

(* ------------------------------------------------------------------ the table *)

Lemma read_only_no_write r name b :
  read_only r = true -> may_write r name = Some b -> b = false.
Proof.
  unfold read_only, may_write, find_meth. intros Hro H.
  destruct (find _ (r_methods r)) as [m|] eqn:F; [|discriminate].
  apply find_some in F as [Hm _]. rewrite forallb_forall in Hro.
  rewrite (Hro m Hm) in H. simpl in H. congruence.
Qed.

(* ------------------------------------------------------------------ stores *)

Lemma rd_app_l s ext c : c < length s -> rd (s ++ ext) c = rd s c.
Proof. intros H. unfold rd. apply app_nth1. exact H. Qed.

Lemma view_app_l s ext i :
  (forall c, In c (i_cells i) -> c < length s) -> view (s ++ ext) i = view s i.
Proof.
  unfold view. intros H. apply map_ext_in. intros c Hc. apply rd_app_l. auto.
Qed.

Lemma variant_cells_spec : forall cells ovr s pre cs vs,
  (forall c, In c cells -> c < length s) ->
  variant_cells (length s + length pre) cells ovr = (cs, vs) ->
  map (rd (s ++ pre ++ vs)) cs = overlay (map (rd s) cells) ovr /\
  (forall c, In c cs -> c < length s + length pre + length vs).
Proof.
  induction cells as [|c cr IH]; intros ovr s pre cs vs Hlt E.
  - simpl in E. inversion E; subst. destruct ovr; simpl; split; auto; intros ? [].
  - destruct ovr as [|[v|] orr]; simpl in E.
    + inversion E; subst. simpl. rewrite app_nil_r. split.
      * f_equal.
        -- rewrite rd_app_l; [reflexivity|]. apply Hlt. left. reflexivity.
        -- apply map_ext_in. intros c' Hc'. apply rd_app_l. apply Hlt. right. exact Hc'.
      * intros c' [->|Hc']; [specialize (Hlt c' (or_introl eq_refl))|specialize (Hlt c' (or_intror Hc'))]; lia.
    + destruct (variant_cells (S (length s + length pre)) cr orr) as [cs' vs'] eqn:E'.
      inversion E; subst. clear E.
      assert (Hn : S (length s + length pre) = length s + length (pre ++ [v])).
      { rewrite app_length. simpl. lia. }
      rewrite Hn in E'.
      specialize (IH orr s (pre ++ [v]) cs' vs' (fun c' H => Hlt c' (or_intror H)) E') as [IH1 IH2].
      rewrite <- app_assoc in IH1. simpl in IH1. simpl. split.
      * f_equal; [|exact IH1].
        unfold rd. rewrite app_assoc. rewrite app_nth2; rewrite app_length; [|lia].
        replace (length s + length pre - (length s + length pre)) with 0 by lia. reflexivity.
      * intros c' [<-|Hc']; [lia|]. apply IH2 in Hc'. rewrite app_length in Hc'. simpl in Hc'. lia.
    + destruct (variant_cells (length s + length pre) cr orr) as [cs' vs'] eqn:E'.
      inversion E; subst. clear E.
      specialize (IH orr s pre cs' vs (fun c' H => Hlt c' (or_intror H)) E') as [IH1 IH2].
      simpl. split.
      * f_equal; [|exact IH1]. rewrite rd_app_l; [reflexivity|]. apply Hlt. left. reflexivity.
      * intros c' [<-|Hc']; [|apply IH2; exact Hc'].
        specialize (Hlt c (or_introl eq_refl)). lia.
Qed.

Lemma make_variant_spec s src ovr s' v :
  (forall c, In c (i_cells src) -> c < length s) ->
  make_variant s src ovr = (s', v) ->
  (exists ext, s' = s ++ ext) /\
  view s' v = overlay (view s src) ovr /\
  (forall c, In c (i_cells v) -> c < length s') /\
  i_row v = i_row src /\ i_origin v = i_origin src /\ i_ovrs v = i_ovrs src ++ [ovr].
Proof.
  unfold make_variant. intros Hlt E.
  destruct (variant_cells (length s) (i_cells src) ovr) as [cs vs] eqn:EV.
  inversion E; subst. clear E.
  replace (length s) with (length s + length (@nil val)) in EV by (simpl; lia).
  apply variant_cells_spec in EV as [H1 H2]; [|exact Hlt].
  simpl in H1, H2. unfold view. simpl. repeat split; try reflexivity.
  - exists vs. reflexivity.
  - exact H1.
  - intros c Hc. apply H2 in Hc. rewrite app_length. lia.
Qed.

Lemma upd_length s c v : length (upd s c v) = length s.
Proof. revert c. induction s; intros [|c]; simpl; auto. Qed.

(* ------------------------------------------------------------------ invariant *)

Section Inv.
  Variable tbl : list mech_row.
  Variable s0 : store.
  Variable cat : list inst.

  Definition ro_inst (i : inst) : Prop :=
    exists r, nth_error tbl (i_row i) = Some r /\ read_only r = true.

  Definition reads_only (l : list access) : Prop := forall a, In a l -> exists c, a = ARead c.

  Record Inv (c : config) : Prop := {
    inv_store : exists ext, c_store c = s0 ++ ext;
    inv_inst : forall i, In i (c_insts c) ->
      ro_inst i /\ (forall cl, In cl (i_cells i) -> cl < length (c_store c)) /\
      spec_view s0 cat i = Some (view (c_store c) i);
    inv_thr : forall t, In t (c_thr c) -> In (t_inst t) (c_insts c) /\ reads_only (t_todo t) }.

  Hypothesis Hcat : catalogue_ok s0 cat.
  Hypothesis Hro : forall p, In p cat -> ro_inst p.

  Lemma inv_init : Inv (init s0 cat).
  Proof.
    constructor; simpl.
    - exists []. rewrite app_nil_r. reflexivity.
    - intros i Hi. apply In_nth_error in Hi as [k Hk].
      destruct (Hcat k i Hk) as (Ho & Hov & Hlt).
      split; [apply Hro; eapply nth_error_In; eauto|]. split; [exact Hlt|].
      unfold spec_view. rewrite Ho, Hk, Hov. reflexivity.
    - intros t [].
  Qed.

  Lemma ro_writes i name ws : ro_inst i -> writes_allowed tbl i name ws -> ws = [].
  Proof.
    intros (r & Hr & Hror) [H|(r' & Hr' & Hw & _)]; [exact H|].
    rewrite Hr in Hr'. inversion Hr'; subst.
    apply (read_only_no_write _ _ _ Hror) in Hw. discriminate.
  Qed.

  Lemma accesses_reads i l : accesses_of i [] l -> reads_only l.
  Proof.
    intros H a Ha. specialize (H a Ha). destruct a as [c|c v]; [eauto|destruct H].
  Qed.

  Lemma In_set_nth {A} n (x : A) l y : In y (set_nth n x l) -> y = x \/ In y l.
  Proof.
    revert n. induction l as [|z l IH]; intros [|n]; simpl; intros H; auto.
    - destruct H; auto.
    - destruct H as [H|H]; auto. apply IH in H. destruct H; auto.
  Qed.

  Lemma In_remove_nth {A} n l (y : A) : In y (remove_nth n l) -> In y l.
  Proof.
    revert n. induction l as [|z l IH]; intros [|n]; simpl; intros H.
    - exact H.
    - exact H.
    - right. exact H.
    - destruct H as [H|H]; [left; exact H|right; eapply IH; exact H].
  Qed.

  (** every step keeps the invariant and only extends the store *)
  Lemma inv_step c c' : Inv c -> step tbl c c' -> Inv c' /\ exists ext, c_store c' = c_store c ++ ext.
  Proof.
    intros [Hs Hi Ht] St. inversion St; subst; clear St.
    - (* call *)
      split; [|exists []; simpl; rewrite app_nil_r; reflexivity].
      constructor; simpl; auto.
      intros t Hin. apply in_app_or in Hin as [Hin|[<-|[]]]; [auto|]. simpl. split; [assumption|].
      destruct (Hi i H) as (Hroi & _). rewrite (ro_writes _ _ _ Hroi H1) in H2.
      eapply accesses_reads; eauto.
    - (* with_config starts *)
      split; [|exists []; simpl; rewrite app_nil_r; reflexivity].
      constructor; simpl; auto.
      intros t Hin. apply in_app_or in Hin as [Hin|[<-|[]]]; [auto|]. simpl. split; [assumption|].
      destruct (Hi i H) as (Hroi & _). rewrite (ro_writes _ _ _ Hroi H1) in H2.
      eapply accesses_reads; eauto.
    - (* access *)
      assert (Hin : In t (c_thr c)) by (eapply nth_error_In; eauto).
      destruct (Ht t Hin) as (Hti & Hrd).
      destruct (Hrd a) as (cl & ->); [rewrite H0; left; reflexivity|].
      simpl. split; [|exists []; rewrite app_nil_r; reflexivity].
      constructor; simpl; auto.
      intros t' Hin'. apply In_set_nth in Hin' as [->|Hin']; [|auto]. simpl. split; [exact Hti|].
      intros a Ha. apply Hrd. rewrite H0. right. exact Ha.
    - (* return *)
      split; [|exists []; simpl; rewrite app_nil_r; reflexivity].
      constructor; simpl; auto. intros t' Hin'. apply In_remove_nth in Hin'. auto.
    - (* variant created *)
      assert (Hin : In t (c_thr c)) by (eapply nth_error_In; eauto).
      destruct (Ht t Hin) as (Hti & _).
      destruct (Hi _ Hti) as (Hroi & Hlt & Hv).
      destruct (make_variant (c_store c) (t_inst t) ovr) as [s' v] eqn:E.
      destruct (make_variant_spec _ _ _ _ _ Hlt E) as ((ext & ->) & Hview & Hlt' & Hrow & Horg & Hovr).
      simpl. split; [|exists ext; reflexivity].
      constructor; simpl.
      + destruct Hs as (e0 & ->). exists (e0 ++ ext). rewrite app_assoc. reflexivity.
      + intros i Hin'. apply in_app_or in Hin' as [Hin'|[<-|[]]].
        * destruct (Hi i Hin') as (A & B & C). split; [exact A|]. split.
          -- intros cl Hcl. rewrite app_length. specialize (B cl Hcl). lia.
          -- rewrite C. f_equal. symmetry. apply view_app_l. exact B.
        * split; [|split].
          -- destruct Hroi as (r & Hr & Hror). exists r. rewrite Hrow. auto.
          -- exact Hlt'.
          -- unfold spec_view in *. rewrite Horg, Hovr.
             destruct (nth_error cat (i_origin (t_inst t))) as [p|]; [|discriminate].
             inversion Hv as [Hv']. rewrite fold_left_app. simpl. rewrite Hv', Hview.
             reflexivity.
      + intros t' Hin'. apply In_remove_nth in Hin'. destruct (Ht t' Hin') as (A & B).
        split; [apply in_or_app; left; exact A|exact B].
  Qed.

  Lemma inv_steps c : steps tbl (init s0 cat) c -> Inv c.
  Proof.
    intros H. remember (init s0 cat) as c0. induction H; subst.
    - apply inv_init.
    - eapply inv_step; eauto.
  Qed.

  Lemma steps_extend c1 c2 : Inv c1 -> steps tbl c1 c2 -> Inv c2 /\ exists ext, c_store c2 = c_store c1 ++ ext.
  Proof.
    intros HI H. induction H.
    - split; [exact HI|exists []; rewrite app_nil_r; reflexivity].
    - destruct (IHsteps HI) as (HI2 & ext & E).
      destruct (inv_step _ _ HI2 H0) as (HI3 & ext' & E').
      split; [exact HI3|]. exists (ext ++ ext'). rewrite E', E, app_assoc. reflexivity.
  Qed.

  Lemma inv_no_race c : Inv c -> ~ race c.
  Proof.
    intros [_ _ Ht] (n1 & n2 & t1 & t2 & a1 & r1 & a2 & r2 & _ & H1 & H2 & E1 & E2 & Hc).
    apply nth_error_In in H1, H2.
    destruct (Ht _ H1) as (_ & R1). destruct (Ht _ H2) as (_ & R2).
    destruct (R1 a1) as (c1 & ->); [rewrite E1; left; reflexivity|].
    destruct (R2 a2) as (c2 & ->); [rewrite E2; left; reflexivity|].
    unfold conflict in Hc. simpl in Hc. rewrite andb_false_r in Hc. discriminate.
  Qed.

  Lemma insts_grow c c' : step tbl c c' -> exists more, c_insts c' = c_insts c ++ more.
  Proof.
    intros St. inversion St; subst; simpl; try (exists []; rewrite app_nil_r; reflexivity).
    eexists. reflexivity.
  Qed.
End Inv.

(* ------------------------------------------------------------------ the finding: a lazily
   initialising Execute races with itself and changes the shared prototype *)

(** the row of [jwtAuthenticator] as harness/tools/effects extracted it at the pinned revision
    (before fix: commit 13721c3), restricted to Execute / WithConfig *)
Definition f1_row : mech_row :=
  mk_row "authenticators" "jwtAuthenticator" KAuthenticator []
    [ mk_meth "Execute" [
        mk_eff EMapUpdate "(*oauth2.MetadataEndpoint).init" "e.Endpoint.Headers" "internal/rules/mechanisms/oauth2/metadata_endpoint.go:31";
        mk_eff EStore "(*oauth2.MetadataEndpoint).init" "e.Endpoint.HTTPCache" "internal/rules/mechanisms/oauth2/metadata_endpoint.go:39";
        mk_eff EStore "(*oauth2.MetadataEndpoint).init" "e.Endpoint.Headers" "internal/rules/mechanisms/oauth2/metadata_endpoint.go:27";
        mk_eff EStore "(*oauth2.MetadataEndpoint).init" "e.Endpoint.Method" "internal/rules/mechanisms/oauth2/metadata_endpoint.go:35" ];
      mk_meth "WithConfig" [] ].

Definition f1_proto : inst := {| i_row := 0; i_cells := [0]; i_origin := 0; i_ovrs := [] |}.

Lemma f1_callable : callable [f1_row] f1_proto "Execute".
Proof. exists f1_row, true. split; reflexivity. Qed.

Lemma f1_writes : writes_allowed [f1_row] f1_proto "Execute" [(0, 1%Z)].
Proof.
  right. exists f1_row. split; [reflexivity|]. split; [reflexivity|].
  intros c v [E|[]]. inversion E; subst. left. reflexivity.
Qed.

Lemma f1_accesses : accesses_of f1_proto [(0, 1%Z)] [AWrite 0 1%Z].
Proof. intros a [<-|[]]. left. reflexivity. Qed.

Definition f1_thread : thread := {| t_inst := f1_proto; t_todo := [AWrite 0 1%Z]; t_fin := None |}.

Lemma f1_call c : In f1_proto (c_insts c) ->
  step [f1_row] c {| c_store := c_store c; c_insts := c_insts c; c_thr := c_thr c ++ [f1_thread] |}.
Proof.
  intros H.
  apply (StCall [f1_row] c f1_proto "Execute" [(0, 1%Z)] [AWrite 0 1%Z]);
    [exact H|apply f1_callable|apply f1_writes|apply f1_accesses].
Qed.

Definition f1_c1 : config := {| c_store := [0%Z]; c_insts := [f1_proto]; c_thr := [f1_thread] |}.
Definition f1_c2 : config := {| c_store := [0%Z]; c_insts := [f1_proto]; c_thr := [f1_thread; f1_thread] |}.
Definition f1_c3 : config :=
  {| c_store := [1%Z]; c_insts := [f1_proto]; c_thr := [ {| t_inst := f1_proto; t_todo := []; t_fin := None |} ] |}.

Lemma f1_steps1 : steps [f1_row] (init [0%Z] [f1_proto]) f1_c1.
Proof.
  eapply steps_step; [apply steps_refl|].
  apply (f1_call (init [0%Z] [f1_proto])). left. reflexivity.
Qed.

Lemma f1_steps2 : steps [f1_row] (init [0%Z] [f1_proto]) f1_c2.
Proof.
  eapply steps_step; [apply f1_steps1|]. apply (f1_call f1_c1). left. reflexivity.
Qed.

Lemma f1_steps3 : steps [f1_row] (init [0%Z] [f1_proto]) f1_c3.
Proof.
  eapply steps_step; [apply f1_steps1|].
  apply (StAccess [f1_row] f1_c1 0 f1_thread (AWrite 0 1%Z) []); reflexivity.
Qed.

(** every instance has a row in the table (its Go type is a known mechanism type) *)
Definition has_row (tbl : list mech_row) (p : inst) : Prop := exists r, nth_error tbl (i_row p) = Some r.

Lemma F1_pinned_refuted :
  forallb row_ok [f1_row] = false /\
  catalogue_ok [0%Z] [f1_proto] /\ has_row [f1_row] f1_proto /\
  (exists c, steps [f1_row] (init [0%Z] [f1_proto]) c /\ race c) /\
  (exists c, steps [f1_row] (init [0%Z] [f1_proto]) c /\ view (c_store c) f1_proto <> view [0%Z] f1_proto).
Proof.
  split; [reflexivity|]. split; [|split; [|split]].
  - intros [|[|k]] i E; simpl in E; try discriminate. inversion E; subst.
    repeat split; auto. intros c [<-|[]]. simpl. lia.
  - exists f1_row. reflexivity.
  - exists f1_c2. split; [apply f1_steps2|].
    exists 0, 1, f1_thread, f1_thread, (AWrite 0 1%Z), [], (AWrite 0 1%Z), [].
    repeat split; auto.
  - exists f1_c3. split; [apply f1_steps3|simpl; discriminate].
Qed.

(* ------------------------------------------------------------------ main theorems, for every
   effect table that passes the boolean check [forallb row_ok] *)

Section Main.
  Variable tbl : list mech_row.
  Hypothesis Htbl : forallb row_ok tbl = true.

  Lemma has_row_ro p : has_row tbl p -> ro_inst tbl p.
  Proof.
    intros (r & Hr). exists r. split; [exact Hr|].
    rewrite forallb_forall in Htbl. apply (Htbl r). eapply nth_error_In; eauto.
  Qed.

  Variable s0 : store.
  Variable cat : list inst.
  Hypothesis Hcat : catalogue_ok s0 cat.
  Hypothesis Hun : forall p, In p cat -> has_row tbl p.

  Lemma reach_inv c : steps tbl (init s0 cat) c -> Inv tbl s0 cat c.
  Proof. apply inv_steps; [exact Hcat|]. intros p Hp. apply has_row_ro. auto. Qed.

  Lemma steps_insts_grow c1 c2 : steps tbl c1 c2 -> exists more, c_insts c2 = c_insts c1 ++ more.
  Proof.
    intros H. induction H.
    - exists []. rewrite app_nil_r. reflexivity.
    - destruct IHsteps as (m & E). destruct (insts_grow _ _ _ H0) as (m' & E').
      exists (m ++ m'). rewrite E', E, app_assoc. reflexivity.
  Qed.

  (** whatever happens later (executions, accessor calls, creation of further
      variants, in any interleaving), every mechanism that exists now still exists
      and the store is unchanged on all cells that exist now *)
  Theorem store_unchanged c1 c2 :
    steps tbl (init s0 cat) c1 -> steps tbl c1 c2 ->
    (exists ext, c_store c2 = c_store c1 ++ ext) /\
    (forall i, In i (c_insts c1) -> In i (c_insts c2) /\ view (c_store c2) i = view (c_store c1) i).
  Proof.
    intros H1 H2. pose proof (reach_inv _ H1) as I1.
    destruct (steps_extend _ _ _ _ _ I1 H2) as (_ & ext & E).
    split; [exists ext; exact E|]. intros i Hi.
    destruct (steps_insts_grow _ _ H2) as (m & Em). split.
    - rewrite Em. apply in_or_app. left. exact Hi.
    - rewrite E. apply view_app_l. destruct I1 as [_ Hinst _]. apply Hinst. exact Hi.
  Qed.

  Theorem race_free c : steps tbl (init s0 cat) c -> ~ race c.
  Proof. intros H. apply (inv_no_race tbl s0 cat). apply reach_inv. exact H. Qed.

  (** every running call only reads: in particular it never writes a cell of any mechanism *)
  Theorem calls_read_only c t a :
    steps tbl (init s0 cat) c -> In t (c_thr c) -> In a (t_todo t) -> acc_is_write a = false.
  Proof.
    intros H Ht Ha. destruct (reach_inv _ H) as [_ _ Hthr].
    destruct (Hthr t Ht) as (_ & R). destruct (R a Ha) as (cl & ->). reflexivity.
  Qed.

  Theorem overrides_local c i :
    steps tbl (init s0 cat) c -> In i (c_insts c) -> spec_view s0 cat i = Some (view (c_store c) i).
  Proof. intros H Hi. destruct (reach_inv _ H) as [_ Hinst _]. apply Hinst. exact Hi. Qed.

  (** two histories — other rules, other creation orders, other interleavings —
      give a rule with the same prototype and the same overrides the same view *)
  Theorem order_independent c c' i i' :
    steps tbl (init s0 cat) c -> steps tbl (init s0 cat) c' ->
    In i (c_insts c) -> In i' (c_insts c') ->
    i_origin i = i_origin i' -> i_ovrs i = i_ovrs i' ->
    view (c_store c) i = view (c_store c') i'.
  Proof.
    intros H H' Hi Hi' Eo Ev.
    pose proof (overrides_local _ _ H Hi) as V. pose proof (overrides_local _ _ H' Hi') as V'.
    unfold spec_view in *. rewrite Eo, Ev in V. rewrite V in V'. inversion V'. reflexivity.
  Qed.
End Main.

(* ------------------------------------------------------------------ non-vacuity *)

Definition nv_row : mech_row :=
  mk_row "finalizers" "headerFinalizer" KFinalizer []
    [ mk_meth "Execute" []; mk_meth "WithConfig" [] ].

Definition nv_proto : inst := {| i_row := 0; i_cells := [0; 1]; i_origin := 0; i_ovrs := [] |}.

(** a variant overriding the second field is created while the prototype is being executed *)
Example nonvacuous :
  forallb row_ok [nv_row] = true /\ catalogue_ok [10%Z; 20%Z] [nv_proto] /\
  has_row [nv_row] nv_proto /\
  exists c v, steps [nv_row] (init [10%Z; 20%Z] [nv_proto]) c /\ In v (c_insts c) /\
    i_ovrs v = [[None; Some 99%Z]] /\ view (c_store c) v = [10%Z; 99%Z] /\
    view (c_store c) nv_proto = [10%Z; 20%Z] /\ c_thr c <> [].
Proof.
  split; [reflexivity|]. split.
  { intros [|[|k]] i E; simpl in E; try discriminate. inversion E; subst.
    repeat split; auto. intros c [<-|[<-|[]]]; simpl; lia. }
  split. { exists nv_row. reflexivity. }
  set (c0 := init [10%Z; 20%Z] [nv_proto]).
  set (tw := {| t_inst := nv_proto; t_todo := []; t_fin := Some [None; Some 99%Z] |}).
  set (te := {| t_inst := nv_proto; t_todo := [ARead 0]; t_fin := None |}).
  set (c1 := {| c_store := c_store c0; c_insts := c_insts c0; c_thr := c_thr c0 ++ [tw] |}).
  set (c2 := {| c_store := c_store c1; c_insts := c_insts c1; c_thr := c_thr c1 ++ [te] |}).
  assert (S1 : step [nv_row] c0 c1).
  { apply (StWith [nv_row] c0 nv_proto [None; Some 99%Z] [] []).
    - left. reflexivity.
    - exists nv_row, false. split; reflexivity.
    - left. reflexivity.
    - intros a []. }
  assert (S2 : step [nv_row] c1 c2).
  { apply (StCall [nv_row] c1 nv_proto "Execute" [] [ARead 0]).
    - left. reflexivity.
    - exists nv_row, false. split; reflexivity.
    - left. reflexivity.
    - intros a [<-|[]]. left. reflexivity. }
  pose proof (StVariant [nv_row] c2 0 tw [None; Some 99%Z] eq_refl eq_refl eq_refl) as S3.
  eexists. eexists. split.
  { eapply steps_step; [eapply steps_step; [eapply steps_step; [apply steps_refl|exact S1]|exact S2]|exact S3]. }
  simpl. split; [right; left; reflexivity|]. repeat split. discriminate.
Qed.

(* ------------------------------------------------------------------ the executable, sequential
   semantics ([run_op], used by the correspondence evaluator) is a schedule of the interleaving
   semantics: whatever is proved of every reachable configuration holds of every [run_ops] result *)

Lemma remove_nth_last {A} (l : list A) x : remove_nth (length l) (l ++ [x]) = l.
Proof. induction l; simpl; [reflexivity|f_equal; exact IHl]. Qed.

Lemma nth_error_last {A} (l : list A) x : nth_error (l ++ [x]) (length l) = Some x.
Proof. induction l; simpl; auto. Qed.

Lemma may_write_callable tbl i r name b :
  nth_error tbl (i_row i) = Some r -> may_write r name = Some b -> callable tbl i name.
Proof. intros H1 H2. exists r, b. split; assumption. Qed.

Lemma run_op_steps tbl s insts thr o s' insts' :
  run_op tbl (s, insts) o = Some (s', insts') ->
  steps tbl {| c_store := s; c_insts := insts; c_thr := thr |}
            {| c_store := s'; c_insts := insts'; c_thr := thr |}.
Proof.
  unfold run_op. destruct o as [src ovr|k name].
  - destruct (nth_error insts src) as [i|] eqn:Ei; [|discriminate].
    destruct (nth_error tbl (i_row i)) as [r|] eqn:Er; [|discriminate].
    destruct (may_write r "WithConfig") as [[|]|] eqn:Ew; try discriminate.
    destruct (make_variant s i ovr) as [s2 v] eqn:Ev. intros E. inversion E; subst. clear E.
    set (c0 := {| c_store := s; c_insts := insts; c_thr := thr |}).
    set (t := {| t_inst := i; t_todo := []; t_fin := Some ovr |}).
    eapply steps_step; [eapply steps_step; [apply steps_refl|]|].
    + apply (StWith tbl c0 i ovr [] []).
      * eapply nth_error_In; eauto.
      * eapply may_write_callable; eauto.
      * left. reflexivity.
      * intros a [].
    + pose proof (StVariant tbl {| c_store := s; c_insts := insts; c_thr := thr ++ [t] |} (length thr) t ovr
                    (nth_error_last thr t) eq_refl eq_refl) as St.
      simpl in St. rewrite remove_nth_last in St. rewrite Ev in St. simpl in St. exact St.
  - destruct (nth_error insts k) as [i|] eqn:Ei; [|discriminate].
    destruct (nth_error tbl (i_row i)) as [r|] eqn:Er; [|discriminate].
    destruct (may_write r name) as [[|]|] eqn:Ew; try discriminate.
    intros E. inversion E; subst. clear E.
    set (c0 := {| c_store := s'; c_insts := insts'; c_thr := thr |}).
    set (t := {| t_inst := i; t_todo := []; t_fin := None |}).
    eapply steps_step; [eapply steps_step; [apply steps_refl|]|].
    + apply (StCall tbl c0 i name [] []).
      * eapply nth_error_In; eauto.
      * eapply may_write_callable; eauto.
      * left. reflexivity.
      * intros a [].
    + pose proof (StReturn tbl {| c_store := s'; c_insts := insts'; c_thr := thr ++ [t] |} (length thr) t
                    (nth_error_last thr t) eq_refl eq_refl) as St.
      simpl in St. rewrite remove_nth_last in St. exact St.
Qed.

Lemma steps_trans tbl c1 c2 c3 : steps tbl c1 c2 -> steps tbl c2 c3 -> steps tbl c1 c3.
Proof. intros H1 H2. revert H1. induction H2; intros H1; [exact H1|]. eapply steps_step; [apply IHsteps; exact H1|eassumption]. Qed.

Lemma run_ops_steps tbl os : forall s insts s' insts',
  run_ops tbl (s, insts) os = Some (s', insts') ->
  steps tbl {| c_store := s; c_insts := insts; c_thr := [] |}
            {| c_store := s'; c_insts := insts'; c_thr := [] |}.
Proof.
  induction os as [|o r IH]; intros s insts s' insts' E; cbn [run_ops] in E.
  - inversion E; subst. apply steps_refl.
  - destruct (run_op tbl (s, insts) o) as [[s1 i1]|] eqn:E1; [|discriminate].
    eapply steps_trans; [eapply run_op_steps; eauto|]. apply IH. exact E.
Qed.

(** sequential corollary, the form the correspondence evaluator uses: after any list of
    operations every instance shows the catalogue configuration of its prototype overlaid with
    its own overrides, and the part of the store that existed before is untouched *)
Theorem run_ops_spec tbl (Htbl : forallb row_ok tbl = true) s0 cat os s insts :
  catalogue_ok s0 cat -> (forall p, In p cat -> has_row tbl p) ->
  run_ops tbl (s0, cat) os = Some (s, insts) ->
  (exists ext, s = s0 ++ ext) /\
  (exists more, insts = cat ++ more) /\
  forall i, In i insts -> spec_view s0 cat i = Some (view s i).
Proof.
  intros Hcat Hrow E. apply run_ops_steps in E.
  change {| c_store := s0; c_insts := cat; c_thr := [] |} with (init s0 cat) in E.
  split; [|split].
  - destruct (store_unchanged tbl Htbl s0 cat Hcat Hrow _ _ (steps_refl tbl (init s0 cat)) E) as ((ext & Hx) & _).
    exists ext. exact Hx.
  - destruct (steps_insts_grow tbl _ _ E) as (m & Hm). exists m. exact Hm.
  - intros i Hi. apply (overrides_local tbl Htbl s0 cat Hcat Hrow _ i E Hi).
Qed.
