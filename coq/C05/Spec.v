(** C05 — the specification, transcribed from the property text, written
    without reference to the functions of C05/Model.v that decide
    (merge/effective/validate/verify_*/authenticate); it shares only the data types
    and the elementary vocabulary (membership, claim decoding, scope matching,
    the signature oracle).

    "A subject is created from a JWT only if its signature verifies with a key
    obtained from the configured key-set endpoint, the key's declared algorithm
    equals the token's alg and is in the allowed list, the issuer is trusted,
    an expected audience is present when audiences are configured, the required
    scopes are matched and the token is inside its validity period within the
    configured leeway.  Every other token is rejected without yielding a
    subject, and subject id and attributes come from the verified claims only." *)
From HV Require Import Base.Prelude Base.Time C05.Model.

(* ---- the algorithm tables, stated here independently of the model's ---- *)

(** what may appear as `alg` in the header at all: ECDSA, EdDSA, RSA-PSS, RSA PKCS#1 v1.5, HMAC — never "none" *)
Definition parsable_algs : list string :=
  ["ES256"; "ES384"; "ES512"; "EdDSA"; "PS256"; "PS384"; "PS512"; "RS256"; "RS384"; "RS512"; "HS256"; "HS384"; "HS512"]%string.

(** allowed when nothing is configured: ECDSA and RSA-PSS only (no PKCS#1 v1.5, no HMAC, no EdDSA) *)
Definition allowed_by_default : list string := ["ES256"; "ES384"; "ES512"; "PS256"; "PS384"; "PS512"]%string.

(* ---- which configuration is in force: rule level, else mechanism, else default ---- *)

Definition no_expectation : expectation :=
  {| e_issuers := []; e_scopes := None; e_aud := []; e_algs := []; e_leeway := 0 |}.

Definition rule_level (cf : config) : expectation :=
  match cf_rule cf with Some r => r | None => no_expectation end.

Definition first_set (a b c : list string) : list string :=
  match a, b with
  | _ :: _, _ => a
  | [], _ :: _ => b
  | [], [] => c
  end.

Definition trusted_issuers (cf : config) : list string :=
  first_set (e_issuers (rule_level cf)) (e_issuers (cf_proto cf)) [cf_md_issuer cf].

Definition allowed_algs (cf : config) : list string :=
  first_set (e_algs (rule_level cf)) (e_algs (cf_proto cf)) allowed_by_default.

Definition expected_audiences (cf : config) : list string :=
  first_set (e_aud (rule_level cf)) (e_aud (cf_proto cf)) [].

Definition required_scopes (cf : config) : matcher :=
  match e_scopes (rule_level cf), e_scopes (cf_proto cf) with
  | Some m, _ => m
  | None, Some m => m
  | None, None => MNoop
  end.

(** configured leeway in ns; ten seconds when nothing is configured *)
Definition leeway (cf : config) : Z :=
  if negb (e_leeway (rule_level cf) =? 0)%Z then e_leeway (rule_level cf)
  else if negb (e_leeway (cf_proto cf) =? 0)%Z then e_leeway (cf_proto cf)
  else secs 10.

(** the validity window is evaluated in whole seconds *)
Definition leeway_secs (cf : config) : Z := Z.quot (leeway cf) ns_per_s.

(* ---- the key ---- *)

(** the keys of the published set the token may be verified with: the one
    carrying the token's kid if exactly one does, every key if the token has no kid *)
Definition candidate_keys (ks : list jwk) (t : token) : list jwk :=
  if String.eqb (t_kid t) "" then ks
  else match filter (fun k => String.eqb (k_kid k) (t_kid t)) ks with
       | [k] => [k]
       | _ => []
       end.

Definition key_acceptable (cf : config) (t : token) (k : jwk) : bool :=
  (negb (cf_validate_jwk cf) || negb (cert_bad (k_cert k))) &&   (* its certificate, if any, validates *)
  sig_ok t k &&                                                    (* the signature verifies with it *)
  String.eqb (k_alg k) (t_alg t) &&                                (* declared algorithm = token's alg *)
  mem (k_alg k) (allowed_algs cf).                                 (* and is allowed *)

(* ---- the claims ---- *)

Definition audience_ok (cf : config) (c : claims) : bool :=
  is_nil (expected_audiences cf) || intersects (expected_audiences cf) (strs_of (c_aud c)).

Definition not_expired (cf : config) (now : Z) (c : claims) : bool :=
  match c_exp c with None => true | Some e => (unix now - leeway_secs cf <? e)%Z end.

Definition already_valid (cf : config) (now : Z) (c : claims) : bool :=
  match c_nbf c with None => true | Some n => (n <=? unix now + leeway_secs cf)%Z end.

Definition not_issued_in_future (cf : config) (now : Z) (c : claims) : bool :=
  match c_iat c with None => true | Some i => (secs i <=? now + leeway cf)%Z end.

Definition claims_acceptable (cf : config) (now : Z) (c : claims) : bool :=
  negb (c_malformed c) &&
  negb (String.eqb (c_iss c) "") &&                 (* the token names its issuer ... *)
  mem (c_iss c) (trusted_issuers cf) &&             (* ... and it is a trusted one *)
  audience_ok cf c &&
  match_scopes (required_scopes cf) (eff_scopes c) &&
  already_valid cf now c && not_expired cf now c && not_issued_in_future cf now c.

(* ---- what the claim decoding and the scope matching strategies mean, declaratively ---- *)

Fixpoint join (sep : ascii) (l : list string) : string :=
  match l with
  | [] => EmptyString
  | [x] => x
  | x :: r => x ++ String sep (join sep r)
  end.

Fixpoint has_char (c : ascii) (s : string) : bool :=
  match s with EmptyString => false | String a r => Ascii.eqb a c || has_char c r end.

(** [l] are the pieces of [s] between the separators: a string claim "a b" carries the values a, b; a scope
    "foo.bar" has the parts foo, bar *)
Definition is_split (sep : ascii) (s : string) (l : list string) : Prop :=
  l <> [] /\ join sep l = s /\ Forall (fun x => has_char sep x = false) l.

(** the scopes a token grants: `scp` if it carries any value, else `scope` *)
Definition granted_scopes (c : claims) : list string :=
  match strs_of (c_scp c) with [] => strs_of (c_scope c) | l => l end.

(** hierarchic: a granted scope covers itself and everything below it (foo covers foo.bar and foo.bar.baz) *)
Definition hier_covers (granted required : string) : Prop :=
  granted = required \/
  exists gp rp rest, is_split "." granted gp /\ is_split "." required rp /\ rest <> [] /\ rp = gp ++ rest.

(** wildcard: part by part, `*` stands for any non-empty part; a granted scope with fewer parts must end in `*`,
    which then also covers everything below (foo.* covers foo.bar and foo.bar.baz, not foo) *)
Definition part_covers (g r : string) : Prop := g = r \/ (g = "*"%string /\ r <> ""%string).

Definition wild_covers (granted required : string) : Prop :=
  exists gp rp, is_split "." granted gp /\ is_split "." required rp /\
    (length gp <= length rp)%nat /\ Forall2 part_covers gp (firstn (length gp) rp) /\
    ((length gp < length rp)%nat -> last gp EmptyString = "*"%string).

(** what a configured matcher demands of the granted scopes *)
Definition scopes_satisfied (m : matcher) (granted : list string) : Prop :=
  match m with
  | MNoop => True
  | MExact req => forall r, In r req -> In r granted
  | MHier req => forall r, In r req -> exists g, In g granted /\ hier_covers g r
  | MWild req => forall r, In r req -> exists g, In g granted /\ wild_covers g r
  end.

(* ---- the decision ---- *)

Definition remote_up (cf : config) : bool := match cf_remote cf with RUp => true | _ => false end.

(** [Some sub]: a subject with id [sub] is created; [None]: the request is rejected *)
Definition spec_accepts (cf : config) (ks : list jwk) (now : Z) (cr : cred) : option string :=
  match cr with
  | CToken t =>
    let sub := lookup (cf_id_from cf) (c_fields (t_claims t)) in
    if mem (t_alg t) parsable_algs && t_payload_obj t && remote_up cf &&
       existsb (key_acceptable cf t) (candidate_keys ks t) &&
       claims_acceptable cf now (t_claims t) &&
       negb (String.eqb sub "")
    then Some sub else None
  | _ => None
  end.

(* ---- where the code deviates or deviated (findings), and the clock assumption ---- *)

(** C05-F1 (repaired by a3a89b7): an `exp` claim that is present and <= 0 was treated as "no expiry" *)
Definition guard_F1 (cr : cred) : bool :=
  match cr with
  | CToken t => match c_exp (t_claims t) with Some e => (e <=? 0)%Z | None => false end
  | _ => false
  end.

(** C05-F2 (repaired by f16c3cc): an `nbf` or `iat` claim beyond int64 wrapped around to "not set" *)
Definition guard_F2 (cr : cred) : bool :=
  match cr with
  | CToken t =>
    match c_nbf (t_claims t) with Some n => (int64_max <? n)%Z | None => false end ||
    match c_iat (t_claims t) with Some i => (int64_max <? i)%Z | None => false end
  | _ => false
  end.

(** C05-F3 (open; what a3a89b7 leaves of C05-F1, "is set" now being tested with IsZero()): an `exp` that is
    exactly the Unix time of Go's zero time.Time (1 January of year 1, -62135596800) still counts as absent *)
Definition guard_F3 (cr : cred) : bool :=
  match cr with
  | CToken t => match c_exp (t_claims t) with Some e => (e =? zero_time_unix)%Z | None => false end
  | _ => false
  end.

(** C05-F5 (repaired by d55629a; the model is not parametric in it, it has the repair): a token WITHOUT issuer was
    accepted when the empty string is among the trusted issuers, which is the case when no `issuers` are
    configured and the (unverified) metadata document states no issuer *)
Definition guard_F5 (cf : config) (cr : cred) : bool :=
  match cr with
  | CToken t => String.eqb (c_iss (t_claims t)) "" && mem EmptyString (trusted_issuers cf)
  | _ => false
  end.

(** the findings that are open in the code as it is *)
Definition open_guards (cf : config) (cr : cred) : bool := guard_F3 cr.

(** the clock is not before 1970 (by more than a negative leeway) nor beyond what time.Time can hold *)
Definition sane_clock (cf : config) (now : Z) : Prop :=
  (0 <= unix now + leeway_secs cf /\ int64_min <= unix now - leeway_secs cf < date_max /\
   unix now + leeway_secs cf < date_max /\ 0 <= now + leeway cf /\ now + leeway cf < secs date_max)%Z.

Definition accepted_sub (r : result) : option string :=
  match r with Accepted s => Some s | Failed _ => None end.
