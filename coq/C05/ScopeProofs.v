(** C05 — the claim decoding and the scope matchers of C05/Model.v against the declarative
    vocabulary of C05/Spec.v ([is_split], [granted_scopes], [hier_covers], [wild_covers], [scopes_satisfied]). *)
From HV Require Import Base.Prelude Base.Time C05.Model C05.Spec C05.Proofs.

Lemma join_cons sep x y r : join sep (x :: y :: r) = (x ++ String sep (join sep (y :: r)))%string.
Proof. reflexivity. Qed.

Lemma join_String sep c x l : join sep (String c x :: l) = String c (join sep (x :: l)).
Proof. destruct l; reflexivity. Qed.

(** strings.Split at a one-character separator yields THE pieces between the separators *)
Lemma split_on_is_split sep s : is_split sep s (split_on sep s).
Proof.
  induction s as [|c r IH]; simpl.
  - split; [discriminate|]. split; [reflexivity|]. constructor; [reflexivity|constructor].
  - destruct IH as (Hne & Hj & Hf).
    destruct (Ascii.eqb c sep) eqn:E.
    + apply Ascii.eqb_eq in E. subst c. split; [discriminate|]. split.
      * destruct (split_on sep r) as [|h t]; [contradiction|]. rewrite join_cons, Hj. reflexivity.
      * constructor; [reflexivity|exact Hf].
    + destruct (split_on sep r) as [|h t]; [contradiction|]. split; [discriminate|]. split.
      * rewrite join_String, Hj. reflexivity.
      * inversion Hf; subst. constructor; [simpl; rewrite E; assumption|assumption].
Qed.

Lemma is_split_unique sep : forall s l, is_split sep s l -> l = split_on sep s.
Proof.
  induction s as [|c r IH]; intros l (Hne & Hj & Hf).
  - destruct l as [|x [|y t]]; [contradiction| |].
    + simpl in Hj. subst. reflexivity.
    + rewrite join_cons in Hj. destruct x; discriminate.
  - destruct l as [|x l']; [contradiction|]. inversion Hf as [|? ? Hx Hf']; subst.
    destruct x as [|c' x'].
    + destruct l' as [|y t]; [discriminate|]. rewrite join_cons in Hj. simpl in Hj. injection Hj as -> Hr.
      simpl. rewrite Ascii.eqb_refl. f_equal. apply IH. split; [discriminate|]. split; assumption.
    + rewrite join_String in Hj. injection Hj as -> Hr. simpl in Hx. apply orb_false_iff in Hx as [Hc Hx'].
      simpl. rewrite Hc.
      assert (x' :: l' = split_on sep r) as <-.
      { apply IH. split; [discriminate|]. split; [exact Hr|]. constructor; assumption. }
      reflexivity.
Qed.

(** claim decoding: a string claim carries the blank-separated values, an array its elements *)
Theorem claim_decoding :
  (forall s l, strs_of (SStr s) = l <-> is_split " " s l) /\
  (forall l, strs_of (SArr l) = l) /\ strs_of SAbsent = [] /\
  (forall c, eff_scopes c = granted_scopes c).
Proof.
  splits; try reflexivity.
  - intros s l. simpl. unfold split_space. split.
    + intros <-. apply split_on_is_split.
    + intro H. symmetry. apply is_split_unique. exact H.
  - intro c. unfold eff_scopes, granted_scopes. destruct (strs_of (c_scp c)); reflexivity.
Qed.

(* ------------------------------------------------------------------ hierarchic *)

Lemma length_join_app sep a b :
  a <> [] -> (String.length (join sep a) <= String.length (join sep (a ++ b)))%nat.
Proof.
  induction a as [|x a IH]; intro Hne; [contradiction|].
  destruct a as [|y a].
  - destruct b as [|z b]; simpl app.
    + apply Nat.le_refl.
    + rewrite join_cons. simpl join at 1. clear. induction x; simpl; [apply Nat.le_0_l|]. apply le_n_S. exact IHx.
  - change ((x :: y :: a) ++ b) with (x :: (y :: a) ++ b).
    change ((y :: a) ++ b) with (y :: a ++ b) at 1. rewrite !join_cons.
    assert (String.length (join sep (y :: a)) <= String.length (join sep (y :: a ++ b)))%nat as L by (apply IH; discriminate).
    clear IH Hne. induction x; simpl; [apply le_n_S; exact L|]. apply le_n_S. exact IHx.
Qed.

Lemma hier_one_iff required granted : hier_one required granted = true <-> hier_covers granted required.
Proof.
  unfold hier_one, hier_covers. rewrite orb_true_iff, String.eqb_eq, andb_true_iff, hier_parts_iff. split.
  - intros [E|[_ (rest & Hne & Hr)]]; [left; exact E|]. right.
    exists (split_dot granted), (split_dot required), rest.
    split; [apply split_on_is_split|]. split; [apply split_on_is_split|]. split; assumption.
  - intros [E|(gp & rp & rest & Hg & Hr & Hne & E)]; [left; exact E|]. right.
    pose proof (is_split_unique _ _ _ Hg) as Eg. pose proof (is_split_unique _ _ _ Hr) as Er.
    fold split_dot in Eg, Er. subst gp rp. split.
    + apply negb_true_iff, Nat.ltb_ge.
      destruct Hg as (Hgne & Hgj & _). destruct Hr as (_ & Hrj & _).
      rewrite <- Hgj, <- Hrj. apply length_join_app. exact Hgne.
    + exists rest. split; [exact Hne|]. symmetry. exact Er.
Qed.

(* ------------------------------------------------------------------ wildcard *)

Lemma part_ok_iff c n : part_ok c n = true <-> part_covers c n.
Proof.
  unfold part_ok, part_covers. rewrite orb_true_iff, andb_true_iff, !String.eqb_eq, negb_true_iff, String.eqb_neq.
  split; intros [H|H]; auto.
Qed.

Lemma parts_ok_Forall2 : forall mp np, (length mp <= length np)%nat ->
  (parts_ok mp np = true <-> Forall2 part_covers mp (firstn (length mp) np)).
Proof.
  induction mp as [|c mp IH]; intros np L; simpl.
  - split; [constructor|reflexivity].
  - destruct np as [|n np]; [simpl in L; lia|]. simpl in L. apply le_S_n in L. simpl firstn.
    rewrite andb_true_iff, part_ok_iff, (IH np L). split.
    + intros [H1 H2]. constructor; assumption.
    + intro H. inversion H; subst. split; assumption.
Qed.

Lemma wild_one_covers required granted : wild_one required granted = true <-> wild_covers granted required.
Proof.
  rewrite wild_one_iff. cbv zeta. unfold wild_covers. split.
  - intros (L & P & Q). exists (split_dot granted), (split_dot required).
    split; [apply split_on_is_split|]. split; [apply split_on_is_split|]. split; [exact L|].
    split; [apply parts_ok_Forall2; assumption|]. intro Hlt. apply Q. lia.
  - intros (gp & rp & Hg & Hr & L & P & Q).
    pose proof (is_split_unique _ _ _ Hg) as Eg. pose proof (is_split_unique _ _ _ Hr) as Er.
    fold split_dot in Eg, Er. subst gp rp. split; [exact L|]. split; [apply parts_ok_Forall2; assumption|].
    intro Hne. apply Q. lia.
Qed.

(** what the three strategies (and "no scopes configured") demand, declaratively *)
Theorem match_scopes_iff m granted : match_scopes m granted = true <-> scopes_satisfied m granted.
Proof.
  destruct m as [|req|req|req]; simpl.
  - split; auto.
  - apply exact_match_iff.
  - rewrite forallb_forall. split; intros H r Hr.
    + specialize (H r Hr). apply existsb_exists in H as (g & Hg & Hc). exists g. split; [exact Hg|]. apply hier_one_iff; exact Hc.
    + destruct (H r Hr) as (g & Hg & Hc). apply existsb_exists. exists g. split; [exact Hg|]. apply hier_one_iff; exact Hc.
  - rewrite forallb_forall. split; intros H r Hr.
    + specialize (H r Hr). apply existsb_exists in H as (g & Hg & Hc). exists g. split; [exact Hg|]. apply wild_one_covers; exact Hc.
    + destruct (H r Hr) as (g & Hg & Hc). apply existsb_exists. exists g. split; [exact Hg|]. apply wild_one_covers; exact Hc.
Qed.

(** the scope clause of the property for an accepted token, in declarative form *)
Theorem accepted_scopes_satisfied f1 f2 cf ks now t sub :
  authenticate_gen f1 f2 cf ks now (CToken t) = Accepted sub ->
  scopes_satisfied (required_scopes cf) (granted_scopes (t_claims t)).
Proof.
  intro H. unfold authenticate_gen in H.
  destruct (negb (mem (t_alg t) supported_algs)); [discriminate|].
  destruct (verify_token f1 f2 cf ks now t) eqn:V; [discriminate|]. clear H.
  assert (forall k, verify_with_key f1 f2 (effective cf) now t k = None ->
            match_scopes (required_scopes cf) (eff_scopes (t_claims t)) = true) as K.
  { intros k Hk. unfold verify_with_key in Hk.
    repeat match type of Hk with (if ?b then _ else _) = None => destruct b; [discriminate|] end.
    unfold validate in Hk. rewrite effective_scopes in Hk.
    repeat match type of Hk with (if ?b then _ else _) = None => destruct b; [discriminate|] end.
    destruct (match_scopes (required_scopes cf) (eff_scopes (t_claims t))); [reflexivity|discriminate]. }
  apply match_scopes_iff. destruct claim_decoding as (_ & _ & _ & <-).
  unfold verify_token in V. destruct (negb (t_payload_obj t)); [discriminate|].
  destruct (cf_remote cf); try discriminate.
  destruct (String.eqb (t_kid t) "").
  - rewrite verify_without_kid_existsb in V. destruct (existsb _ ks) eqn:Ex; [|discriminate].
    apply existsb_exists in Ex as (k & _ & Hk). apply andb_true_iff in Hk as [_ Hk].
    apply (K k). destruct (verify_with_key f1 f2 (effective cf) now t k); [discriminate|reflexivity].
  - destruct (get_key cf ks (t_kid t)) as [k|]; [|discriminate]. exact (K k V).
Qed.
