(** C05 — model of the JWT authenticator's decision logic

      internal/rules/mechanisms/authenticators/jwt_authenticator.go
          Execute, WithConfig (assertion merge), verifyToken, verifyTokenWithoutKID,
          getKey (kid uniqueness, JWK certificate check), verifyTokenWithKey
      internal/rules/mechanisms/authenticators/supported_algorithms.go, default_allowed_algorithms.go
      internal/rules/mechanisms/oauth2/expectation.go   Merge, Assert*
      internal/rules/mechanisms/oauth2/claims.go        Validate (order of the assertions)
      internal/rules/mechanisms/oauth2/{audience,scopes,numeric_date}.go   claim decoding
      internal/rules/mechanisms/oauth2/*_matcher.go     exact / hierarchic / wildcard scope matching
      internal/rules/mechanisms/authenticators/subject_info.go   subject id from the verified payload

    Faithful to the code as it is, i.e. with the fix: commits a3a89b7 (C05-F1), f16c3cc (C05-F2) and d55629a
    (C05-F5).  The flags [fixed_F1]/[fixed_F2] select between the behaviour with (true) and without (false)
    a3a89b7 / f16c3cc; the model is not parametric in d55629a.  [authenticate] is the variant (true, true);
    [authenticate_pinned] is the code as it is with a3a89b7 and f16c3cc reverted (the later repair d55629a
    kept) — not a state /repo was ever in.

    Oracles (data of a case, never axioms): whether the compact serialisation
    parses ([CUnparsable]), under which published key material the signature
    verifies ([t_sig], go-jose + crypto), whether a JWK certificate chain
    validates ([k_cert], pkix.ValidateCertificate), the state of the JWKS endpoint.

    Units: [now] and the configured leeway are NANOSECONDS (Base/Time.v); the
    NumericDate claims exp/nbf/iat are whole seconds. *)
From HV Require Import Base.Prelude Base.Time.

(* ------------------------------------------------------------------ small helpers *)

Definition mem (x : string) (l : list string) : bool := existsb (String.eqb x) l.

(** slicex.Intersects *)
Definition intersects (a b : list string) : bool := existsb (fun x => mem x b) a.

(** strings.Split(s, sep) for a one-character separator: never the empty list *)
Fixpoint split_on (sep : ascii) (s : string) : list string :=
  match s with
  | EmptyString => [EmptyString]
  | String c r =>
    let rest := split_on sep r in
    if Ascii.eqb c sep then EmptyString :: rest
    else match rest with
         | h :: t => String c h :: t
         | [] => [String c EmptyString]     (* unreachable: [rest] is never empty *)
         end
  end.

Definition split_dot : string -> list string := split_on ".".
Definition split_space : string -> list string := split_on " ".

(* ------------------------------------------------------------------ scope matchers *)

(** HierarchicScopeStrategyMatcher.doMatch, the loop over the parts of the
    required scope ([needles]) against the parts of one granted scope ([hay]):
    [haystackLen < k] means the granted scope's parts are used up. *)
Fixpoint hier_parts (needles hay : list string) : bool :=
  match needles with
  | [] => false                                   (* loop ended without `return true` *)
  | n :: ns =>
    match hay with
    | [] => true                                  (* haystackLen < k *)
    | h :: hs => if String.eqb h n then hier_parts ns hs else false   (* break *)
    end
  end.

Definition hier_one (needle this : string) : bool :=
  String.eqb this needle ||
  (negb (Nat.ltb (String.length needle) (String.length this)) &&
   hier_parts (split_dot needle) (split_dot this)).

(** WildcardScopeStrategyMatcher.doMatch, the loop over the parts of one granted
    scope ([mp], the pattern) against the parts of the required scope ([np]);
    [difflen] is len(matcherParts) != len(needleParts); the answer is [!noteq].
    The caller guarantees len(mp) <= len(np), so needleParts[idx] is in range. *)
Fixpoint wild_parts (difflen : bool) (mp np : list string) : bool :=
  match mp with
  | [] => true
  | c :: mp' =>
    match np with
    | [] => false                                 (* unreachable under the caller's length test *)
    | n :: np' =>
      if is_nil mp' && difflen && negb (String.eqb c "*") then false
      else if String.eqb c "*" && negb (String.eqb n "") then wild_parts difflen mp' np'
      else if negb (String.eqb c n) then false
      else wild_parts difflen mp' np'
    end
  end.

Definition wild_one (needle pattern : string) : bool :=
  let np := split_dot needle in
  let mp := split_dot pattern in
  if Nat.ltb (length np) (length mp) then false
  else wild_parts (negb (Nat.eqb (length mp) (length np))) mp np.

Inductive matcher :=
| MNoop
| MExact (req : list string)
| MHier (req : list string)
| MWild (req : list string).

(** ScopesMatcher.Match(scopes) = nil *)
Definition match_scopes (m : matcher) (scopes : list string) : bool :=
  match m with
  | MNoop => true
  | MExact req => forallb (fun r => mem r scopes) req
  | MHier req => forallb (fun r => existsb (hier_one r) scopes) req
  | MWild req => forallb (fun r => existsb (wild_one r) scopes) req
  end.

(* ------------------------------------------------------------------ claims *)

(** `aud`, `scp`, `scope`: a string (split at spaces) or an array of strings *)
Inductive strs_claim := SAbsent | SStr (s : string) | SArr (l : list string).

Definition strs_of (c : strs_claim) : list string :=
  match c with SAbsent => [] | SStr s => split_space s | SArr l => l end.

Record claims := {
  c_iss : string;                       (* "" when absent *)
  c_aud : strs_claim;
  c_scp : strs_claim;
  c_scope : strs_claim;
  c_exp : option Z;                     (* the JSON number (whole seconds), None when absent *)
  c_nbf : option Z;
  c_iat : option Z;
  c_malformed : bool;                   (* a registered claim has a JSON type oauth2.Claims cannot decode *)
  c_fields : list (string * string) }.  (* top-level string members of the payload (what a subject id template can select) *)

(** x.IfThenElse(len(c.Scp) != 0, c.Scp, c.Scope) *)
Definition eff_scopes (c : claims) : list string :=
  if is_nil (strs_of (c_scp c)) then strs_of (c_scope c) else strs_of (c_scp c).

Definition int64_min : Z := (-9223372036854775808)%Z.
Definition int64_max : Z := 9223372036854775807%Z.

(** the largest Unix second time.Unix holds without wrapping around (fixes/C05-F2.diff saturates there) *)
Definition date_max : Z := (int64_max - 62135596800)%Z.

(** NumericDate.UnmarshalJSON: [NumericDate(f)] for a float64 [f].  Out of range
    the conversion is implementation-defined in Go; on amd64 (CVTTSD2SI) it
    yields the "integer indefinite" value MinInt64.  [fixed_F2] saturates. *)
Definition to_int64 (fixed_F2 : bool) (v : Z) : Z :=
  if fixed_F2
  then (if (date_max <=? v)%Z then date_max else if (v <? int64_min)%Z then int64_min else v)
  else (if (int64_max <? v)%Z then int64_min else if (v <? int64_min)%Z then int64_min else v).

(** time.Time{}.Unix() *)
Definition zero_time_unix : Z := (-62135596800)%Z.

(** NumericDate.Time().Unix() on a possibly nil pointer: nil is the zero time *)
Definition date_unix (fixed_F2 : bool) (d : option Z) : Z :=
  match d with None => zero_time_unix | Some v => to_int64 fixed_F2 v end.

Fixpoint lookup (k : string) (l : list (string * string)) : string :=
  match l with
  | [] => EmptyString
  | (k', v) :: r => if String.eqb k k' then v else lookup k r
  end.

(* ------------------------------------------------------------------ expectation *)

Record expectation := {
  e_issuers : list string;
  e_scopes : option matcher;            (* None = nil interface *)
  e_aud : list string;
  e_algs : list string;
  e_leeway : Z }.                       (* time.Duration, ns; 0 = not configured *)

(** Expectation.Merge: the receiver's fields win when set *)
Definition merge (e other : expectation) : expectation :=
  {| e_issuers := if is_nil (e_issuers e) then e_issuers other else e_issuers e;
     e_scopes := match e_scopes e with Some m => Some m | None => e_scopes other end;
     e_aud := if is_nil (e_aud e) then e_aud other else e_aud e;
     e_algs := if is_nil (e_algs e) then e_algs other else e_algs e;
     e_leeway := if (e_leeway e =? 0)%Z then e_leeway other else e_leeway e |}.

(** supportedAlgorithms(): what jwt.ParseSigned is allowed to see in the header *)
Definition supported_algs : list string :=
  ["ES256"; "ES384"; "ES512"; "EdDSA"; "PS256"; "PS384"; "PS512";
   "RS256"; "RS384"; "RS512"; "HS256"; "HS384"; "HS512"]%string.

(** defaultAllowedAlgorithms() *)
Definition default_allowed_algs : list string :=
  ["ES256"; "ES384"; "ES512"; "PS256"; "PS384"; "PS512"]%string.

(** the defaults newJwtAuthenticator puts into the prototype's assertions *)
Definition proto_defaults (e : expectation) : expectation :=
  {| e_issuers := e_issuers e;
     e_scopes := match e_scopes e with Some m => Some m | None => Some MNoop end;
     e_aud := e_aud e;
     e_algs := if is_nil (e_algs e) then default_allowed_algs else e_algs e;
     e_leeway := e_leeway e |}.

Definition default_leeway : Z := secs 10.

(** x.IfThenElse(e.ValidityLeeway != 0, e.ValidityLeeway, defaultLeeway) *)
Definition leeway_ns (e : expectation) : Z :=
  if (e_leeway e =? 0)%Z then default_leeway else e_leeway e.

(** int64(leeway.Seconds()): truncation toward zero *)
Definition leeway_s (e : expectation) : Z := Z.quot (leeway_ns e) ns_per_s.

(** AssertValidity = nil.  [fixed_F1]: "is set" is tested with IsZero() instead of "> 0". *)
Definition assert_validity (fixed_F1 : bool) (e : expectation) (now : Z) (nbf_set exp_set : bool) (nbf exp : Z) : bool :=
  let now_s := unix now in
  let l := leeway_s e in
  negb ((if fixed_F1 then nbf_set else (0 <? nbf)%Z) && (now_s + l <? nbf)%Z) &&
  negb ((if fixed_F1 then exp_set else (0 <? exp)%Z) && (exp <=? now_s - l)%Z).

(** AssertIssuanceTime = nil *)
Definition assert_iat (e : expectation) (now : Z) (iat : Z) : bool :=
  negb (negb (iat =? zero_time_unix)%Z && (now + leeway_ns e <? secs iat)%Z).

(** outcome of one authentication *)
Inductive err :=
| ENoCreds          (* no token in the configured sources: authentication error caused by an argument error *)
| EParse            (* jwt.ParseSigned failed (not a compact JWS, or `alg` not in supportedAlgorithms): the same kinds *)
| EPayload          (* payload is not a JSON object: internal error *)
| EComm             (* JWKS endpoint unreachable or answering non-2xx: communication error *)
| EJwks             (* JWKS document cannot be decoded: internal error *)
| EKey              (* no unique key for the kid, or its certificate does not validate *)
| EAlgMismatch      (* key's alg <> header's alg *)
| EAlgNotAllowed    (* key's alg not in the allowed list: caused by an assertion error *)
| ESignature        (* token.Claims failed: signature or claim decoding *)
| EAssertion        (* issuer / audience / validity / issuance time *)
| EScopes           (* scope matching error *)
| ENoneOfKeys       (* no kid and no published key verifies the token *)
| ESubject          (* subject id cannot be extracted from the verified payload: internal error *)
| EPanic.           (* nil ScopesMatcher dereferenced (unreachable, see Proofs.effective_scopes_some) *)

Inductive result := Accepted (sub : string) | Failed (e : err).

(** Claims.Validate: issuer, audience, validity, issuance time, scopes — in this order *)
Definition validate (fixed_F1 fixed_F2 : bool) (e : expectation) (now : Z) (c : claims) : option err :=
  if String.eqb (c_iss c) "" || negb (mem (c_iss c) (e_issuers e)) then Some EAssertion   (* AssertIssuer; the empty-issuer test is fix: d55629a (C05-F5) *)
  else if negb (is_nil (e_aud e)) && negb (intersects (e_aud e) (strs_of (c_aud c))) then Some EAssertion
  else if negb (assert_validity fixed_F1 e now
                  (negb (date_unix fixed_F2 (c_nbf c) =? zero_time_unix)%Z)      (* !notBefore.IsZero() *)
                  (negb (date_unix fixed_F2 (c_exp c) =? zero_time_unix)%Z)
                  (date_unix fixed_F2 (c_nbf c)) (date_unix fixed_F2 (c_exp c))) then Some EAssertion
  else if negb (assert_iat e now (date_unix fixed_F2 (c_iat c))) then Some EAssertion
  else match e_scopes e with
       | None => Some EPanic
       | Some m => if match_scopes m (eff_scopes c) then None else Some EScopes
       end.

(* ------------------------------------------------------------------ keys and tokens *)

Inductive cert := CertNone | CertOk | CertBad.   (* no x5c / chain validates / does not *)

Record jwk := {
  k_kid : string;
  k_alg : string;                       (* the JWK's "alg" member, "" when absent *)
  k_mat : N;                            (* identity of the key material *)
  k_cert : cert }.

Record token := {
  t_alg : string;                       (* header "alg" *)
  t_kid : string;                       (* header "kid", "" when absent *)
  t_payload_obj : bool;                 (* the payload decodes into a JSON object *)
  t_claims : claims;
  t_sig : list N }.                     (* key materials under which the signature over header.payload verifies with [t_alg] *)

Definition sig_ok (t : token) (k : jwk) : bool := existsb (N.eqb (k_mat k)) (t_sig t).

(** what the configured sources of the request yield *)
Inductive cred := CNone | CUnparsable | CToken (t : token).

Inductive remote := RUp | RDown | RStatus | RGarbage.

Record config := {
  cf_proto : expectation;               (* `assertions` of the mechanism as configured *)
  cf_rule : option expectation;         (* `assertions` of a rule-level reconfiguration (WithConfig) *)
  cf_md_issuer : string;                (* issuer of the resolved server metadata; "" with jwks_endpoint *)
  cf_validate_jwk : bool;
  cf_id_from : string;                  (* subject.id template (a plain member name) *)
  cf_remote : remote }.

(** the assertions verifyToken works with: rule level over prototype over metadata *)
Definition effective (cf : config) : expectation :=
  let p := proto_defaults (cf_proto cf) in
  let a := match cf_rule cf with None => p | Some r => merge r p end in
  merge a {| e_issuers := [cf_md_issuer cf]; e_scopes := None; e_aud := []; e_algs := []; e_leeway := 0 |}.

Definition cert_bad (c : cert) : bool := match c with CertBad => true | _ => false end.

(** validateJWK = nil *)
Definition key_valid (cf : config) (k : jwk) : bool :=
  negb (cf_validate_jwk cf) || negb (cert_bad (k_cert k)).

(** verifyTokenWithKey: None = the raw claims are returned *)
Definition verify_with_key (f1 f2 : bool) (e : expectation) (now : Z) (t : token) (k : jwk) : option err :=
  if negb (String.eqb (t_alg t) "") && negb (String.eqb (k_alg k) (t_alg t)) then Some EAlgMismatch
  else if negb (mem (k_alg k) (e_algs e)) then Some EAlgNotAllowed
  else if negb (sig_ok t k) || c_malformed (t_claims t) then Some ESignature
  else validate f1 f2 e now (t_claims t).

(** getKey (cache off): jwks.Key(kid) must have exactly one element, and it must be valid *)
Definition get_key (cf : config) (ks : list jwk) (kid : string) : option jwk :=
  match filter (fun k => String.eqb (k_kid k) kid) ks with
  | [k] => if key_valid cf k then Some k else None
  | _ => None
  end.

(** verifyTokenWithoutKID: the loop over the published keys; true = some key verified *)
Fixpoint verify_without_kid (f1 f2 : bool) (cf : config) (e : expectation) (now : Z) (t : token) (ks : list jwk) : bool :=
  match ks with
  | [] => false
  | k :: rest =>
    if key_valid cf k
    then match verify_with_key f1 f2 e now t k with
         | None => true                                         (* break *)
         | Some _ => verify_without_kid f1 f2 cf e now t rest
         end
    else verify_without_kid f1 f2 cf e now t rest               (* continue *)
  end.

(** SubjectInfo.CreateSubject on the verified payload *)
Definition subject_id (cf : config) (c : claims) : string := lookup (cf_id_from cf) (c_fields c).

(** verifyToken *)
Definition verify_token (f1 f2 : bool) (cf : config) (ks : list jwk) (now : Z) (t : token) : option err :=
  if negb (t_payload_obj t) then Some EPayload
  else
    let e := effective cf in
    match cf_remote cf with
    | RDown | RStatus => Some EComm
    | RGarbage => Some EJwks
    | RUp =>
      if String.eqb (t_kid t) ""
      then if verify_without_kid f1 f2 cf e now t ks then None else Some ENoneOfKeys
      else match get_key cf ks (t_kid t) with
           | None => Some EKey
           | Some k => verify_with_key f1 f2 e now t k
           end
    end.

(** jwtAuthenticator.Execute *)
Definition authenticate_gen (f1 f2 : bool) (cf : config) (ks : list jwk) (now : Z) (cr : cred) : result :=
  match cr with
  | CNone => Failed ENoCreds
  | CUnparsable => Failed EParse
  | CToken t =>
    if negb (mem (t_alg t) supported_algs) then Failed EParse
    else match verify_token f1 f2 cf ks now t with
         | Some e => Failed e
         | None =>
           let s := subject_id cf (t_claims t) in
           if String.eqb s "" then Failed ESubject else Accepted s
         end
  end.

(** the code as it is (with the fix: commits a3a89b7, f16c3cc and d55629a) *)
Definition authenticate := authenticate_gen true true.

(** the code as it is with a3a89b7 and f16c3cc reverted, the later repair d55629a kept (pinned for the record of
    C05-F1 / C05-F2; not a state /repo was ever in) *)
Definition authenticate_pinned := authenticate_gen false false.

(* ------------------------------------------------------------------ observables *)

(** what the driver can tell about an error value with errors.Is *)
Inductive eclass :=
| KArgument          (* ErrAuthentication and ErrArgument *)
| KAuthn             (* ErrAuthentication, neither ErrAssertion nor ErrScopeMatch below it *)
| KAuthnAssertion    (* ErrAuthentication caused by oauth2.ErrAssertion *)
| KAuthnScopes       (* ErrAuthentication caused by oauth2.ErrScopeMatch *)
| KComm              (* ErrCommunication *)
| KInternal          (* ErrInternal *)
| KPanic
| KOtherError       (* an error of another kind (timeout, argument-only, ...): still a rejection *)
| KOther.            (* no answer at all: (nil, nil), or the driver could not set the case up *)

Definition class_of (e : err) : eclass :=
  match e with
  | ENoCreds | EParse => KArgument
  | EPayload | EJwks | ESubject => KInternal
  | EComm => KComm
  | EKey | EAlgMismatch | ESignature | ENoneOfKeys => KAuthn
  | EAlgNotAllowed | EAssertion => KAuthnAssertion
  | EScopes => KAuthnScopes
  | EPanic => KPanic
  end.

Inductive obs := OSubject (s : string) | OError (k : eclass).

Definition obs_of (r : result) : obs :=
  match r with Accepted s => OSubject s | Failed e => OError (class_of e) end.
