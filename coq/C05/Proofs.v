(** C05 — proofs about C05/Model.v against C05/Spec.v *)
From HV Require Import Base.Prelude Base.Time C05.Model C05.Spec.
From Coq Require Import ZifyBool.

Ltac splits := repeat match goal with |- _ /\ _ => split end.
Ltac case_ifs := repeat match goal with |- context [if ?b then _ else _] => destruct b eqn:? end.

(* ------------------------------------------------------------------ elementary vocabulary *)

Lemma mem_In x l : mem x l = true <-> In x l.
Proof.
  unfold mem. rewrite existsb_exists. split.
  - intros [y [Hy E]]. apply String.eqb_eq in E. subst. exact Hy.
  - intro H. exists x. split; [exact H | apply String.eqb_refl].
Qed.

Lemma intersects_spec a b : intersects a b = true <-> exists x, In x a /\ In x b.
Proof.
  unfold intersects. rewrite existsb_exists. split.
  - intros [x [Ha Hb]]. exists x. split; [exact Ha | apply mem_In; exact Hb].
  - intros [x [Ha Hb]]. exists x. split; [exact Ha | apply mem_In; exact Hb].
Qed.

Lemma is_nil_true {A} (l : list A) : is_nil l = true <-> l = [].
Proof. destruct l; simpl; split; intro H; congruence. Qed.

Lemma sig_ok_In t k : sig_ok t k = true <-> In (k_mat k) (t_sig t).
Proof.
  unfold sig_ok. rewrite existsb_exists. split.
  - intros [y [Hy E]]. apply N.eqb_eq in E. subst. exact Hy.
  - intro H. exists (k_mat k). split; [exact H | apply N.eqb_refl].
Qed.

(* ------------------------------------------------------------------ Merge precedence *)

Lemma merge_assoc a b c : merge (merge a b) c = merge a (merge b c).
Proof.
  unfold merge; simpl. f_equal.
  - destruct (e_issuers a); simpl; reflexivity.
  - destruct (e_scopes a); reflexivity.
  - destruct (e_aud a); simpl; reflexivity.
  - destruct (e_algs a); simpl; reflexivity.
  - destruct (e_leeway a =? 0)%Z eqn:E; [reflexivity | rewrite E; reflexivity].
Qed.

Lemma merge_no_expectation_r e : merge e no_expectation = e.
Proof.
  destruct e as [i s a g l]; unfold merge, no_expectation; simpl. f_equal.
  - destruct i; reflexivity.
  - destruct s; reflexivity.
  - destruct a; reflexivity.
  - destruct g; reflexivity.
  - destruct (l =? 0)%Z eqn:E; [lia | reflexivity].
Qed.

Lemma merge_no_expectation_l e : merge no_expectation e = e.
Proof. destruct e; reflexivity. Qed.

(** the assertions in force are: rule level, else mechanism (with its defaults), else metadata *)
Lemma effective_as_merge cf :
  effective cf = merge (rule_level cf)
                   (merge (proto_defaults (cf_proto cf))
                      {| e_issuers := [cf_md_issuer cf]; e_scopes := None; e_aud := []; e_algs := []; e_leeway := 0 |}).
Proof.
  unfold effective, rule_level. destruct (cf_rule cf) as [r|].
  - apply merge_assoc.
  - rewrite merge_no_expectation_l. reflexivity.
Qed.

Lemma eff_issuers cf : e_issuers (effective cf) = trusted_issuers cf.
Proof.
  rewrite effective_as_merge. unfold trusted_issuers, first_set, merge; simpl.
  destruct (e_issuers (rule_level cf)); simpl; [|reflexivity].
  destruct (e_issuers (cf_proto cf)); reflexivity.
Qed.

Lemma eff_algs cf : e_algs (effective cf) = allowed_algs cf.
Proof.
  rewrite effective_as_merge. unfold allowed_algs, first_set, merge; simpl.
  destruct (e_algs (rule_level cf)); simpl; [|reflexivity].
  destruct (e_algs (cf_proto cf)); reflexivity.
Qed.

Lemma eff_aud cf : e_aud (effective cf) = expected_audiences cf.
Proof.
  rewrite effective_as_merge. unfold expected_audiences, first_set, merge; simpl.
  destruct (e_aud (rule_level cf)); simpl; [|reflexivity].
  destruct (e_aud (cf_proto cf)); reflexivity.
Qed.

Lemma effective_scopes cf : e_scopes (effective cf) = Some (required_scopes cf).
Proof.
  rewrite effective_as_merge. unfold required_scopes, merge; simpl.
  destruct (e_scopes (rule_level cf)); [reflexivity|].
  destruct (e_scopes (cf_proto cf)); reflexivity.
Qed.

(** in particular the nil ScopesMatcher is never dereferenced *)
Lemma effective_scopes_some cf : e_scopes (effective cf) <> None.
Proof. rewrite effective_scopes. discriminate. Qed.

Lemma eff_leeway cf : leeway_ns (effective cf) = leeway cf.
Proof.
  rewrite effective_as_merge. unfold leeway_ns, leeway, merge, default_leeway; simpl.
  destruct (e_leeway (rule_level cf) =? 0)%Z eqn:E1; simpl.
  - destruct (e_leeway (cf_proto cf) =? 0)%Z eqn:E2; simpl.
    + reflexivity.
    + rewrite E2. reflexivity.
  - rewrite E1. reflexivity.
Qed.

Lemma eff_leeway_s cf : leeway_s (effective cf) = leeway_secs cf.
Proof. unfold leeway_s, leeway_secs. rewrite eff_leeway. reflexivity. Qed.

(* ------------------------------------------------------------------ the time assertions *)

Definition g1 (c : claims) : bool := match c_exp c with Some e => (e <=? 0)%Z | None => false end.
Definition g2 (c : claims) : bool :=
  match c_nbf c with Some n => (int64_max <? n)%Z | None => false end ||
  match c_iat c with Some i => (int64_max <? i)%Z | None => false end.

(** when the model variant [f1 f2] is claimed to meet the specification on claims [c]:
    the code as it is — outside the two findings; with both repairs — except for an
    `exp` that is exactly the Unix time of Go's zero time.Time *)
Definition guards_ok (f1 f2 : bool) (c : claims) : Prop :=
  match f1, f2 with
  | false, false => g1 c = false /\ g2 c = false
  | true, true => c_exp c <> Some zero_time_unix
  | _, _ => False
  end.

Lemma validity_spec f1 f2 cf now c :
  sane_clock cf now -> guards_ok f1 f2 c ->
  assert_validity f1 (effective cf) now
    (negb (date_unix f2 (c_nbf c) =? zero_time_unix)%Z) (negb (date_unix f2 (c_exp c) =? zero_time_unix)%Z)
    (date_unix f2 (c_nbf c)) (date_unix f2 (c_exp c))
  = already_valid cf now c && not_expired cf now c.
Proof.
  unfold sane_clock, guards_ok, g1, g2, assert_validity, already_valid, not_expired. rewrite eff_leeway_s.
  generalize (unix now) (leeway_secs cf). intros u l (H1 & [H2' H2] & H3 & _) G.
  unfold date_unix, to_int64, zero_time_unix, date_max, int64_max, int64_min in *.
  destruct f1, f2; try contradiction;
  destruct (c_nbf c) as [n|], (c_exp c) as [e|], (c_iat c) as [i|]; simpl in *;
  try destruct G as [G1 G2]; case_ifs; try lia.
  all: destruct (Z.eq_dec e (-62135596800)) as [->|Hne]; [exfalso; apply G; reflexivity | lia].
Qed.

Lemma iat_spec f1 f2 cf now c :
  sane_clock cf now -> guards_ok f1 f2 c ->
  assert_iat (effective cf) now (date_unix f2 (c_iat c)) = not_issued_in_future cf now c.
Proof.
  unfold sane_clock, guards_ok, g1, g2, assert_iat, not_issued_in_future. rewrite eff_leeway.
  generalize (leeway cf). intros l (_ & _ & _ & H & H') G.
  unfold date_unix, to_int64, zero_time_unix, date_max, int64_max, int64_min, secs, ns_per_s in *.
  destruct f1, f2; try contradiction;
  destruct (c_nbf c) as [n|], (c_iat c) as [i|]; simpl in *; try destruct G as [G1 G2]; case_ifs; lia.
Qed.

(* ------------------------------------------------------------------ Claims.Validate *)

Definition is_none {A} (o : option A) : bool := match o with None => true | Some _ => false end.

(** the part of [claims_acceptable] that Claims.Validate decides *)
Definition validated (cf : config) (now : Z) (c : claims) : bool :=
  negb (String.eqb (c_iss c) "") && mem (c_iss c) (trusted_issuers cf) && audience_ok cf c &&
  match_scopes (required_scopes cf) (eff_scopes c) &&
  already_valid cf now c && not_expired cf now c && not_issued_in_future cf now c.

Lemma validate_spec f1 f2 cf now c :
  sane_clock cf now -> guards_ok f1 f2 c ->
  is_none (validate f1 f2 (effective cf) now c) = validated cf now c.
Proof.
  intros Hs G. unfold validate, validated, audience_ok.
  rewrite eff_issuers, eff_aud, effective_scopes, (validity_spec f1 f2), (iat_spec f1 f2) by assumption.
  destruct (String.eqb (c_iss c) "") eqn:E0; simpl in *; [reflexivity|].
  destruct (mem (c_iss c) (trusted_issuers cf)); simpl; [|reflexivity].
  destruct (is_nil (expected_audiences cf)); simpl.
  - destruct (already_valid cf now c && not_expired cf now c) eqn:V; simpl.
    + destruct (already_valid cf now c), (not_expired cf now c); try discriminate; simpl.
      destruct (not_issued_in_future cf now c); simpl.
      * destruct (match_scopes _ _); reflexivity.
      * destruct (match_scopes _ _); reflexivity.
    + destruct (match_scopes _ _); simpl; [|reflexivity].
      destruct (already_valid cf now c), (not_expired cf now c); try discriminate; reflexivity.
  - destruct (intersects _ _); simpl; [|reflexivity].
    destruct (already_valid cf now c && not_expired cf now c) eqn:V; simpl.
    + destruct (already_valid cf now c), (not_expired cf now c); try discriminate; simpl.
      destruct (not_issued_in_future cf now c); simpl.
      * destruct (match_scopes _ _); reflexivity.
      * destruct (match_scopes _ _); reflexivity.
    + destruct (match_scopes _ _); simpl; [|reflexivity].
      destruct (already_valid cf now c), (not_expired cf now c); try discriminate; reflexivity.
Qed.

Lemma claims_acceptable_split cf now c :
  claims_acceptable cf now c = negb (c_malformed c) && validated cf now c.
Proof.
  unfold claims_acceptable, validated.
  destruct (c_malformed c), (String.eqb (c_iss c) ""), (mem _ _), (audience_ok cf c), (match_scopes _ _), (already_valid _ _ _),
    (not_expired _ _ _), (not_issued_in_future _ _ _); reflexivity.
Qed.

(* ------------------------------------------------------------------ verifyTokenWithKey *)

Lemma supported_nonempty a : mem a supported_algs = true -> String.eqb a "" = false.
Proof.
  intro H. apply mem_In in H. simpl in H.
  repeat (destruct H as [H|H]; [subst a; reflexivity|]). destruct H.
Qed.

Lemma verify_with_key_spec f1 f2 cf now t k :
  mem (t_alg t) supported_algs = true ->
  sane_clock cf now -> guards_ok f1 f2 (t_claims t) ->
  is_none (verify_with_key f1 f2 (effective cf) now t k) =
  String.eqb (k_alg k) (t_alg t) && mem (k_alg k) (allowed_algs cf) && sig_ok t k &&
  claims_acceptable cf now (t_claims t).
Proof.
  intros Hsup Hs G. unfold verify_with_key.
  rewrite (supported_nonempty _ Hsup), eff_algs, claims_acceptable_split. simpl.
  destruct (String.eqb (k_alg k) (t_alg t)); simpl; [|reflexivity].
  destruct (mem (k_alg k) (allowed_algs cf)); simpl; [|reflexivity].
  destruct (sig_ok t k); simpl; [|reflexivity].
  destruct (c_malformed (t_claims t)); simpl; [reflexivity|].
  apply validate_spec; assumption.
Qed.

(* ------------------------------------------------------------------ key selection *)

Lemma key_acceptable_split f1 f2 cf now t k :
  mem (t_alg t) supported_algs = true ->
  sane_clock cf now -> guards_ok f1 f2 (t_claims t) ->
  key_valid cf k && is_none (verify_with_key f1 f2 (effective cf) now t k) =
  key_acceptable cf t k && claims_acceptable cf now (t_claims t).
Proof.
  intros. rewrite verify_with_key_spec by assumption. unfold key_valid, key_acceptable.
  destruct (negb (cf_validate_jwk cf) || negb (cert_bad (k_cert k))), (String.eqb (k_alg k) (t_alg t)),
    (mem (k_alg k) (allowed_algs cf)), (sig_ok t k), (claims_acceptable cf now (t_claims t)); reflexivity.
Qed.

(** the loop of verifyTokenWithoutKID finds a key iff one exists *)
Lemma verify_without_kid_existsb f1 f2 cf e now t ks :
  verify_without_kid f1 f2 cf e now t ks =
  existsb (fun k => key_valid cf k && is_none (verify_with_key f1 f2 e now t k)) ks.
Proof.
  induction ks as [|k r IH]; simpl; [reflexivity|].
  destruct (key_valid cf k); simpl; [|exact IH].
  destruct (verify_with_key f1 f2 e now t k); simpl; [exact IH | reflexivity].
Qed.

Lemma existsb_and_const {A} (f : A -> bool) (b : bool) l :
  existsb (fun x => f x && b) l = existsb f l && b.
Proof.
  induction l as [|x r IH]; simpl; [reflexivity|]. rewrite IH.
  destruct (f x), b, (existsb f r); reflexivity.
Qed.

Lemma existsb_ext' {A} (f g : A -> bool) l : (forall x, f x = g x) -> existsb f l = existsb g l.
Proof. intro H. induction l as [|x r IH]; simpl; [reflexivity|]. rewrite H, IH. reflexivity. Qed.

(** verifyToken succeeds exactly when the specification's key and claim conditions hold *)
Lemma verify_token_spec f1 f2 cf ks now t :
  mem (t_alg t) supported_algs = true ->
  sane_clock cf now -> guards_ok f1 f2 (t_claims t) ->
  is_none (verify_token f1 f2 cf ks now t) =
  t_payload_obj t && remote_up cf && existsb (key_acceptable cf t) (candidate_keys ks t) &&
  claims_acceptable cf now (t_claims t).
Proof.
  intros Hsup Hs G. unfold verify_token, remote_up, candidate_keys.
  destruct (t_payload_obj t); simpl; [|reflexivity].
  destruct (cf_remote cf); simpl; try reflexivity.
  destruct (String.eqb (t_kid t) "").
  - rewrite verify_without_kid_existsb.
    rewrite (existsb_ext' _ (fun k => key_acceptable cf t k && claims_acceptable cf now (t_claims t)))
      by (intro k; apply key_acceptable_split; assumption).
    rewrite existsb_and_const.
    destruct (existsb (key_acceptable cf t) ks && claims_acceptable cf now (t_claims t)); reflexivity.
  - unfold get_key.
    destruct (filter (fun k => String.eqb (k_kid k) (t_kid t)) ks) as [|k [|k' r]]; simpl; try reflexivity.
    pose proof (key_acceptable_split f1 f2 cf now t k Hsup Hs G) as E.
    destruct (key_valid cf k) eqn:V; simpl in *.
    + rewrite E. rewrite orb_false_r. reflexivity.
    + rewrite orb_false_r. rewrite <- E. reflexivity.
Qed.

(* ------------------------------------------------------------------ main theorem *)

Definition cred_guards_ok (f1 f2 : bool) (cr : cred) : Prop :=
  match cr with CToken t => guards_ok f1 f2 (t_claims t) | _ => True end.

Theorem authenticate_gen_spec f1 f2 cf ks now cr :
  sane_clock cf now -> cred_guards_ok f1 f2 cr ->
  accepted_sub (authenticate_gen f1 f2 cf ks now cr) = spec_accepts cf ks now cr.
Proof.
  intros Hs G. destruct cr as [| |t]; try reflexivity.
  unfold authenticate_gen, spec_accepts, subject_id.
  change parsable_algs with supported_algs.
  destruct (mem (t_alg t) supported_algs) eqn:Hsup; simpl; [|reflexivity].
  pose proof (verify_token_spec f1 f2 cf ks now t Hsup Hs G) as E.
  destruct (verify_token f1 f2 cf ks now t) as [e|]; simpl in E.
  - rewrite <- E. reflexivity.
  - rewrite <- E. simpl.
    destruct (String.eqb (lookup (cf_id_from cf) (c_fields (t_claims t))) ""); reflexivity.
Qed.

(** The authenticator as it is creates a subject exactly when the specification does,
    and it is the specification's subject (outside the open finding C05-F3). *)
Theorem authenticate_spec cf ks now cr :
  sane_clock cf now -> open_guards cf cr = false ->
  accepted_sub (authenticate cf ks now cr) = spec_accepts cf ks now cr.
Proof.
  intros Hs G. unfold open_guards in G. apply authenticate_gen_spec; [exact Hs|].
  destruct cr as [| |t]; simpl in *; try exact I.
  destruct (c_exp (t_claims t)) as [e|]; [|discriminate].
  intro E. injection E as ->. rewrite Z.eqb_refl in G. discriminate.
Qed.

(** The authenticator as it was before a3a89b7 / f16c3cc did so outside C05-F1 and C05-F2. *)
Theorem pinned_spec cf ks now cr :
  sane_clock cf now -> guard_F1 cr = false -> guard_F2 cr = false ->
  accepted_sub (authenticate_pinned cf ks now cr) = spec_accepts cf ks now cr.
Proof.
  intros Hs G1 G2. apply authenticate_gen_spec; [exact Hs|].
  destruct cr as [| |t]; simpl; [exact I | exact I | split; assumption].
Qed.

(* ------------------------------------------------------------------ soundness in propositional form *)

(** exactly one published key carries the kid *)
Definition unique_kid (ks : list jwk) (k : jwk) (kid : string) : Prop :=
  filter (fun k' => String.eqb (k_kid k') kid) ks = [k].

Lemma candidate_keys_In ks t k :
  In k (candidate_keys ks t) ->
  In k ks /\ (t_kid t <> ""%string -> k_kid k = t_kid t /\ unique_kid ks k (t_kid t)).
Proof.
  unfold candidate_keys, unique_kid. destruct (String.eqb (t_kid t) "") eqn:E.
  - intro H. split; [exact H|]. apply String.eqb_eq in E. intro N. contradiction.
  - destruct (filter _ ks) as [|k0 [|k1 r]] eqn:F; simpl; try contradiction.
    intros [<-|[]].
    assert (In k0 (filter (fun k' => String.eqb (k_kid k') (t_kid t)) ks)) as Hin by (rewrite F; left; reflexivity).
    apply filter_In in Hin as [Hin Hk]. apply String.eqb_eq in Hk.
    split; [exact Hin|]. intros _. split; [exact Hk | reflexivity].
Qed.

Lemma In_candidate_keys ks t k :
  In k ks -> (t_kid t = ""%string \/ unique_kid ks k (t_kid t)) -> In k (candidate_keys ks t).
Proof.
  unfold candidate_keys, unique_kid. intros Hin [E|U].
  - rewrite E. simpl. exact Hin.
  - destruct (String.eqb (t_kid t) ""); [exact Hin|]. rewrite U. left; reflexivity.
Qed.

Definition window_ok (cf : config) (now : Z) (c : claims) : Prop :=
  (forall n, c_nbf c = Some n -> n <= unix now + leeway_secs cf)%Z /\
  (forall e, c_exp c = Some e -> unix now - leeway_secs cf < e)%Z /\
  (forall i, c_iat c = Some i -> secs i <= now + leeway cf)%Z.

Lemma window_ok_iff cf now c :
  already_valid cf now c && not_expired cf now c && not_issued_in_future cf now c = true <-> window_ok cf now c.
Proof.
  unfold window_ok, already_valid, not_expired, not_issued_in_future. split.
  - intro H. apply andb_true_iff in H as [H H3]. apply andb_true_iff in H as [H1 H2]. splits.
    + intros n E. rewrite E in H1. lia.
    + intros e E. rewrite E in H2. lia.
    + intros i E. rewrite E in H3. lia.
  - intros (H1 & H2 & H3).
    destruct (c_nbf c) as [n|]; [specialize (H1 n eq_refl)|];
    destruct (c_exp c) as [e|]; [specialize (H2 e eq_refl)| |specialize (H2 e eq_refl)|];
    destruct (c_iat c) as [i|]; try specialize (H3 i eq_refl); lia.
Qed.

(** everything the property demands of an accepted token *)
Definition demands (cf : config) (ks : list jwk) (now : Z) (t : token) (sub : string) : Prop :=
  exists k,
    In k ks /\
    (t_kid t <> ""%string -> k_kid k = t_kid t /\ unique_kid ks k (t_kid t)) /\
    (cf_validate_jwk cf = true -> k_cert k <> CertBad) /\
    sig_ok t k = true /\
    k_alg k = t_alg t /\ In (k_alg k) (allowed_algs cf) /\ In (t_alg t) supported_algs /\
    c_malformed (t_claims t) = false /\
    c_iss (t_claims t) <> ""%string /\ In (c_iss (t_claims t)) (trusted_issuers cf) /\
    (expected_audiences cf <> [] ->
       exists a, In a (expected_audiences cf) /\ In a (strs_of (c_aud (t_claims t)))) /\
    match_scopes (required_scopes cf) (eff_scopes (t_claims t)) = true /\
    window_ok cf now (t_claims t) /\
    sub = lookup (cf_id_from cf) (c_fields (t_claims t)) /\ sub <> ""%string.

Lemma key_acceptable_iff cf t k :
  key_acceptable cf t k = true <->
  (cf_validate_jwk cf = true -> k_cert k <> CertBad) /\ sig_ok t k = true /\ k_alg k = t_alg t /\
  In (k_alg k) (allowed_algs cf).
Proof.
  unfold key_acceptable. rewrite !andb_true_iff, String.eqb_eq, mem_In. split.
  - intros [[[C S] A] M]. splits; try assumption.
    intros V N. rewrite V, N in C. discriminate.
  - intros (C & S & A & M). splits; try assumption.
    destruct (cf_validate_jwk cf); [|reflexivity]. destruct (k_cert k); try reflexivity.
    exfalso. apply C; reflexivity.
Qed.

Lemma spec_accepts_demands cf ks now t sub :
  spec_accepts cf ks now (CToken t) = Some sub ->
  t_payload_obj t = true /\ cf_remote cf = RUp /\ demands cf ks now t sub.
Proof.
  unfold spec_accepts.
  destruct (_ && _ && _ && _ && _ && _) eqn:H; [|discriminate]. intro E; injection E as <-.
  apply andb_true_iff in H as [H Hsub]. apply andb_true_iff in H as [H Hcl].
  apply andb_true_iff in H as [H Hex]. apply andb_true_iff in H as [H Hup].
  apply andb_true_iff in H as [Hsup Hobj].
  apply existsb_exists in Hex as [k [Hk Hacc]].
  apply candidate_keys_In in Hk as [Hin Hkid].
  apply key_acceptable_iff in Hacc as (C & S & A & M).
  unfold claims_acceptable in Hcl.
  apply andb_true_iff in Hcl as [Hcl Hiat]. apply andb_true_iff in Hcl as [Hcl Hexp].
  apply andb_true_iff in Hcl as [Hcl Hnbf]. apply andb_true_iff in Hcl as [Hcl Hsc].
  apply andb_true_iff in Hcl as [Hcl Haud]. apply andb_true_iff in Hcl as [Hcl Hiss].
  apply andb_true_iff in Hcl as [Hmal Hne0].
  splits.
  - assumption.
  - unfold remote_up in Hup. destruct (cf_remote cf); try discriminate; reflexivity.
  - exists k. splits; try assumption.
    + apply mem_In; assumption.
    + destruct (c_malformed (t_claims t)); [discriminate|reflexivity].
    + intro E0. rewrite E0 in Hne0. discriminate.
    + apply mem_In; assumption.
    + intro Hne. unfold audience_ok in Haud. apply orb_true_iff in Haud as [X|X].
      * apply is_nil_true in X. contradiction.
      * apply intersects_spec in X. exact X.
    + apply window_ok_iff. rewrite !andb_true_iff. splits; assumption.
    + reflexivity.
    + intro E. rewrite E in Hsub. discriminate.
Qed.

Lemma demands_spec_accepts cf ks now t sub :
  t_payload_obj t = true -> cf_remote cf = RUp -> demands cf ks now t sub ->
  spec_accepts cf ks now (CToken t) = Some sub.
Proof.
  intros Hobj Hup (k & Hin & Hkid & C & S & A & M & Hsup & Hmal & Hne0 & Hiss & Haud & Hsc & Hw & -> & Hne).
  unfold spec_accepts. change parsable_algs with supported_algs.
  assert (mem (t_alg t) supported_algs = true) as -> by (apply mem_In; exact Hsup).
  rewrite Hobj. unfold remote_up. rewrite Hup. simpl.
  assert (existsb (key_acceptable cf t) (candidate_keys ks t) = true) as ->.
  { apply existsb_exists. exists k. split.
    - apply In_candidate_keys; [exact Hin|].
      destruct (String.eqb (t_kid t) "") eqn:E; [left; apply String.eqb_eq; exact E|].
      right. apply Hkid. intro E'. rewrite E' in E. discriminate.
    - apply key_acceptable_iff. splits; assumption. }
  assert (claims_acceptable cf now (t_claims t) = true) as ->.
  { unfold claims_acceptable. apply window_ok_iff in Hw.
    apply andb_true_iff in Hw as [Hw H3]. apply andb_true_iff in Hw as [H1 H2].
    rewrite Hmal, H1, H2, H3, Hsc. apply mem_In in Hiss. rewrite Hiss.
    assert (String.eqb (c_iss (t_claims t)) "" = false) as -> by (apply String.eqb_neq; exact Hne0). simpl.
    rewrite !andb_true_r. unfold audience_ok.
    destruct (is_nil (expected_audiences cf)) eqn:Ea; [reflexivity|]. simpl.
    apply intersects_spec. apply Haud. intro N. rewrite N in Ea. discriminate. }
  simpl. destruct (String.eqb _ "") eqn:E; [apply String.eqb_eq in E; contradiction | reflexivity].
Qed.

(** "A subject is created only if ..." — the property's first sentence, for the code as it is *)
Theorem accept_sound cf ks now t sub :
  sane_clock cf now -> open_guards cf (CToken t) = false ->
  authenticate cf ks now (CToken t) = Accepted sub ->
  demands cf ks now t sub.
Proof.
  intros Hs G H.
  pose proof (authenticate_spec cf ks now (CToken t) Hs G) as E. rewrite H in E. simpl in E.
  symmetry in E. apply spec_accepts_demands in E. apply E.
Qed.

(** ... and conversely every token meeting the demands is accepted *)
Theorem accept_complete cf ks now t sub :
  sane_clock cf now -> open_guards cf (CToken t) = false ->
  t_payload_obj t = true -> cf_remote cf = RUp ->
  demands cf ks now t sub ->
  authenticate cf ks now (CToken t) = Accepted sub.
Proof.
  intros Hs G Hobj Hup D.
  pose proof (authenticate_spec cf ks now (CToken t) Hs G) as E.
  rewrite (demands_spec_accepts _ _ _ _ _ Hobj Hup D) in E.
  destruct (authenticate cf ks now (CToken t)); simpl in E; congruence.
Qed.

(* ------------------------------------------------------------------ what holds without any guard, for every variant *)

Lemma verify_with_key_none_inv f1 f2 e now t k :
  t_alg t <> ""%string ->
  verify_with_key f1 f2 e now t k = None ->
  k_alg k = t_alg t /\ In (k_alg k) (e_algs e) /\ sig_ok t k = true /\ c_malformed (t_claims t) = false /\
  In (c_iss (t_claims t)) (e_issuers e).
Proof.
  intros Hne. unfold verify_with_key.
  destruct (String.eqb (t_alg t) "") eqn:E0; [apply String.eqb_eq in E0; contradiction|]. simpl.
  destruct (String.eqb (k_alg k) (t_alg t)) eqn:E1; simpl; [|discriminate].
  destruct (mem (k_alg k) (e_algs e)) eqn:E2; simpl; [|discriminate].
  destruct (sig_ok t k) eqn:E3; simpl; [|discriminate].
  destruct (c_malformed (t_claims t)) eqn:E4; simpl; [discriminate|].
  unfold validate. destruct (String.eqb (c_iss (t_claims t)) "") eqn:E6; simpl; [discriminate|].
  destruct (mem (c_iss (t_claims t)) (e_issuers e)) eqn:E5; simpl; [|discriminate].
  intros _. splits; try reflexivity.
  - apply String.eqb_eq; exact E1.
  - apply mem_In; exact E2.
  - apply mem_In; exact E5.
Qed.

Lemma verify_token_none_inv f1 f2 cf ks now t :
  t_alg t <> ""%string ->
  verify_token f1 f2 cf ks now t = None ->
  t_payload_obj t = true /\ cf_remote cf = RUp /\
  exists k, In k ks /\ (t_kid t <> ""%string -> k_kid k = t_kid t /\ unique_kid ks k (t_kid t)) /\
            key_valid cf k = true /\ verify_with_key f1 f2 (effective cf) now t k = None.
Proof.
  intros Hne. unfold verify_token.
  destruct (t_payload_obj t); simpl; [|discriminate].
  destruct (cf_remote cf); try discriminate.
  destruct (String.eqb (t_kid t) "") eqn:Ek.
  - rewrite verify_without_kid_existsb.
    destruct (existsb _ ks) eqn:Ex; [|discriminate]. intros _.
    apply existsb_exists in Ex as [k [Hin Hk]]. apply andb_true_iff in Hk as [Hv Hn].
    splits; try reflexivity. exists k. splits; try assumption.
    + apply String.eqb_eq in Ek. intro N. contradiction.
    + destruct (verify_with_key f1 f2 (effective cf) now t k); [discriminate|reflexivity].
  - unfold get_key. destruct (filter _ ks) as [|k [|k' r]] eqn:F; try discriminate.
    destruct (key_valid cf k) eqn:V; [|discriminate]. intro H.
    splits; try reflexivity. exists k.
    assert (In k (filter (fun k0 => String.eqb (k_kid k0) (t_kid t)) ks)) as Hin by (rewrite F; left; reflexivity).
    apply filter_In in Hin as [Hin Hk]. apply String.eqb_eq in Hk.
    splits; try assumption. intros _. split; [exact Hk | exact F].
Qed.

(** Whatever the clock and the claims: a subject is never created without a
    published, usable key that verifies the signature, declares the token's
    algorithm, an allowed one; never from malformed claims or an untrusted
    issuer; and the subject id is read from the token's (verified) claims. *)
Theorem accepted_core f1 f2 cf ks now t sub :
  authenticate_gen f1 f2 cf ks now (CToken t) = Accepted sub ->
  In (t_alg t) supported_algs /\
  (exists k, In k ks /\ (t_kid t <> ""%string -> k_kid k = t_kid t /\ unique_kid ks k (t_kid t)) /\
             key_valid cf k = true /\ k_alg k = t_alg t /\ In (k_alg k) (allowed_algs cf) /\ sig_ok t k = true) /\
  c_malformed (t_claims t) = false /\
  In (c_iss (t_claims t)) (trusted_issuers cf) /\
  sub = lookup (cf_id_from cf) (c_fields (t_claims t)) /\ sub <> ""%string.
Proof.
  unfold authenticate_gen.
  destruct (mem (t_alg t) supported_algs) eqn:Hsup; simpl; [|discriminate].
  assert (t_alg t <> ""%string) as Hne.
  { intro E. pose proof (supported_nonempty _ Hsup) as X. rewrite E in X. discriminate. }
  destruct (verify_token f1 f2 cf ks now t) eqn:V; [discriminate|].
  apply verify_token_none_inv in V as (_ & _ & k & Hin & Hkid & Hv & Hk); [|exact Hne].
  apply verify_with_key_none_inv in Hk as (A & M & S & Mal & Iss); [|exact Hne].
  rewrite eff_algs in M. rewrite eff_issuers in Iss.
  unfold subject_id. destruct (String.eqb _ "") eqn:E; [discriminate|].
  intro H; injection H as <-. splits; try assumption; try reflexivity.
  - apply mem_In in Hsup. exact Hsup.
  - exists k. splits; assumption.
  - intro N. rewrite N in E. discriminate.
Qed.

(** unsigned tokens (`alg: none` in any spelling) and unknown algorithms never get past the parser *)
Theorem unsupported_alg_rejected f1 f2 cf ks now t :
  ~ In (t_alg t) supported_algs -> authenticate_gen f1 f2 cf ks now (CToken t) = Failed EParse.
Proof.
  intro H. unfold authenticate_gen.
  destruct (mem (t_alg t) supported_algs) eqn:E; [apply mem_In in E; contradiction | reflexivity].
Qed.

Lemma none_not_supported : forall a, In a ["none"; "None"; "NONE"; "nOnE"; ""]%string -> ~ In a supported_algs.
Proof.
  intros a H N. apply mem_In in N.
  simpl in H. repeat (destruct H as [<-|H]; [vm_compute in N; discriminate|]). destruct H.
Qed.

(** a token whose signature verifies under no published key yields no subject
    (every modification of header, payload or signature of a valid token is such a token) *)
Theorem no_verifying_key_rejected f1 f2 cf ks now t :
  (forall k, In k ks -> sig_ok t k = false) ->
  forall sub, authenticate_gen f1 f2 cf ks now (CToken t) <> Accepted sub.
Proof.
  intros H sub A. apply accepted_core in A as (_ & (k & Hin & _ & _ & _ & _ & S) & _).
  rewrite (H k Hin) in S. discriminate.
Qed.

(** algorithm confusion: a token whose `alg` no published key declares yields no subject *)
Theorem alg_mismatch_rejected f1 f2 cf ks now t :
  (forall k, In k ks -> k_alg k <> t_alg t) ->
  forall sub, authenticate_gen f1 f2 cf ks now (CToken t) <> Accepted sub.
Proof.
  intros H sub A. apply accepted_core in A as (_ & (k & Hin & _ & _ & E & _) & _).
  exact (H k Hin E).
Qed.

Definition symmetric_alg (a : string) : bool := mem a ["HS256"; "HS384"; "HS512"]%string.

(** in particular HS256/384/512 tokens (e.g. keyed with public key bytes) against a key
    set that declares only asymmetric algorithms *)
Theorem symmetric_alg_confusion_rejected f1 f2 cf ks now t :
  symmetric_alg (t_alg t) = true ->
  (forall k, In k ks -> symmetric_alg (k_alg k) = false) ->
  forall sub, authenticate_gen f1 f2 cf ks now (CToken t) <> Accepted sub.
Proof.
  intros Hs Hk. apply alg_mismatch_rejected. intros k Hin E. rewrite <- E, (Hk k Hin) in Hs. discriminate.
Qed.

(** and whatever the key set declares, an algorithm outside the allowed list yields no subject;
    by default neither HS* nor RS* nor EdDSA are allowed *)
Theorem disallowed_alg_rejected f1 f2 cf ks now t :
  ~ In (t_alg t) (allowed_algs cf) ->
  forall sub, authenticate_gen f1 f2 cf ks now (CToken t) <> Accepted sub.
Proof.
  intros H sub A. apply accepted_core in A as (_ & (k & _ & _ & _ & E & M & _) & _).
  rewrite E in M. contradiction.
Qed.

Lemma default_algs_exclude a :
  In a ["HS256"; "HS384"; "HS512"; "RS256"; "RS384"; "RS512"; "EdDSA"; "none"]%string -> ~ In a default_allowed_algs.
Proof.
  intros H N. apply mem_In in N. simpl in H.
  repeat (destruct H as [<-|H]; [vm_compute in N; discriminate|]). destruct H.
Qed.

(* ------------------------------------------------------------------ the findings *)

Open Scope string_scope.
Definition ex_cf : config :=
  {| cf_proto := {| e_issuers := ["https://idp.example"]; e_scopes := None; e_aud := []; e_algs := []; e_leeway := 0 |};
     cf_rule := None; cf_md_issuer := ""; cf_validate_jwk := true; cf_id_from := "sub"; cf_remote := RUp |}.
Definition ex_keys : list jwk := [ {| k_kid := "k1"; k_alg := "ES256"; k_mat := 3%N; k_cert := CertNone |} ].
Definition ex_claims (exp nbf iat : option Z) : claims :=
  {| c_iss := "https://idp.example"; c_aud := SAbsent; c_scp := SAbsent; c_scope := SAbsent;
     c_exp := exp; c_nbf := nbf; c_iat := iat; c_malformed := false;
     c_fields := [("iss", "https://idp.example"); ("sub", "alice")] |}.
Definition ex_token (exp nbf iat : option Z) : token :=
  {| t_alg := "ES256"; t_kid := "k1"; t_payload_obj := true; t_claims := ex_claims exp nbf iat; t_sig := [3%N] |}.
Definition ex_now : Z := secs 1790000000.

Close Scope string_scope.

Lemma ex_sane : sane_clock ex_cf ex_now.
Proof. unfold sane_clock. splits; vm_compute; congruence. Qed.

(** C05-F1 as it was: a correctly signed token that expired in 1969 was accepted; a3a89b7 rejects it *)
Theorem F1_pinned_refuted :
  exists cf ks now cr, sane_clock cf now /\ guard_F1 cr = true /\ guard_F2 cr = false /\
    accepted_sub (authenticate_pinned cf ks now cr) = Some "alice"%string /\ spec_accepts cf ks now cr = None /\
    authenticate cf ks now cr = Failed EAssertion.
Proof.
  exists ex_cf, ex_keys, ex_now, (CToken (ex_token (Some (-1)%Z) None None)).
  split; [exact ex_sane|]. vm_compute. splits; reflexivity.
Qed.

(** C05-F2 as it was: a correctly signed token that becomes valid in the year 316 889 355 085 was
    accepted; f16c3cc rejects it *)
Theorem F2_pinned_refuted :
  exists cf ks now cr, sane_clock cf now /\ guard_F1 cr = false /\ guard_F2 cr = true /\
    accepted_sub (authenticate_pinned cf ks now cr) = Some "alice"%string /\ spec_accepts cf ks now cr = None /\
    authenticate cf ks now cr = Failed EAssertion.
Proof.
  exists ex_cf, ex_keys, ex_now, (CToken (ex_token (Some 1790000600%Z) (Some 10000000000000000000%Z) None)).
  split; [exact ex_sane|]. vm_compute. splits; reflexivity.
Qed.

(** C05-F3 (open): a correctly signed token that expired on 1 January of the year 1 is accepted *)
Theorem F3_refuted :
  exists cf ks now cr, sane_clock cf now /\ guard_F3 cr = true /\
    accepted_sub (authenticate cf ks now cr) = Some "alice"%string /\ spec_accepts cf ks now cr = None.
Proof.
  exists ex_cf, ex_keys, ex_now, (CToken (ex_token (Some (-62135596800)%Z) None None)).
  split; [exact ex_sane|]. vm_compute. splits; reflexivity.
Qed.

(** C05-F5 (repaired by d55629a): metadata without issuer, no issuers configured, so "" is the only trusted
    issuer: a correctly signed token without `iss` is refused *)
Example F5_fixed :
  exists cf ks now cr, sane_clock cf now /\ guard_F5 cf cr = true /\
    authenticate cf ks now cr = Failed EAssertion /\ spec_accepts cf ks now cr = None.
Proof.
  exists {| cf_proto := {| e_issuers := []; e_scopes := None; e_aud := []; e_algs := []; e_leeway := 0 |};
            cf_rule := None; cf_md_issuer := ""; cf_validate_jwk := true; cf_id_from := "sub"; cf_remote := RUp |},
         ex_keys, ex_now,
         (CToken {| t_alg := "ES256"; t_kid := "k1"; t_payload_obj := true;
                    t_claims := {| c_iss := ""; c_aud := SAbsent; c_scp := SAbsent; c_scope := SAbsent;
                                   c_exp := Some 1790000600%Z; c_nbf := None; c_iat := None; c_malformed := false;
                                   c_fields := [("sub", "alice")]%string |};
                    t_sig := [3%N] |}).
  split; [unfold sane_clock; splits; vm_compute; congruence|]. vm_compute. splits; reflexivity.
Qed.

(** non-vacuity: the hypotheses of [accept_sound] / [accept_complete] are met by an accepted token at the
    edge of its validity (exp = now - leeway + 1, nbf = iat = now + leeway) ... *)
Example nonvacuous :
  let t := ex_token (Some 1789999991%Z) (Some 1790000010%Z) (Some 1790000010%Z) in
  sane_clock ex_cf ex_now /\ open_guards ex_cf (CToken t) = false /\
  authenticate ex_cf ex_keys ex_now (CToken t) = Accepted "alice" /\
  (* ... and one second further it is rejected *)
  authenticate ex_cf ex_keys ex_now (CToken (ex_token (Some 1789999990%Z) None None)) = Failed EAssertion /\
  authenticate ex_cf ex_keys ex_now (CToken (ex_token None (Some 1790000011%Z) None)) = Failed EAssertion /\
  authenticate ex_cf ex_keys ex_now (CToken (ex_token None None (Some 1790000011%Z))) = Failed EAssertion.
Proof. split; [exact ex_sane|]. vm_compute. splits; reflexivity. Qed.

(* ------------------------------------------------------------------ the scope matchers *)

Lemma exact_match_iff req scopes :
  match_scopes (MExact req) scopes = true <-> forall r, In r req -> In r scopes.
Proof.
  simpl. rewrite forallb_forall. split; intros H r Hr.
  - apply mem_In. apply H; exact Hr.
  - apply mem_In. apply H; exact Hr.
Qed.

(** the hierarchic inner loop answers true exactly when the granted scope's
    parts are a proper prefix of the required scope's parts *)
Lemma hier_parts_iff needles hay :
  hier_parts needles hay = true <-> exists rest, rest <> [] /\ needles = hay ++ rest.
Proof.
  revert hay. induction needles as [|n ns IH]; intros hay; simpl.
  - split; [discriminate|]. intros [rest [Hne E]]. destruct hay; simpl in E; [subst; contradiction | discriminate].
  - destruct hay as [|h hs].
    + split; [|reflexivity]. intros _. exists (n :: ns). split; [discriminate | reflexivity].
    + destruct (String.eqb h n) eqn:E.
      * apply String.eqb_eq in E. subst h. rewrite IH. split; intros [rest [Hne Hr]]; exists rest; split; try assumption.
        -- simpl. rewrite Hr. reflexivity.
        -- simpl in Hr. injection Hr as Hr. exact Hr.
      * split; [discriminate|]. intros [rest [_ Hr]]. simpl in Hr. injection Hr as Hn _.
        subst. rewrite String.eqb_refl in E. discriminate.
Qed.

(** a required scope is matched hierarchically iff it is granted literally or one
    of its dotted ancestors is (foo grants foo.bar, foo.bar grants foo.bar.baz) *)
Theorem hier_match_iff req scopes :
  match_scopes (MHier req) scopes = true <->
  forall r, In r req -> exists s, In s scopes /\
    (s = r \/ ((String.length s <= String.length r)%nat /\
               exists rest, rest <> [] /\ split_dot r = split_dot s ++ rest)).
Proof.
  simpl. rewrite forallb_forall. split; intros H r Hr.
  - specialize (H r Hr). apply existsb_exists in H as [s [Hs Hone]]. exists s. split; [exact Hs|].
    unfold hier_one in Hone. apply orb_true_iff in Hone as [E|E].
    + left. apply String.eqb_eq; exact E.
    + right. apply andb_true_iff in E as [L P]. split.
      * apply negb_true_iff, Nat.ltb_ge in L. exact L.
      * apply hier_parts_iff; exact P.
  - destruct (H r Hr) as [s [Hs [E|[L P]]]]; apply existsb_exists; exists s; split; try exact Hs; unfold hier_one.
    + subst. rewrite String.eqb_refl. reflexivity.
    + apply orb_true_iff. right. apply andb_true_iff. split.
      * apply negb_true_iff, Nat.ltb_ge. exact L.
      * apply hier_parts_iff; exact P.
Qed.

Lemma split_on_nonempty sep s : split_on sep s <> [].
Proof.
  destruct s as [|c r]; simpl; [discriminate|].
  destruct (Ascii.eqb c sep); [discriminate|]. destruct (split_on sep r); discriminate.
Qed.

(** one part of a granted wildcard scope against one part of the required scope *)
Definition part_ok (c n : string) : bool :=
  (String.eqb c "*" && negb (String.eqb n "")) || String.eqb c n.

Fixpoint parts_ok (mp np : list string) : bool :=
  match mp, np with
  | [], _ => true
  | c :: mp', n :: np' => part_ok c n && parts_ok mp' np'
  | _ :: _, [] => false
  end.

Lemma wild_parts_spec d mp np :
  wild_parts d mp np = parts_ok mp np && (negb d || is_nil mp || String.eqb (last mp EmptyString) "*").
Proof.
  revert np. induction mp as [|c mp' IH]; intros np; simpl.
  - destruct d; reflexivity.
  - destruct np as [|n np']; [reflexivity|].
    destruct mp' as [|c' mp''].
    + simpl. unfold part_ok.
      destruct d, (String.eqb c "*"), (String.eqb n ""), (String.eqb c n); reflexivity.
    + rewrite IH. simpl is_nil. unfold part_ok. rewrite !orb_false_r. simpl andb at 1.
      change (last (c :: c' :: mp'') EmptyString) with (last (c' :: mp'') EmptyString).
      destruct (String.eqb c "*"), (String.eqb n ""), (String.eqb c n); simpl; try reflexivity.
Qed.

(** a granted scope with wildcard parts covers a required scope iff it has no more
    parts, every part is equal or a `*` over a non-empty part, and — when it has
    fewer parts — its last part is `*` *)
Theorem wild_one_iff needle pattern :
  wild_one needle pattern = true <->
  let mp := split_dot pattern in
  let np := split_dot needle in
  (length mp <= length np)%nat /\ parts_ok mp np = true /\
  (length mp <> length np -> last mp EmptyString = "*"%string).
Proof.
  unfold wild_one. simpl.
  destruct (Nat.ltb (length (split_dot needle)) (length (split_dot pattern))) eqn:L.
  - apply Nat.ltb_lt in L. split; [discriminate|]. intros [H _]. lia.
  - apply Nat.ltb_ge in L. rewrite wild_parts_spec. split.
    + intro H. apply andb_true_iff in H as [P Q]. splits; try assumption.
      intro Hne. apply orb_true_iff in Q as [Q|Q].
      * apply orb_true_iff in Q as [Q|Q].
        -- apply negb_true_iff, negb_false_iff, Nat.eqb_eq in Q. contradiction.
        -- apply is_nil_true in Q. exfalso. exact (split_on_nonempty _ _ Q).
      * apply String.eqb_eq; exact Q.
    + intros (_ & P & Q). rewrite P. simpl.
      destruct (Nat.eqb (length (split_dot pattern)) (length (split_dot needle))) eqn:E; [reflexivity|].
      apply Nat.eqb_neq in E. rewrite (Q E). simpl. rewrite orb_true_r. reflexivity.
Qed.

(* ------------------------------------------------------------------ statements as exported by Properties/C05.v *)

Lemma unsigned_rejected : forall f1 f2 cf ks now t,
  In (t_alg t) ["none"; "None"; "NONE"; "nOnE"; ""]%string \/ ~ In (t_alg t) supported_algs ->
  authenticate_gen f1 f2 cf ks now (CToken t) = Failed EParse.
Proof.
  intros f1 f2 cf ks now t [H|H]; apply unsupported_alg_rejected; [apply none_not_supported; exact H | exact H].
Qed.

Lemma alg_confusion_rejected : forall f1 f2 cf ks now t,
  (symmetric_alg (t_alg t) = true /\ (forall k, In k ks -> symmetric_alg (k_alg k) = false)) \/
  (forall k, In k ks -> k_alg k <> t_alg t) \/
  ~ In (t_alg t) (allowed_algs cf) ->
  forall sub, authenticate_gen f1 f2 cf ks now (CToken t) <> Accepted sub.
Proof.
  intros f1 f2 cf ks now t [[H1 H2]|[H|H]].
  - apply symmetric_alg_confusion_rejected; assumption.
  - apply alg_mismatch_rejected; assumption.
  - apply disallowed_alg_rejected; assumption.
Qed.

Lemma default_algorithms : forall cf a,
  e_algs (rule_level cf) = [] -> e_algs (cf_proto cf) = [] ->
  In a ["HS256"; "HS384"; "HS512"; "RS256"; "RS384"; "RS512"; "EdDSA"; "none"]%string ->
  ~ In a (allowed_algs cf).
Proof.
  intros cf a H1 H2 H. unfold allowed_algs. rewrite H1, H2. simpl first_set. apply default_algs_exclude; exact H.
Qed.

Lemma merge_precedence : forall cf,
  e_issuers (effective cf) = trusted_issuers cf /\
  e_algs (effective cf) = allowed_algs cf /\
  e_aud (effective cf) = expected_audiences cf /\
  e_scopes (effective cf) = Some (required_scopes cf) /\
  leeway_ns (effective cf) = leeway cf /\
  forall a b c, merge (merge a b) c = merge a (merge b c).
Proof.
  intro cf. repeat split.
  - apply eff_issuers.
  - apply eff_algs.
  - apply eff_aud.
  - apply effective_scopes.
  - apply eff_leeway.
  - apply merge_assoc.
Qed.

Lemma demands_unfold : forall cf ks now t sub,
  demands cf ks now t sub <->
  exists k,
    In k ks /\
    (t_kid t <> ""%string -> k_kid k = t_kid t /\ unique_kid ks k (t_kid t)) /\
    (cf_validate_jwk cf = true -> k_cert k <> CertBad) /\
    sig_ok t k = true /\
    k_alg k = t_alg t /\ In (k_alg k) (allowed_algs cf) /\ In (t_alg t) supported_algs /\
    c_malformed (t_claims t) = false /\
    c_iss (t_claims t) <> ""%string /\ In (c_iss (t_claims t)) (trusted_issuers cf) /\
    (expected_audiences cf <> [] ->
       exists a, In a (expected_audiences cf) /\ In a (strs_of (c_aud (t_claims t)))) /\
    match_scopes (required_scopes cf) (eff_scopes (t_claims t)) = true /\
    ((forall n, c_nbf (t_claims t) = Some n -> n <= unix now + leeway_secs cf)%Z /\
     (forall e, c_exp (t_claims t) = Some e -> unix now - leeway_secs cf < e)%Z /\
     (forall i, c_iat (t_claims t) = Some i -> secs i <= now + leeway cf)%Z) /\
    sub = lookup (cf_id_from cf) (c_fields (t_claims t)) /\ sub <> ""%string.
Proof. intros. reflexivity. Qed.

Lemma algorithm_tables :
  supported_algs = parsable_algs /\ default_allowed_algs = allowed_by_default /\
  (forall a, In a ["none"; "None"; "NONE"; "nOnE"; ""]%string -> ~ In a parsable_algs) /\
  (forall a, In a ["HS256"; "HS384"; "HS512"; "RS256"; "RS384"; "RS512"; "EdDSA"; "none"]%string -> ~ In a allowed_by_default).
Proof.
  split; [reflexivity|]. split; [reflexivity|]. split.
  - exact none_not_supported.
  - exact default_algs_exclude.
Qed.
