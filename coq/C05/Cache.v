(** C05 — the jwt authenticator with its JWK cache, over histories of requests

    internal/rules/mechanisms/authenticators/jwt_authenticator.go
        getKey (cache look-up before the fetch, cache fill after uniqueness + certificate check),
        calculateCacheKey (endpoint hash + RENDERED key-set URL + rendered values of templated headers (since
        fix: 4a30678, C05-F6) + kid + ttlHash(cache_ttl) (since fix: 8647e06)), createRequest (the JWKS URL is a
        template over the token's UNVERIFIED `iss`: {{ .TokenIssuer }}), verifyTokenWithoutKID (never cached),
        isCacheEnabled / getCacheTTL (keys without certificates: cached iff the cache is enabled)

    One authenticator (prototype, possibly reconfigured per request on the rule level: the copies share the
    endpoint, and the cache entries as far as they agree on the configured cache_ttl) serves a history of requests against one cache.  Between the
    requests the key sets published at the rendered URLs may change.  Time does not advance far enough for an
    entry to expire (expiry is C10's subject).  Several authenticators sharing the endpoint configuration (and
    hence the cache entries) but differing in validate_jwk are histories whose requests carry different
    [cf_validate_jwk]; keys may carry certificates (valid or not; certificates about to expire, which
    getCacheTTL refuses to cache, are not in this model).

    The cache is a list of ((url part, kid, configured ttl), key), url part = rendered url + rendered values of
    templated headers; the endpoint hash is the same for all entries of one authenticator and is left out.
    The code as it is ([fixed_F4 = true], [fixed_F6 = true]) validates a cached key with the settings of the
    mechanism at hand and ignores an entry that does not pass; [fixed_F4 = false] is the behaviour with
    d20d7cd reverted, [fixed_F6 = false] the one with 4a30678 reverted (url part = rendered url only). *)
From HV Require Import Base.Prelude Base.Time C05.Model.

(** what is published where at the moment of a request: rendered url -> (endpoint state, key set);
    an unknown url answers 404 *)
Definition kenv := list (string * (remote * list jwk)).

Fixpoint env_find (env : kenv) (url : string) : option (remote * list jwk) :=
  match env with
  | [] => None
  | (u, x) :: r => if String.eqb u url then Some x else env_find r url
  end.

(** fetchJWKS + readJWKS *)
Definition fetch (env : kenv) (url : string) : err + list jwk :=
  match env_find env url with
  | None => inl EComm                       (* 404: unexpected response code *)
  | Some (RUp, ks) => inr ks
  | Some (RDown, _) | Some (RStatus, _) => inl EComm
  | Some (RGarbage, _) => inl EJwks
  end.

Definition ckey := (string * string * Z)%type.    (* rendered url, kid, ttlHash: -1 = cache_ttl not configured, else its value *)
Definition kcache := list (ckey * jwk).

Fixpoint cache_find (c : kcache) (url kid : string) (ttl : Z) : option jwk :=
  match c with
  | [] => None
  | ((u, k, t), v) :: r =>
    if String.eqb u url && String.eqb k kid && (t =? ttl)%Z then Some v else cache_find r url kid ttl
  end.

(** one request of the history *)
Record kstep := {
  s_cf : config;            (* mechanism + rule-level assertions in force for this request ([cf_remote] is not used) *)
  s_cache_on : bool;        (* isCacheEnabled() of the authenticator copy that serves it *)
  s_ttl : Z;                (* its configured cache_ttl as it enters the cache key: -1 = not configured, else ns *)
  s_templated : bool;       (* the key-set REQUEST depends on the token's issuer: {{ .TokenIssuer }} in the
                               jwks_endpoint url and/or in one of its header values *)
  s_tpl_url : bool;         (* ... and it is the url that contains the template (the cache key has the rendered url) *)
  s_env : kenv;
  s_now : Z;
  s_cred : cred }.

(** createRequest: the rendered key-set request (url + headers), identified by what it was rendered from;
    with a template it is chosen by the token's unverified issuer.  The JWKS service answers per request. *)
Definition url_of (templated : bool) (t : token) : string :=
  if templated then c_iss (t_claims t) else EmptyString.

(** the part of the cache key that stands for the request.  Before fix: 4a30678 (C05-F6) calculateCacheKey took
    the endpoint hash (over the UNRENDERED header templates) and the rendered URL only, so a template in a
    header value did not reach the key ([fixed_F6 = false], kept for the pinned theorems); the code as it is
    ([fixed_F6 = true]) adds the rendered values of templated headers. *)
Definition curl_of (fixed_F6 : bool) (s : kstep) (t : token) : string :=
  if fixed_F6 then url_of (s_templated s) t else url_of (s_tpl_url s) t.

(** getKey after a cache miss: fetch, uniqueness, certificate check, cache fill *)
Definition fetch_fill (s : kstep) (url curl kid : string) (c : kcache) : (err + jwk) * kcache :=
  match fetch (s_env s) url with
  | inl e => (inl e, c)
  | inr ks =>
    match get_key (s_cf s) ks kid with
    | None => (inl EKey, c)
    | Some k => (inr k, if s_cache_on s then ((curl, kid, s_ttl s), k) :: c else c)
    end
  end.

(** getKey.  Before fix: d20d7cd the cached key was returned without any re-validation (C05-F4: the cache key
    covers neither validate_jwk nor the trust store, so an authenticator that validates JWK certificates reused
    what a laxer one sharing the endpoint had cached): [fixed_F4 = false].  The code as it is
    ([fixed_F4 = true]) validates the cached key with the settings of the authenticator at hand and ignores
    an entry that does not pass. *)
Definition get_key_c (fixed_F4 : bool) (s : kstep) (url curl kid : string) (c : kcache) : (err + jwk) * kcache :=
  match (if s_cache_on s then cache_find c curl kid (s_ttl s) else None) with
  | Some k => if negb fixed_F4 || key_valid (s_cf s) k
              then (inr k, c)                                       (* "Reusing JWK from cache" *)
              else fetch_fill s url curl kid c
  | None => fetch_fill s url curl kid c
  end.

Definition finish (cf : config) (t : token) (r : option err) : result :=
  match r with
  | Some e => Failed e
  | None => let s := subject_id cf (t_claims t) in
            if String.eqb s "" then Failed ESubject else Accepted s
  end.

(** Execute with the cache in the request context *)
Definition step_c (f1 f2 f4 f6 : bool) (s : kstep) (c : kcache) : result * kcache :=
  match s_cred s with
  | CNone => (Failed ENoCreds, c)
  | CUnparsable => (Failed EParse, c)
  | CToken t =>
    if negb (mem (t_alg t) supported_algs) then (Failed EParse, c)
    else if negb (t_payload_obj t) then (Failed EPayload, c)
    else
      let cf := s_cf s in
      let e := effective cf in
      let url := url_of (s_templated s) t in
      if String.eqb (t_kid t) ""
      then match fetch (s_env s) url with
           | inl er => (Failed er, c)
           | inr ks => (finish cf t (if verify_without_kid f1 f2 cf e (s_now s) t ks then None else Some ENoneOfKeys), c)
           end
      else match get_key_c f4 s url (curl_of f6 s t) (t_kid t) c with
           | (inl er, c') => (Failed er, c')
           | (inr k, c') => (finish cf t (verify_with_key f1 f2 e (s_now s) t k), c')
           end
  end.

(** a history against an initially empty cache: the answers, and the final cache *)
Fixpoint run_c (f1 f2 f4 f6 : bool) (h : list kstep) (c : kcache) : list result * kcache :=
  match h with
  | [] => ([], c)
  | s :: r => let '(x, c') := step_c f1 f2 f4 f6 s c in
              let '(xs, c'') := run_c f1 f2 f4 f6 r c' in (x :: xs, c'')
  end.

Definition run_history (f1 f2 f4 f6 : bool) (h : list kstep) : list result := fst (run_c f1 f2 f4 f6 h []).
