(** C05 — the JWK cache never changes which key sets a token is judged against:
    every answer of a history equals the answer of the cache-less authenticator against the key set
    published AT THE TOKEN'S OWN RENDERED KEY-SET URL at the time of this or of an earlier request. *)
From HV Require Import Base.Prelude Base.Time C05.Model C05.Spec C05.Proofs C05.Cache.

Definition with_remote (cf : config) (rem : remote) : config :=
  {| cf_proto := cf_proto cf; cf_rule := cf_rule cf; cf_md_issuer := cf_md_issuer cf;
     cf_validate_jwk := cf_validate_jwk cf; cf_id_from := cf_id_from cf; cf_remote := rem |}.

(** what the request [s] is judged against when the world is [env]: the endpoint state and key set
    published at the URL rendered for THIS request's token *)
Definition published (s : kstep) (env : kenv) : remote * list jwk :=
  match s_cred s with
  | CToken t => match env_find env (url_of (s_templated s) t) with
                | Some x => x
                | None => (RStatus, [])
                end
  | _ => (RUp, [])
  end.

(** the cache-less authenticator of C05/Model.v on request [s] in world [env] *)
Definition stateless (f1 f2 : bool) (s : kstep) (env : kenv) : result :=
  let '(rem, ks) := published s env in
  authenticate_gen f1 f2 (with_remote (s_cf s) rem) ks (s_now s) (s_cred s).

(** the request cannot be served from the cache *)
Definition fresh (s : kstep) : bool :=
  negb (s_cache_on s) ||
  match s_cred s with CToken t => String.eqb (t_kid t) "" | _ => true end.

Lemma effective_with_remote cf rem : effective (with_remote cf rem) = effective cf.
Proof. reflexivity. Qed.

Lemma verify_without_kid_with_remote f1 f2 cf rem e now t ks :
  verify_without_kid f1 f2 (with_remote cf rem) e now t ks = verify_without_kid f1 f2 cf e now t ks.
Proof.
  induction ks as [|k r IH]; simpl; [reflexivity|].
  change (key_valid (with_remote cf rem) k) with (key_valid cf k). rewrite IH. reflexivity.
Qed.

(** every entry was fetched from its own url, for its own kid, in some past world, and passed getKey's checks *)
Definition cache_inv (v : bool) (past : list kenv) (c : kcache) : Prop :=
  forall url kid k, cache_find c url kid = Some k ->
    exists env ks, In env past /\ fetch env url = inr ks /\
      filter (fun k' => String.eqb (k_kid k') kid) ks = [k] /\
      (negb v || negb (cert_bad (k_cert k))) = true.

Lemma cache_inv_mono v past past' c :
  (forall e, In e past -> In e past') -> cache_inv v past c -> cache_inv v past' c.
Proof.
  intros Hsub H url kid k Hf. destruct (H url kid k Hf) as (env & ks & Hin & R). exists env, ks. split; [auto|exact R].
Qed.

Lemma fetch_published s t env ks :
  s_cred s = CToken t -> fetch env (url_of (s_templated s) t) = inr ks -> published s env = (RUp, ks).
Proof.
  unfold fetch, published. intros -> H.
  destruct (env_find env _) as [[[] ks']|]; try discriminate. injection H as ->. reflexivity.
Qed.

Lemma fetch_published_err s t env e :
  s_cred s = CToken t -> fetch env (url_of (s_templated s) t) = inl e ->
  exists rem ks, published s env = (rem, ks) /\
    match rem with RUp => False | RDown | RStatus => e = EComm | RGarbage => e = EJwks end.
Proof.
  unfold fetch, published. intros -> H.
  destruct (env_find env _) as [[rem ks']|].
  - destruct rem; try discriminate; injection H as <-; eexists _, ks'; split; reflexivity.
  - injection H as <-. exists RStatus, []. split; reflexivity.
Qed.

Lemma get_key_some cf ks kid k :
  get_key cf ks kid = Some k <->
  filter (fun k' => String.eqb (k_kid k') kid) ks = [k] /\ key_valid cf k = true.
Proof.
  unfold get_key. destruct (filter _ ks) as [|k0 [|k1 r]]; split; try (intros [H _]; discriminate); try discriminate.
  - destruct (key_valid cf k0) eqn:V; [|discriminate]. intro E; injection E as ->. split; [reflexivity|exact V].
  - intros [E V]. injection E as ->. rewrite V. reflexivity.
Qed.

(** one request: the invariant is kept and the answer is a cache-less answer against a world of the past
    (the present one when the request cannot be served from the cache) *)
Lemma step_c_stateless f1 f2 v s c past :
  cf_validate_jwk (s_cf s) = v ->
  cache_inv v past c ->
  let '(r, c') := step_c f1 f2 s c in
  cache_inv v (s_env s :: past) c' /\
  (exists env, In env (s_env s :: past) /\ (fresh s = true -> env = s_env s) /\ r = stateless f1 f2 s env).
Proof.
  intros Hv Hinv.
  assert (cache_inv v (s_env s :: past) c) as Hinv' by (eapply cache_inv_mono; [|exact Hinv]; intros; right; assumption).
  unfold step_c, stateless, fresh.
  destruct (s_cred s) as [| |t] eqn:Hc.
  - split; [exact Hinv'|]. exists (s_env s). split; [left; reflexivity|]. split; [reflexivity|].
    unfold published. rewrite Hc. reflexivity.
  - split; [exact Hinv'|]. exists (s_env s). split; [left; reflexivity|]. split; [reflexivity|].
    unfold published. rewrite Hc. reflexivity.
  - destruct (mem (t_alg t) supported_algs) eqn:Hsup; cbn [negb].
    2:{ split; [exact Hinv'|]. exists (s_env s). split; [left; reflexivity|]. split; [reflexivity|].
        destruct (published s (s_env s)) as [rem ks]. unfold authenticate_gen. rewrite Hsup. reflexivity. }
    destruct (t_payload_obj t) eqn:Hobj; cbn [negb].
    2:{ split; [exact Hinv'|]. exists (s_env s). split; [left; reflexivity|]. split; [reflexivity|].
        destruct (published s (s_env s)) as [rem ks]. unfold authenticate_gen, verify_token. rewrite Hsup, Hobj. reflexivity. }
    destruct (String.eqb (t_kid t) "") eqn:Hkid.
    + (* no kid: always fetched *)
      destruct (fetch (s_env s) (url_of (s_templated s) t)) as [er|ks] eqn:Hf.
      * split; [exact Hinv'|]. exists (s_env s). split; [left; reflexivity|]. split; [reflexivity|].
        destruct (fetch_published_err s t _ _ Hc Hf) as (rem & ks & -> & Hrem).
        unfold authenticate_gen, verify_token. rewrite Hsup, Hobj. simpl.
        destruct rem; try contradiction; subst; reflexivity.
      * split; [exact Hinv'|]. exists (s_env s). split; [left; reflexivity|]. split; [reflexivity|].
        rewrite (fetch_published s t _ _ Hc Hf).
        unfold authenticate_gen, verify_token, finish, subject_id. rewrite Hsup, Hobj, Hkid. simpl.
        rewrite verify_without_kid_with_remote, effective_with_remote.
        destruct (verify_without_kid _ _ _ _ _ _ _); reflexivity.
    + unfold get_key_c.
      destruct (s_cache_on s) eqn:Hon; cbv beta iota.
      * destruct (cache_find c (url_of (s_templated s) t) (t_kid t)) as [k|] eqn:Hfind.
        -- (* served from the cache *)
           split; [exact Hinv'|].
           destruct (Hinv _ _ _ Hfind) as (env & ks & Hin & Hfetch & Hfil & Hval).
           exists env. split; [right; exact Hin|]. split; [discriminate|].
           rewrite (fetch_published s t _ _ Hc Hfetch).
           unfold authenticate_gen, verify_token, finish, subject_id. rewrite Hsup, Hobj, Hkid. simpl.
           assert (get_key (with_remote (s_cf s) RUp) ks (t_kid t) = Some k) as ->.
           { apply get_key_some. split; [exact Hfil|]. unfold key_valid. simpl. rewrite Hv. exact Hval. }
           destruct (verify_with_key _ _ _ _ _ _); reflexivity.
        -- destruct (fetch (s_env s) (url_of (s_templated s) t)) as [er|ks] eqn:Hf.
           ++ split; [exact Hinv'|]. exists (s_env s). split; [left; reflexivity|]. split; [reflexivity|].
              destruct (fetch_published_err s t _ _ Hc Hf) as (rem & ks & -> & Hrem).
              unfold authenticate_gen, verify_token. rewrite Hsup, Hobj. simpl.
              destruct rem; try contradiction; subst; reflexivity.
           ++ destruct (get_key (s_cf s) ks (t_kid t)) as [k|] eqn:Hg.
              ** split.
                 { intros url kid k' Hf'. simpl in Hf'.
                   destruct (String.eqb (url_of (s_templated s) t) url && String.eqb (t_kid t) kid) eqn:E.
                   - injection Hf' as <-. apply andb_true_iff in E as [E1 E2].
                     apply String.eqb_eq in E1, E2. subst url kid.
                     apply get_key_some in Hg as [Hfil Hval]. exists (s_env s), ks.
                     split; [left; reflexivity|]. split; [exact Hf|]. split; [exact Hfil|].
                     unfold key_valid in Hval. rewrite Hv in Hval. exact Hval.
                   - apply Hinv'. exact Hf'. }
                 exists (s_env s). split; [left; reflexivity|]. split; [reflexivity|].
                 rewrite (fetch_published s t _ _ Hc Hf).
                 unfold authenticate_gen, verify_token, finish, subject_id. rewrite Hsup, Hobj, Hkid. simpl.
                 assert (get_key (with_remote (s_cf s) RUp) ks (t_kid t) = Some k) as -> by exact Hg.
                 destruct (verify_with_key _ _ _ _ _ _); reflexivity.
              ** split; [exact Hinv'|]. exists (s_env s). split; [left; reflexivity|]. split; [reflexivity|].
                 rewrite (fetch_published s t _ _ Hc Hf).
                 unfold authenticate_gen, verify_token. rewrite Hsup, Hobj, Hkid. simpl.
                 assert (get_key (with_remote (s_cf s) RUp) ks (t_kid t) = None) as -> by exact Hg. reflexivity.
      * (* cache disabled for this request *)
        destruct (fetch (s_env s) (url_of (s_templated s) t)) as [er|ks] eqn:Hf.
        -- split; [exact Hinv'|]. exists (s_env s). split; [left; reflexivity|]. split; [reflexivity|].
           destruct (fetch_published_err s t _ _ Hc Hf) as (rem & ks & -> & Hrem).
           unfold authenticate_gen, verify_token. rewrite Hsup, Hobj. simpl.
           destruct rem; try contradiction; subst; reflexivity.
        -- destruct (get_key (s_cf s) ks (t_kid t)) as [k|] eqn:Hg; cbv beta iota.
           ++ split; [exact Hinv'|]. exists (s_env s). split; [left; reflexivity|]. split; [reflexivity|].
              rewrite (fetch_published s t _ _ Hc Hf).
              unfold authenticate_gen, verify_token, finish, subject_id. rewrite Hsup, Hobj, Hkid. simpl.
              assert (get_key (with_remote (s_cf s) RUp) ks (t_kid t) = Some k) as -> by exact Hg.
              destruct (verify_with_key _ _ _ _ _ _); reflexivity.
           ++ split; [exact Hinv'|]. exists (s_env s). split; [left; reflexivity|]. split; [reflexivity|].
              rewrite (fetch_published s t _ _ Hc Hf).
              unfold authenticate_gen, verify_token. rewrite Hsup, Hobj, Hkid. simpl.
              assert (get_key (with_remote (s_cf s) RUp) ks (t_kid t) = None) as -> by exact Hg. reflexivity.
Qed.

(* ------------------------------------------------------------------ histories *)

Lemma run_c_stateless f1 f2 v : forall h c past,
  (forall s, In s h -> cf_validate_jwk (s_cf s) = v) ->
  cache_inv v past c ->
  forall pre s post, h = pre ++ s :: post ->
  forall r, nth_error (fst (run_c f1 f2 h c)) (length pre) = Some r ->
  exists env, (In env (s_env s :: map s_env pre) \/ In env past) /\ (fresh s = true -> env = s_env s) /\
              r = stateless f1 f2 s env.
Proof.
  induction h as [|s0 h IH]; intros c past Hv Hinv pre s post E r Hr.
  - destruct pre; discriminate.
  - simpl in Hr.
    pose proof (step_c_stateless f1 f2 v s0 c past (Hv s0 (or_introl eq_refl)) Hinv) as St.
    destruct (step_c f1 f2 s0 c) as [x c'] eqn:Es. destruct St as [Hinv' (env & Hin & Hfr & Hx)].
    destruct (run_c f1 f2 h c') as [xs c''] eqn:Er. simpl in Hr.
    destruct pre as [|p pre]; simpl in *.
    + injection E as -> ->. injection Hr as <-. exists env. split; [|split; assumption].
      destruct Hin as [<-|Hin]; [left; left; reflexivity | right; exact Hin].
    + injection E as -> ->.
      assert (nth_error (fst (run_c f1 f2 (pre ++ s :: post) c')) (length pre) = Some r) as Hr' by (rewrite Er; exact Hr).
      destruct (IH c' (s_env p :: past) (fun s' H => Hv s' (or_intror H)) Hinv' pre s post eq_refl r Hr')
        as (env' & Hin' & Hfr' & Hr'').
      exists env'. split; [|split; assumption].
      destruct Hin' as [[<-|Hin']|[<-|Hin']].
      * left; left; reflexivity.
      * left; right; right; exact Hin'.
      * left; right; left; reflexivity.
      * right; exact Hin'.
Qed.

(** the worlds request number [length pre] of a history may be judged against *)
Definition worlds (pre : list kstep) (s : kstep) : list kenv := s_env s :: map s_env pre.

(** MAIN: every answer of a history is the cache-less authenticator's answer against the key set that is
    or was published at the rendered key-set URL of the request's OWN token (so a key cached for one
    url/kid is never used for another), the present one if the request cannot be served from the cache *)
Theorem history_stateless f1 f2 v h pre s post r :
  (forall s', In s' h -> cf_validate_jwk (s_cf s') = v) ->
  h = pre ++ s :: post ->
  nth_error (run_history f1 f2 h) (length pre) = Some r ->
  exists env, In env (worlds pre s) /\ (fresh s = true -> env = s_env s) /\ r = stateless f1 f2 s env.
Proof.
  intros Hv E Hr. unfold run_history in Hr.
  assert (cache_inv v [] []) as Hinv by (intros url kid k H; discriminate).
  destruct (run_c_stateless f1 f2 v h [] [] Hv Hinv pre s post E r Hr) as (env & [Hin|[]] & Hfr & Hx).
  exists env. split; [exact Hin|]. split; assumption.
Qed.

(** with key sets that do not change the cache is invisible *)
Theorem cache_transparent f1 f2 v h pre s post r env0 :
  (forall s', In s' h -> cf_validate_jwk (s_cf s') = v) ->
  (forall s', In s' h -> s_env s' = env0) ->
  h = pre ++ s :: post ->
  nth_error (run_history f1 f2 h) (length pre) = Some r ->
  r = stateless f1 f2 s env0.
Proof.
  intros Hv He E Hr. destruct (history_stateless f1 f2 v h pre s post r Hv E Hr) as (env & Hin & _ & ->).
  f_equal. destruct Hin as [<-|Hin].
  - apply He. subst h. apply in_or_app. right. left. reflexivity.
  - apply in_map_iff in Hin as (s' & <- & Hs'). apply He. subst h. apply in_or_app. left. exact Hs'.
Qed.

(* ------------------------------------------------------------------ against the specification *)

(** the stateless specification of C05/Spec.v for request [s] in world [env] *)
Definition spec_in (s : kstep) (env : kenv) : option string :=
  let '(rem, ks) := published s env in
  spec_accepts (with_remote (s_cf s) rem) ks (s_now s) (s_cred s).

Lemma stateless_spec s env :
  sane_clock (s_cf s) (s_now s) -> guard_F3 (s_cred s) = false ->
  accepted_sub (stateless true true s env) = spec_in s env.
Proof.
  intros Hs G. unfold stateless, spec_in. destruct (published s env) as [rem ks].
  apply (authenticate_spec (with_remote (s_cf s) rem) ks (s_now s) (s_cred s)); assumption.
Qed.

(** soundness and completeness of a history: a subject is created only if the specification accepts the
    token against what is or was published at its own key-set URL (now, if it cannot come from the cache),
    and it is created if the specification accepts it against all of those *)
Theorem history_spec v h pre s post r :
  (forall s', In s' h -> cf_validate_jwk (s_cf s') = v) ->
  h = pre ++ s :: post ->
  nth_error (run_history true true h) (length pre) = Some r ->
  sane_clock (s_cf s) (s_now s) -> guard_F3 (s_cred s) = false ->
  (forall sub, r = Accepted sub ->
     exists env, In env (worlds pre s) /\ (fresh s = true -> env = s_env s) /\ spec_in s env = Some sub) /\
  (forall sub, (forall env, In env (worlds pre s) -> spec_in s env = Some sub) -> r = Accepted sub).
Proof.
  intros Hv E Hr Hs G.
  destruct (history_stateless true true v h pre s post r Hv E Hr) as (env & Hin & Hfr & ->). split.
  - intros sub Hacc. exists env. split; [exact Hin|]. split; [exact Hfr|].
    rewrite <- stateless_spec by assumption. rewrite Hacc. reflexivity.
  - intros sub Hall. specialize (Hall env Hin). rewrite <- stateless_spec in Hall by assumption.
    destruct (stateless true true s env); simpl in Hall; congruence.
Qed.

(* ------------------------------------------------------------------ examples *)

Open Scope string_scope.
Definition exc_cf : config :=
  {| cf_proto := {| e_issuers := ["tenant-a"; "tenant-b"]; e_scopes := None; e_aud := []; e_algs := []; e_leeway := 0 |};
     cf_rule := None; cf_md_issuer := ""; cf_validate_jwk := true; cf_id_from := "sub"; cf_remote := RUp |}.
Definition exc_key (mat : N) : jwk := {| k_kid := "k1"; k_alg := "ES256"; k_mat := mat; k_cert := CertNone |}.
Definition exc_env (a b : N) : kenv := [("tenant-a", (RUp, [exc_key a])); ("tenant-b", (RUp, [exc_key b]))].
Definition exc_tok (iss kid : string) (mat : N) : cred :=
  CToken {| t_alg := "ES256"; t_kid := kid; t_payload_obj := true;
            t_claims := {| c_iss := iss; c_aud := SAbsent; c_scp := SAbsent; c_scope := SAbsent;
                           c_exp := Some 1790000600%Z; c_nbf := None; c_iat := None; c_malformed := false;
                           c_fields := [("iss", iss); ("sub", "alice")] |};
            t_sig := [mat] |}.
Definition exc_step (on : bool) (env : kenv) (cr : cred) : kstep :=
  {| s_cf := exc_cf; s_cache_on := on; s_templated := true; s_env := env; s_now := secs 1790000000; s_cred := cr |}.
Close Scope string_scope.

(** two tenants publish different keys under the same kid behind one templated endpoint: after tenant-a's key
    has been cached, a token naming tenant-b but signed with tenant-a's key is still rejected, and tenant-b's
    own tokens are still accepted (the seeded change C05-1 got both wrong) *)
Example cache_cross_tenant :
  run_history true true
    [exc_step true (exc_env 3 4) (exc_tok "tenant-a" "k1" 3);
     exc_step true (exc_env 3 4) (exc_tok "tenant-b" "k1" 3);
     exc_step true (exc_env 3 4) (exc_tok "tenant-b" "k1" 4)]
  = [Accepted "alice"; Failed ESignature; Accepted "alice"].
Proof. vm_compute. reflexivity. Qed.

(** what the cache does change: after a rotation the cached key stays in use for its own url and kid (the old
    key's tokens pass, the new key's do not yet) unless the token has no kid or the cache is off *)
Example cache_rotation :
  run_history true true
    [exc_step true (exc_env 3 4) (exc_tok "tenant-a" "k1" 3);
     exc_step true (exc_env 4 4) (exc_tok "tenant-a" "k1" 3);
     exc_step true (exc_env 4 4) (exc_tok "tenant-a" "k1" 4);
     exc_step true (exc_env 4 4) (exc_tok "tenant-a" "" 4);
     exc_step false (exc_env 4 4) (exc_tok "tenant-a" "k1" 4)]
  = [Accepted "alice"; Accepted "alice"; Failed ESignature; Accepted "alice"; Accepted "alice"].
Proof. vm_compute. reflexivity. Qed.
