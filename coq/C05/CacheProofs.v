(** C05 — the JWK cache never changes which key sets a token is judged against:
    every answer of a history equals the answer of the cache-less authenticator against the key set
    published AT THE TOKEN'S OWN RENDERED KEY-SET URL at the time of this or of an earlier request. *)
From HV Require Import Base.Prelude Base.Time C05.Model C05.Spec C05.Proofs C05.Cache.

Definition with_remote (cf : config) (rem : remote) : config :=
  {| cf_proto := cf_proto cf; cf_rule := cf_rule cf; cf_md_issuer := cf_md_issuer cf;
     cf_validate_jwk := cf_validate_jwk cf; cf_id_from := cf_id_from cf; cf_remote := rem |}.

(** what the request [s] is judged against when the world is [env]: the endpoint state and key set
    published at the URL rendered for THIS request's token *)
Definition published (s : kstep) (env : kenv) : remote * list jwk :=
  match s_cred s with
  | CToken t => match env_find env (url_of (s_templated s) t) with
                | Some x => x
                | None => (RStatus, [])
                end
  | _ => (RUp, [])
  end.

(** the cache-less authenticator of C05/Model.v on request [s] in world [env] *)
Definition stateless (f1 f2 : bool) (s : kstep) (env : kenv) : result :=
  let '(rem, ks) := published s env in
  authenticate_gen f1 f2 (with_remote (s_cf s) rem) ks (s_now s) (s_cred s).

(** the request cannot be served from the cache *)
Definition fresh (s : kstep) : bool :=
  negb (s_cache_on s) ||
  match s_cred s with CToken t => String.eqb (t_kid t) "" | _ => true end.

Lemma effective_with_remote cf rem : effective (with_remote cf rem) = effective cf.
Proof. reflexivity. Qed.

Lemma verify_without_kid_with_remote f1 f2 cf rem e now t ks :
  verify_without_kid f1 f2 (with_remote cf rem) e now t ks = verify_without_kid f1 f2 cf e now t ks.
Proof.
  induction ks as [|k r IH]; simpl; [reflexivity|].
  change (key_valid (with_remote cf rem) k) with (key_valid cf k). rewrite IH. reflexivity.
Qed.

(** every entry was fetched from its own url, for its own kid, in some past world, and passed getKey's checks *)
Definition cache_inv (v : bool) (past : list kenv) (c : kcache) : Prop :=
  forall url kid k, cache_find c url kid = Some k ->
    exists env ks, In env past /\ fetch env url = inr ks /\
      filter (fun k' => String.eqb (k_kid k') kid) ks = [k] /\
      (negb v || negb (cert_bad (k_cert k))) = true.

Lemma cache_inv_mono v past past' c :
  (forall e, In e past -> In e past') -> cache_inv v past c -> cache_inv v past' c.
Proof.
  intros Hsub H url kid k Hf. destruct (H url kid k Hf) as (env & ks & Hin & R). exists env, ks. split; [auto|exact R].
Qed.

Lemma fetch_published s t env ks :
  s_cred s = CToken t -> fetch env (url_of (s_templated s) t) = inr ks -> published s env = (RUp, ks).
Proof.
  unfold fetch, published. intros -> H.
  destruct (env_find env _) as [[[] ks']|]; try discriminate. injection H as ->. reflexivity.
Qed.

Lemma fetch_published_err s t env e :
  s_cred s = CToken t -> fetch env (url_of (s_templated s) t) = inl e ->
  exists rem ks, published s env = (rem, ks) /\
    match rem with RUp => False | RDown | RStatus => e = EComm | RGarbage => e = EJwks end.
Proof.
  unfold fetch, published. intros -> H.
  destruct (env_find env _) as [[rem ks']|].
  - destruct rem; try discriminate; injection H as <-; eexists _, ks'; split; reflexivity.
  - injection H as <-. exists RStatus, []. split; reflexivity.
Qed.

Lemma get_key_some cf ks kid k :
  get_key cf ks kid = Some k <->
  filter (fun k' => String.eqb (k_kid k') kid) ks = [k] /\ key_valid cf k = true.
Proof.
  unfold get_key. destruct (filter _ ks) as [|k0 [|k1 r]]; split; try (intros [H _]; discriminate); try discriminate.
  - destruct (key_valid cf k0) eqn:V; [|discriminate]. intro E; injection E as ->. split; [reflexivity|exact V].
  - intros [E V]. injection E as ->. rewrite V. reflexivity.
Qed.

(** one request: the invariant is kept and the answer is a cache-less answer against a world of the past
    (the present one when the request cannot be served from the cache) *)
Lemma step_c_stateless f1 f2 v s c past :
  cf_validate_jwk (s_cf s) = v ->
  cache_inv v past c ->
  let '(r, c') := step_c f1 f2 s c in
  cache_inv v (s_env s :: past) c' /\
  (exists env, In env (s_env s :: past) /\ (fresh s = true -> env = s_env s) /\ r = stateless f1 f2 s env).
Proof.
  intros Hv Hinv.
  assert (cache_inv v (s_env s :: past) c) as Hinv' by (eapply cache_inv_mono; [|exact Hinv]; intros; right; assumption).
  unfold step_c, stateless, fresh.
  destruct (s_cred s) as [| |t] eqn:Hc.
  - split; [exact Hinv'|]. exists (s_env s). split; [left; reflexivity|]. split; [reflexivity|].
    unfold published. rewrite Hc. reflexivity.
  - split; [exact Hinv'|]. exists (s_env s). split; [left; reflexivity|]. split; [reflexivity|].
    unfold published. rewrite Hc. reflexivity.
  - destruct (mem (t_alg t) supported_algs) eqn:Hsup; cbn [negb].
    2:{ split; [exact Hinv'|]. exists (s_env s). split; [left; reflexivity|]. split; [reflexivity|].
        destruct (published s (s_env s)) as [rem ks]. unfold authenticate_gen. rewrite Hsup. reflexivity. }
    destruct (t_payload_obj t) eqn:Hobj; cbn [negb].
    2:{ split; [exact Hinv'|]. exists (s_env s). split; [left; reflexivity|]. split; [reflexivity|].
        destruct (published s (s_env s)) as [rem ks]. unfold authenticate_gen, verify_token. rewrite Hsup, Hobj. reflexivity. }
    destruct (String.eqb (t_kid t) "") eqn:Hkid.
    + (* no kid: always fetched *)
      destruct (fetch (s_env s) (url_of (s_templated s) t)) as [er|ks] eqn:Hf.
      * split; [exact Hinv'|]. exists (s_env s). split; [left; reflexivity|]. split; [reflexivity|].
        destruct (fetch_published_err s t _ _ Hc Hf) as (rem & ks & -> & Hrem).
        unfold authenticate_gen, verify_token. rewrite Hsup, Hobj. simpl.
        destruct rem; try contradiction; subst; reflexivity.
      * split; [exact Hinv'|]. exists (s_env s). split; [left; reflexivity|]. split; [reflexivity|].
        rewrite (fetch_published s t _ _ Hc Hf).
        unfold authenticate_gen, verify_token, finish, subject_id. rewrite Hsup, Hobj, Hkid. simpl.
        rewrite verify_without_kid_with_remote, effective_with_remote.
        destruct (verify_without_kid _ _ _ _ _ _ _); reflexivity.
    + unfold get_key_c.
      destruct (s_cache_on s) eqn:Hon; cbv beta iota.
      * destruct (cache_find c (url_of (s_templated s) t) (t_kid t)) as [k|] eqn:Hfind.
        -- (* served from the cache *)
           split; [exact Hinv'|].
           destruct (Hinv _ _ _ Hfind) as (env & ks & Hin & Hfetch & Hfil & Hval).
           exists env. split; [right; exact Hin|]. split; [discriminate|].
           rewrite (fetch_published s t _ _ Hc Hfetch).
           unfold authenticate_gen, verify_token, finish, subject_id. rewrite Hsup, Hobj, Hkid. simpl.
           assert (get_key (with_remote (s_cf s) RUp) ks (t_kid t) = Some k) as ->.
           { apply get_key_some. split; [exact Hfil|]. unfold key_valid. simpl. rewrite Hv. exact Hval. }
           destruct (verify_with_key _ _ _ _ _ _); reflexivity.
        -- destruct (fetch (s_env s) (url_of (s_templated s) t)) as [er|ks] eqn:Hf.
           ++ split; [exact Hinv'|]. exists (s_env s). split; [left; reflexivity|]. split; [reflexivity|].
              destruct (fetch_published_err s t _ _ Hc Hf) as (rem & ks & -> & Hrem).
              unfold authenticate_gen, verify_token. rewrite Hsup, Hobj. simpl.
              destruct rem; try contradiction; subst; reflexivity.
           ++ destruct (get_key (s_cf s) ks (t_kid t)) as [k|] eqn:Hg.
              ** split.
                 { intros url kid k' Hf'. simpl in Hf'.
                   destruct (String.eqb (url_of (s_templated s) t) url && String.eqb (t_kid t) kid) eqn:E.
                   - injection Hf' as <-. apply andb_true_iff in E as [E1 E2].
                     apply String.eqb_eq in E1, E2. subst url kid.
                     apply get_key_some in Hg as [Hfil Hval]. exists (s_env s), ks.
                     split; [left; reflexivity|]. split; [exact Hf|]. split; [exact Hfil|].
                     unfold key_valid in Hval. rewrite Hv in Hval. exact Hval.
                   - apply Hinv'. exact Hf'. }
                 exists (s_env s). split; [left; reflexivity|]. split; [reflexivity|].
                 rewrite (fetch_published s t _ _ Hc Hf).
                 unfold authenticate_gen, verify_token, finish, subject_id. rewrite Hsup, Hobj, Hkid. simpl.
                 assert (get_key (with_remote (s_cf s) RUp) ks (t_kid t) = Some k) as -> by exact Hg.
                 destruct (verify_with_key _ _ _ _ _ _); reflexivity.
              ** split; [exact Hinv'|]. exists (s_env s). split; [left; reflexivity|]. split; [reflexivity|].
                 rewrite (fetch_published s t _ _ Hc Hf).
                 unfold authenticate_gen, verify_token. rewrite Hsup, Hobj, Hkid. simpl.
                 assert (get_key (with_remote (s_cf s) RUp) ks (t_kid t) = None) as -> by exact Hg. reflexivity.
      * (* cache disabled for this request *)
        destruct (fetch (s_env s) (url_of (s_templated s) t)) as [er|ks] eqn:Hf.
        -- split; [exact Hinv'|]. exists (s_env s). split; [left; reflexivity|]. split; [reflexivity|].
           destruct (fetch_published_err s t _ _ Hc Hf) as (rem & ks & -> & Hrem).
           unfold authenticate_gen, verify_token. rewrite Hsup, Hobj. simpl.
           destruct rem; try contradiction; subst; reflexivity.
        -- destruct (get_key (s_cf s) ks (t_kid t)) as [k|] eqn:Hg; cbv beta iota.
           ++ split; [exact Hinv'|]. exists (s_env s). split; [left; reflexivity|]. split; [reflexivity|].
              rewrite (fetch_published s t _ _ Hc Hf).
              unfold authenticate_gen, verify_token, finish, subject_id. rewrite Hsup, Hobj, Hkid. simpl.
              assert (get_key (with_remote (s_cf s) RUp) ks (t_kid t) = Some k) as -> by exact Hg.
              destruct (verify_with_key _ _ _ _ _ _); reflexivity.
           ++ split; [exact Hinv'|]. exists (s_env s). split; [left; reflexivity|]. split; [reflexivity|].
              rewrite (fetch_published s t _ _ Hc Hf).
              unfold authenticate_gen, verify_token. rewrite Hsup, Hobj, Hkid. simpl.
              assert (get_key (with_remote (s_cf s) RUp) ks (t_kid t) = None) as -> by exact Hg. reflexivity.
Qed.
