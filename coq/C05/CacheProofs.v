(** C05 — the JWK cache never changes which key sets a token is judged against:
    every answer of a history equals the answer of the cache-less authenticator against the key set
    published AT THE TOKEN'S OWN RENDERED KEY-SET URL at the time of this or of an earlier request. *)
From HV Require Import Base.Prelude Base.Time C05.Model C05.Spec C05.Proofs C05.Cache.

Definition with_remote (cf : config) (rem : remote) : config :=
  {| cf_proto := cf_proto cf; cf_rule := cf_rule cf; cf_md_issuer := cf_md_issuer cf;
     cf_validate_jwk := cf_validate_jwk cf; cf_id_from := cf_id_from cf; cf_remote := rem |}.

(** what the request [s] is judged against when the world is [env]: the endpoint state and key set
    published at the URL rendered for THIS request's token *)
Definition published (s : kstep) (env : kenv) : remote * list jwk :=
  match s_cred s with
  | CToken t => match env_find env (url_of (s_templated s) t) with
                | Some x => x
                | None => (RStatus, [])
                end
  | _ => (RUp, [])
  end.

(** the cache-less authenticator of C05/Model.v on request [s] in world [env] *)
Definition stateless (f1 f2 : bool) (s : kstep) (env : kenv) : result :=
  let '(rem, ks) := published s env in
  authenticate_gen f1 f2 (with_remote (s_cf s) rem) ks (s_now s) (s_cred s).

(** the request cannot be served from the cache *)
Definition fresh (s : kstep) : bool :=
  negb (s_cache_on s) ||
  match s_cred s with CToken t => String.eqb (t_kid t) "" | _ => true end.

Lemma effective_with_remote cf rem : effective (with_remote cf rem) = effective cf.
Proof. reflexivity. Qed.

Lemma verify_without_kid_with_remote f1 f2 cf rem e now t ks :
  verify_without_kid f1 f2 (with_remote cf rem) e now t ks = verify_without_kid f1 f2 cf e now t ks.
Proof.
  induction ks as [|k r IH]; simpl; [reflexivity|].
  change (key_valid (with_remote cf rem) k) with (key_valid cf k). rewrite IH. reflexivity.
Qed.

(** what getKey yields without a cache in world [env] *)
Definition key_result (cf : config) (env : kenv) (url kid : string) : err + jwk :=
  match fetch env url with
  | inl e => inl e
  | inr ks => match get_key cf ks kid with None => inl EKey | Some k => inr k end
  end.

(** every entry was fetched from its own url, for its own kid, in some past world; and, as long as the cached
    key is not re-validated (no fix for C05-F4), it passed the certificate check under the settings [v] *)
Definition cache_inv (f4 v : bool) (past : list kenv) (c : kcache) : Prop :=
  forall url kid ttl k, cache_find c url kid ttl = Some k ->
    exists env ks, In env past /\ fetch env url = inr ks /\
      filter (fun k' => String.eqb (k_kid k') kid) ks = [k] /\
      (f4 = false -> (negb v || negb (cert_bad (k_cert k))) = true).

Lemma cache_inv_mono f4 v past past' c :
  (forall e, In e past -> In e past') -> cache_inv f4 v past c -> cache_inv f4 v past' c.
Proof.
  intros Hsub H url kid ttl k Hf. destruct (H url kid ttl k Hf) as (env & ks & Hin & R). exists env, ks. split; [auto|exact R].
Qed.

Lemma get_key_some cf ks kid k :
  get_key cf ks kid = Some k <->
  filter (fun k' => String.eqb (k_kid k') kid) ks = [k] /\ key_valid cf k = true.
Proof.
  unfold get_key. destruct (filter _ ks) as [|k0 [|k1 r]]; split; try (intros [H _]; discriminate); try discriminate.
  - destruct (key_valid cf k0) eqn:V; [|discriminate]. intro E; injection E as ->. split; [reflexivity|exact V].
  - intros [E V]. injection E as ->. rewrite V. reflexivity.
Qed.

Lemma fetch_fill_ok f4 v s url kid c past :
  (f4 = false -> cf_validate_jwk (s_cf s) = v) ->
  cache_inv f4 v (s_env s :: past) c ->
  let '(r, c') := fetch_fill s url url kid c in
  cache_inv f4 v (s_env s :: past) c' /\ r = key_result (s_cf s) (s_env s) url kid.
Proof.
  intros Hv Hinv. unfold fetch_fill, key_result.
  destruct (fetch (s_env s) url) as [e|ks] eqn:Hf; [split; [exact Hinv|reflexivity]|].
  destruct (get_key (s_cf s) ks kid) as [k|] eqn:Hg; [|split; [exact Hinv|reflexivity]].
  split; [|reflexivity].
  destruct (s_cache_on s); [|exact Hinv].
  intros url' kid' ttl' k' Hf'. simpl in Hf'.
  destruct (String.eqb url url' && String.eqb kid kid' && (s_ttl s =? ttl')%Z) eqn:E.
  - injection Hf' as <-. apply andb_true_iff in E as [E _]. apply andb_true_iff in E as [E1 E2].
    apply String.eqb_eq in E1, E2. subst url' kid'.
    apply get_key_some in Hg as [Hfil Hval]. exists (s_env s), ks.
    split; [left; reflexivity|]. split; [exact Hf|]. split; [exact Hfil|].
    intro F. unfold key_valid in Hval. rewrite (Hv F) in Hval. exact Hval.
  - apply (Hinv _ _ _ _ Hf').
Qed.

(** getKey with the cache: the invariant is kept, and the answer is the cache-less answer in a world of the
    past at the same url and kid (the present world if the cache is off for this request) *)
Lemma get_key_c_ok f4 v s url kid c past :
  (f4 = false -> cf_validate_jwk (s_cf s) = v) ->
  cache_inv f4 v past c ->
  let '(r, c') := get_key_c f4 s url url kid c in
  cache_inv f4 v (s_env s :: past) c' /\
  exists env, In env (s_env s :: past) /\ (s_cache_on s = false -> env = s_env s) /\
              r = key_result (s_cf s) env url kid.
Proof.
  intros Hv Hinv.
  assert (cache_inv f4 v (s_env s :: past) c) as Hinv' by (eapply cache_inv_mono; [|exact Hinv]; intros; right; assumption).
  pose proof (fetch_fill_ok f4 v s url kid c past Hv Hinv') as FF.
  unfold get_key_c.
  destruct (s_cache_on s) eqn:Hon.
  - destruct (cache_find c url kid (s_ttl s)) as [k|] eqn:Hfind.
    + destruct (negb f4 || key_valid (s_cf s) k) eqn:Hok.
      * split; [exact Hinv'|].
        destruct (Hinv _ _ _ _ Hfind) as (env & ks & Hin & Hfetch & Hfil & Hval).
        exists env. split; [right; exact Hin|]. split; [discriminate|].
        unfold key_result. rewrite Hfetch.
        assert (get_key (s_cf s) ks kid = Some k) as ->; [|reflexivity].
        apply get_key_some. split; [exact Hfil|].
        destruct f4; simpl in Hok; [exact Hok|].
        unfold key_valid. rewrite (Hv eq_refl). apply Hval. reflexivity.
      * destruct (fetch_fill s url url kid c) as [r c']. destruct FF as [I R]. split; [exact I|].
        exists (s_env s). split; [left; reflexivity|]. split; [reflexivity|exact R].
    + destruct (fetch_fill s url url kid c) as [r c']. destruct FF as [I R]. split; [exact I|].
      exists (s_env s). split; [left; reflexivity|]. split; [reflexivity|exact R].
  - destruct (fetch_fill s url url kid c) as [r c']. destruct FF as [I R]. split; [exact I|].
    exists (s_env s). split; [left; reflexivity|]. split; [reflexivity|exact R].
Qed.

Lemma published_fetch s t env :
  s_cred s = CToken t ->
  match fetch env (url_of (s_templated s) t) with
  | inr ks => published s env = (RUp, ks)
  | inl e => exists rem ks, published s env = (rem, ks) /\
               match rem with RUp => False | RDown | RStatus => e = EComm | RGarbage => e = EJwks end
  end.
Proof.
  unfold fetch, published. intros ->.
  destruct (env_find env _) as [[rem ks']|].
  - destruct rem; try reflexivity; eexists _, ks'; split; reflexivity.
  - exists RStatus, []. split; reflexivity.
Qed.

(** the cache-less authenticator on a parseable token with a JSON-object payload, in terms of [key_result] *)
Lemma stateless_token f1 f2 s t env :
  s_cred s = CToken t -> mem (t_alg t) supported_algs = true -> t_payload_obj t = true ->
  stateless f1 f2 s env =
  let cf := s_cf s in
  let url := url_of (s_templated s) t in
  if String.eqb (t_kid t) ""
  then match fetch env url with
       | inl er => Failed er
       | inr ks => finish cf t (if verify_without_kid f1 f2 cf (effective cf) (s_now s) t ks then None else Some ENoneOfKeys)
       end
  else match key_result cf env url (t_kid t) with
       | inl er => Failed er
       | inr k => finish cf t (verify_with_key f1 f2 (effective cf) (s_now s) t k)
       end.
Proof.
  intros Hc Hsup Hobj. unfold stateless, key_result. pose proof (published_fetch s t env Hc) as P.
  destruct (fetch env (url_of (s_templated s) t)) as [er|ks].
  - destruct P as (rem & ks & -> & Hrem). rewrite Hc.
    unfold authenticate_gen, verify_token. rewrite Hsup, Hobj. cbn [negb].
    destruct rem; try contradiction; subst; destruct (String.eqb (t_kid t) ""); reflexivity.
  - rewrite P, Hc. unfold authenticate_gen, verify_token, finish, subject_id. rewrite Hsup, Hobj. cbn [negb].
    change (cf_remote (with_remote (s_cf s) RUp)) with RUp. cbv iota.
    rewrite effective_with_remote, verify_without_kid_with_remote.
    change (get_key (with_remote (s_cf s) RUp) ks (t_kid t)) with (get_key (s_cf s) ks (t_kid t)).
    change (cf_id_from (with_remote (s_cf s) RUp)) with (cf_id_from (s_cf s)).
    destruct (String.eqb (t_kid t) "").
    + destruct (verify_without_kid _ _ _ _ _ _ _); reflexivity.
    + destruct (get_key (s_cf s) ks (t_kid t)) as [k|]; [|reflexivity].
      destruct (verify_with_key _ _ _ _ _ _); reflexivity.
Qed.

(** one request: the invariant is kept and the answer is a cache-less answer against a world of the past
    (the present one when the request cannot be served from the cache) *)
Lemma step_c_stateless f1 f2 f4 f6 v s c past :
  (f4 = false -> cf_validate_jwk (s_cf s) = v) ->
  (f6 = false -> s_tpl_url s = s_templated s) ->
  cache_inv f4 v past c ->
  let '(r, c') := step_c f1 f2 f4 f6 s c in
  cache_inv f4 v (s_env s :: past) c' /\
  (exists env, In env (s_env s :: past) /\ (fresh s = true -> env = s_env s) /\ r = stateless f1 f2 s env).
Proof.
  intros Hv Hu Hinv.
  assert (cache_inv f4 v (s_env s :: past) c) as Hinv' by (eapply cache_inv_mono; [|exact Hinv]; intros; right; assumption).
  assert (forall t, curl_of f6 s t = url_of (s_templated s) t) as Hcurl.
  { intro t. unfold curl_of. destruct f6; [reflexivity|]. rewrite (Hu eq_refl). reflexivity. }
  unfold step_c, fresh.
  destruct (s_cred s) as [| |t] eqn:Hc.
  - split; [exact Hinv'|]. exists (s_env s). split; [left; reflexivity|]. split; [reflexivity|].
    unfold stateless, published. rewrite Hc. reflexivity.
  - split; [exact Hinv'|]. exists (s_env s). split; [left; reflexivity|]. split; [reflexivity|].
    unfold stateless, published. rewrite Hc. reflexivity.
  - destruct (mem (t_alg t) supported_algs) eqn:Hsup; cbn [negb].
    2:{ split; [exact Hinv'|]. exists (s_env s). split; [left; reflexivity|]. split; [reflexivity|].
        unfold stateless. destruct (published s (s_env s)) as [rem ks]. rewrite Hc. unfold authenticate_gen. rewrite Hsup. reflexivity. }
    destruct (t_payload_obj t) eqn:Hobj; cbn [negb].
    2:{ split; [exact Hinv'|]. exists (s_env s). split; [left; reflexivity|]. split; [reflexivity|].
        unfold stateless. destruct (published s (s_env s)) as [rem ks]. rewrite Hc.
        unfold authenticate_gen, verify_token. rewrite Hsup, Hobj. reflexivity. }
    destruct (String.eqb (t_kid t) "") eqn:Hkid.
    + pose proof (stateless_token f1 f2 s t (s_env s) Hc Hsup Hobj) as St. cbv zeta in St. rewrite Hkid in St.
      destruct (fetch (s_env s) (url_of (s_templated s) t)) as [er|ks];
        (split; [exact Hinv'|]; exists (s_env s); split; [left; reflexivity|]; split; [reflexivity|symmetry; exact St]).
    + rewrite Hcurl.
      pose proof (get_key_c_ok f4 v s (url_of (s_templated s) t) (t_kid t) c past Hv Hinv) as G.
      destruct (get_key_c f4 s (url_of (s_templated s) t) (url_of (s_templated s) t) (t_kid t) c) as [r c'].
      destruct G as [I (env & Hin & Hoff & ->)].
      assert (stateless f1 f2 s env =
              match key_result (s_cf s) env (url_of (s_templated s) t) (t_kid t) with
              | inl er => Failed er
              | inr k => finish (s_cf s) t (verify_with_key f1 f2 (effective (s_cf s)) (s_now s) t k)
              end) as St.
      { rewrite (stateless_token f1 f2 s t env Hc Hsup Hobj). cbv zeta. rewrite Hkid. reflexivity. }
      destruct (key_result (s_cf s) env (url_of (s_templated s) t) (t_kid t)) as [er|k].
      * split; [exact I|]. exists env. split; [exact Hin|]. split; [|symmetry; exact St].
        intro F. apply Hoff. apply orb_true_iff in F as [F|F]; [apply negb_true_iff; exact F | discriminate].
      * split; [exact I|]. exists env. split; [exact Hin|]. split; [|symmetry; exact St].
        intro F. apply Hoff. apply orb_true_iff in F as [F|F]; [apply negb_true_iff; exact F | discriminate].
Qed.

(* ------------------------------------------------------------------ histories *)

(** the validate_jwk setting is the same for all requests of the history *)
Definition uniform_validation (v : bool) (h : list kstep) : Prop :=
  forall s, In s h -> cf_validate_jwk (s_cf s) = v.

(** no request of the history has a template in a header only: the rendered url identifies the request *)
Definition url_keyed (h : list kstep) : Prop := forall s, In s h -> s_tpl_url s = s_templated s.

Lemma run_c_stateless f1 f2 f4 f6 v : forall h c past,
  (f4 = false -> uniform_validation v h) ->
  (f6 = false -> url_keyed h) ->
  cache_inv f4 v past c ->
  forall pre s post, h = pre ++ s :: post ->
  forall r, nth_error (fst (run_c f1 f2 f4 f6 h c)) (length pre) = Some r ->
  exists env, (In env (s_env s :: map s_env pre) \/ In env past) /\ (fresh s = true -> env = s_env s) /\
              r = stateless f1 f2 s env.
Proof.
  induction h as [|s0 h IH]; intros c past Hv Hu Hinv pre s post E r Hr.
  - destruct pre; discriminate.
  - simpl in Hr.
    pose proof (step_c_stateless f1 f2 f4 f6 v s0 c past (fun F => Hv F s0 (or_introl eq_refl))
                  (fun F => Hu F s0 (or_introl eq_refl)) Hinv) as St.
    destruct (step_c f1 f2 f4 f6 s0 c) as [x c'] eqn:Es. destruct St as [Hinv' (env & Hin & Hfr & Hx)].
    destruct (run_c f1 f2 f4 f6 h c') as [xs c''] eqn:Er. simpl in Hr.
    destruct pre as [|p pre]; simpl in *.
    + injection E as -> ->. injection Hr as <-. exists env. split; [|split; assumption].
      destruct Hin as [<-|Hin]; [left; left; reflexivity | right; exact Hin].
    + injection E as -> ->.
      assert (nth_error (fst (run_c f1 f2 f4 f6 (pre ++ s :: post) c')) (length pre) = Some r) as Hr' by (rewrite Er; exact Hr).
      destruct (IH c' (s_env p :: past) (fun F s' H => Hv F s' (or_intror H)) (fun F s' H => Hu F s' (or_intror H))
                  Hinv' pre s post eq_refl r Hr') as (env' & Hin' & Hfr' & Hr'').
      exists env'. split; [|split; assumption].
      destruct Hin' as [[<-|Hin']|[<-|Hin']].
      * left; left; reflexivity.
      * left; right; right; exact Hin'.
      * left; right; left; reflexivity.
      * right; exact Hin'.
Qed.

(** the worlds request number [length pre] of a history may be judged against *)
Definition worlds (pre : list kstep) (s : kstep) : list kenv := s_env s :: map s_env pre.

(** the statement: the answer to request [s] (after the requests [pre]) is the cache-less authenticator's
    answer against the key set that is or was published for the key-set request (url and headers) rendered for
    the request's OWN token, validated with the request's OWN settings — the present key set if the request
    cannot be served from the cache *)
Definition judged_statelessly (f1 f2 : bool) (pre : list kstep) (s : kstep) (r : result) : Prop :=
  exists env, In env (worlds pre s) /\ (fresh s = true -> env = s_env s) /\ r = stateless f1 f2 s env.

Theorem history_stateless_gen f1 f2 f4 f6 v h pre s post r :
  (f4 = false -> uniform_validation v h) ->
  (f6 = false -> url_keyed h) ->
  h = pre ++ s :: post ->
  nth_error (run_history f1 f2 f4 f6 h) (length pre) = Some r ->
  judged_statelessly f1 f2 pre s r.
Proof.
  intros Hv Hu E Hr. unfold run_history in Hr.
  assert (cache_inv f4 v [] []) as Hinv by (intros url kid ttl k H; discriminate).
  destruct (run_c_stateless f1 f2 f4 f6 v h [] [] Hv Hu Hinv pre s post E r Hr) as (env & [Hin|[]] & Hfr & Hx).
  exists env. split; [exact Hin|]. split; assumption.
Qed.

(** the code as it is (with fix: d20d7cd for C05-F4 and fix: 4a30678 for C05-F6): for every history *)
Theorem history_stateless_fixed f1 f2 h pre s post r :
  h = pre ++ s :: post ->
  nth_error (run_history f1 f2 true true h) (length pre) = Some r ->
  judged_statelessly f1 f2 pre s r.
Proof. apply (history_stateless_gen f1 f2 true true true); discriminate. Qed.

Definition result_eqb (a b : result) : bool :=
  match a, b with
  | Accepted s, Accepted s' => String.eqb s s'
  | Failed e, Failed e' => match e, e' with
      | ENoCreds, ENoCreds | EParse, EParse | EPayload, EPayload | EComm, EComm | EJwks, EJwks | EKey, EKey
      | EAlgMismatch, EAlgMismatch | EAlgNotAllowed, EAlgNotAllowed | ESignature, ESignature
      | EAssertion, EAssertion | EScopes, EScopes | ENoneOfKeys, ENoneOfKeys | ESubject, ESubject
      | EPanic, EPanic => true
      | _, _ => false end
  | _, _ => false
  end.

Lemma result_eqb_eq a b : result_eqb a b = true -> a = b.
Proof.
  destruct a as [s|e], b as [s'|e']; simpl; try discriminate.
  - intro H. apply String.eqb_eq in H. congruence.
  - destruct e, e'; try discriminate; reflexivity.
Qed.

Lemma results_eqb_eq (l l' : list result) : list_eqb result_eqb l l' = true -> l = l'.
Proof.
  revert l'. induction l as [|a l IH]; intros [|b l'] G; simpl in G; try discriminate; [reflexivity|].
  apply andb_true_iff in G as [G1 G2]. apply result_eqb_eq in G1. rewrite G1, (IH l' G2). reflexivity.
Qed.

(** C05-F6 shows (with 4a30678 reverted) on exactly the histories on which keying the cache by the rendered url
    alone changes an answer.  NB: outside this guard the pinned statement below is the repaired one by definition. *)
Definition guard_F6 (f1 f2 : bool) (h : list kstep) : bool :=
  negb (list_eqb result_eqb (run_history f1 f2 true false h) (run_history f1 f2 true true h)).

(** the code as it is with 4a30678 reverted (later repairs kept): for histories without header-only templates
    (the content of this theorem), and for all on which C05-F6 does not show (true by the definition of the guard) *)
Theorem history_stateless f1 f2 h pre s post r :
  url_keyed h \/ guard_F6 f1 f2 h = false ->
  h = pre ++ s :: post ->
  nth_error (run_history f1 f2 true false h) (length pre) = Some r ->
  judged_statelessly f1 f2 pre s r.
Proof.
  intros [Hu|G] E Hr.
  - apply (history_stateless_gen f1 f2 true false true h pre s post r); try assumption; [discriminate|]. intros _. exact Hu.
  - apply negb_false_iff, results_eqb_eq in G. rewrite G in Hr.
    exact (history_stateless_fixed f1 f2 h pre s post r E Hr).
Qed.

(** C05-F4 shows (with d20d7cd and 4a30678 reverted) on exactly the histories on which the unvalidated reuse of a
    cached key changes an answer.  NB: outside this guard the pinned statement below reduces to the one above. *)
Definition guard_F4 (f1 f2 : bool) (h : list kstep) : bool :=
  negb (list_eqb result_eqb (run_history f1 f2 false false h) (run_history f1 f2 true false h)).

(** the code as it is with d20d7cd and 4a30678 reverted (later repairs such as the ttl in the cache key and
    d55629a kept; not a state /repo was ever in): the content is the [uniform_validation] branch *)
Theorem history_stateless_either f1 f2 h pre s post r :
  (exists v, uniform_validation v h) \/ guard_F4 f1 f2 h = false ->
  url_keyed h ->
  h = pre ++ s :: post ->
  nth_error (run_history f1 f2 false false h) (length pre) = Some r ->
  judged_statelessly f1 f2 pre s r.
Proof.
  intros [[v Hv]|G] Hu E Hr.
  - apply (history_stateless_gen f1 f2 false false v h pre s post r); try assumption; intros _; assumption.
  - apply negb_false_iff, results_eqb_eq in G. rewrite G in Hr.
    exact (history_stateless f1 f2 h pre s post r (or_introl Hu) E Hr).
Qed.

Lemma judged_statelessly_unfold f1 f2 pre s r :
  judged_statelessly f1 f2 pre s r <->
  exists env, In env (s_env s :: map s_env pre) /\ (fresh s = true -> env = s_env s) /\ r = stateless f1 f2 s env.
Proof. reflexivity. Qed.

(** with key sets that do not change the cache is invisible *)
Theorem cache_transparent f1 f2 f4 f6 v h pre s post r env0 :
  (f4 = false -> uniform_validation v h) ->
  (f6 = false -> url_keyed h) ->
  (forall s', In s' h -> s_env s' = env0) ->
  h = pre ++ s :: post ->
  nth_error (run_history f1 f2 f4 f6 h) (length pre) = Some r ->
  r = stateless f1 f2 s env0.
Proof.
  intros Hv Hu He E Hr. destruct (history_stateless_gen f1 f2 f4 f6 v h pre s post r Hv Hu E Hr) as (env & Hin & _ & ->).
  f_equal. destruct Hin as [<-|Hin].
  - apply He. subst h. apply in_or_app. right. left. reflexivity.
  - apply in_map_iff in Hin as (s' & <- & Hs'). apply He. subst h. apply in_or_app. left. exact Hs'.
Qed.

(* ------------------------------------------------------------------ against the specification *)

(** the stateless specification of C05/Spec.v for request [s] in world [env] *)
Definition spec_in (s : kstep) (env : kenv) : option string :=
  let '(rem, ks) := published s env in
  spec_accepts (with_remote (s_cf s) rem) ks (s_now s) (s_cred s).

Lemma stateless_spec s env :
  sane_clock (s_cf s) (s_now s) -> open_guards (s_cf s) (s_cred s) = false ->
  accepted_sub (stateless true true s env) = spec_in s env.
Proof.
  intros Hs G. unfold stateless, spec_in. destruct (published s env) as [rem ks].
  apply (authenticate_spec (with_remote (s_cf s) rem) ks (s_now s) (s_cred s)); assumption.
Qed.

(** soundness and completeness of a history: a subject is created only if the specification accepts the
    token against what is or was published at its own key-set URL (now, if it cannot come from the cache),
    and it is created if the specification accepts it against all of those *)
Definition meets_spec (pre : list kstep) (s : kstep) (r : result) : Prop :=
  (forall sub, r = Accepted sub ->
     exists env, In env (worlds pre s) /\ (fresh s = true -> env = s_env s) /\ spec_in s env = Some sub) /\
  (forall sub, (forall env, In env (worlds pre s) -> spec_in s env = Some sub) -> r = Accepted sub).

Lemma judged_meets_spec pre s r :
  sane_clock (s_cf s) (s_now s) -> open_guards (s_cf s) (s_cred s) = false ->
  judged_statelessly true true pre s r -> meets_spec pre s r.
Proof.
  intros Hs G (env & Hin & Hfr & ->). split.
  - intros sub Hacc. exists env. split; [exact Hin|]. split; [exact Hfr|].
    rewrite <- stateless_spec by assumption. rewrite Hacc. reflexivity.
  - intros sub Hall. specialize (Hall env Hin). rewrite <- stateless_spec in Hall by assumption.
    destruct (stateless true true s env); simpl in Hall; congruence.
Qed.

Theorem history_spec_fixed h pre s post r :
  h = pre ++ s :: post ->
  nth_error (run_history true true true true h) (length pre) = Some r ->
  sane_clock (s_cf s) (s_now s) -> open_guards (s_cf s) (s_cred s) = false ->
  meets_spec pre s r.
Proof.
  intros E Hr Hs G3. apply judged_meets_spec; try assumption.
  exact (history_stateless_fixed true true h pre s post r E Hr).
Qed.

(* ------------------------------------------------------------------ examples *)

Open Scope string_scope.
Definition exc_cf : config :=
  {| cf_proto := {| e_issuers := ["tenant-a"; "tenant-b"]; e_scopes := None; e_aud := []; e_algs := []; e_leeway := 0 |};
     cf_rule := None; cf_md_issuer := ""; cf_validate_jwk := true; cf_id_from := "sub"; cf_remote := RUp |}.
Definition exc_key (mat : N) : jwk := {| k_kid := "k1"; k_alg := "ES256"; k_mat := mat; k_cert := CertNone |}.
Definition exc_env (a b : N) : kenv := [("tenant-a", (RUp, [exc_key a])); ("tenant-b", (RUp, [exc_key b]))].
Definition exc_tok (iss kid : string) (mat : N) : cred :=
  CToken {| t_alg := "ES256"; t_kid := kid; t_payload_obj := true;
            t_claims := {| c_iss := iss; c_aud := SAbsent; c_scp := SAbsent; c_scope := SAbsent;
                           c_exp := Some 1790000600%Z; c_nbf := None; c_iat := None; c_malformed := false;
                           c_fields := [("iss", iss); ("sub", "alice")] |};
            t_sig := [mat] |}.
Definition exc_step (on : bool) (env : kenv) (cr : cred) : kstep :=
  {| s_cf := exc_cf; s_cache_on := on; s_ttl := -1; s_templated := true; s_tpl_url := true; s_env := env; s_now := secs 1790000000; s_cred := cr |}.
Close Scope string_scope.

(** two tenants publish different keys under the same kid behind one templated endpoint: after tenant-a's key
    has been cached, a token naming tenant-b but signed with tenant-a's key is still rejected, and tenant-b's
    own tokens are still accepted (the seeded change C05-1 got both wrong) *)
Example cache_cross_tenant :
  run_history true true true true
    [exc_step true (exc_env 3 4) (exc_tok "tenant-a" "k1" 3);
     exc_step true (exc_env 3 4) (exc_tok "tenant-b" "k1" 3);
     exc_step true (exc_env 3 4) (exc_tok "tenant-b" "k1" 4)]
  = [Accepted "alice"; Failed ESignature; Accepted "alice"].
Proof. vm_compute. reflexivity. Qed.

(** what the cache does change: after a rotation the cached key stays in use for its own url and kid (the old
    key's tokens pass, the new key's do not yet) unless the token has no kid or the cache is off *)
Example cache_rotation :
  run_history true true true true
    [exc_step true (exc_env 3 4) (exc_tok "tenant-a" "k1" 3);
     exc_step true (exc_env 4 4) (exc_tok "tenant-a" "k1" 3);
     exc_step true (exc_env 4 4) (exc_tok "tenant-a" "k1" 4);
     exc_step true (exc_env 4 4) (exc_tok "tenant-a" "" 4);
     exc_step false (exc_env 4 4) (exc_tok "tenant-a" "k1" 4)]
  = [Accepted "alice"; Accepted "alice"; Failed ESignature; Accepted "alice"; Accepted "alice"].
Proof. vm_compute. reflexivity. Qed.

(** C05-F4: two authenticators share the key-set endpoint and the cache; the published key carries a
    certificate that does not validate.  The strict one (validate_jwk: true) refuses the token, the lax one
    (validate_jwk: false) accepts it and caches the key, after which the strict one accepts it too —
    although the specification rejects it in every world of the history.  With the repair it is refused. *)
Definition exc_bad_env : kenv :=
  [("tenant-a"%string, (RUp, [ {| k_kid := "k1"; k_alg := "ES256"; k_mat := 3; k_cert := CertBad |} ]))].
Definition exc_who (strict : bool) : kstep :=
  {| s_cf := {| cf_proto := cf_proto exc_cf; cf_rule := None; cf_md_issuer := ""; cf_validate_jwk := strict;
                cf_id_from := "sub"; cf_remote := RUp |};
     s_cache_on := true; s_ttl := -1; s_templated := true; s_tpl_url := true; s_env := exc_bad_env; s_now := secs 1790000000;
     s_cred := exc_tok "tenant-a" "k1" 3 |}.

Theorem F4_pinned_refuted :
  let h := [exc_who true; exc_who false; exc_who true] in
  guard_F4 true true h = true /\
  run_history true true false false h = [Failed EKey; Accepted "alice"; Accepted "alice"] /\
  run_history true true true false h = [Failed EKey; Accepted "alice"; Failed EKey] /\
  ~ meets_spec [exc_who true; exc_who false] (exc_who true) (Accepted "alice").
Proof.
  split; [vm_compute; reflexivity|]. split; [vm_compute; reflexivity|]. split; [vm_compute; reflexivity|].
  intros [S _]. destruct (S "alice"%string eq_refl) as (env & Hin & _ & Hspec).
  simpl in Hin. destruct Hin as [<-|[<-|[<-|[]]]]; vm_compute in Hspec; discriminate.
Qed.

(** C05-F6, with 4a30678 reverted (pinned): one key-set endpoint for two tenants, the tenant travels in a header templated with the token's
    issuer ({{ .TokenIssuer }}), the url is the same; both tenants use the kid k1 for different keys.  After
    tenant-a's key has been cached, a token that names tenant-b but is signed with tenant-a's key is accepted
    (the cache key has no rendered header values), although tenant-b's key set does not verify it; and
    tenant-b's own token is refused.  The code as it is judges both against tenant-b's key set. *)
Definition exc_hdr (cr : cred) : kstep :=
  {| s_cf := exc_cf; s_cache_on := true; s_ttl := -1; s_templated := true; s_tpl_url := false;
     s_env := exc_env 3 4; s_now := secs 1790000000; s_cred := cr |}.

Theorem F6_pinned_refuted :
  let h := [exc_hdr (exc_tok "tenant-a" "k1" 3); exc_hdr (exc_tok "tenant-b" "k1" 3); exc_hdr (exc_tok "tenant-b" "k1" 4)] in
  guard_F6 true true h = true /\
  run_history true true true false h = [Accepted "alice"; Accepted "alice"; Failed ESignature] /\
  run_history true true true true h = [Accepted "alice"; Failed ESignature; Accepted "alice"] /\
  ~ meets_spec [exc_hdr (exc_tok "tenant-a" "k1" 3)] (exc_hdr (exc_tok "tenant-b" "k1" 3)) (Accepted "alice").
Proof.
  split; [vm_compute; reflexivity|]. split; [vm_compute; reflexivity|]. split; [vm_compute; reflexivity|].
  intros [S _]. destruct (S "alice"%string eq_refl) as (env & Hin & _ & Hspec).
  simpl in Hin. destruct Hin as [<-|[<-|[]]]; vm_compute in Hspec; discriminate.
Qed.
