(** C04 — the executable property predicate the correspondence run applies to
    the implementation's observation, and the proof that it implies the
    declarative specification (C04/Proofs.v) for the observed run. *)
From HV Require Import Base.Prelude C04.Model C04.Proofs.

(** what the driver saw of one authenticator whose Execute ran: its position in
    the configured chain (from its mechanism id), what IsFallbackOnErrorAllowed()
    said, what its cache lookup found, its outcome *)
Record seen1 := { s_pos : nat; s_fb : bool; s_hit : lookup; s_out : outcome }.

(** answer classes: a subject, an error, nothing *)
Definition res_cls_eqb (a b : result) : bool :=
  match a, b with
  | RSubject x, RSubject y => String.eqb x y
  | RError _, RError _ | RNil, RNil => true
  | _, _ => false
  end.

(** "explicitly allows fallback on error", decided *)
Definition opts_inb (a : authn) : bool :=
  match a_over_fb a with Some b => b | None => a_proto_fb a end.

Lemma opts_inb_spec a : opts_inb a = true <-> opts_in a.
Proof.
  unfold opts_inb. split.
  - destruct (a_over_fb a) as [[|]|] eqn:E; intro H; try discriminate.
    + apply optin_rule; assumption.
    + apply optin_proto; assumption.
  - intros [H | H1 H2]; rewrite ?H, ?H1; auto.
Qed.

(** the request carries credentials of the authenticator's kind, decided *)
Definition presentsb (q : request) (a : authn) : bool :=
  match kind_of (a_type a) with Some k => presented k q | None => true end.

Lemma presentsb_spec q a : presentsb q a = true <-> presents q a.
Proof. unfold presentsb, presents. destruct (kind_of (a_type a)); split; auto. Qed.

(** one consulted authenticator respects the statement:
    it found credentials of its kind => its failure is not of the "no credentials" kind;
    it says it allows fallback => the step is opted in explicitly *)
Definition sound1 (q : request) (a : authn) (s : seen1) : bool :=
  match s_out s with Failed ENoCreds => negb (presentsb q a) | _ => true end &&
  implb (s_fb s) (opts_inb a).

(** the property on the implementation's observation: the consulted
    authenticators are the configured ones in their order; each but the last
    found no credentials or allows fallback; the run ends with the first
    acceptance (its subject is the answer), with a failure that neither lacks
    credentials nor allows fallback (the answer is an error), or with the end of
    the chain (the answer is an error; nothing for the empty chain) *)
Fixpoint prop_chain (q : request) (pos : nat) (ca : list authn) (seen : list seen1) (res last : result) : bool :=
  match seen, ca with
  | [], [] => res_cls_eqb res last
  | s :: seen', a :: ca' =>
      Nat.eqb (s_pos s) pos && sound1 q a s &&
      match s_out s with
      | Accepted sub => is_nil seen' && res_cls_eqb res (RSubject sub)
      | Failed e =>
          if is_argument e || s_fb s
          then prop_chain q (S pos) ca' seen' res (RError e)
          else is_nil seen' && res_cls_eqb res (RError e)
      end
  | _, _ => false
  end.

(* ------------------------------------------------------------------ soundness of the predicate *)

(** the consulted authenticator as the chain-level specification sees it *)
Definition obs_authn (s : seen1) : cauthn := {| c_out := s_out s; c_fb := s_fb s |}.

Definition as_last (r : result) : option err := match r with RError e => Some e | _ => None end.

Lemma sound1_spec q a s :
  sound1 q a s = true ->
  (s_out s = Failed ENoCreds -> ~ presents q a) /\ (s_fb s = true -> opts_in a).
Proof.
  unfold sound1. intro H. apply andb_true_iff in H as [H1 H2]. split.
  - intros Ho Hp. rewrite Ho in H1. apply presentsb_spec in Hp. rewrite Hp in H1. discriminate.
  - intro Hf. rewrite Hf in H2. simpl in H2. apply opts_inb_spec. exact H2.
Qed.

Lemma Forall2_weaken {A B} (P Q : A -> B -> Prop) l1 l2 :
  (forall a b, P a b -> Q a b) -> Forall2 P l1 l2 -> Forall2 Q l1 l2.
Proof. intros HPQ H. induction H; constructor; auto. Qed.

Lemma prop_chain_run q : forall seen pos ca res last,
  (forall s, last <> RSubject s) ->
  prop_chain q pos ca seen res last = true ->
  map s_pos seen = seq pos (length seen) /\
  Forall2 (fun a s => sound1 q a s = true) (firstn (length seen) ca) seen /\
  forall post, length seen + length post = length ca ->
    exists r, res_cls_eqb res r = true /\
      exec_plain (as_last last) (map obs_authn seen ++ post) = (length seen, r).
Proof.
  induction seen as [|s seen' IH]; intros pos ca res last Hlast H.
  - destruct ca as [|a ca']; simpl in H; [|discriminate].
    split; [reflexivity|]. split; [constructor|].
    intros post Hlen. destruct post; [|simpl in Hlen; discriminate].
    exists last. split; [exact H|]. simpl.
    destruct last as [x|e|]; simpl; try reflexivity. exfalso. exact (Hlast x eq_refl).
  - destruct ca as [|a ca']; simpl in H; [discriminate|].
    apply andb_true_iff in H as [H Hrest]. apply andb_true_iff in H as [Hpos Hs].
    apply Nat.eqb_eq in Hpos.
    destruct (s_out s) as [sub|e] eqn:Ho.
    + apply andb_true_iff in Hrest as [Hnil Hres].
      destruct seen' as [|? ?]; [|discriminate]. simpl.
      split; [rewrite Hpos; reflexivity|]. split; [repeat constructor; exact Hs|].
      intros post _. exists (RSubject sub). split; [exact Hres|]. rewrite Ho. reflexivity.
    + destruct (is_argument e || s_fb s) eqn:Hp.
      * destruct (IH (S pos) ca' res (RError e)) as (Hposs & Hsound & Hrun); [discriminate | exact Hrest |].
        split; [simpl; rewrite Hpos, Hposs; reflexivity|].
        split; [simpl; constructor; [exact Hs | exact Hsound]|].
        intros post Hlen. simpl in Hlen.
        destruct (Hrun post) as (r & Hr & Hex); [lia|].
        exists r. split; [exact Hr|]. simpl. rewrite Ho, Hp.
        simpl in Hex. rewrite Hex. reflexivity.
      * apply andb_true_iff in Hrest as [Hnil Hres].
        destruct seen' as [|? ?]; [|discriminate]. simpl.
        split; [rewrite Hpos; reflexivity|]. split; [repeat constructor; exact Hs|].
        intros post _. exists (RError e). split; [exact Hres|]. rewrite Ho, Hp. reflexivity.
Qed.

(** an observation the predicate accepts is a run the specification allows:
    - the consulted authenticators are the first of the configured chain, in order;
    - whatever the authenticators not consulted would have answered, the observed
      outcomes and flags with the observed answer satisfy [spec] (so: each but the
      last let pass, the answer is the first acceptance / the blocking failure /
      the last failure of an exhausted chain);
    - an authenticator that answered "no credentials" had none of its kind
      presented, and one whose flag allowed fallback is opted in *)
Theorem prop_chain_sound q ca seen res :
  prop_chain q 0 ca seen res RNil = true ->
  map s_pos seen = seq 0 (length seen) /\
  (forall post, length seen + length post = length ca ->
     exists r, res_cls_eqb res r = true /\ spec (map obs_authn seen ++ post) (length seen, r)) /\
  Forall2 (fun a s => (s_out s = Failed ENoCreds -> ~ presents q a) /\ (s_fb s = true -> opts_in a))
          (firstn (length seen) ca) seen.
Proof.
  intro H. destruct (prop_chain_run q seen 0 ca res RNil) as (Hpos & Hsound & Hrun); [discriminate | exact H |].
  split; [exact Hpos|]. split.
  - intros post Hlen. destruct (Hrun post Hlen) as (r & Hr & Hex). exists r. split; [exact Hr|].
    apply execute_iff_spec. rewrite execute_plain. exact Hex.
  - eapply Forall2_weaken; [|exact Hsound]. intros a s Hs. apply sound1_spec. exact Hs.
Qed.

(* ------------------------------------------------------------------ the model passes the predicate *)

(** what the driver would see of the model: the observation of the chain [ca] on
    request [q] with the cache lookups [hits] *)
Fixpoint observe (q : request) (pos : nat) (last : result) (ca : list authn) (hits : list lookup) : list seen1 * result :=
  match ca with
  | [] => ([], last)
  | a :: rest =>
    let '(h, hs) := match hits with [] => (LMiss, []) | h :: hs => (h, hs) end in
    let s := {| s_pos := pos; s_fb := fallback_allowed a; s_hit := h; s_out := classify (a_type a) h q |} in
    match classify (a_type a) h q with
    | Accepted sub => ([s], RSubject sub)
    | Failed e =>
      if is_argument e || fallback_allowed a
      then let '(l, r) := observe q (S pos) (RError e) rest hs in (s :: l, r)
      else ([s], RError e)
    end
  end.

Lemma res_cls_eqb_refl r : res_cls_eqb r r = true.
Proof. destruct r; simpl; try reflexivity. apply String.eqb_refl. Qed.

Lemma model_sound1 q a h :
  sound1 q a {| s_pos := 0; s_fb := fallback_allowed a; s_hit := h; s_out := classify (a_type a) h q |} = true.
Proof.
  unfold sound1; simpl. apply andb_true_iff. split.
  - destruct (classify (a_type a) h q) as [s|[| |k]] eqn:Hc; try reflexivity.
    unfold presentsb. destruct (kind_of (a_type a)) as [k|] eqn:Hk.
    + apply (classify_sound _ _ h q Hk) in Hc. rewrite Hc. reflexivity.
    + exfalso. exact (classify_kindless _ h q Hk Hc).
  - destruct (fallback_allowed a) eqn:Hf; [|reflexivity]. simpl.
    apply opts_inb_spec. apply fallback_only_if_opted_in. exact Hf.
Qed.

(** the observation is that of the model's run ... *)
Lemma observe_is_run q : forall ca pos last hits,
  (forall s, last <> RSubject s) ->
  (length (fst (observe q pos last ca hits)), snd (observe q pos last ca hits)) =
  exec_plain (as_last last) (to_chain q ca hits).
Proof.
  induction ca as [|a rest IH]; intros pos last hits Hlast; simpl.
  - destruct last as [x|e|]; try reflexivity. exfalso. exact (Hlast x eq_refl).
  - destruct hits as [|h hs]; simpl.
    + destruct (classify (a_type a) LMiss q) as [sub|e]; [reflexivity|].
      destruct (is_argument e || fallback_allowed a); [|reflexivity].
      specialize (IH (S pos) (RError e) [] ltac:(discriminate)). simpl in IH.
      destruct (observe q (S pos) (RError e) rest []) as [l r]. simpl in *.
      rewrite <- IH. reflexivity.
    + destruct (classify (a_type a) h q) as [sub|e]; [reflexivity|].
      destruct (is_argument e || fallback_allowed a); [|reflexivity].
      specialize (IH (S pos) (RError e) hs ltac:(discriminate)). simpl in IH.
      destruct (observe q (S pos) (RError e) rest hs) as [l r]. simpl in *.
      rewrite <- IH. reflexivity.
Qed.

Theorem observe_is_authenticate q ca hits :
  (length (fst (observe q 0 RNil ca hits)), snd (observe q 0 RNil ca hits)) = authenticate ca hits q.
Proof.
  unfold authenticate. rewrite execute_plain.
  apply (observe_is_run q ca 0 RNil hits). discriminate.
Qed.

(** ... and it satisfies the predicate: on an implementation that behaves as the
    model the check cannot report a property failure *)
Lemma observe_passes q : forall ca pos last hits,
  prop_chain q pos ca (fst (observe q pos last ca hits)) (snd (observe q pos last ca hits)) last = true.
Proof.
  induction ca as [|a rest IH]; intros pos last hits; simpl.
  - apply res_cls_eqb_refl.
  - assert (Hs : forall h p, sound1 q a {| s_pos := p; s_fb := fallback_allowed a; s_hit := h; s_out := classify (a_type a) h q |} = true).
    { intros h p. pose proof (model_sound1 q a h) as H. unfold sound1 in *; simpl in *. exact H. }
    destruct hits as [|h hs]; simpl.
    + specialize (Hs LMiss pos). destruct (classify (a_type a) LMiss q) as [sub|e] eqn:Hc.
      * simpl. rewrite Nat.eqb_refl, Hs. simpl. apply String.eqb_refl.
      * destruct (is_argument e || fallback_allowed a) eqn:Hp.
        -- specialize (IH (S pos) (RError e) []).
           destruct (observe q (S pos) (RError e) rest []) as [l r]. simpl in *.
           rewrite Nat.eqb_refl, Hs, Hp. simpl. exact IH.
        -- simpl. rewrite Nat.eqb_refl, Hs, Hp. simpl. first [reflexivity | apply res_cls_eqb_refl].
    + specialize (Hs h pos). destruct (classify (a_type a) h q) as [sub|e] eqn:Hc.
      * simpl. rewrite Nat.eqb_refl, Hs. simpl. apply String.eqb_refl.
      * destruct (is_argument e || fallback_allowed a) eqn:Hp.
        -- specialize (IH (S pos) (RError e) hs).
           destruct (observe q (S pos) (RError e) rest hs) as [l r]. simpl in *.
           rewrite Nat.eqb_refl, Hs, Hp. simpl. exact IH.
        -- simpl. rewrite Nat.eqb_refl, Hs, Hp. simpl. first [reflexivity | apply res_cls_eqb_refl].
Qed.

Theorem model_passes_predicate q ca hits :
  prop_chain q 0 ca (fst (observe q 0 RNil ca hits)) (snd (observe q 0 RNil ca hits)) RNil = true.
Proof. apply observe_passes. Qed.
