(** C04 — the fallback flag of a rule's step does not depend on which other rules
    were created before or after it from the same prototypes. *)
From HV Require Import Base.Prelude C04.Model.

Definition ext (h h' : heap) : Prop := exists x, h' = h ++ x.

Lemma ext_refl h : ext h h.
Proof. exists []. rewrite app_nil_r. reflexivity. Qed.

Lemma ext_trans h1 h2 h3 : ext h1 h2 -> ext h2 h3 -> ext h1 h3.
Proof. intros [x ->] [y ->]. exists (x ++ y). rewrite app_assoc. reflexivity. Qed.

Lemma ext_length h h' : ext h h' -> length h <= length h'.
Proof. intros [x ->]. rewrite app_length. lia. Qed.

(** objects stay where and what they are *)
Lemma ext_nth h h' a : ext h h' -> a < length h -> nth_error h' a = nth_error h a.
Proof. intros [x ->] Ha. apply nth_error_app1. exact Ha. Qed.

Definition same_obj (hA hB : heap) (a b : nat) : Prop :=
  a < length hA /\ b < length hB /\ nth_error hA a = nth_error hB b.

Lemma same_obj_ext hA hA' hB hB' a b :
  ext hA hA' -> ext hB hB' -> same_obj hA hB a b -> same_obj hA' hB' a b.
Proof.
  intros EA EB (Ha & Hb & E). repeat split.
  - pose proof (ext_length _ _ EA). lia.
  - pose proof (ext_length _ _ EB). lia.
  - rewrite (ext_nth _ _ _ EA Ha), (ext_nth _ _ _ EB Hb). exact E.
Qed.

(** WithConfig of a prototype gives the same object whatever else has been created *)
Lemma with_config_sim protos hA hB p cfg hA' a :
  ext protos hA -> ext protos hB -> p < length protos ->
  with_config hA p cfg = Some (hA', a) ->
  exists hB' b, with_config hB p cfg = Some (hB', b) /\ ext hA hA' /\ ext hB hB' /\ same_obj hA' hB' a b.
Proof.
  intros EA EB Hp H. unfold with_config in *.
  rewrite (ext_nth _ _ _ EA Hp) in H. rewrite (ext_nth _ _ _ EB Hp).
  pose proof (ext_length _ _ EA) as LA. pose proof (ext_length _ _ EB) as LB.
  destruct (nth_error protos p) as [o|] eqn:Eo; [|discriminate].
  assert (Same : same_obj hA hB p p).
  { repeat split; try lia. rewrite (ext_nth _ _ _ EA Hp), (ext_nth _ _ _ EB Hp). reflexivity. }
  assert (New : forall x, same_obj (hA ++ [x]) (hB ++ [x]) (length hA) (length hB)).
  { intro x. repeat split; rewrite ?app_length; simpl; try lia.
    rewrite !nth_error_app2 by lia. rewrite !Nat.sub_diag. reflexivity. }
  destruct cfg as [[t' ov]|].
  - destruct (o_type o); inversion H; subst; (eexists _, _; split; [reflexivity|]);
      first [ split; [apply ext_refl|]; split; [apply ext_refl | exact Same]
            | split; [eexists; reflexivity|]; split; [eexists; reflexivity|]; apply New ].
  - inversion H; subst. eexists _, _. split; [reflexivity|]. split; [apply ext_refl|]. split; [apply ext_refl | exact Same].
Qed.

Lemma create_rule_sim protos : forall steps hA hB hA' lA,
  ext protos hA -> ext protos hB ->
  Forall (fun s => sc_proto s < length protos) steps ->
  create_rule hA steps = Some (hA', lA) ->
  exists hB' lB, create_rule hB steps = Some (hB', lB) /\ ext hA hA' /\ ext hB hB' /\
                 Forall2 (same_obj hA' hB') lA lB.
Proof.
  induction steps as [|s rest IH]; intros hA hB hA' lA EA EB Hs H; simpl in *.
  - inversion H; subst. exists hB, []. repeat split; try apply ext_refl. constructor.
  - inversion Hs as [|? ? Hp Hrest]; subst.
    destruct (with_config hA (sc_proto s) (sc_config s)) as [[hA1 a]|] eqn:Ew; [|discriminate].
    destruct (create_rule hA1 rest) as [[hA2 l]|] eqn:Ec; [|discriminate].
    inversion H; subst.
    destruct (with_config_sim protos hA hB _ _ _ _ EA EB Hp Ew) as (hB1 & b & Ew' & XA & XB & Sab).
    destruct (IH hA1 hB1 hA' l (ext_trans _ _ _ EA XA) (ext_trans _ _ _ EB XB) Hrest Ec)
      as (hB2 & lB & Ec' & YA & YB & Sl).
    exists hB2, (b :: lB). rewrite Ew', Ec'. repeat split.
    + eapply ext_trans; eassumption.
    + eapply ext_trans; eassumption.
    + constructor; [eapply same_obj_ext; eassumption | exact Sl].
Qed.

Lemma create_rule_ext : forall steps h h' l, create_rule h steps = Some (h', l) -> ext h h'.
Proof.
  induction steps as [|s rest IH]; intros h h' l H; simpl in H.
  - inversion H. apply ext_refl.
  - destruct (with_config h (sc_proto s) (sc_config s)) as [[h1 a]|] eqn:Ew; [|discriminate].
    destruct (create_rule h1 rest) as [[h2 l2]|] eqn:Ec; [|discriminate]. inversion H; subst.
    eapply ext_trans; [|eapply IH; eassumption].
    unfold with_config in Ew. destruct (nth_error h (sc_proto s)) as [o|]; [|discriminate].
    destruct (sc_config s) as [[t' ov]|]; [destruct (o_type o)|]; inversion Ew; subst;
      first [apply ext_refl | eexists; reflexivity].
Qed.

Lemma load_ext : forall rules h h' ls, load h rules = Some (h', ls) -> ext h h'.
Proof.
  induction rules as [|r rest IH]; intros h h' ls H; simpl in H.
  - inversion H. apply ext_refl.
  - destruct (create_rule h r) as [[h1 l]|] eqn:Ec; [|discriminate].
    destruct (load h1 rest) as [[h2 ls2]|] eqn:El; [|discriminate]. inversion H; subst.
    eapply ext_trans; [eapply create_rule_ext; eassumption | eapply IH; eassumption].
Qed.

Lemma load_independent protos : forall rules h h' ls,
  ext protos h ->
  Forall (Forall (fun s => sc_proto s < length protos)) rules ->
  load h rules = Some (h', ls) ->
  forall k steps al, nth_error rules k = Some steps -> nth_error ls k = Some al ->
  exists h1 al1, create_rule protos steps = Some (h1, al1) /\ Forall2 (same_obj h' h1) al al1.
Proof.
  induction rules as [|r rest IH]; intros h h' ls E Hr H k steps al Hk Hl; simpl in H.
  - destruct k; discriminate.
  - inversion Hr as [|? ? Hr1 Hrest]; subst.
    destruct (create_rule h r) as [[h1 l]|] eqn:Ec; [|discriminate].
    destruct (load h1 rest) as [[h2 ls2]|] eqn:El; [|discriminate]. inversion H; subst.
    pose proof (create_rule_ext _ _ _ _ Ec) as X1. pose proof (load_ext _ _ _ _ El) as X2.
    destruct k as [|k]; simpl in Hk, Hl.
    + inversion Hk; inversion Hl; subst.
      destruct (create_rule_sim protos steps h protos h1 al E (ext_refl _) Hr1 Ec) as (hB & lB & Ec' & _ & XB & S).
      exists hB, lB. split; [exact Ec'|].
      clear - S X2. induction S; constructor; [|assumption].
      eapply same_obj_ext; [exact X2 | apply ext_refl | eassumption].
    + eapply (IH h1 h' ls2); try eassumption. eapply ext_trans; eassumption.
Qed.

(** History independence.  Rules created one after the other from the prototypes
    [protos] (steps name prototypes only): the authenticator objects rule [k] ends up
    with are — address by address, type and flag — those it gets when it is created
    ALONE from fresh prototypes.  So neither the rules created before it nor those
    created after it (nor their order) have any influence on what
    IsFallbackOnErrorAllowed() answers for its steps. *)
Theorem flag_history_independent protos rules h ls :
  Forall (Forall (fun s => sc_proto s < length protos)) rules ->
  load protos rules = Some (h, ls) ->
  forall k steps al, nth_error rules k = Some steps -> nth_error ls k = Some al ->
  exists h1 al1, create_rule protos steps = Some (h1, al1) /\
    Forall2 (fun a b => exists o, nth_error h a = Some o /\ nth_error h1 b = Some o) al al1.
Proof.
  intros Hr H k steps al Hk Hl.
  destruct (load_independent protos rules protos h ls (ext_refl _) Hr H k steps al Hk Hl) as (h1 & al1 & Ec & S).
  exists h1, al1. split; [exact Ec|].
  clear - S. induction S as [|a b l1 l2 (Ha & Hb & E) _ IH]; constructor; [|exact IH].
  destruct (nth_error h a) as [o|] eqn:Eo.
  - exists o. split; [reflexivity | rewrite <- E; reflexivity].
  - apply nth_error_None in Eo. lia.
Qed.

(** ... and created alone, the flag of a step is the rule-level setting if the step
    has one, else the prototype's (anonymous and unauthorized: never) — the function
    [fallback_allowed] of the evaluator's resolved steps *)
Theorem step_flag_alone protos s p h a :
  nth_error protos (sc_proto s) = Some p ->
  with_config protos (sc_proto s) (sc_config s) = Some (h, a) ->
  exists o, nth_error h a = Some o /\
    obj_fallback o =
    match sc_config s with
    | None => obj_fallback p
    | Some (t', ov) =>
        match o_type p with
        | TUnauthorized => false
        | _ => fallback_allowed {| a_type := t'; a_proto_fb := o_flag p; a_over_fb := ov |}
        end
    end.
Proof.
  intros Hp H. unfold with_config in H. rewrite Hp in H.
  destruct (sc_config s) as [[t' ov]|].
  - destruct (o_type p) eqn:Et; inversion H; subst;
      try (eexists; split; [rewrite nth_error_app2 by lia; rewrite Nat.sub_diag; reflexivity|];
           unfold obj_fallback, fallback_allowed, configured_fb; simpl; destruct t'; destruct ov; reflexivity).
    exists p. split; [exact Hp|]. unfold obj_fallback. rewrite Et. reflexivity.
  - inversion H; subst. exists p. split; [exact Hp | reflexivity].
Qed.
