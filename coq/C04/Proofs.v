(** C04 — specification vocabulary and proofs for the authenticator chain. *)
From HV Require Import Base.Prelude C04.Model.

(** ** Specification vocabulary (transcribed from the property statement) *)

(** the authenticator succeeds on the request *)
Definition accepts (a : cauthn) (s : string) : Prop := c_out a = Accepted s.
Definition succeeds (a : cauthn) : Prop := exists s, accepts a s.

(** "found no usable credentials of its kind in the request" *)
Definition no_credentials (a : cauthn) : Prop := c_out a = Failed ENoCreds.

(** "explicitly allows fallback on error" (and did fail) *)
Definition opted_in (a : cauthn) : Prop := c_fb a = true /\ exists e, c_out a = Failed e.

(** the condition under which a later authenticator may be consulted *)
Definition lets_pass (a : cauthn) : Prop := no_credentials a \/ opted_in a.

(** "found credentials and rejected them and does not allow fallback" — any
    failure other than missing credentials counts (rejection, remote failure) *)
Definition blocks (a : cauthn) (e : err) : Prop :=
  c_out a = Failed e /\ e <> ENoCreds /\ c_fb a = false.

(** the specification of the chain as a relation between a chain and (number of
    authenticators consulted, answer) *)
Inductive spec : list cauthn -> nat * result -> Prop :=
| spec_nil : spec [] (0, RNil)
| spec_subject pre a post s :
    Forall lets_pass pre -> accepts a s ->
    spec (pre ++ a :: post) (S (length pre), RSubject s)
| spec_blocked pre a post e :
    Forall lets_pass pre -> blocks a e ->
    spec (pre ++ a :: post) (S (length pre), RError e)
| spec_exhausted pre a e :
    Forall lets_pass pre -> lets_pass a -> c_out a = Failed e ->
    spec (pre ++ [a]) (S (length pre), RError e).

(** ** The index test of the loop is always true *)

Lemma exec_loop_plain ca : forall len idx last,
  idx + length ca = len ->
  exec_loop len idx last ca =
  (idx + fst (exec_plain last ca), snd (exec_plain last ca)).
Proof.
  induction ca as [|a rest IH]; intros len idx last Hlen; simpl.
  - f_equal. lia.
  - simpl in Hlen. destruct (c_out a) as [s|e].
    + simpl. f_equal. lia.
    + assert (Hlt : Nat.ltb idx len = true) by (apply Nat.ltb_lt; lia).
      rewrite Hlt, andb_true_r.
      destruct (is_argument e || c_fb a).
      * rewrite (IH len (S idx) (Some e)) by lia.
        destruct (exec_plain (Some e) rest) as [n r]; simpl. f_equal. lia.
      * simpl. f_equal. lia.
Qed.

Lemma execute_plain ca : execute ca = exec_plain None ca.
Proof.
  unfold execute. rewrite (exec_loop_plain ca (length ca) 0 None) by reflexivity.
  destruct (exec_plain None ca); reflexivity.
Qed.

(** ** exec_plain against the specification *)

Lemma passes_iff a e :
  c_out a = Failed e -> (is_argument e || c_fb a = true <-> lets_pass a).
Proof.
  intro Ho. unfold lets_pass, no_credentials, opted_in. rewrite Ho. split.
  - intro H. apply orb_true_iff in H as [H|H].
    + left. destruct e; simpl in H; congruence.
    + right. split; [assumption | eauto].
  - intros [H | [H _]].
    + inversion H; subst. reflexivity.
    + rewrite H. apply orb_true_r.
Qed.

Lemma not_passes_blocks a e :
  c_out a = Failed e -> is_argument e || c_fb a = false -> blocks a e.
Proof.
  intros Ho H. apply orb_false_iff in H as [H1 H2]. repeat split; try assumption.
  intro; subst; discriminate.
Qed.

Definition last_result (last : option err) : result :=
  match last with None => RNil | Some e => RError e end.

(** the answer of a non-empty chain, generalised over the loop variable *)
Lemma exec_plain_spec ca : forall last a0, ca = a0 :: tl ca -> spec ca (exec_plain last ca).
Proof.
  induction ca as [|a rest IH]; intros last a0 Hne; [discriminate|].
  simpl. destruct (c_out a) as [s|e] eqn:Ho.
  - apply (spec_subject [] a rest s); [constructor | exact Ho].
  - destruct (is_argument e || c_fb a) eqn:Hp.
    + assert (Hpass : lets_pass a) by (apply (passes_iff a e Ho); exact Hp).
      destruct rest as [|b rest'].
      * simpl. apply (spec_exhausted [] a e); [constructor | exact Hpass | exact Ho].
      * specialize (IH (Some e) b eq_refl).
        destruct (exec_plain (Some e) (b :: rest')) as [n r] eqn:Er.
        inversion IH as [ | pre x post s Hpre Hx Hca Hr | pre x post e' Hpre Hx Hca Hr | pre x e' Hpre Hx Hxo Hca Hr]; subst.
        -- apply (spec_subject (a :: pre) x post s); [constructor; assumption | assumption].
        -- apply (spec_blocked (a :: pre) x post e'); [constructor; assumption | assumption].
        -- apply (spec_exhausted (a :: pre) x e'); [constructor; assumption | assumption | assumption].
    + apply (spec_blocked [] a rest e); [constructor | apply not_passes_blocks; assumption].
Qed.

Theorem execute_meets_spec ca : spec ca (execute ca).
Proof.
  rewrite execute_plain. destruct ca as [|a rest].
  - simpl. constructor.
  - apply (exec_plain_spec (a :: rest) None a). reflexivity.
Qed.

(** ** The specification is functional, so it characterises [execute] *)

Lemma lets_pass_not_accepts a s : lets_pass a -> ~ accepts a s.
Proof.
  unfold lets_pass, no_credentials, opted_in, accepts.
  intros [H | [_ [e H]]] Ha; congruence.
Qed.

Lemma lets_pass_not_blocks a e : lets_pass a -> ~ blocks a e.
Proof.
  unfold lets_pass, no_credentials, opted_in, blocks.
  intros [H | [Hf [e' H]]] (Ho & Hne & Hfb); congruence.
Qed.

(** a prefix of authenticators that all let pass is skipped *)
Lemma plain_prefix pre : forall last rest,
  Forall lets_pass pre ->
  exists last', exec_plain last (pre ++ rest) =
                (length pre + fst (exec_plain last' rest), snd (exec_plain last' rest)).
Proof.
  induction pre as [|x r IH]; intros last rest P.
  - exists last. simpl. destruct (exec_plain last rest); reflexivity.
  - inversion P as [|? ? Hx Hr]; subst. simpl.
    destruct (c_out x) as [s|e] eqn:Ho.
    + exfalso. exact (lets_pass_not_accepts x s Hx Ho).
    + apply (passes_iff x e Ho) in Hx. rewrite Hx.
      destruct (IH (Some e) rest Hr) as (last' & ->). exists last'. reflexivity.
Qed.

Lemma spec_execute ca r : spec ca r -> execute ca = r.
Proof.
  intro H. rewrite execute_plain.
  destruct H as [ | pre a post s P A | pre a post e P B | pre a e P A O].
  - reflexivity.
  - destruct (plain_prefix pre None (a :: post) P) as (last' & ->). simpl.
    unfold accepts in A. rewrite A. simpl. f_equal. lia.
  - destruct (plain_prefix pre None (a :: post) P) as (last' & ->). simpl.
    destruct B as (Bo & Bne & Bfb). rewrite Bo, Bfb.
    destruct e; try congruence; simpl; f_equal; lia.
  - destruct (plain_prefix pre None [a] P) as (last' & ->). simpl.
    rewrite O. apply (passes_iff a e O) in A. rewrite A. simpl. f_equal. lia.
Qed.

Theorem spec_functional ca r1 r2 : spec ca r1 -> spec ca r2 -> r1 = r2.
Proof. intros H1 H2. apply spec_execute in H1, H2. congruence. Qed.

Theorem execute_iff_spec ca r : execute ca = r <-> spec ca r.
Proof.
  split.
  - intros <-. apply execute_meets_spec.
  - apply spec_execute.
Qed.

(** ** The three sentences of the property *)

(** "the subject is the one produced by the first that succeeds" *)
Theorem first_success_wins ca n s :
  execute ca = (n, RSubject s) ->
  exists pre a post, ca = pre ++ a :: post /\ n = S (length pre) /\
    accepts a s /\ Forall (fun b => ~ succeeds b) pre /\ Forall lets_pass pre.
Proof.
  intro H. apply execute_iff_spec in H.
  inversion H as [ | pre a post s' P A E R | | ]; subst.
  exists pre, a, post. repeat split; try assumption.
  eapply Forall_impl; [|exact P]. intros b Hb [s'' Hs]. exact (lets_pass_not_accepts b s'' Hb Hs).
Qed.

(** "a later authenticator is consulted only if every earlier one found no
    credentials or allows fallback": every authenticator before the last
    consulted one lets pass ([n] = number of authenticators consulted) *)
Theorem later_only_if_all_earlier_pass ca n r :
  execute ca = (n, r) ->
  forall j, S j < n ->
  exists b, nth_error ca j = Some b /\ lets_pass b.
Proof.
  intros H j Hj. apply execute_iff_spec in H.
  assert (Hpre : exists pre rest, ca = pre ++ rest /\ Forall lets_pass pre /\ n = S (length pre)).
  { inversion H; subst; try lia; eauto. }
  destruct Hpre as (pre & rest & -> & P & ->).
  assert (Hjl : j < length pre) by lia.
  destruct (nth_error pre j) as [b|] eqn:Eb.
  - exists b. split.
    + rewrite nth_error_app1 by assumption. exact Eb.
    + rewrite Forall_forall in P. apply P. eapply nth_error_In; eauto.
  - apply nth_error_None in Eb. lia.
Qed.

(** and all consulted authenticators are a prefix of the chain *)
Theorem consulted_bounded ca : fst (execute ca) <= length ca.
Proof.
  pose proof (execute_meets_spec ca) as H. destruct (execute ca) as [n r]. simpl.
  inversion H; subst; simpl; rewrite ?app_length; simpl; lia.
Qed.

(** "if an authenticator found credentials and rejected them and does not
    allow fallback, authentication fails even when a later one would succeed" *)
Theorem rejected_without_optin_fails pre a post e :
  Forall (fun b => ~ succeeds b) pre -> blocks a e ->
  exists n e', execute (pre ++ a :: post) = (n, RError e') /\ n <= S (length pre).
Proof.
  revert post. induction pre as [|x r IH]; intros post Hpre Hb.
  - exists 1, e. split; [|simpl; lia]. apply execute_iff_spec.
    apply (spec_blocked [] a post e); [constructor | exact Hb].
  - inversion Hpre as [|? ? Hx Hr]; subst.
    destruct (IH post Hr Hb) as (n & e' & Hex & Hn).
    rewrite execute_plain in *. simpl.
    destruct (c_out x) as [s|ex] eqn:Ho.
    + exfalso. apply Hx. exists s. exact Ho.
    + destruct (is_argument ex || c_fb x).
      * assert (Hgen : forall last, exists e'', exec_plain last (r ++ a :: post) = (n, RError e'')).
        { clear - Hex. revert Hex. generalize (r ++ a :: post) as l. intros l.
          destruct l as [|y l']; simpl.
          - intro H; inversion H.
          - intros H last. destruct (c_out y) as [sy|ey]; [inversion H|].
            destruct (is_argument ey || c_fb y).
            + destruct l' as [|z l''].
              * simpl in *. inversion H; subst. eauto.
              * eauto.
            + eauto. }
        destruct (Hgen (Some ex)) as (e'' & He''). rewrite He''. exists (S n), e''. split; [reflexivity | simpl; lia].
      * exists 1, ex. split; [reflexivity | simpl; lia].
Qed.

(** when every earlier authenticator lets pass, the answer is exactly the
    blocking authenticator's error and nothing after it is consulted *)
Theorem rejected_without_optin_exact pre a post e :
  Forall lets_pass pre -> blocks a e ->
  execute (pre ++ a :: post) = (S (length pre), RError e).
Proof.
  intros P B. apply execute_iff_spec. apply spec_blocked; assumption.
Qed.

(** a non-empty chain never answers (nil, nil) *)
Theorem nonempty_not_nil ca n : ca <> [] -> execute ca <> (n, RNil).
Proof.
  intros Hne H. apply execute_iff_spec in H. inversion H; subst. congruence.
Qed.

(** ** "tried in the configured order": the calls are a prefix of the chain *)

Lemma exec_log_prefix ca : forall len idx log,
  idx + length ca = len ->
  exec_log len idx ca log = rev log ++ firstn (fst (exec_plain None ca)) ca.
Proof.
  induction ca as [|a rest IH]; intros len idx log Hlen; simpl.
  - rewrite app_nil_r. reflexivity.
  - simpl in Hlen. destruct (c_out a) as [s|e]; simpl.
    + reflexivity.
    + assert (Hlt : Nat.ltb idx len = true) by (apply Nat.ltb_lt; lia).
      rewrite Hlt, andb_true_r.
      destruct (is_argument e || c_fb a).
      * rewrite (IH len (S idx) (a :: log)) by lia. simpl.
        (* the count does not depend on the loop variable *)
        assert (Hc : forall l1 l2, fst (exec_plain l1 rest) = fst (exec_plain l2 rest)).
        { clear. induction rest as [|b r IHr]; intros l1 l2; simpl; [reflexivity|].
          destruct (c_out b); [reflexivity|]. destruct (is_argument e || c_fb b); [|reflexivity].
          reflexivity. }
        specialize (Hc (Some e) None).
        destruct (exec_plain (Some e) rest) as [n r]. destruct (exec_plain None rest) as [n' r'].
        simpl in *. subst n'. rewrite <- app_assoc. reflexivity.
      * reflexivity.
Qed.

(** the authenticators whose Execute is called are, in call order, the first
    [n] of the configured list, [n] being the number [execute] reports *)
Theorem calls_are_prefix ca : calls ca = firstn (fst (execute ca)) ca.
Proof.
  unfold calls. rewrite (exec_log_prefix ca (length ca) 0 []) by reflexivity.
  rewrite execute_plain. reflexivity.
Qed.

(** ** Type level: which requests are classified "no credentials" *)

(** the kind of credentials an authenticator type works with; anonymous and
    unauthorized do not look at the request *)
Inductive cred_kind :=
| CBasic                          (* user-id and password in an Authorization header with the Basic scheme *)
| CBearer (src : bsource)         (* a bearer token in one of the token sources *)
| CBearerJws (src : bsource)      (* a bearer token in one of the token sources that has the form of a JWS *)
| CSession.                       (* a session value in the cookie or the header *)

Definition kind_of (t : atype) : option cred_kind :=
  match t with
  | TAnonymous _ | TUnauthorized => None
  | TBasic _ _ => Some CBasic
  | TJwt src _ _ _ => Some (CBearerJws src)
  | TIntro src _ _ _ => Some (CBearer src)
  | TGeneric _ _ => Some CSession
  end.

Definition has_jws_form (t : token) : bool :=
  match t_jwt t with NotJWS => false | JWSNoClaims | JWS _ _ => true end.

(** the token the request carries for a source list: the sources are looked at
    in their order, the first one that has a token counts *)
Definition carried (src : bsource) (q : request) : option token :=
  match src with
  | SrcDefault =>
      match q_auth q, q_query q, q_body q with
      | AHBearer t, _, _ => Some t
      | _, Some t, _ => Some t
      | _, None, BodyTok t => Some t
      | _, None, _ => None
      end
  | SrcCustom =>
      match q_xtok q, q_query q with
      | Some t, _ => Some t
      | None, o => o
      end
  end.

(** credentials of the kind are present in the request — defined on the request
    alone, independently of [classify] *)
Definition presented (k : cred_kind) (q : request) : bool :=
  match k with
  | CBasic => match q_auth q with AHBasic _ => true | _ => false end
  | CBearer src => match carried src q with Some _ => true | None => false end
  | CBearerJws src => match carried src q with Some t => has_jws_form t | None => false end
  | CSession => match q_cookie q, q_xsess q with None, None => false | _, _ => true end
  end.

Lemma bearer_token_carried src q : bearer_token src q = carried src q.
Proof.
  destruct src; unfold bearer_token, carried, hdr_bearer, body_param; simpl.
  - destruct (q_auth q); destruct (q_query q); destruct (q_body q); reflexivity.
  - destruct (q_xtok q); destruct (q_query q); reflexivity.
Qed.

Lemma remote_failure_not_nocreds s e : remote_failure s = Some e -> e <> ENoCreds.
Proof. destruct s; simpl; intro H; inversion H; discriminate. Qed.

Lemma reached_not_nocreds h rem q e : reached h rem q = Some e -> e <> ENoCreds.
Proof. unfold reached. destruct h; simpl; try discriminate. apply remote_failure_not_nocreds. Qed.

Lemma discover_not_nocreds d i e : discover d i = Some e -> e <> ENoCreds.
Proof.
  destruct d as [|s| |]; simpl; try discriminate.
  - apply remote_failure_not_nocreds.
  - intro H; inversion H; discriminate.
  - destruct i as [[|]|]; intro H; inversion H; discriminate.
Qed.

Lemma jwt_answer_not_nocreds strict v : jwt_answer strict v <> Failed ENoCreds.
Proof. destruct v; simpl; try discriminate; destruct strict; discriminate. Qed.

Lemma intro_answer_not_nocreds strict i : intro_answer_of strict i <> Failed ENoCreds.
Proof. destruct i; simpl; try discriminate; destruct strict; discriminate. Qed.

(** per type with a credential kind: the answer is an argument-kind ("no
    credentials") error exactly when no credentials of the kind are presented,
    whatever the endpoints and the cache do *)
Theorem classify_sound t k h q :
  kind_of t = Some k ->
  (classify t h q = Failed ENoCreds <-> presented k q = false).
Proof.
  destruct t as [sub| |u p|src d rem strict|src d rem strict|rem ls]; simpl; intro Hk; inversion Hk; subst; clear Hk; simpl.
  - unfold classify_basic. destruct (q_auth q) as [| |[|n|u' p']|t]; simpl;
      try (split; congruence).
    destruct (String.eqb u' u && String.eqb p' p); split; congruence.
  - unfold classify_jwt. rewrite bearer_token_carried.
    destruct (carried src q) as [t|]; [|split; congruence].
    unfold has_jws_form. destruct (t_jwt t) as [| |known v]; try (split; congruence).
    destruct (discover d (Some known)) as [e|] eqn:Ed.
    { pose proof (discover_not_nocreds _ _ _ Ed). split; congruence. }
    destruct (reached h rem q) as [e|] eqn:Er.
    { pose proof (reached_not_nocreds _ _ _ _ Er). split; congruence. }
    pose proof (jwt_answer_not_nocreds strict v). split; congruence.
  - unfold classify_intro. rewrite bearer_token_carried.
    destruct (carried src q) as [t|]; [|split; congruence].
    destruct (discover d (issuer_known t)) as [e|] eqn:Ed.
    { pose proof (discover_not_nocreds _ _ _ Ed). split; congruence. }
    destruct (reached h rem q) as [e|] eqn:Er.
    { pose proof (reached_not_nocreds _ _ _ _ Er). split; congruence. }
    pose proof (intro_answer_not_nocreds strict (t_intro t)). split; congruence.
  - unfold classify_generic, session_value. simpl.
    destruct (q_cookie q) as [s|]; [|destruct (q_xsess q) as [s|]];
      try (split; congruence);
      (destruct h; try (split; congruence));
      (match goal with |- context [reached ?h rem q] => destruct (reached h rem q) as [e|] eqn:Er end;
       [pose proof (reached_not_nocreds _ _ _ _ Er); split; congruence|]);
      destruct s; try (split; congruence);
      match goal with |- context [if ?c then _ else _] => destruct c end; split; congruence.
Qed.

(** anonymous never fails, unauthorized always rejects: neither ever reports "no credentials" *)
Theorem classify_kindless t h q :
  kind_of t = None -> classify t h q <> Failed ENoCreds.
Proof. destruct t; simpl; intro Hk; try discriminate. Qed.

(** ** The fallback flag: "explicitly allows fallback on error" *)

(** the step opts in: its rule-level setting says so, or it has none and the
    prototype says so *)
Inductive opts_in (a : authn) : Prop :=
| optin_rule : a_over_fb a = Some true -> opts_in a
| optin_proto : a_over_fb a = None -> a_proto_fb a = true -> opts_in a.

(** what IsFallbackOnErrorAllowed() answers is never more than what is configured ... *)
Theorem fallback_only_if_opted_in a : fallback_allowed a = true -> opts_in a.
Proof.
  unfold fallback_allowed, configured_fb.
  destruct (a_type a); try discriminate;
    destruct (a_over_fb a) as [[|]|] eqn:Eo; intro H; try discriminate;
    try (apply optin_rule; assumption); apply optin_proto; assumption.
Qed.

(** ... and for the types that can be configured it is exactly that *)
Theorem fallback_iff_opted_in a :
  kind_of (a_type a) <> None -> (fallback_allowed a = true <-> opts_in a).
Proof.
  intro Hk. split; [apply fallback_only_if_opted_in|].
  unfold fallback_allowed, configured_fb. intro H.
  destruct (a_type a); simpl in Hk; try congruence;
    destruct H as [H | H1 H2]; rewrite ?H, ?H1; auto.
Qed.

(** ** Both levels together, on chains of real authenticator types *)

Lemma to_chain_app q pre : forall l hits,
  exists hs', to_chain q (pre ++ l) hits = to_chain q pre hits ++ to_chain q l hs'.
Proof.
  induction pre as [|x r IH]; intros l hits; simpl.
  - exists hits. reflexivity.
  - destruct hits as [|h hs].
    + destruct (IH l []) as (hs' & ->). exists hs'. reflexivity.
    + destruct (IH l hs) as (hs' & ->). exists hs'. reflexivity.
Qed.

Lemma to_chain_length q ca : forall hits, length (to_chain q ca hits) = length ca.
Proof.
  induction ca as [|a r IH]; intro hits; simpl; [reflexivity|].
  destruct hits; simpl; rewrite IH; reflexivity.
Qed.

Lemma to_chain_In q ca : forall hits b,
  In b (to_chain q ca hits) ->
  exists a h, In a ca /\ b = {| c_out := classify (a_type a) h q; c_fb := fallback_allowed a |}.
Proof.
  induction ca as [|a r IH]; intros hits b Hb; simpl in Hb; [contradiction|].
  destruct hits as [|h hs]; simpl in Hb; destruct Hb as [<- | Hb].
  - exists a, LMiss. split; [left; reflexivity | reflexivity].
  - destruct (IH [] b Hb) as (a' & h' & Hin & E). exists a', h'. split; [right; assumption | assumption].
  - exists a, h. split; [left; reflexivity | reflexivity].
  - destruct (IH hs b Hb) as (a' & h' & Hin & E). exists a', h'. split; [right; assumption | assumption].
Qed.

Lemma to_chain_nth q ca : forall hits j b,
  nth_error (to_chain q ca hits) j = Some b ->
  exists a h, nth_error ca j = Some a /\ b = {| c_out := classify (a_type a) h q; c_fb := fallback_allowed a |}.
Proof.
  induction ca as [|a r IH]; intros hits j b Hb; simpl in Hb.
  - destruct j; discriminate.
  - destruct hits as [|h hs]; destruct j as [|j]; simpl in Hb.
    + inversion Hb. exists a, LMiss. split; reflexivity.
    + destruct (IH [] j b Hb) as (a' & h' & Hn & E). exists a', h'. split; assumption.
    + inversion Hb. exists a, h. split; reflexivity.
    + destruct (IH hs j b Hb) as (a' & h' & Hn & E). exists a', h'. split; assumption.
Qed.

(** the authenticator never accepts the request, whatever the cache holds *)
Definition never_accepts (q : request) (a : authn) : Prop :=
  forall h s, classify (a_type a) h q <> Accepted s.

(** an authenticator that on this request never accepts and never reports "no
    credentials", and is not opted in, ends the authentication with an error,
    whatever follows (e.g. anonymous) *)
Lemma typed_blocks q hits pre a post :
  Forall (never_accepts q) pre ->
  (forall h, exists e, classify (a_type a) h q = Failed e /\ e <> ENoCreds) ->
  fallback_allowed a = false ->
  exists n e, authenticate (pre ++ a :: post) hits q = (n, RError e) /\ n <= S (length pre).
Proof.
  intros Hpre Hf Hfb. unfold authenticate.
  destruct (to_chain_app q pre (a :: post) hits) as (hs' & ->).
  simpl. destruct hs' as [|h hs''].
  - destruct (Hf LMiss) as (e & Hc & Hne).
    destruct (rejected_without_optin_fails (to_chain q pre hits)
                {| c_out := classify (a_type a) LMiss q; c_fb := fallback_allowed a |}
                (to_chain q post []) e) as (n & e' & H & Hn).
    + apply Forall_forall. intros x Hx. apply to_chain_In in Hx as (b & h' & Hb & ->).
      rewrite Forall_forall in Hpre. intros [s Hs]. exact (Hpre b Hb h' s Hs).
    + repeat split; assumption.
    + exists n, e'. split; [exact H | rewrite to_chain_length in Hn; exact Hn].
  - destruct (Hf h) as (e & Hc & Hne).
    destruct (rejected_without_optin_fails (to_chain q pre hits)
                {| c_out := classify (a_type a) h q; c_fb := fallback_allowed a |}
                (to_chain q post hs'') e) as (n & e' & H & Hn).
    + apply Forall_forall. intros x Hx. apply to_chain_In in Hx as (b & h' & Hb & ->).
      rewrite Forall_forall in Hpre. intros [s Hs]. exact (Hpre b Hb h' s Hs).
    + repeat split; assumption.
    + exists n, e'. split; [exact H | rewrite to_chain_length in Hn; exact Hn].
Qed.

(** the request carries credentials of the authenticator's kind (unauthorized,
    which has no kind, treats every request as rejected) *)
Definition presents (q : request) (a : authn) : Prop :=
  match kind_of (a_type a) with Some k => presented k q = true | None => True end.

(** the property on real chains: an authenticator that finds credentials of its
    kind, does not accept them and is not opted in ends the authentication with
    an error, whatever follows *)
Theorem typed_rejected_blocks q hits pre a post :
  Forall (never_accepts q) pre ->
  presents q a -> never_accepts q a -> ~ opts_in a ->
  exists n e, authenticate (pre ++ a :: post) hits q = (n, RError e) /\ n <= S (length pre).
Proof.
  intros Hpre Hp Hna Hno. apply typed_blocks; try assumption.
  - intro h. destruct (classify (a_type a) h q) as [s|e] eqn:Hc; [exfalso; exact (Hna h s Hc)|].
    exists e. split; [reflexivity|]. intros ->. unfold presents in Hp.
    destruct (kind_of (a_type a)) as [k|] eqn:Hk.
    + apply (classify_sound _ _ h q Hk) in Hc. congruence.
    + exact (classify_kindless _ h q Hk Hc).
  - destruct (fallback_allowed a) eqn:Hfb; [|reflexivity].
    exfalso. apply Hno. apply fallback_only_if_opted_in. exact Hfb.
Qed.

(** a later authenticator of a real chain is consulted only if every earlier one
    found no credentials of its kind in the request or is opted in *)
Theorem typed_later_only_if q hits ca n r :
  authenticate ca hits q = (n, r) ->
  forall j, S j < n ->
  exists a, nth_error ca j = Some a /\
    ((exists k, kind_of (a_type a) = Some k /\ presented k q = false) \/ opts_in a).
Proof.
  intros H j Hj. unfold authenticate in H.
  destruct (later_only_if_all_earlier_pass _ _ _ H j Hj) as (b & Hb & Hpass).
  apply to_chain_nth in Hb as (a & h & Ha & ->). exists a. split; [exact Ha|].
  destruct Hpass as [Hn | [Hfb _]].
  - left. unfold no_credentials in Hn. simpl in Hn.
    destruct (kind_of (a_type a)) as [k|] eqn:Hk.
    + exists k. split; [reflexivity|]. apply (classify_sound _ _ h q Hk). exact Hn.
    + exfalso. exact (classify_kindless _ h q Hk Hn).
  - right. simpl in Hfb. apply fallback_only_if_opted_in. exact Hfb.
Qed.

(** the subject of a real chain is the one of the FIRST authenticator that accepts:
    the accepting step is the last consulted one, at its position of the chain as
    the composite sees it ([to_chain], i.e. with that position's cache lookup), and
    no step at an earlier position accepted the request *)
Theorem typed_first_success q hits ca n s :
  authenticate ca hits q = (n, RSubject s) ->
  exists j a h, n = S j /\ nth_error ca j = Some a /\ classify (a_type a) h q = Accepted s /\
    nth_error (to_chain q ca hits) j = Some {| c_out := classify (a_type a) h q; c_fb := fallback_allowed a |} /\
    forall i b, i < j -> nth_error (to_chain q ca hits) i = Some b -> forall s', c_out b <> Accepted s'.
Proof.
  intro H. unfold authenticate in H.
  destruct (first_success_wins _ _ _ H) as (pre & b & post & E & -> & Hacc & Hnot & _).
  assert (Hb : nth_error (to_chain q ca hits) (length pre) = Some b).
  { rewrite E. rewrite nth_error_app2 by lia. rewrite Nat.sub_diag. reflexivity. }
  pose proof Hb as Hb'. apply to_chain_nth in Hb' as (a & h & Ha & Eb).
  exists (length pre), a, h. split; [reflexivity|]. split; [exact Ha|].
  split; [subst b; exact Hacc|]. split; [rewrite Hb, Eb; reflexivity|].
  intros i b' Hi Hb'' s' Hs'. rewrite E in Hb''. rewrite nth_error_app1 in Hb'' by exact Hi.
  apply nth_error_In in Hb''. rewrite Forall_forall in Hnot. apply (Hnot b' Hb''). exists s'. exact Hs'.
Qed.

(** ** The rejections the statement names *)

(** the endpoint of the instance is found and answers (or its answer is cached) *)
Definition endpoint_answers (d : disc) (rem : remote) (i : option bool) (q : request) : Prop :=
  discover d i = None /\ state_of rem q = SUp.

Inductive named_rejection (q : request) : atype -> Prop :=
| rej_wrong_password u p u' p' :
    q_auth q = AHBasic (BPair u' p') -> String.eqb u' u && String.eqb p' p = false ->
    named_rejection q (TBasic u p)
| rej_bad_signature src d rem strict t known :
    carried src q = Some t -> t_jwt t = JWS known JBadSig -> endpoint_answers d rem (Some known) q ->
    named_rejection q (TJwt src d rem strict)
| rej_failed_assertion_jwt src d rem strict t known :
    carried src q = Some t -> t_jwt t = JWS known JAssertFail -> endpoint_answers d rem (Some known) q ->
    named_rejection q (TJwt src d rem strict)
| rej_audience_or_scope_jwt src d rem t known sub :
    carried src q = Some t -> t_jwt t = JWS known (JNarrow sub) -> endpoint_answers d rem (Some known) q ->
    named_rejection q (TJwt src d rem true)
| rej_inactive_token src d rem strict t :
    carried src q = Some t -> t_intro t = IInactive -> endpoint_answers d rem (issuer_known t) q ->
    named_rejection q (TIntro src d rem strict)
| rej_failed_assertion_intro src d rem strict t :
    carried src q = Some t -> t_intro t = IAssertFail -> endpoint_answers d rem (issuer_known t) q ->
    named_rejection q (TIntro src d rem strict)
| rej_audience_or_scope_intro src d rem t sub :
    carried src q = Some t -> t_intro t = INarrow sub -> endpoint_answers d rem (issuer_known t) q ->
    named_rejection q (TIntro src d rem true).

Lemma named_rejection_rejects q t h : named_rejection q t -> classify t h q = Failed ERejected.
Proof.
  intro H. destruct H; simpl.
  - unfold classify_basic. rewrite H, H0. reflexivity.
  - unfold classify_jwt. rewrite bearer_token_carried, H, H0. destruct H1 as [-> Hs].
    unfold reached. rewrite Hs. destruct h; reflexivity.
  - unfold classify_jwt. rewrite bearer_token_carried, H, H0. destruct H1 as [-> Hs].
    unfold reached. rewrite Hs. destruct h; reflexivity.
  - unfold classify_jwt. rewrite bearer_token_carried, H, H0. destruct H1 as [-> Hs].
    unfold reached. rewrite Hs. destruct h; reflexivity.
  - unfold classify_intro. rewrite bearer_token_carried, H. destruct H1 as [-> Hs].
    unfold reached. rewrite Hs, H0. destruct h; reflexivity.
  - unfold classify_intro. rewrite bearer_token_carried, H. destruct H1 as [-> Hs].
    unfold reached. rewrite Hs, H0. destruct h; reflexivity.
  - unfold classify_intro. rewrite bearer_token_carried, H. destruct H1 as [-> Hs].
    unfold reached. rewrite Hs, H0. destruct h; reflexivity.
Qed.

(** wrong password, bad signature, inactive token, failed assertion: without
    opt-in the authentication fails even if a later authenticator would succeed *)
Theorem named_rejections_block q hits pre a post :
  Forall (never_accepts q) pre ->
  named_rejection q (a_type a) -> ~ opts_in a ->
  exists n e, authenticate (pre ++ a :: post) hits q = (n, RError e) /\ n <= S (length pre).
Proof.
  intros Hpre Hrej Hno. apply typed_blocks; try assumption.
  - intro h. exists ERejected. split; [apply named_rejection_rejects; assumption | discriminate].
  - destruct (fallback_allowed a) eqn:Hfb; [|reflexivity].
    exfalso. apply Hno. apply fallback_only_if_opted_in. exact Hfb.
Qed.

(** ** The executable form of the specification used by the evaluator *)

Definition lets_passb (a : cauthn) : bool :=
  match c_out a with Failed e => is_argument e || c_fb a | Accepted _ => false end.

(** first stopper by scanning; written without reference to [exec_loop] *)
Fixpoint spec_fun (n : nat) (last : result) (ca : list cauthn) : nat * result :=
  match ca with
  | [] => (n, last)
  | a :: rest =>
    match c_out a with
    | Accepted s => (S n, RSubject s)
    | Failed e => if lets_passb a then spec_fun (S n) (RError e) rest else (S n, RError e)
    end
  end.

Lemma spec_fun_plain ca : forall n last,
  spec_fun n (last_result last) ca = (n + fst (exec_plain last ca), snd (exec_plain last ca)).
Proof.
  induction ca as [|a rest IH]; intros n last; simpl.
  - f_equal. lia.
  - unfold lets_passb. destruct (c_out a) as [s|e]; simpl.
    + f_equal. lia.
    + destruct (is_argument e || c_fb a).
      * change (RError e) with (last_result (Some e)).
        rewrite (IH (S n) (Some e)). destruct (exec_plain (Some e) rest); simpl. f_equal. lia.
      * simpl. f_equal. lia.
Qed.

Theorem spec_fun_execute ca : spec_fun 0 RNil ca = execute ca.
Proof.
  rewrite execute_plain. change RNil with (last_result None).
  rewrite (spec_fun_plain ca 0 None). destruct (exec_plain None ca); reflexivity.
Qed.
