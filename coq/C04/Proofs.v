(** C04 — specification vocabulary and proofs for the authenticator chain. *)
From HV Require Import Base.Prelude C04.Model.

(** ** Specification vocabulary (transcribed from the property statement) *)

(** the authenticator succeeds on the request *)
Definition accepts (a : cauthn) (s : string) : Prop := c_out a = Accepted s.
Definition succeeds (a : cauthn) : Prop := exists s, accepts a s.

(** "found no usable credentials of its kind in the request" *)
Definition no_credentials (a : cauthn) : Prop := c_out a = Failed ENoCreds.

(** "explicitly allows fallback on error" (and did fail) *)
Definition opted_in (a : cauthn) : Prop := c_fb a = true /\ exists e, c_out a = Failed e.

(** the condition under which a later authenticator may be consulted *)
Definition lets_pass (a : cauthn) : Prop := no_credentials a \/ opted_in a.

(** "found credentials and rejected them and does not allow fallback" — any
    failure other than missing credentials counts (rejection, remote failure) *)
Definition blocks (a : cauthn) (e : err) : Prop :=
  c_out a = Failed e /\ e <> ENoCreds /\ c_fb a = false.

(** the specification of the chain as a relation between a chain and (number of
    authenticators consulted, answer) *)
Inductive spec : list cauthn -> nat * result -> Prop :=
| spec_nil : spec [] (0, RNil)
| spec_subject pre a post s :
    Forall lets_pass pre -> accepts a s ->
    spec (pre ++ a :: post) (S (length pre), RSubject s)
| spec_blocked pre a post e :
    Forall lets_pass pre -> blocks a e ->
    spec (pre ++ a :: post) (S (length pre), RError e)
| spec_exhausted pre a e :
    Forall lets_pass pre -> lets_pass a -> c_out a = Failed e ->
    spec (pre ++ [a]) (S (length pre), RError e).

(** ** The index test of the loop is always true *)

Lemma exec_loop_plain ca : forall len idx last,
  idx + length ca = len ->
  exec_loop len idx last ca =
  (idx + fst (exec_plain last ca), snd (exec_plain last ca)).
Proof.
  induction ca as [|a rest IH]; intros len idx last Hlen; simpl.
  - f_equal. lia.
  - simpl in Hlen. destruct (c_out a) as [s|e].
    + simpl. f_equal. lia.
    + assert (Hlt : Nat.ltb idx len = true) by (apply Nat.ltb_lt; lia).
      rewrite Hlt, andb_true_r.
      destruct (is_argument e || c_fb a).
      * rewrite (IH len (S idx) (Some e)) by lia.
        destruct (exec_plain (Some e) rest) as [n r]; simpl. f_equal. lia.
      * simpl. f_equal. lia.
Qed.

Lemma execute_plain ca : execute ca = exec_plain None ca.
Proof.
  unfold execute. rewrite (exec_loop_plain ca (length ca) 0 None) by reflexivity.
  destruct (exec_plain None ca); reflexivity.
Qed.

(** ** exec_plain against the specification *)

Lemma passes_iff a e :
  c_out a = Failed e -> (is_argument e || c_fb a = true <-> lets_pass a).
Proof.
  intro Ho. unfold lets_pass, no_credentials, opted_in. rewrite Ho. split.
  - intro H. apply orb_true_iff in H as [H|H].
    + left. destruct e; simpl in H; congruence.
    + right. split; [assumption | eauto].
  - intros [H | [H _]].
    + inversion H; subst. reflexivity.
    + rewrite H. apply orb_true_r.
Qed.

Lemma not_passes_blocks a e :
  c_out a = Failed e -> is_argument e || c_fb a = false -> blocks a e.
Proof.
  intros Ho H. apply orb_false_iff in H as [H1 H2]. repeat split; try assumption.
  intro; subst; discriminate.
Qed.

Definition last_result (last : option err) : result :=
  match last with None => RNil | Some e => RError e end.

(** the answer of a non-empty chain, generalised over the loop variable *)
Lemma exec_plain_spec ca : forall last a0, ca = a0 :: tl ca -> spec ca (exec_plain last ca).
Proof.
  induction ca as [|a rest IH]; intros last a0 Hne; [discriminate|].
  simpl. destruct (c_out a) as [s|e] eqn:Ho.
  - apply (spec_subject [] a rest s); [constructor | exact Ho].
  - destruct (is_argument e || c_fb a) eqn:Hp.
    + assert (Hpass : lets_pass a) by (apply (passes_iff a e Ho); exact Hp).
      destruct rest as [|b rest'].
      * simpl. apply (spec_exhausted [] a e); [constructor | exact Hpass | exact Ho].
      * specialize (IH (Some e) b eq_refl).
        destruct (exec_plain (Some e) (b :: rest')) as [n r] eqn:Er.
        inversion IH as [ | pre x post s Hpre Hx Hca Hr | pre x post e' Hpre Hx Hca Hr | pre x e' Hpre Hx Hxo Hca Hr]; subst.
        -- apply (spec_subject (a :: pre) x post s); [constructor; assumption | assumption].
        -- apply (spec_blocked (a :: pre) x post e'); [constructor; assumption | assumption].
        -- apply (spec_exhausted (a :: pre) x e'); [constructor; assumption | assumption | assumption].
    + apply (spec_blocked [] a rest e); [constructor | apply not_passes_blocks; assumption].
Qed.

Theorem execute_meets_spec ca : spec ca (execute ca).
Proof.
  rewrite execute_plain. destruct ca as [|a rest].
  - simpl. constructor.
  - apply (exec_plain_spec (a :: rest) None a). reflexivity.
Qed.

(** ** The specification is functional, so it characterises [execute] *)

Lemma lets_pass_not_accepts a s : lets_pass a -> ~ accepts a s.
Proof.
  unfold lets_pass, no_credentials, opted_in, accepts.
  intros [H | [_ [e H]]] Ha; congruence.
Qed.

Lemma lets_pass_not_blocks a e : lets_pass a -> ~ blocks a e.
Proof.
  unfold lets_pass, no_credentials, opted_in, blocks.
  intros [H | [Hf [e' H]]] (Ho & Hne & Hfb); congruence.
Qed.

(** a prefix of authenticators that all let pass is skipped *)
Lemma plain_prefix pre : forall last rest,
  Forall lets_pass pre ->
  exists last', exec_plain last (pre ++ rest) =
                (length pre + fst (exec_plain last' rest), snd (exec_plain last' rest)).
Proof.
  induction pre as [|x r IH]; intros last rest P.
  - exists last. simpl. destruct (exec_plain last rest); reflexivity.
  - inversion P as [|? ? Hx Hr]; subst. simpl.
    destruct (c_out x) as [s|e] eqn:Ho.
    + exfalso. exact (lets_pass_not_accepts x s Hx Ho).
    + apply (passes_iff x e Ho) in Hx. rewrite Hx.
      destruct (IH (Some e) rest Hr) as (last' & ->). exists last'. reflexivity.
Qed.

Lemma spec_execute ca r : spec ca r -> execute ca = r.
Proof.
  intro H. rewrite execute_plain.
  destruct H as [ | pre a post s P A | pre a post e P B | pre a e P A O].
  - reflexivity.
  - destruct (plain_prefix pre None (a :: post) P) as (last' & ->). simpl.
    unfold accepts in A. rewrite A. simpl. f_equal. lia.
  - destruct (plain_prefix pre None (a :: post) P) as (last' & ->). simpl.
    destruct B as (Bo & Bne & Bfb). rewrite Bo, Bfb.
    destruct e; try congruence; simpl; f_equal; lia.
  - destruct (plain_prefix pre None [a] P) as (last' & ->). simpl.
    rewrite O. apply (passes_iff a e O) in A. rewrite A. simpl. f_equal. lia.
Qed.

Theorem spec_functional ca r1 r2 : spec ca r1 -> spec ca r2 -> r1 = r2.
Proof. intros H1 H2. apply spec_execute in H1, H2. congruence. Qed.

Theorem execute_iff_spec ca r : execute ca = r <-> spec ca r.
Proof.
  split.
  - intros <-. apply execute_meets_spec.
  - apply spec_execute.
Qed.

(** ** The three sentences of the property *)

(** "the subject is the one produced by the first that succeeds" *)
Theorem first_success_wins ca n s :
  execute ca = (n, RSubject s) ->
  exists pre a post, ca = pre ++ a :: post /\ n = S (length pre) /\
    accepts a s /\ Forall (fun b => ~ succeeds b) pre /\ Forall lets_pass pre.
Proof.
  intro H. apply execute_iff_spec in H.
  inversion H as [ | pre a post s' P A E R | | ]; subst.
  exists pre, a, post. repeat split; try assumption.
  eapply Forall_impl; [|exact P]. intros b Hb [s'' Hs]. exact (lets_pass_not_accepts b s'' Hb Hs).
Qed.

(** "a later authenticator is consulted only if every earlier one found no
    credentials or allows fallback": every authenticator strictly before the
    last consulted one lets pass *)
Theorem later_only_if_all_earlier_pass ca n r :
  execute ca = (n, r) ->
  forall i, i < n -> forall j, j < i ->
  exists b, nth_error ca j = Some b /\ lets_pass b.
Proof.
  intros H i Hi j Hj. apply execute_iff_spec in H.
  assert (Hpre : exists pre rest, ca = pre ++ rest /\ Forall lets_pass pre /\ n = S (length pre)).
  { inversion H; subst; try lia; eauto. }
  destruct Hpre as (pre & rest & -> & P & ->).
  assert (Hjl : j < length pre) by lia.
  destruct (nth_error pre j) as [b|] eqn:Eb.
  - exists b. split.
    + rewrite nth_error_app1 by assumption. exact Eb.
    + rewrite Forall_forall in P. apply P. eapply nth_error_In; eauto.
  - apply nth_error_None in Eb. lia.
Qed.

(** and all consulted authenticators are a prefix of the chain *)
Theorem consulted_bounded ca : fst (execute ca) <= length ca.
Proof.
  pose proof (execute_meets_spec ca) as H. destruct (execute ca) as [n r]. simpl.
  inversion H; subst; simpl; rewrite ?app_length; simpl; lia.
Qed.

(** "if an authenticator found credentials and rejected them and does not
    allow fallback, authentication fails even when a later one would succeed" *)
Theorem rejected_without_optin_fails pre a post e :
  Forall (fun b => ~ succeeds b) pre -> blocks a e ->
  exists n e', execute (pre ++ a :: post) = (n, RError e') /\ n <= S (length pre).
Proof.
  revert post. induction pre as [|x r IH]; intros post Hpre Hb.
  - exists 1, e. split; [|simpl; lia]. apply execute_iff_spec.
    apply (spec_blocked [] a post e); [constructor | exact Hb].
  - inversion Hpre as [|? ? Hx Hr]; subst.
    destruct (IH post Hr Hb) as (n & e' & Hex & Hn).
    rewrite execute_plain in *. simpl.
    destruct (c_out x) as [s|ex] eqn:Ho.
    + exfalso. apply Hx. exists s. exact Ho.
    + destruct (is_argument ex || c_fb x).
      * assert (Hgen : forall last, exists e'', exec_plain last (r ++ a :: post) = (n, RError e'')).
        { clear - Hex. revert Hex. generalize (r ++ a :: post) as l. intros l.
          destruct l as [|y l']; simpl.
          - intro H; inversion H.
          - intros H last. destruct (c_out y) as [sy|ey]; [inversion H|].
            destruct (is_argument ey || c_fb y).
            + destruct l' as [|z l''].
              * simpl in *. inversion H; subst. eauto.
              * eauto.
            + eauto. }
        destruct (Hgen (Some ex)) as (e'' & He''). rewrite He''. exists (S n), e''. split; [reflexivity | simpl; lia].
      * exists 1, ex. split; [reflexivity | simpl; lia].
Qed.

(** when every earlier authenticator lets pass, the answer is exactly the
    blocking authenticator's error and nothing after it is consulted *)
Theorem rejected_without_optin_exact pre a post e :
  Forall lets_pass pre -> blocks a e ->
  execute (pre ++ a :: post) = (S (length pre), RError e).
Proof.
  intros P B. apply execute_iff_spec. apply spec_blocked; assumption.
Qed.

(** a non-empty chain never answers (nil, nil) *)
Theorem nonempty_not_nil ca n : ca <> [] -> execute ca <> (n, RNil).
Proof.
  intros Hne H. apply execute_iff_spec in H. inversion H; subst. congruence.
Qed.

(** ** Type level: which requests are classified "no credentials" *)

(** credentials of the authenticator's kind are present in the request —
    defined on the request alone, independently of [classify]:
    basic_auth: an Authorization header with the Basic scheme;
    jwt: a bearer token in one of the sources that is a parseable JWS;
    oauth2_introspection: a bearer token in one of the sources;
    generic: a session value in one of the sources;
    anonymous / unauthorized: they do not look at the request *)
Definition presented (t : atype) (q : request) : bool :=
  match t with
  | TAnonymous _ | TUnauthorized => true
  | TBasic _ _ => match q_auth q with AHBasic _ => true | _ => false end
  | TJwt _ =>
      match hdr_bearer q, q_query q, body_param q with
      | Some t, _, _ | None, Some t, _ | None, None, Some t =>
          match t_jwt t with JWS _ => true | NotJWS => false end
      | None, None, None => false
      end
  | TIntro _ =>
      match hdr_bearer q, q_query q, body_param q with
      | None, None, None => false
      | _, _, _ => true
      end
  | TGeneric _ _ =>
      match q_cookie q, q_xsess q with
      | None, None => false
      | _, _ => true
      end
  end.

Theorem classify_sound t q :
  classify t q = Failed ENoCreds <-> presented t q = false.
Proof.
  destruct t as [sub| |u p|rem|rem|rem ls]; simpl.
  - split; discriminate.
  - split; discriminate.
  - unfold classify_basic. destruct (q_auth q) as [| |[|n|u' p']|t]; simpl;
      try (split; congruence).
    destruct (String.eqb u' u && String.eqb p' p); split; congruence.
  - unfold classify_jwt, bearer_token. simpl.
    destruct (hdr_bearer q) as [t|]; [|destruct (q_query q) as [t|]; [|destruct (body_param q) as [t|]]];
      try (split; congruence);
      destruct (t_jwt t) as [|v]; try (split; congruence);
      destruct rem; simpl; try (split; congruence);
      destruct v; split; congruence.
  - unfold classify_intro, bearer_token. simpl.
    destruct (hdr_bearer q) as [t|]; [|destruct (q_query q) as [t|]; [|destruct (body_param q) as [t|]]];
      try (split; congruence);
      destruct rem; simpl; try (split; congruence);
      destruct (t_intro t); split; congruence.
  - unfold classify_generic, session_value. simpl.
    destruct (q_cookie q) as [s|]; [|destruct (q_xsess q) as [s|]];
      try (split; congruence);
      destruct rem; try (split; congruence);
      destruct s; try (split; congruence); destruct ls; split; congruence.
Qed.

(** anonymous never fails, unauthorized always rejects, neither falls back *)
Theorem classify_fixed q fb sub :
  classify (TAnonymous sub) q = Accepted sub /\
  classify TUnauthorized q = Failed ERejected /\
  fallback_allowed {| a_type := TAnonymous sub; a_fb := fb |} = false /\
  fallback_allowed {| a_type := TUnauthorized; a_fb := fb |} = false.
Proof. repeat split. Qed.

(** the property on real chains: an authenticator that finds credentials of its
    kind, does not accept them and is not configured for fallback ends the
    authentication with an error, whatever follows (e.g. anonymous) *)
Theorem typed_rejected_blocks q pre a post :
  Forall (fun b => forall s, classify (a_type b) q <> Accepted s) pre ->
  presented (a_type a) q = true ->
  (forall s, classify (a_type a) q <> Accepted s) ->
  fallback_allowed a = false ->
  exists n e, authenticate (pre ++ a :: post) q = (n, RError e) /\ n <= S (length pre).
Proof.
  intros Hpre Hp Hna Hfb. unfold authenticate. rewrite map_app. simpl.
  destruct (classify (a_type a) q) as [s|e] eqn:Hc; [exfalso; exact (Hna s eq_refl)|].
  assert (Hb : blocks (to_chain q a) e).
  { unfold blocks, to_chain; simpl. repeat split; try assumption.
    intros ->. apply classify_sound in Hc. congruence. }
  destruct (rejected_without_optin_fails (map (to_chain q) pre) (to_chain q a) (map (to_chain q) post) e) as (n & e' & H & Hn).
  - apply Forall_forall. intros x Hx. apply in_map_iff in Hx as (b & <- & Hb').
    rewrite Forall_forall in Hpre. intros [s Hs]. exact (Hpre b Hb' s Hs).
  - exact Hb.
  - exists n, e'. split; [exact H | rewrite map_length in Hn; exact Hn].
Qed.

(** ** The executable form of the specification used by the evaluator *)

Definition lets_passb (a : cauthn) : bool :=
  match c_out a with Failed e => is_argument e || c_fb a | Accepted _ => false end.

(** first stopper by scanning; written without reference to [exec_loop] *)
Fixpoint spec_fun (n : nat) (last : result) (ca : list cauthn) : nat * result :=
  match ca with
  | [] => (n, last)
  | a :: rest =>
    match c_out a with
    | Accepted s => (S n, RSubject s)
    | Failed e => if lets_passb a then spec_fun (S n) (RError e) rest else (S n, RError e)
    end
  end.

Lemma spec_fun_plain ca : forall n last,
  spec_fun n (last_result last) ca = (n + fst (exec_plain last ca), snd (exec_plain last ca)).
Proof.
  induction ca as [|a rest IH]; intros n last; simpl.
  - f_equal. lia.
  - unfold lets_passb. destruct (c_out a) as [s|e]; simpl.
    + f_equal. lia.
    + destruct (is_argument e || c_fb a).
      * change (RError e) with (last_result (Some e)).
        rewrite (IH (S n) (Some e)). destruct (exec_plain (Some e) rest); simpl. f_equal. lia.
      * simpl. f_equal. lia.
Qed.

Theorem spec_fun_execute ca : spec_fun 0 RNil ca = execute ca.
Proof.
  rewrite execute_plain. change RNil with (last_result None).
  rewrite (spec_fun_plain ca 0 None). destruct (exec_plain None ca); reflexivity.
Qed.
