(** C04 — model of internal/rules/composite_subject_creator.go (chain level) and
    of the error-kind classification of the six real authenticators
    (internal/rules/mechanisms/authenticators/*_authenticator.go + extractors/*.go)
    over abstract credential shapes (type level).

    Faithful to the code as it is.  The link "error value -> falls back" is
    [errors.Is(err, heimdall.ErrArgument)]; the only producers of ErrArgument on
    the authentication path are the extractors (no credentials in the configured
    sources) and the jwt authenticator's parse failure (not a JWS).  *)
From HV Require Import Base.Prelude.

(* ------------------------------------------------------------------ chain level *)

(** head kind of an error chain that is not an argument error *)
Inductive okind := KComm | KTimeout | KInternal | KConfig.

(** [ENoCreds]: the error chain satisfies errors.Is(err, ErrArgument).
    [ERejected]: it does not, and is an ErrAuthentication chain.
    [EOther k]: it is neither (communication, internal, ... error). *)
Inductive err := ENoCreds | ERejected | EOther (k : okind).

Inductive outcome := Accepted (s : string) | Failed (e : err).

(** an authenticator as the composite sees it: what Execute returns on the
    request at hand, and IsFallbackOnErrorAllowed() *)
Record cauthn := { c_out : outcome; c_fb : bool }.

(** what compositeSubjectCreator.Execute returns: (sub, nil), (nil, err) with the
    error of the last executed authenticator, or (nil, nil) for the empty chain *)
Inductive result := RSubject (s : string) | RError (e : err) | RNil.

Definition is_argument (e : err) : bool := match e with ENoCreds => true | _ => false end.

(** the loop of Execute:  [len] is len(ca), [idx] the loop index, [last] the
    value of the variable err (nil = None); the first component of the answer
    is the number of authenticators whose Execute was called.
    The test [idx < len(ca)] is transcribed as written. *)
Fixpoint exec_loop (len idx : nat) (last : option err) (ca : list cauthn) : nat * result :=
  match ca with
  | [] => (idx, match last with None => RNil | Some e => RError e end)
  | a :: rest =>
    match c_out a with
    | Failed e =>
      if (is_argument e || c_fb a) && Nat.ltb idx len
      then exec_loop len (S idx) (Some e) rest        (* continue *)
      else (S idx, RError e)                            (* break; return nil, err *)
    | Accepted s => (S idx, RSubject s)
    end
  end.

Definition execute (ca : list cauthn) : nat * result := exec_loop (length ca) 0 None ca.

(** the same loop without the index test (what the test is equivalent to) *)
Fixpoint exec_plain (last : option err) (ca : list cauthn) : nat * result :=
  match ca with
  | [] => (0, match last with None => RNil | Some e => RError e end)
  | a :: rest =>
    match c_out a with
    | Failed e =>
      if is_argument e || c_fb a
      then let '(n, r) := exec_plain (Some e) rest in (S n, r)
      else (1, RError e)
    | Accepted s => (1, RSubject s)
    end
  end.

(* ------------------------------------------------------------------ type level *)

(** state of the remote endpoint an authenticator instance is configured with
    (JWKS / introspection / identity-info endpoint) *)
Inductive remote :=
| RUp                (* answers as the protocol says *)
| RDown              (* connection refused *)
| RStatus            (* answers with a non-2xx status *)
| RGarbage.          (* answers 200 with a body that is not the expected JSON *)

(** payload of `Authorization: Basic <payload>` *)
Inductive basic_cred :=
| BBadB64                                  (* base64.StdEncoding.DecodeString fails *)
| BParts (n : nat)                         (* decoded, strings.Split(.., ":") has n <> 2 parts *)
| BPair (user pass : string).              (* exactly "user:pass" *)

(** what the jwt authenticator's verification says about a compact JWS that
    jwt.ParseSigned accepts, when the JWKS endpoint is up *)
Inductive jwt_verdict :=
| JKeyUnknown        (* kid not (uniquely) in the key set / no key verifies *)
| JBadSig            (* key found, signature or alg check fails *)
| JAssertFail        (* signature fine, claims.Validate fails (issuer, time, ...) *)
| JNoSubject         (* verified, but the subject id cannot be extracted *)
| JValid (sub : string).

Inductive jwt_form :=
| NotJWS             (* jwt.ParseSigned fails: opaque token, garbage, alg outside supportedAlgorithms() *)
| JWS (v : jwt_verdict).

(** what the introspection endpoint (when up) answers for the token *)
Inductive intro_answer :=
| IInactive          (* {"active": false} *)
| IAssertFail        (* active, but issuer/audience/time/scope assertions fail *)
| INoSubject         (* active and valid, no subject id in the response *)
| IActive (sub : string).

(** a bearer token: the same string is looked at by the jwt authenticator and by
    the introspection endpoint *)
Record token := { t_jwt : jwt_form; t_intro : intro_answer }.

(** what the identity-info endpoint (when up) answers for a session value *)
Inductive session :=
| SUnknown                      (* 401 *)
| SInactive (sub : string)      (* 200 {"sub":.., "active": false} *)
| SNoSubject                    (* 200 {} *)
| SGood (sub : string).         (* 200 {"sub":.., "active": true} *)

(** the Authorization header *)
Inductive auth_hdr :=
| AHAbsent                      (* missing or empty *)
| AHOther                       (* present, neither "Basic " nor "Bearer " prefix (other scheme, lower-case scheme, no space) *)
| AHBasic (c : basic_cred)
| AHBearer (t : token).

(** body parameter access_token *)
Inductive body_tok :=
| BodyNone                      (* no body, body not a map, or parameter missing *)
| BodyMulti                     (* parameter present several times / not a string *)
| BodyTok (t : token).

Record request := {
  q_auth : auth_hdr;
  q_query : option token;       (* query parameter access_token (non-empty) *)
  q_body : body_tok;
  q_cookie : option session;    (* cookie "session" (non-empty) *)
  q_xsess : option session }.   (* header X-Session (non-empty) *)

(** CompositeExtractStrategy.GetAuthData: the first strategy without error wins;
    [None] = every strategy returned an ErrArgument chain *)
Fixpoint first_some {A} (l : list (option A)) : option A :=
  match l with
  | [] => None
  | Some a :: _ => Some a
  | None :: r => first_some r
  end.

Definition hdr_bearer (q : request) : option token :=
  match q_auth q with AHBearer t => Some t | _ => None end.

Definition body_param (q : request) : option token :=
  match q_body q with BodyTok t => Some t | _ => None end.

(** default source list of jwt and oauth2_introspection:
    header Authorization/Bearer, query access_token, body access_token *)
Definition bearer_token (q : request) : option token :=
  first_some [hdr_bearer q; q_query q; body_param q].

(** source list the generic authenticator instances are configured with:
    cookie "session", header X-Session *)
Definition session_value (q : request) : option session :=
  first_some [q_cookie q; q_xsess q].

Inductive atype :=
| TAnonymous (sub : string)
| TUnauthorized
| TBasic (user pass : string)
| TJwt (rem : remote)
| TIntro (rem : remote)
| TGeneric (rem : remote) (lifespan : bool).   (* lifespan: session_lifespan configured *)

(** [a_fb] is the configured allow_fallback_on_error (prototype or rule level) *)
Record authn := { a_type : atype; a_fb : bool }.

Definition classify_basic (user pass : string) (q : request) : outcome :=
  match q_auth q with
  | AHBasic BBadB64 => Failed ERejected
  | AHBasic (BParts _) => Failed ERejected
  | AHBasic (BPair u p) =>
      if String.eqb u user && String.eqb p pass then Accepted u else Failed ERejected
  | _ => Failed ENoCreds        (* extractor: header absent or without the "Basic " prefix *)
  end.

Definition remote_failure (rem : remote) : option err :=
  match rem with
  | RUp => None
  | RDown | RStatus => Some (EOther KComm)
  | RGarbage => Some (EOther KInternal)
  end.

Definition classify_jwt (rem : remote) (q : request) : outcome :=
  match bearer_token q with
  | None => Failed ENoCreds                               (* "no JWT present" caused by the extractor errors *)
  | Some t =>
    match t_jwt t with
    | NotJWS => Failed ENoCreds                           (* "failed to parse JWT" CausedBy(ErrArgument) *)
    | JWS v =>
      match remote_failure rem with
      | Some e => Failed e
      | None =>
        match v with
        | JKeyUnknown | JBadSig | JAssertFail => Failed ERejected
        | JNoSubject => Failed (EOther KInternal)
        | JValid s => Accepted s
        end
      end
    end
  end.

Definition classify_intro (rem : remote) (q : request) : outcome :=
  match bearer_token q with
  | None => Failed ENoCreds
  | Some t =>
    match remote_failure rem with
    | Some e => Failed e
    | None =>
      match t_intro t with
      | IInactive | IAssertFail => Failed ERejected
      | INoSubject => Failed (EOther KInternal)
      | IActive s => Accepted s
      end
    end
  end.

Definition classify_generic (rem : remote) (lifespan : bool) (q : request) : outcome :=
  match session_value q with
  | None => Failed ENoCreds
  | Some s =>
    match rem with
    | RDown | RStatus => Failed (EOther KComm)
    | RGarbage => Failed (EOther KInternal)               (* subject id cannot be extracted *)
    | RUp =>
      match s with
      | SUnknown => Failed (EOther KComm)                 (* 401 is "unexpected response code" *)
      | SInactive sub => if lifespan then Failed ERejected else Accepted sub
      | SNoSubject => Failed (EOther KInternal)
      | SGood sub => Accepted sub
      end
    end
  end.

Definition classify (t : atype) (q : request) : outcome :=
  match t with
  | TAnonymous sub => Accepted sub
  | TUnauthorized => Failed ERejected
  | TBasic u p => classify_basic u p q
  | TJwt rem => classify_jwt rem q
  | TIntro rem => classify_intro rem q
  | TGeneric rem ls => classify_generic rem ls q
  end.

(** IsFallbackOnErrorAllowed(): anonymous and unauthorized answer false whatever is configured *)
Definition fallback_allowed (a : authn) : bool :=
  match a_type a with
  | TAnonymous _ | TUnauthorized => false
  | _ => a_fb a
  end.

Definition to_chain (q : request) (a : authn) : cauthn :=
  {| c_out := classify (a_type a) q; c_fb := fallback_allowed a |}.

(** the real chain on a request *)
Definition authenticate (ca : list authn) (q : request) : nat * result :=
  execute (map (to_chain q) ca).

(* ------------------------------------------------------------------ decidable equalities for the evaluator *)

Definition okind_eqb (a b : okind) : bool :=
  match a, b with
  | KComm, KComm | KTimeout, KTimeout | KInternal, KInternal | KConfig, KConfig => true
  | _, _ => false
  end.

Definition err_eqb (a b : err) : bool :=
  match a, b with
  | ENoCreds, ENoCreds | ERejected, ERejected => true
  | EOther x, EOther y => okind_eqb x y
  | _, _ => false
  end.

Definition outcome_eqb (a b : outcome) : bool :=
  match a, b with
  | Accepted x, Accepted y => String.eqb x y
  | Failed x, Failed y => err_eqb x y
  | _, _ => false
  end.

Definition result_eqb (a b : result) : bool :=
  match a, b with
  | RSubject x, RSubject y => String.eqb x y
  | RError x, RError y => err_eqb x y
  | RNil, RNil => true
  | _, _ => false
  end.
