(** C04 — model of internal/rules/composite_subject_creator.go (chain level) and
    of the error-kind classification of the six real authenticators
    (internal/rules/mechanisms/authenticators/*_authenticator.go + extractors/*.go)
    over abstract credential shapes (type level).

    Faithful to the code as it is.  The link "error value -> falls back" is
    [errors.Is(err, heimdall.ErrArgument)]; the only producers of ErrArgument on
    the authentication path are the extractors (no credentials in the configured
    sources) and the jwt authenticator's parse failure (not a JWS).  *)
From HV Require Import Base.Prelude.

(* ------------------------------------------------------------------ chain level *)

(** head kind of an error chain that is not an argument error *)
Inductive okind := KComm | KTimeout | KInternal | KConfig.

(** [ENoCreds]: the error chain satisfies errors.Is(err, ErrArgument).
    [ERejected]: it does not, and is an ErrAuthentication chain.
    [EOther k]: it is neither (communication, timeout, internal, ... error). *)
Inductive err := ENoCreds | ERejected | EOther (k : okind).

Inductive outcome := Accepted (s : string) | Failed (e : err).

(** an authenticator as the composite sees it: what Execute returns on the
    request at hand, and IsFallbackOnErrorAllowed() *)
Record cauthn := { c_out : outcome; c_fb : bool }.

(** what compositeSubjectCreator.Execute returns: (sub, nil), (nil, err) with the
    error of the last executed authenticator, or (nil, nil) for the empty chain *)
Inductive result := RSubject (s : string) | RError (e : err) | RNil.

Definition is_argument (e : err) : bool := match e with ENoCreds => true | _ => false end.

(** the loop of Execute:  [len] is len(ca), [idx] the loop index, [last] the
    value of the variable err (nil = None); the first component of the answer
    is the number of authenticators whose Execute was called.
    The test [idx < len(ca)] is transcribed as written. *)
Fixpoint exec_loop (len idx : nat) (last : option err) (ca : list cauthn) : nat * result :=
  match ca with
  | [] => (idx, match last with None => RNil | Some e => RError e end)
  | a :: rest =>
    match c_out a with
    | Failed e =>
      if (is_argument e || c_fb a) && Nat.ltb idx len
      then exec_loop len (S idx) (Some e) rest        (* continue *)
      else (S idx, RError e)                            (* break; return nil, err *)
    | Accepted s => (S idx, RSubject s)
    end
  end.

Definition execute (ca : list cauthn) : nat * result := exec_loop (length ca) 0 None ca.

(** the same loop, recording the authenticators whose Execute is called, in call
    order ([log] is the record so far, newest first) *)
Fixpoint exec_log (len idx : nat) (ca : list cauthn) (log : list cauthn) : list cauthn :=
  match ca with
  | [] => rev log
  | a :: rest =>
    match c_out a with
    | Failed e =>
      if (is_argument e || c_fb a) && Nat.ltb idx len
      then exec_log len (S idx) rest (a :: log)
      else rev (a :: log)
    | Accepted _ => rev (a :: log)
    end
  end.

Definition calls (ca : list cauthn) : list cauthn := exec_log (length ca) 0 ca [].

(** the same loop without the index test (what the test is equivalent to) *)
Fixpoint exec_plain (last : option err) (ca : list cauthn) : nat * result :=
  match ca with
  | [] => (0, match last with None => RNil | Some e => RError e end)
  | a :: rest =>
    match c_out a with
    | Failed e =>
      if is_argument e || c_fb a
      then let '(n, r) := exec_plain (Some e) rest in (S n, r)
      else (1, RError e)
    | Accepted s => (1, RSubject s)
    end
  end.

(* ------------------------------------------------------------------ type level *)

(** what a remote endpoint (JWKS / introspection / identity-info / metadata) does *)
Inductive rstate :=
| SUp                (* answers as the protocol says *)
| SDown              (* connection closed without an answer *)
| SStatus            (* answers with a non-2xx status *)
| SGarbage           (* answers 200 with a body that is not the expected JSON *)
| SSlow.             (* does not answer before the client's time limit *)

(** the endpoint an authenticator instance is configured with: one with a fixed
    behaviour, or the one whose behaviour changes from request to request
    (given by [q_sw] of the request at hand) *)
Inductive remote := RFixed (s : rstate) | RSwitch.

(** how jwt / oauth2_introspection find their endpoint *)
Inductive disc :=
| DDirect                       (* jwks_endpoint / introspection_endpoint configured *)
| DMeta (s : rstate)            (* metadata_endpoint with a fixed URL in state s; the document names the endpoint [rem] *)
| DMetaNoEndpoint               (* metadata document without jwks_uri / introspection_endpoint *)
| DMetaTemplated.               (* metadata_endpoint URL contains {{ .TokenIssuer }}; documents exist for known issuers only *)

(** where jwt / oauth2_introspection look for the token *)
Inductive bsource :=
| SrcDefault                    (* header Authorization/Bearer, query access_token, body access_token *)
| SrcCustom.                    (* configured: header X-Token (no scheme), query access_token *)

(** payload of `Authorization: Basic <payload>` *)
Inductive basic_cred :=
| BBadB64                                  (* base64.StdEncoding.DecodeString fails *)
| BParts (n : nat)                         (* decoded, strings.Split(.., ":") has n <> 2 parts *)
| BPair (user pass : string).              (* exactly "user:pass" *)

(** what the jwt authenticator's verification says about a compact JWS that
    jwt.ParseSigned accepts, when the key set can be obtained *)
Inductive jwt_verdict :=
| JKeyUnknown        (* kid not (uniquely) in the key set / no key verifies *)
| JBadSig            (* key found, signature or alg check fails *)
| JAssertFail        (* signature fine, claims.Validate fails under every configuration used (issuer, time) *)
| JNarrow (sub : string)   (* signature fine; valid unless audience and scopes are asserted *)
| JNoSubject         (* verified, but the subject id cannot be extracted *)
| JValid (sub : string).

Inductive jwt_form :=
| NotJWS             (* jwt.ParseSigned fails: empty, opaque token, garbage, alg outside supportedAlgorithms() *)
| JWSNoClaims        (* a JWS whose payload is not a JSON object *)
| JWS (iss_known : bool) (v : jwt_verdict).   (* iss_known: the metadata server has a document for the token's iss *)

(** what the introspection endpoint (when reached) answers for the token *)
Inductive intro_answer :=
| IInactive          (* {"active": false} *)
| IAssertFail        (* active, but issuer/time assertions fail *)
| INarrow (sub : string)   (* active; valid unless audience and scopes are asserted *)
| INoSubject         (* active and valid, no subject id in the response *)
| IActive (sub : string).

(** a bearer token: the same string is looked at by the jwt authenticator and by
    the introspection endpoint *)
Record token := { t_jwt : jwt_form; t_intro : intro_answer }.

(** what the identity-info endpoint (when reached) answers for a session value *)
Inductive session :=
| SUnknown                      (* 401 *)
| SInactive (sub : string)      (* 200 {"sub":.., "active": false} *)
| SNoSubject                    (* 200 {} *)
| SGood (sub : string).         (* 200 {"sub":.., "active": true} *)

(** the Authorization header field (all field lines joined with ",") *)
Inductive auth_hdr :=
| AHAbsent                      (* missing or empty *)
| AHOther                       (* present, neither "Basic " nor "Bearer " prefix (other scheme, lower-case scheme, no space) *)
| AHBasic (c : basic_cred)
| AHBearer (t : token).

(** body parameter access_token *)
Inductive body_tok :=
| BodyNone                      (* no body, body not a map, or parameter missing *)
| BodyMulti                     (* parameter present several times / not a string *)
| BodyTok (t : token).

Record request := {
  q_auth : auth_hdr;
  q_xtok : option token;        (* header X-Token (non-empty) *)
  q_query : option token;       (* query parameter access_token (non-empty) *)
  q_body : body_tok;
  q_cookie : option session;    (* cookie "session" (non-empty) *)
  q_xsess : option session;     (* header X-Session (non-empty) *)
  q_sw : rstate }.              (* what the switchable endpoints do while this request is handled *)

(** CompositeExtractStrategy.GetAuthData: the first strategy without error wins;
    [None] = every strategy returned an ErrArgument chain *)
Fixpoint first_some {A} (l : list (option A)) : option A :=
  match l with
  | [] => None
  | Some a :: _ => Some a
  | None :: r => first_some r
  end.

Definition hdr_bearer (q : request) : option token :=
  match q_auth q with AHBearer t => Some t | _ => None end.

Definition body_param (q : request) : option token :=
  match q_body q with BodyTok t => Some t | _ => None end.

Definition bearer_token (src : bsource) (q : request) : option token :=
  match src with
  | SrcDefault => first_some [hdr_bearer q; q_query q; body_param q]
  | SrcCustom => first_some [q_xtok q; q_query q]
  end.

(** source list the generic authenticator instances are configured with:
    cookie "session", header X-Session *)
Definition session_value (q : request) : option session :=
  first_some [q_cookie q; q_xsess q].

Inductive atype :=
| TAnonymous (sub : string)
| TUnauthorized
| TBasic (user pass : string)
| TJwt (src : bsource) (d : disc) (rem : remote) (strict : bool)     (* strict: audience and scopes asserted *)
| TIntro (src : bsource) (d : disc) (rem : remote) (strict : bool)
| TGeneric (rem : remote) (lifespan : bool).   (* lifespan: session_lifespan configured *)

(** an authenticator step of a rule: the mechanism, allow_fallback_on_error of
    the prototype, and the rule-level allow_fallback_on_error if the step has one
    (other rule-level settings do not matter for the flag) *)
Record authn := { a_type : atype; a_proto_fb : bool; a_over_fb : option bool }.

Definition classify_basic (user pass : string) (q : request) : outcome :=
  match q_auth q with
  | AHBasic BBadB64 => Failed ERejected
  | AHBasic (BParts _) => Failed ERejected
  | AHBasic (BPair u p) =>
      if String.eqb u user && String.eqb p pass then Accepted u else Failed ERejected
  | _ => Failed ENoCreds        (* extractor: header absent or without the "Basic " prefix *)
  end.

Definition remote_failure (s : rstate) : option err :=
  match s with
  | SUp => None
  | SDown | SStatus => Some (EOther KComm)
  | SGarbage => Some (EOther KInternal)
  | SSlow => Some (EOther KTimeout)
  end.

Definition state_of (rem : remote) (q : request) : rstate :=
  match rem with RFixed s => s | RSwitch => q_sw q end.

(** serverMetadata(): [None] = the endpoint [rem] is what is used.  [iss] is what
    is known about the token's issuer claim (None: the token has no readable claims) *)
Definition discover (d : disc) (iss : option bool) : option err :=
  match d with
  | DDirect => None
  | DMeta s => remote_failure s
  | DMetaNoEndpoint => Some (EOther KInternal)
  | DMetaTemplated => match iss with Some true => None | _ => Some (EOther KComm) end
  end.

(** what the cache lookup of a call (JWK of the kid / introspection response of
    the token / identity payload of the session value) found: nothing, an entry,
    or — generic only, which stores any 2xx body — an entry that is not JSON.
    With an entry the endpoint is not contacted; what the entry holds is checked as a
    fresh answer would be (introspection: deaddf0, generic session lifespan: abc25e7).
    jwt: a cached key that fails the configured validation is ignored and the endpoint
    contacted (d20d7cd) - not reachable here, certificates / trust store are not
    generated (level_note). *)
Inductive lookup := LMiss | LHit | LHitGarbage.

Definition is_hit (h : lookup) : bool := match h with LMiss => false | _ => true end.

Definition reached (h : lookup) (rem : remote) (q : request) : option err :=
  if is_hit h then None else remote_failure (state_of rem q).

Definition jwt_answer (strict : bool) (v : jwt_verdict) : outcome :=
  match v with
  | JKeyUnknown | JBadSig | JAssertFail => Failed ERejected
  | JNarrow s => if strict then Failed ERejected else Accepted s
  | JNoSubject => Failed (EOther KInternal)
  | JValid s => Accepted s
  end.

Definition classify_jwt (src : bsource) (d : disc) (rem : remote) (strict : bool) (hit : lookup) (q : request) : outcome :=
  match bearer_token src q with
  | None => Failed ENoCreds                               (* "no JWT present" caused by the extractor errors *)
  | Some t =>
    match t_jwt t with
    | NotJWS => Failed ENoCreds                           (* "failed to parse JWT" CausedBy(ErrArgument) *)
    | JWSNoClaims => Failed (EOther KInternal)            (* "failed to deserialize JWT" *)
    | JWS known v =>
      match discover d (Some known) with
      | Some e => Failed e
      | None =>
        match reached hit rem q with
        | Some e => Failed e
        | None => jwt_answer strict v
        end
      end
    end
  end.

Definition intro_answer_of (strict : bool) (i : intro_answer) : outcome :=
  match i with
  | IInactive | IAssertFail => Failed ERejected
  | INarrow s => if strict then Failed ERejected else Accepted s
  | INoSubject => Failed (EOther KInternal)
  | IActive s => Accepted s
  end.

Definition issuer_known (t : token) : option bool :=
  match t_jwt t with JWS known _ => Some known | _ => None end.

Definition classify_intro (src : bsource) (d : disc) (rem : remote) (strict : bool) (hit : lookup) (q : request) : outcome :=
  match bearer_token src q with
  | None => Failed ENoCreds
  | Some t =>
    match discover d (issuer_known t) with
    | Some e => Failed e
    | None =>
      match reached hit rem q with
      | Some e => Failed e
      | None => intro_answer_of strict (t_intro t)
      end
    end
  end.

Definition classify_generic (rem : remote) (lifespan : bool) (hit : lookup) (q : request) : outcome :=
  match session_value q with
  | None => Failed ENoCreds
  | Some s =>
    match hit with
    | LHitGarbage => Failed (EOther KInternal)            (* no subject id in the cached body *)
    | _ =>
      match reached hit rem q with
      | Some e => Failed e
      | None =>
        match s with
        | SUnknown => Failed (EOther KComm)               (* 401 is "unexpected response code" *)
        | SInactive sub => if lifespan then Failed ERejected else Accepted sub   (* asserted for a cached payload too (fix abc25e7) *)
        | SNoSubject => Failed (EOther KInternal)
        | SGood sub => Accepted sub
        end
      end
    end
  end.

Definition classify (t : atype) (hit : lookup) (q : request) : outcome :=
  match t with
  | TAnonymous sub => Accepted sub
  | TUnauthorized => Failed ERejected
  | TBasic u p => classify_basic u p q
  | TJwt src d rem strict => classify_jwt src d rem strict hit q
  | TIntro src d rem strict => classify_intro src d rem strict hit q
  | TGeneric rem ls => classify_generic rem ls hit q
  end.

(** WithConfig: the rule-level allow_fallback_on_error, if present, replaces the prototype's *)
Definition configured_fb (a : authn) : bool :=
  match a_over_fb a with Some b => b | None => a_proto_fb a end.

(** IsFallbackOnErrorAllowed(): anonymous and unauthorized answer false whatever is configured *)
Definition fallback_allowed (a : authn) : bool :=
  match a_type a with
  | TAnonymous _ | TUnauthorized => false
  | _ => configured_fb a
  end.

(** the chain as the composite sees it on request [q]; [hits] are the cache
    lookups of the calls, by position (absent = no entry found) *)
Fixpoint to_chain (q : request) (ca : list authn) (hits : list lookup) : list cauthn :=
  match ca with
  | [] => []
  | a :: rest =>
    let '(h, hs) := match hits with [] => (LMiss, []) | h :: hs => (h, hs) end in
    {| c_out := classify (a_type a) h q; c_fb := fallback_allowed a |} :: to_chain q rest hs
  end.

(** the real chain on a request *)
Definition authenticate (ca : list authn) (hits : list lookup) (q : request) : nat * result :=
  execute (to_chain q ca hits).

(* ------------------------------------------------------------------ the rule factory: instances by address *)

(** an authenticator object: its type with everything configured, and its field allowFallbackOnError *)
Record obj := { o_type : atype; o_flag : bool }.

(** IsFallbackOnErrorAllowed() of an object *)
Definition obj_fallback (o : obj) : bool :=
  match o_type o with TAnonymous _ | TUnauthorized => false | _ => o_flag o end.

(** the objects that exist, by address; the prototypes of the mechanism catalogue come first *)
Definition heap := list obj.

(** a step of a rule: the prototype it names and its `config` — absent/empty, or
    present: the type the settings result in, and allow_fallback_on_error if it is among them *)
Record stepcfg := { sc_proto : nat; sc_config : option (atype * option bool) }.

(** WithConfig of the object at address [p]: without a config the object itself
    (shared by every rule that names it so); unauthorized ignores the config;
    otherwise a NEW object that takes the prototype's flag unless the config sets
    it.  No object is ever modified.  [None]: no such mechanism (an error of CreateRule). *)
Definition with_config (h : heap) (p : nat) (cfg : option (atype * option bool)) : option (heap * nat) :=
  match nth_error h p with
  | None => None
  | Some o =>
    match cfg with
    | None => Some (h, p)
    | Some (t', ov) =>
      match o_type o with
      | TUnauthorized => Some (h, p)
      | _ => Some (h ++ [{| o_type := t'; o_flag := match ov with Some b => b | None => o_flag o end |}], length h)
      end
    end
  end.

(** createExecutePipeline: the addresses of a rule's authenticators, in the order of its steps *)
Fixpoint create_rule (h : heap) (steps : list stepcfg) : option (heap * list nat) :=
  match steps with
  | [] => Some (h, [])
  | s :: rest =>
    match with_config h (sc_proto s) (sc_config s) with
    | None => None
    | Some (h1, a) =>
      match create_rule h1 rest with
      | None => None
      | Some (h2, l) => Some (h2, a :: l)
      end
    end
  end.

(** a history: rules created one after the other by one factory *)
Fixpoint load (h : heap) (rules : list (list stepcfg)) : option (heap * list (list nat)) :=
  match rules with
  | [] => Some (h, [])
  | r :: rest =>
    match create_rule h r with
    | None => None
    | Some (h1, l) =>
      match load h1 rest with
      | None => None
      | Some (h2, ls) => Some (h2, l :: ls)
      end
    end
  end.

(* ------------------------------------------------------------------ decidable equalities for the evaluator *)

Definition okind_eqb (a b : okind) : bool :=
  match a, b with
  | KComm, KComm | KTimeout, KTimeout | KInternal, KInternal | KConfig, KConfig => true
  | _, _ => false
  end.

Definition err_eqb (a b : err) : bool :=
  match a, b with
  | ENoCreds, ENoCreds | ERejected, ERejected => true
  | EOther x, EOther y => okind_eqb x y
  | _, _ => false
  end.

Definition outcome_eqb (a b : outcome) : bool :=
  match a, b with
  | Accepted x, Accepted y => String.eqb x y
  | Failed x, Failed y => err_eqb x y
  | _, _ => false
  end.

Definition result_eqb (a b : result) : bool :=
  match a, b with
  | RSubject x, RSubject y => String.eqb x y
  | RError x, RError y => err_eqb x y
  | RNil, RNil => true
  | _, _ => false
  end.
