(** Go error values as trees, and Go's [errors.Is] / [errors.As] over them.

    The datatype covers every shape of error value that reaches heimdall's
    error translators and execution conditions:

    - sentinel values ([heimdall.ErrAuthentication] ..., compared by identity;
      [KOther n] stands for any other package-level sentinel, e.g. the private
      [errErrorHandlerNotApplicable] of internal/rules),
    - [*heimdall.RedirectError] (its [Is] method: same dynamic type),
    - [*cellib.EvalError] (its [Is] method: the target's element type is
      assignable to [EvalError]),
    - leaves of foreign types without [Is]/[As]/[Unwrap] methods,
    - [fmt.Errorf("...%w...")] with one [%w]  ([Unwrap() error]),
    - [errors.Join] / [fmt.Errorf] with several [%w]  ([Unwrap() []error]),
    - [*errorchain.ErrorChain]: a non-empty linked list of elements, with
        [Is t]     = [errors.Is head.err t]
        [As t]     = context match (interface targets only) or [errors.As head.err t]
        [Unwrap()] = the chain without its head ([nil] for a one-element chain).

    Messages are not part of the tree: no decision in heimdall depends on them
    (body texts are oracles of the correspondence runs).

    Go (1.23) [errors.Is]:
<<
      for { if comparable && err == target {return true}
            if x has Is && x.Is(target) {return true}
            switch { case Unwrap() error:   err = x.Unwrap(); if err == nil {return false}
                     case Unwrap() []error: for e in x.Unwrap() { if is(e,target) {return true} }; return false
                     default: return false } }
>>
    For an [ErrorChain] [e1;...;en] the loop visits the chain, asks
    [errors.Is e1 t], unwraps to [e2;...;en], asks [errors.Is e2 t], ... so the
    chain behaves like a multi-wrap of its elements in order; [is_] below is
    that depth-first, left-to-right search.  The correspondence streams of C12
    and C01 compare [is_]/[as_redirect] with the real [errors.Is]/[errors.As] on
    every generated tree. *)
From HV Require Import Base.Prelude.

Inductive kind :=
| KArgument | KAuthentication | KAuthorization | KCommunication | KTimeout
| KConfiguration | KInternal | KNoRule | KOther (n : nat).

Definition kind_eqb (a b : kind) : bool :=
  match a, b with
  | KArgument, KArgument | KAuthentication, KAuthentication | KAuthorization, KAuthorization
  | KCommunication, KCommunication | KTimeout, KTimeout | KConfiguration, KConfiguration
  | KInternal, KInternal | KNoRule, KNoRule => true
  | KOther n, KOther m => Nat.eqb n m
  | _, _ => false
  end.

Lemma kind_eqb_spec a b : kind_eqb a b = true <-> a = b.
Proof.
  destruct a, b; simpl; split; intro H; try reflexivity; try discriminate; try congruence.
  - apply Nat.eqb_eq in H. congruence.
  - inversion H. apply Nat.eqb_refl.
Qed.

Lemma kind_eqb_refl a : kind_eqb a a = true.
Proof. apply kind_eqb_spec. reflexivity. Qed.

Inductive err :=
| Sentinel (k : kind)
| Redirect (code : Z) (to : string)
| EvalErr
| Foreign (id : nat)
| WrapW (e : err)
| JoinW (es : list err)
| Chain (es : list err) (ctx : bool).

(** the targets heimdall passes to [errors.Is] *)
Inductive target := TKind (k : kind) | TRedirect | TEval.

(** nested induction principle *)
Section err_induction.
  Variable P : err -> Prop.
  Hypothesis HS : forall k, P (Sentinel k).
  Hypothesis HR : forall c t, P (Redirect c t).
  Hypothesis HE : P EvalErr.
  Hypothesis HF : forall i, P (Foreign i).
  Hypothesis HW : forall e, P e -> P (WrapW e).
  Hypothesis HJ : forall es, Forall P es -> P (JoinW es).
  Hypothesis HC : forall es c, Forall P es -> P (Chain es c).

  Fixpoint err_ind' (e : err) : P e :=
    let all := fix all (l : list err) : Forall P l :=
      match l with
      | [] => Forall_nil P
      | x :: r => Forall_cons x (err_ind' x) (all r)
      end in
    match e with
    | Sentinel k => HS k
    | Redirect c t => HR c t
    | EvalErr => HE
    | Foreign i => HF i
    | WrapW e => HW e (err_ind' e)
    | JoinW es => HJ es (all es)
    | Chain es c => HC es c (all es)
    end.
End err_induction.

(** ** errors.Is *)

(** what a leaf answers: identity for sentinels, the [Is] methods of
    RedirectError and EvalError *)
Definition leaf_is (t : target) (e : err) : bool :=
  match e, t with
  | Sentinel k, TKind k' => kind_eqb k k'
  | Redirect _ _, TRedirect => true
  | EvalErr, TEval => true
  | _, _ => false
  end.

Fixpoint is_ (t : target) (e : err) : bool :=
  match e with
  | WrapW e' => is_ t e'
  | JoinW es => existsb (is_ t) es
  | Chain es _ => existsb (is_ t) es
  | _ => leaf_is t e
  end.

(** ** errors.As with a [**heimdall.RedirectError] target: the first
    RedirectError in depth-first, left-to-right order.  [ErrorChain.As] first
    tries its context, but only for interface-typed targets, so the context
    never answers here. *)
Definition first_some {A B} (f : A -> option B) : list A -> option B :=
  fix go (l : list A) : option B :=
    match l with
    | [] => None
    | x :: r => match f x with Some y => Some y | None => go r end
    end.

Fixpoint as_redirect (e : err) : option (Z * string) :=
  match e with
  | Redirect c t => Some (c, t)
  | WrapW e' => as_redirect e'
  | JoinW es => first_some as_redirect es
  | Chain es _ => first_some as_redirect es
  | _ => None
  end.

(** ** Declarative reading: the leaves of the tree in visiting order *)
Fixpoint leaves (e : err) : list err :=
  match e with
  | WrapW e' => leaves e'
  | JoinW es => flat_map leaves es
  | Chain es _ => flat_map leaves es
  | _ => [e]
  end.

Definition is_leaf (e : err) : bool :=
  match e with WrapW _ | JoinW _ | Chain _ _ => false | _ => true end.

Lemma existsb_flat_map {A B} (p : B -> bool) (f : A -> list B) l :
  existsb p (flat_map f l) = existsb (fun x => existsb p (f x)) l.
Proof. induction l as [|x r IH]; simpl; [reflexivity|]. rewrite existsb_app, IH. reflexivity. Qed.

Lemma existsb_ext_Forall {A} (f g : A -> bool) l :
  Forall (fun x => f x = g x) l -> existsb f l = existsb g l.
Proof. induction 1 as [|x r H _ IH]; simpl; [reflexivity|]. rewrite H, IH. reflexivity. Qed.

(** [errors.Is e t] holds exactly when some leaf of the tree answers [t] *)
Theorem is_leaves t e : is_ t e = existsb (leaf_is t) (leaves e).
Proof.
  induction e as [k|c s| |i|e IH|es IH|es c IH] using err_ind'; simpl;
    try reflexivity; try (rewrite orb_false_r; reflexivity); try assumption.
  - rewrite existsb_flat_map. apply existsb_ext_Forall. exact IH.
  - rewrite existsb_flat_map. apply existsb_ext_Forall. exact IH.
Qed.

Lemma leaves_are_leaves e : Forall (fun x => is_leaf x = true) (leaves e).
Proof.
  induction e as [k|c s| |i|e IH|es IH|es c IH] using err_ind'; simpl;
    try (constructor; [reflexivity | constructor]); try assumption.
  - induction IH as [|x r H _ IH2]; simpl; [constructor|]. apply Forall_app. split; assumption.
  - induction IH as [|x r H _ IH2]; simpl; [constructor|]. apply Forall_app. split; assumption.
Qed.

Definition leaf_redirect (e : err) : option (Z * string) :=
  match e with Redirect c t => Some (c, t) | _ => None end.

Lemma first_some_app {A B} (f : A -> option B) l1 l2 :
  first_some f (l1 ++ l2) = match first_some f l1 with Some y => Some y | None => first_some f l2 end.
Proof. induction l1 as [|x r IH]; simpl; [reflexivity|]. destruct (f x); [reflexivity | exact IH]. Qed.

Lemma first_some_flat_map {A B C} (f : B -> option C) (g : A -> list B) l :
  first_some f (flat_map g l) = first_some (fun x => first_some f (g x)) l.
Proof.
  induction l as [|x r IH]; simpl; [reflexivity|]. rewrite first_some_app, IH. reflexivity.
Qed.

Lemma first_some_ext_Forall {A B} (f g : A -> option B) l :
  Forall (fun x => f x = g x) l -> first_some f l = first_some g l.
Proof. induction 1 as [|x r H _ IH]; simpl; [reflexivity|]. rewrite H, IH. reflexivity. Qed.

(** [errors.As] finds the first RedirectError leaf *)
Theorem as_redirect_leaves e : as_redirect e = first_some leaf_redirect (leaves e).
Proof.
  induction e as [k|c s| |i|e IH|es IH|es c IH] using err_ind'; simpl; try reflexivity; try assumption.
  - rewrite first_some_flat_map. apply first_some_ext_Forall. exact IH.
  - rewrite first_some_flat_map. apply first_some_ext_Forall. exact IH.
Qed.

Lemma first_some_exists {A B} (f : A -> option B) l :
  (exists y, first_some f l = Some y) <-> existsb (fun x => match f x with Some _ => true | None => false end) l = true.
Proof.
  induction l as [|x r IH]; simpl.
  - split; [intros [y H]; discriminate | discriminate].
  - destruct (f x) as [y|]; simpl; [split; eauto | exact IH].
Qed.

(** [errors.Is err &RedirectError{}] and [errors.As err &redirectError] agree:
    the translators dereference the result of As without looking at its
    boolean, which is safe exactly because of this *)
Theorem is_redirect_as e : is_ TRedirect e = true <-> exists c t, as_redirect e = Some (c, t).
Proof.
  rewrite is_leaves, as_redirect_leaves.
  assert (E : existsb (leaf_is TRedirect) (leaves e) =
              existsb (fun x => match leaf_redirect x with Some _ => true | None => false end) (leaves e)).
  { apply existsb_ext_Forall. apply Forall_forall. intros [] _; reflexivity. }
  rewrite E, <- first_some_exists. split.
  - intros [[c t] H]. eauto.
  - intros (c & t & H). eauto.
Qed.

Lemma first_some_In {A B} (f : A -> option B) l y :
  first_some f l = Some y -> exists x, In x l /\ f x = Some y.
Proof.
  induction l as [|x r IH]; simpl; [discriminate|].
  destruct (f x) as [z|] eqn:E.
  - intro H; inversion H; subst. exists x. auto.
  - intro H. destruct (IH H) as (x' & Hi & Hf). exists x'. auto.
Qed.

(** the RedirectError found by As is one of the tree's leaves *)
Lemma as_redirect_In e c t : as_redirect e = Some (c, t) -> In (Redirect c t) (leaves e).
Proof.
  rewrite as_redirect_leaves. intro H. apply first_some_In in H as (x & Hi & Hx).
  destruct x; try discriminate. inversion Hx; subst. exact Hi.
Qed.

(** neither the error context of a chain nor fmt wrapping changes any answer *)
Lemma is_chain_ctx t es c1 c2 : is_ t (Chain es c1) = is_ t (Chain es c2).
Proof. reflexivity. Qed.

Lemma is_wrap t e : is_ t (WrapW e) = is_ t e.
Proof. reflexivity. Qed.

Lemma is_join_chain t es c : is_ t (JoinW es) = is_ t (Chain es c).
Proof. reflexivity. Qed.

(** all RedirectError codes that occur in a tree (for hypotheses such as
    "no redirect code is 2xx") *)
Definition redirect_codes (e : err) : list Z :=
  flat_map (fun l => match l with Redirect c _ => [c] | _ => [] end) (leaves e).

Lemma as_redirect_code_In e c t : as_redirect e = Some (c, t) -> In c (redirect_codes e).
Proof.
  intro H. apply as_redirect_In in H. unfold redirect_codes. apply in_flat_map.
  exists (Redirect c t). split; [assumption | left; reflexivity].
Qed.

(** equality test on trees (used by evaluators) *)
Fixpoint err_eqb (a b : err) : bool :=
  match a, b with
  | Sentinel k, Sentinel k' => kind_eqb k k'
  | Redirect c t, Redirect c' t' => Z.eqb c c' && String.eqb t t'
  | EvalErr, EvalErr => true
  | Foreign i, Foreign j => Nat.eqb i j
  | WrapW x, WrapW y => err_eqb x y
  | JoinW xs, JoinW ys =>
      (fix go (l1 l2 : list err) : bool :=
         match l1, l2 with
         | [], [] => true
         | x :: r1, y :: r2 => err_eqb x y && go r1 r2
         | _, _ => false
         end) xs ys
  | Chain xs c, Chain ys c' =>
      Bool.eqb c c' &&
      (fix go (l1 l2 : list err) : bool :=
         match l1, l2 with
         | [], [] => true
         | x :: r1, y :: r2 => err_eqb x y && go r1 r2
         | _, _ => false
         end) xs ys
  | _, _ => false
  end.

(* short constructor aliases for generated case files *)
Definition sAuthn := Sentinel KAuthentication.
Definition sAuthz := Sentinel KAuthorization.
Definition sComm := Sentinel KCommunication.
Definition sTimeout := Sentinel KTimeout.
Definition sArg := Sentinel KArgument.
Definition sConf := Sentinel KConfiguration.
Definition sInt := Sentinel KInternal.
Definition sNoRule := Sentinel KNoRule.
Definition sOther n := Sentinel (KOther n).
