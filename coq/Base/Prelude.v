(** Shared prelude of the heimdall models: byte strings, result rows of the
    correspondence evaluators, small list helpers.  Stdlib only. *)
From Coq Require Export String Ascii Bool Arith ZArith NArith Lia List.
Export ListNotations.
Open Scope list_scope.

(** [bs [47;97]] is the string with those bytes (used by the harness for
    strings that are not printable ASCII). *)
Definition bs (l : list N) : string :=
  fold_right (fun n acc => String (ascii_of_N n) acc) EmptyString l.

(** One row of a correspondence run: case index, correspondence ok?, property
    ok on the implementation's observation?, numbers of the finding guards that
    fire on the input.  Rows are printed as lists of Z so that the driver can
    parse them without depending on Coq's record printing. *)
Definition b2z (b : bool) : Z := if b then 1%Z else 0%Z.

Record verdict := { v_corr : bool; v_prop : bool; v_guards : list Z }.

Definition row (i : nat) (v : verdict) : list Z :=
  Z.of_nat i :: b2z (v_corr v) :: b2z (v_prop v) :: v_guards v.

Definition interesting (v : verdict) : bool :=
  negb (v_corr v && v_prop v) || negb (match v_guards v with [] => true | _ => false end).

(** [results check cases] — rows of all cases that are not a plain pass, and
    the number of cases seen (echoed so the driver can check nothing was lost). *)
Fixpoint results_from {C} (check : C -> verdict) (i : nat) (cs : list C) : list (list Z) :=
  match cs with
  | [] => []
  | c :: r => let v := check c in
              if interesting v then row i v :: results_from check (S i) r
              else results_from check (S i) r
  end.

Definition results {C} (check : C -> verdict) (cs : list C) : list (list Z) :=
  [Z.of_nat (length cs)] :: results_from check 0 cs.

Definition guards (l : list (Z * bool)) : list Z :=
  map fst (filter snd l).

Fixpoint list_eqb {A} (eqb : A -> A -> bool) (l1 l2 : list A) : bool :=
  match l1, l2 with
  | [], [] => true
  | x :: r1, y :: r2 => eqb x y && list_eqb eqb r1 r2
  | _, _ => false
  end.

Lemma list_eqb_spec {A} (eqb : A -> A -> bool) :
  (forall x y, eqb x y = true <-> x = y) ->
  forall l1 l2, list_eqb eqb l1 l2 = true <-> l1 = l2.
Proof.
  intros H l1; induction l1 as [|x r1 IH]; intros [|y r2]; simpl; split; intro E;
    try reflexivity; try discriminate.
  - apply andb_true_iff in E as [E1 E2]. apply H in E1. apply IH in E2. congruence.
  - inversion E; subst. apply andb_true_iff; split; [apply H | apply IH]; reflexivity.
Qed.

Definition option_eqb {A} (eqb : A -> A -> bool) (a b : option A) : bool :=
  match a, b with
  | None, None => true
  | Some x, Some y => eqb x y
  | _, _ => false
  end.

Definition is_nil {A} (l : list A) : bool := match l with [] => true | _ => false end.
