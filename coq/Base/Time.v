(** Time arithmetic shared by the models (C10; usable by C05).

    Unit: every instant and every duration is a [Z] number of NANOSECONDS
    (Go's [time.Duration] and [Time.UnixNano]); instants count from the Unix
    epoch.  [unix t] is Go's [t.Unix()] (whole seconds, floor), [millis d] is
    Go's [d.Milliseconds()] (integer division truncating toward zero, which is
    what rueidis' [Px] sends to Redis). *)
From Coq Require Import ZArith Lia Bool.
Open Scope Z_scope.

Definition ns_per_s : Z := 1000000000.
Definition ns_per_ms : Z := 1000000.

Definition secs (n : Z) : Z := n * ns_per_s.
Definition msecs (n : Z) : Z := n * ns_per_ms.

Global Arguments secs : simpl never.
Global Arguments msecs : simpl never.

Definition unix (t : Z) : Z := t / ns_per_s.
Definition millis (d : Z) : Z := Z.quot d ns_per_ms.

Lemma unix_lower t : secs (unix t) <= t.
Proof. unfold secs, unix, ns_per_s. pose proof (Z.mul_div_le t 1000000000). lia. Qed.

Lemma unix_upper t : t < secs (unix t + 1).
Proof.
  unfold secs, unix, ns_per_s.
  pose proof (Z.mod_pos_bound t 1000000000).
  pose proof (Z.div_mod t 1000000000). lia.
Qed.

Lemma unix_secs n : unix (secs n) = n.
Proof. unfold unix, secs, ns_per_s. apply Z.div_mul. lia. Qed.

Lemma unix_mono a b : a <= b -> unix a <= unix b.
Proof. intro H. unfold unix, ns_per_s. apply Z.div_le_mono; lia. Qed.

Lemma secs_mono a b : a <= b -> secs a <= secs b.
Proof. unfold secs, ns_per_s. lia. Qed.

Lemma secs_pos n : 0 < n -> 0 < secs n.
Proof. unfold secs, ns_per_s. lia. Qed.

Lemma secs_sub a b : secs (a - b) = secs a - secs b.
Proof. unfold secs. lia. Qed.

Lemma secs_add a b : secs (a + b) = secs a + secs b.
Proof. unfold secs. lia. Qed.

(** [millis] of a non-negative duration never exceeds it *)
Lemma millis_le d : 0 <= d -> msecs (millis d) <= d.
Proof.
  intro H. unfold msecs, millis, ns_per_ms.
  rewrite Z.quot_div_nonneg by lia.
  pose proof (Z.mul_div_le d 1000000). lia.
Qed.

Lemma millis_pos_iff d : 0 < millis d <-> ns_per_ms <= d.
Proof.
  unfold millis, ns_per_ms. split; intro H.
  - destruct (Z_lt_le_dec d 0) as [Hn|Hn].
    + pose proof (Z.quot_opp_l d 1000000 ltac:(lia)).
      assert (0 <= Z.quot (- d) 1000000) by (apply Z.quot_pos; lia). lia.
    + rewrite Z.quot_div_nonneg in H by lia.
      destruct (Z_lt_le_dec d 1000000) as [Hs|Hs]; [|exact Hs].
      rewrite Z.div_small in H by lia. lia.
  - rewrite Z.quot_div_nonneg by lia.
    assert (1 <= d / 1000000) by (apply Z.div_le_lower_bound; lia). lia.
Qed.

(** "a token/certificate with expiry second [exp_s] is used at instant [t]
    while still valid": Go compares whole seconds, [now.Unix() < exp]. *)
Definition before_expiry_s (t exp_s : Z) : Prop := unix t < exp_s.

Lemma before_expiry_s_of_lt t exp_s : t < secs exp_s -> before_expiry_s t exp_s.
Proof.
  unfold before_expiry_s. intro H. pose proof (unix_lower t).
  unfold secs, ns_per_s in *. lia.
Qed.
