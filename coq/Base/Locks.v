(** * Base/Locks.v — interleaving semantics of sync.Mutex / sync.RWMutex over
    event skeletons, and the lock-discipline theorems (C07, usable by C16).

    A _skeleton_ is, per method of a Go type, the set of straight-line _paths_
    through the method body, each path being the sequence of the
    synchronisation events and of the accesses to the guarded fields:

      Lock m / Unlock m / RLock m / RUnlock m      sync.Mutex / sync.RWMutex
      Read v / Write v                             a plain guarded field
      Load x p / Store p x                         a guarded _pointer_ field p
                                                   (x is a method-local name)
      Clone y x / ObjRead x / ObjWrite x           the object a local points to

    (The skeleton of heimdall's rule repository is regenerated from
    repository_impl.go by harness/tools/skel into Gen/RepoSkel.v.)

    The semantics is an interleaving semantics with an UNBOUNDED number of
    threads (thread ids are all of [nat]); every thread executes an unbounded
    sequence of operations, each operation being one path of one method.
    Things that crash a Go program (unlock of an unlocked mutex, nil
    dereference) or that the extractor could not translate are [bad] steps.

    Theorems, for EVERY skeleton that passes the boolean check [wf_locks]:
      [no_bad]          no reachable configuration can take a bad step
      [race_free]       no reachable configuration has two threads about to
                        perform conflicting accesses to the same field or object
      [mutual_exclusion]
      [deadlock_free]   whenever an operation is in flight some in-flight
                        thread can take a step (with and without the
                        writer-preference rule of sync.RWMutex)

    Stdlib only, no axioms. *)
From HV Require Import Base.Prelude.


(* ------------------------------------------------------------------ events *)

Definition lock := nat.
Definition var := nat.
Definition lname := nat.
Definition oid := nat.
Definition tid := nat.

Inductive event : Type :=
| ELock (m : lock) | EUnlock (m : lock) | ERLock (m : lock) | ERUnlock (m : lock)
| ERead (v : var) | EWrite (v : var)
| ELoad (x : lname) (p : var) | EStore (p : var) (x : lname)
| EClone (y x : lname) | EObjRead (x : lname) | EObjWrite (x : lname)
| EUnsupported.

Definition event_eq_dec : forall a b : event, {a = b} + {a <> b}.
Proof. decide equality; apply Nat.eq_dec. Defined.

Definition event_eqb (a b : event) : bool := if event_eq_dec a b then true else false.

(** ** Structured method bodies and their paths

    The extractor emits the statement structure; the enumeration of paths
    (including the execution of deferred calls at every return, LIFO) is done
    here, inside Coq, so that it can be read and is evaluated by the kernel.

    A loop is summarised: its body is executed zero times or "once", and it
    may contain only object accesses (consecutive accesses by one thread to one
    object without intervening synchronisation are one access for the lockset /
    ownership discipline and compose as functions); any other event inside a
    loop makes the path [EUnsupported]. *)
Inductive stmt : Type :=
| SEv (e : event)
| SDefer (e : event)
| SReturn
| SIf (a b : list stmt)
| SLoop (b : list stmt)
| SCall (b : list stmt).      (* inlined call of another method of the receiver *)

(** outcome of a block: events executed, deferred events pushed (latest first),
    and whether the enclosing function returned *)
Definition outc := (list event * list event * bool)%type.

Definition seq_outc (o1 o2 : list outc) : list outc :=
  flat_map (fun a : outc =>
    let '(e1, d1, r1) := a in
    if r1 then [a]
    else map (fun b : outc => let '(e2, d2, r2) := b in (e1 ++ e2, d2 ++ d1, r2)) o2) o1.

Definition loop_event_ok (e : event) : bool :=
  match e with EObjRead _ | EObjWrite _ => true | _ => false end.

Definition loop_outc (body : list outc) : list outc :=
  ([], [], false) ::
  map (fun a : outc =>
    let '(e, d, r) := a in
    if forallb loop_event_ok e && is_nil d then (e, [], r) else ([EUnsupported], [], r)) body.

Fixpoint stmt_outc (s : stmt) : list outc :=
  let block := fix block (l : list stmt) : list outc :=
    match l with
    | [] => [([], [], false)]
    | s :: r => seq_outc (stmt_outc s) (block r)
    end in
  match s with
  | SEv e => [([e], [], false)]
  | SDefer e => [([], [e], false)]
  | SReturn => [([], [], true)]
  | SIf a b => block a ++ block b
  | SLoop b => loop_outc (block b)
  | SCall b => map (fun a : outc => let '(e, d, _) := a in (e ++ d, [], false)) (block b)
  end.

Definition dedup_paths (l : list (list event)) : list (list event) :=
  nodup (list_eq_dec event_eq_dec) l.

(** all paths of a method body (deferred calls run when the method returns) *)
Definition method_paths (body : list stmt) : list (list event) :=
  dedup_paths (map (fun a : outc => fst (fst a)) (stmt_outc (SCall body))).

(* ------------------------------------------------------------------ skeleton *)

Record skel := {
  sk_meths : list (list (list event));   (* method -> its paths *)
  sk_rank : lock -> nat;                 (* acquisition order certificate *)
  sk_bound : nat                         (* upper bound of the ranks used *)
}.

Definition all_paths (sk : skel) : list (list event) := concat (sk_meths sk).

(* ------------------------------------------------------------------ small helpers *)

Definition upd {A} (f : nat -> A) (k : nat) (v : A) : nat -> A :=
  fun k' => if k' =? k then v else f k'.

Lemma upd_same {A} (f : nat -> A) k v : upd f k v k = v.
Proof. unfold upd. rewrite Nat.eqb_refl. reflexivity. Qed.

Lemma upd_other {A} (f : nat -> A) k v k' : k' <> k -> upd f k v k' = f k'.
Proof. intro H. unfold upd. apply Nat.eqb_neq in H. rewrite H. reflexivity. Qed.

Fixpoint splits {A} (l : list A) : list (list A * list A) :=
  match l with
  | [] => [([], [])]
  | x :: r => ([], l) :: map (fun p => (x :: fst p, snd p)) (splits r)
  end.

Lemma splits_nil_in {A} (l : list A) : In ([], l) (splits l).
Proof. destruct l; simpl; auto. Qed.

Lemma splits_app {A} (l : list A) d t : In (d, t) (splits l) -> d ++ t = l.
Proof.
  revert d t; induction l as [|x r IH]; simpl; intros d t H.
  - destruct H as [H|[]]. inversion H; reflexivity.
  - destruct H as [H|H]. { inversion H; reflexivity. }
    apply in_map_iff in H as ([d' t'] & E & Hin). simpl in E. inversion E; subst.
    simpl. f_equal. apply IH; assumption.
Qed.

Lemma splits_next {A} (l : list A) d e t :
  In (d, e :: t) (splits l) -> In (d ++ [e], t) (splits l).
Proof.
  revert d; induction l as [|x r IH]; simpl; intros d H.
  - destruct H as [H|[]]. inversion H.
  - destruct H as [H|H].
    + inversion H; subst. right. apply in_map_iff. exists ([], t). split; [reflexivity|].
      apply splits_nil_in.
    + apply in_map_iff in H as ([d' t'] & E & Hin). simpl in E. inversion E; subst.
      right. apply in_map_iff. exists (d' ++ [e], t). split; [reflexivity|]. apply IH; assumption.
Qed.

(* ------------------------------------------------------------------ static lock sets *)

(** an entry [(m, true)] = m held exclusively, [(m, false)] = m held shared *)
Definition hentry := (lock * bool)%type.

Fixpoint hremove (m : lock) (x : bool) (h : list hentry) : list hentry :=
  match h with
  | [] => []
  | e :: r => if (fst e =? m) && Bool.eqb (snd e) x then r else e :: hremove m x r
  end.

Definition hmem (m : lock) (x : bool) (h : list hentry) : bool :=
  existsb (fun e => (fst e =? m) && Bool.eqb (snd e) x) h.

Definition hlocked (m : lock) (h : list hentry) : bool := existsb (fun e => fst e =? m) h.

Definition held_step (h : list hentry) (e : event) : list hentry :=
  match e with
  | ELock m => (m, true) :: h
  | ERLock m => (m, false) :: h
  | EUnlock m => hremove m true h
  | ERUnlock m => hremove m false h
  | _ => h
  end.

Definition held_after (done : list event) : list hentry := fold_left held_step done [].

Lemma held_after_snoc d e : held_after (d ++ [e]) = held_step (held_after d) e.
Proof. unfold held_after. rewrite fold_left_app. reflexivity. Qed.

Lemma hmem_In m x h : hmem m x h = true <-> In (m, x) h.
Proof.
  unfold hmem. rewrite existsb_exists. split.
  - intros ([m' x'] & Hin & H). simpl in H. apply andb_true_iff in H as [H1 H2].
    apply Nat.eqb_eq in H1. apply eqb_prop in H2. subst. assumption.
  - intro H. exists (m, x). split; [assumption|]. simpl. rewrite Nat.eqb_refl, eqb_reflx. reflexivity.
Qed.

Lemma hlocked_false m h : hlocked m h = false <-> forall x, ~ In (m, x) h.
Proof.
  unfold hlocked. split.
  - intros H x Hin. rewrite <- not_true_iff_false in H. apply H.
    apply existsb_exists. exists (m, x). split; [assumption|]. simpl. apply Nat.eqb_refl.
  - intro H. destruct (existsb (fun e : hentry => fst e =? m) h) eqn:E; [|exact E].
    apply existsb_exists in E as ([m' x'] & Hin & E). simpl in E. apply Nat.eqb_eq in E. subst.
    exfalso. eapply H; eassumption.
Qed.

Lemma hremove_In_other m x h e : e <> (m, x) -> (In e (hremove m x h) <-> In e h).
Proof.
  intro Hne. induction h as [|[m' x'] r IH]; simpl; [tauto|].
  destruct ((m' =? m) && Bool.eqb x' x) eqn:E.
  - apply andb_true_iff in E as [E1 E2]. apply Nat.eqb_eq in E1. apply eqb_prop in E2. subst.
    split; [auto|]. intros [H|H]; [congruence|assumption].
  - simpl. rewrite IH. tauto.
Qed.

Lemma hremove_In_same m x h :
  NoDup (map fst h) -> ~ In (m, x) (hremove m x h).
Proof.
  induction h as [|[m' x'] r IH]; simpl; intros Hnd; [tauto|].
  inversion Hnd as [|? ? Hnotin Hnd']; subst.
  destruct ((m' =? m) && Bool.eqb x' x) eqn:E.
  - apply andb_true_iff in E as [E1 E2]. apply Nat.eqb_eq in E1. subst.
    intro Hin. apply Hnotin. apply in_map_iff. exists (m, x). split; [reflexivity|assumption].
  - intros [H|H].
    + inversion H; subst. rewrite Nat.eqb_refl, eqb_reflx in E. discriminate.
    + apply IH; assumption.
Qed.

Lemma hremove_incl m x h e : In e (hremove m x h) -> In e h.
Proof.
  induction h as [|[m' x'] r IH]; simpl; [tauto|].
  destruct ((m' =? m) && Bool.eqb x' x); simpl; intros H; [auto|].
  destruct H; [auto|]. right. apply IH; assumption.
Qed.

Lemma hremove_NoDup m x h : NoDup (map fst h) -> NoDup (map fst (hremove m x h)).
Proof.
  induction h as [|[m' x'] r IH]; simpl; intros Hnd; [constructor|].
  inversion Hnd as [|? ? Hnotin Hnd']; subst.
  destruct ((m' =? m) && Bool.eqb x' x); [assumption|].
  simpl. constructor; [|apply IH; assumption].
  intro Hin. apply Hnotin. apply in_map_iff in Hin as (e & E & Hin).
  apply in_map_iff. exists e. split; [assumption|]. eapply hremove_incl; eassumption.
Qed.

(* ------------------------------------------------------------------ static object status *)

(** what a method-local name refers to: a fresh private clone, or an object
    that is (or has just been) published through a shared pointer field *)
Inductive status := Priv | Pub.

Definition stat_step (s : lname -> option status) (e : event) : lname -> option status :=
  match e with
  | ELoad x _ => upd s x (Some Pub)
  | EClone y _ => upd s y (Some Priv)
  | EStore _ x => upd s x (Some Pub)
  | _ => s
  end.

Definition stat_after (done : list event) : lname -> option status :=
  fold_left stat_step done (fun _ => None).

Lemma stat_after_snoc d e : stat_after (d ++ [e]) = stat_step (stat_after d) e.
Proof. unfold stat_after. rewrite fold_left_app. reflexivity. Qed.

Definition is_priv (s : option status) : bool := match s with Some Priv => true | _ => false end.
Definition is_def (s : option status) : bool := match s with Some _ => true | None => false end.

(* ------------------------------------------------------------------ the boolean check *)

(** what the next event [e] requires of the static state after [done] *)
Definition ev_ok (sk : skel) (done : list event) (e : event) : bool :=
  let h := held_after done in
  let s := stat_after done in
  match e with
  | ELock m | ERLock m =>
      negb (hlocked m h) && forallb (fun x : hentry => sk_rank sk (fst x) <? sk_rank sk m) h
      && (sk_rank sk m <=? sk_bound sk)
  | EUnlock m => hmem m true h
  | ERUnlock m => hmem m false h
  | ERead _ | EWrite _ | ELoad _ _ => true
  | EStore _ x => is_priv (s x)
  | EClone _ x => is_def (s x)
  | EObjRead x => is_def (s x)
  | EObjWrite x => is_priv (s x)
  | EUnsupported => false
  end.

Definition point_ok (sk : skel) (pt : list event * list event) : bool :=
  match snd pt with
  | [] => is_nil (held_after (fst pt))
  | e :: _ => ev_ok sk (fst pt) e
  end.

(** accesses to guarded fields: (field, is-write) *)
Definition access (e : event) : option (var * bool) :=
  match e with
  | ERead v => Some (v, false)
  | EWrite v => Some (v, true)
  | ELoad _ p => Some (p, false)
  | EStore p _ => Some (p, true)
  | _ => None
  end.

(** all access points of a path: (field, is-write, locks held there) *)
Definition access_points (path : list event) : list (var * bool * list hentry) :=
  flat_map (fun pt : list event * list event =>
    match snd pt with
    | e :: _ => match access e with
                | Some (v, w) => [(v, w, held_after (fst pt))]
                | None => []
                end
    | [] => []
    end) (splits path).

(** two lock sets exclude each other: some lock is in both, exclusively in one *)
Definition excludes (h1 h2 : list hentry) : bool :=
  existsb (fun e : hentry => snd e && hlocked (fst e) h2) h1 ||
  existsb (fun e : hentry => snd e && hlocked (fst e) h1) h2.

Definition pair_ok (a b : var * bool * list hentry) : bool :=
  let '(v1, w1, h1) := a in
  let '(v2, w2, h2) := b in
  negb ((v1 =? v2) && (w1 || w2)) || excludes h1 h2.

Definition lockset_ok (sk : skel) : bool :=
  let aps := flat_map access_points (all_paths sk) in
  forallb (fun a => forallb (pair_ok a) aps) aps.

Definition wf_locks (sk : skel) : bool :=
  forallb (fun path => forallb (point_ok sk) (splits path)) (all_paths sk) && lockset_ok sk.

(** counter-example of the lockset part: a pair of unprotected conflicting accesses *)
Definition lockset_cex (sk : skel) : list ((var * bool * list hentry) * (var * bool * list hentry)) :=
  let aps := flat_map access_points (all_paths sk) in
  flat_map (fun a => map (fun b => (a, b)) (filter (fun b => negb (pair_ok a b)) aps)) aps.

(** counter-example of the per-point part: (executed prefix, offending rest) *)
Definition point_cex (sk : skel) : list (list event * list event) :=
  flat_map (fun path => filter (fun pt => negb (point_ok sk pt)) (splits path)) (all_paths sk).

(* ------------------------------------------------------------------ semantics *)

Section Semantics.

Variable val : Type.     (* contents of fields and objects *)
Variable arg : Type.     (* arguments of operations *)

Record op := { o_meth : nat; o_path : nat; o_arg : arg }.

(** the value an operation writes at position [pc] of its path is a function of
    everything it has read so far; the functions are not interpreted *)
Variable wfun : op -> nat -> list val -> val.

Variable sk : skel.

(** [wp = true]: sync.RWMutex's writer preference (a pending Lock blocks new RLocks) *)
Variable wp : bool.

Inductive lstate := LExcl (t : tid) | LShared (ts : list tid).

Record run := {
  r_op : op;
  r_done : list event;      (* events of this operation executed so far *)
  r_todo : list event;      (* rest of the path *)
  r_loc : lname -> option oid;
  r_log : list val          (* every value read so far *)
}.

Record cfg := {
  c_lk : lock -> lstate;
  c_val : var -> val;
  c_ptr : var -> oid;
  c_heap : oid -> val;
  c_next : oid;
  c_thr : tid -> option run
}.

Definition set_thr (c : cfg) (t : tid) (r : option run) : cfg :=
  {| c_lk := c_lk c; c_val := c_val c; c_ptr := c_ptr c; c_heap := c_heap c; c_next := c_next c;
     c_thr := upd (c_thr c) t r |}.

Definition adv (r : run) (e : event) (rest : list event) : run :=
  {| r_op := r_op r; r_done := r_done r ++ [e]; r_todo := rest; r_loc := r_loc r; r_log := r_log r |}.

Definition with_log (r : run) (l : list val) : run :=
  {| r_op := r_op r; r_done := r_done r; r_todo := r_todo r; r_loc := r_loc r; r_log := l |}.

Definition with_loc (r : run) (x : lname) (o : oid) : run :=
  {| r_op := r_op r; r_done := r_done r; r_todo := r_todo r; r_loc := upd (r_loc r) x (Some o);
     r_log := r_log r |}.

Definition waiting_excl (c : cfg) (m : lock) : Prop :=
  exists t r rest, c_thr c t = Some r /\ r_todo r = ELock m :: rest.

Definition pc (r : run) : nat := length (r_done r).

Inductive label := LBegin (t : tid) (o : op) | LEv (t : tid) (e : event) | LEnd (t : tid) (o : op) (log : list val).

(** the effect of event [e] of thread [t], whose run is [r] with [r_todo r = e :: rest] *)
Inductive ev_step (c : cfg) (t : tid) (r : run) (rest : list event) : event -> cfg -> Prop :=
| st_lock m :
    c_lk c m = LShared [] ->
    ev_step c t r rest (ELock m)
      {| c_lk := upd (c_lk c) m (LExcl t); c_val := c_val c; c_ptr := c_ptr c; c_heap := c_heap c;
         c_next := c_next c; c_thr := upd (c_thr c) t (Some (adv r (ELock m) rest)) |}
| st_unlock m t' :
    c_lk c m = LExcl t' ->
    ev_step c t r rest (EUnlock m)
      {| c_lk := upd (c_lk c) m (LShared []); c_val := c_val c; c_ptr := c_ptr c; c_heap := c_heap c;
         c_next := c_next c; c_thr := upd (c_thr c) t (Some (adv r (EUnlock m) rest)) |}
| st_rlock m ts :
    c_lk c m = LShared ts ->
    (wp = true -> ~ waiting_excl c m) ->
    ev_step c t r rest (ERLock m)
      {| c_lk := upd (c_lk c) m (LShared (t :: ts)); c_val := c_val c; c_ptr := c_ptr c; c_heap := c_heap c;
         c_next := c_next c; c_thr := upd (c_thr c) t (Some (adv r (ERLock m) rest)) |}
| st_runlock m ts :
    c_lk c m = LShared ts -> In t ts ->
    ev_step c t r rest (ERUnlock m)
      {| c_lk := upd (c_lk c) m (LShared (remove Nat.eq_dec t ts)); c_val := c_val c; c_ptr := c_ptr c;
         c_heap := c_heap c; c_next := c_next c; c_thr := upd (c_thr c) t (Some (adv r (ERUnlock m) rest)) |}
| st_read v :
    ev_step c t r rest (ERead v)
      (set_thr c t (Some (adv (with_log r (r_log r ++ [c_val c v])) (ERead v) rest)))
| st_write v :
    ev_step c t r rest (EWrite v)
      {| c_lk := c_lk c; c_val := upd (c_val c) v (wfun (r_op r) (pc r) (r_log r)); c_ptr := c_ptr c;
         c_heap := c_heap c; c_next := c_next c; c_thr := upd (c_thr c) t (Some (adv r (EWrite v) rest)) |}
| st_load x p :
    ev_step c t r rest (ELoad x p)
      (set_thr c t (Some (adv (with_loc r x (c_ptr c p)) (ELoad x p) rest)))
| st_store p x o :
    r_loc r x = Some o ->
    ev_step c t r rest (EStore p x)
      {| c_lk := c_lk c; c_val := c_val c; c_ptr := upd (c_ptr c) p o; c_heap := c_heap c;
         c_next := c_next c; c_thr := upd (c_thr c) t (Some (adv r (EStore p x) rest)) |}
| st_clone y x o :
    r_loc r x = Some o ->
    ev_step c t r rest (EClone y x)
      {| c_lk := c_lk c; c_val := c_val c; c_ptr := c_ptr c;
         c_heap := upd (c_heap c) (c_next c) (c_heap c o); c_next := S (c_next c);
         c_thr := upd (c_thr c) t (Some (adv (with_loc r y (c_next c)) (EClone y x) rest)) |}
| st_objread x o :
    r_loc r x = Some o ->
    ev_step c t r rest (EObjRead x)
      (set_thr c t (Some (adv (with_log r (r_log r ++ [c_heap c o])) (EObjRead x) rest)))
| st_objwrite x o :
    r_loc r x = Some o ->
    ev_step c t r rest (EObjWrite x)
      {| c_lk := c_lk c; c_val := c_val c; c_ptr := c_ptr c;
         c_heap := upd (c_heap c) o (wfun (r_op r) (pc r) (r_log r ++ [c_heap c o]));
         c_next := c_next c;
         c_thr := upd (c_thr c) t
                    (Some (adv (with_log r (r_log r ++ [c_heap c o])) (EObjWrite x) rest)) |}.

Definition path_of (o : op) : option (list event) :=
  match nth_error (sk_meths sk) (o_meth o) with
  | Some ps => nth_error ps (o_path o)
  | None => None
  end.

Inductive step (c : cfg) : label -> cfg -> Prop :=
| step_begin t o path :
    c_thr c t = None -> path_of o = Some path ->
    step c (LBegin t o)
      (set_thr c t (Some {| r_op := o; r_done := []; r_todo := path; r_loc := fun _ => None; r_log := [] |}))
| step_ev t r e rest c' :
    c_thr c t = Some r -> r_todo r = e :: rest -> ev_step c t r rest e c' ->
    step c (LEv t e) c'
| step_end t r :
    c_thr c t = Some r -> r_todo r = [] ->
    step c (LEnd t (r_op r) (r_log r)) (set_thr c t None).

(** steps that crash a Go program, or that release a lock the thread does not
    hold, or that the extractor could not translate *)
Definition bad_event (c : cfg) (t : tid) (r : run) (e : event) : Prop :=
  match e with
  | EUnlock m => c_lk c m <> LExcl t
  | ERUnlock m => forall ts, c_lk c m = LShared ts -> ~ In t ts
  | EStore _ x | EClone _ x | EObjRead x | EObjWrite x => r_loc r x = None
  | EUnsupported => True
  | _ => False
  end.

Definition bad (c : cfg) : Prop :=
  exists t r e rest, c_thr c t = Some r /\ r_todo r = e :: rest /\ bad_event c t r e.

(** initial configurations: nothing locked, nobody running, every pointer field
    points to an allocated object *)
Definition initial (c : cfg) : Prop :=
  (forall m, c_lk c m = LShared []) /\ (forall t, c_thr c t = None) /\ (forall p, c_ptr c p < c_next c).

Inductive reach : cfg -> Prop :=
| reach_init c : initial c -> reach c
| reach_step c l c' : reach c -> step c l c' -> reach c'.

(* ---------------------------------------------------------------- invariants *)

Definition hold (c : cfg) (t : tid) : list hentry :=
  match c_thr c t with Some r => held_after (r_done r) | None => [] end.

Definition on_path (r : run) : Prop :=
  exists path, In path (all_paths sk) /\ In (r_done r, r_todo r) (splits path).

(** agreement between the dynamic lock state and the static lock sets *)
Record lock_inv (c : cfg) : Prop := {
  li_path : forall t r, c_thr c t = Some r -> on_path r;
  li_excl : forall t m, In (m, true) (hold c t) <-> c_lk c m = LExcl t;
  li_shared : forall t m, In (m, false) (hold c t) <-> exists ts, c_lk c m = LShared ts /\ In t ts;
  li_nodup : forall m ts, c_lk c m = LShared ts -> NoDup ts;
  li_once : forall t, NoDup (map fst (hold c t))
}.

Hypothesis WF : wf_locks sk = true.

Lemma wf_point path d t : In path (all_paths sk) -> In (d, t) (splits path) -> point_ok sk (d, t) = true.
Proof.
  intros Hp Hs. unfold wf_locks in WF. apply andb_true_iff in WF as [W _].
  rewrite forallb_forall in W. specialize (W _ Hp). rewrite forallb_forall in W. apply W; assumption.
Qed.

Lemma on_path_ev r e rest : on_path r -> r_todo r = e :: rest -> ev_ok sk (r_done r) e = true.
Proof.
  intros (path & Hp & Hs) E. rewrite E in Hs.
  change (point_ok sk (r_done r, e :: rest) = true). eapply wf_point; eassumption.
Qed.

Lemma on_path_end r : on_path r -> r_todo r = [] -> held_after (r_done r) = [].
Proof.
  intros (path & Hp & Hs) E. rewrite E in Hs.
  assert (H : point_ok sk (r_done r, []) = true) by (eapply wf_point; eassumption).
  unfold point_ok in H. simpl in H. destruct (held_after (r_done r)); [reflexivity|discriminate].
Qed.

Lemma on_path_adv r e rest r' :
  on_path r -> r_todo r = e :: rest -> r_done r' = r_done r ++ [e] -> r_todo r' = rest -> on_path r'.
Proof.
  intros (path & Hp & Hs) E Hd Ht. exists path. split; [assumption|].
  rewrite Hd, Ht. apply splits_next. rewrite <- E. assumption.
Qed.

Lemma path_of_in o path : path_of o = Some path -> In path (all_paths sk).
Proof.
  unfold path_of, all_paths. destruct (nth_error (sk_meths sk) (o_meth o)) as [ps|] eqn:E; [|discriminate].
  intro H. apply in_concat. exists ps. split; eapply nth_error_In; eassumption.
Qed.

(** *** what a step does to the thread table and to the lock sets *)

Lemma ev_step_thr c t r rest e c' :
  ev_step c t r rest e c' ->
  exists r', c_thr c' = upd (c_thr c) t (Some r') /\ r_done r' = r_done r ++ [e] /\ r_todo r' = rest /\ r_op r' = r_op r.
Proof. intro H. inversion H; subst; simpl; eexists; (split; [reflexivity|]); simpl; auto. Qed.

Lemma hold_upd c c' t r' :
  c_thr c' = upd (c_thr c) t (Some r') ->
  forall t1, hold c' t1 = if t1 =? t then held_after (r_done r') else hold c t1.
Proof.
  intros E t1. unfold hold. rewrite E. unfold upd. destruct (t1 =? t); reflexivity.
Qed.

Lemma hold_ev c t r rest e c' :
  c_thr c t = Some r -> ev_step c t r rest e c' ->
  forall t1, hold c' t1 = if t1 =? t then held_step (hold c t) e else hold c t1.
Proof.
  intros Ht H t1. destruct (ev_step_thr _ _ _ _ _ _ H) as (r' & E & Hd & _ & _).
  rewrite (hold_upd _ _ _ _ E). destruct (t1 =? t); [|reflexivity].
  rewrite Hd, held_after_snoc. unfold hold. rewrite Ht. reflexivity.
Qed.

Definition is_lock_event (e : event) : bool :=
  match e with ELock _ | EUnlock _ | ERLock _ | ERUnlock _ => true | _ => false end.

Lemma ev_step_lk_same c t r rest e c' :
  ev_step c t r rest e c' -> is_lock_event e = false -> c_lk c' = c_lk c.
Proof. intros H E. inversion H; subst; simpl in *; try discriminate; reflexivity. Qed.

Lemma held_step_same h e : is_lock_event e = false -> held_step h e = h.
Proof. destruct e; simpl; intro; try discriminate; reflexivity. Qed.

Lemma remove_In_iff (t t1 : tid) ts : In t1 (remove Nat.eq_dec t ts) <-> In t1 ts /\ t1 <> t.
Proof.
  split.
  - intro H. apply in_remove in H. assumption.
  - intros [H1 H2]. apply in_in_remove; assumption.
Qed.

Lemma NoDup_remove_nat (t : tid) ts : NoDup ts -> NoDup (remove Nat.eq_dec t ts).
Proof.
  induction ts as [|a ts IH]; simpl; intro H; [constructor|].
  inversion H; subst. destruct (Nat.eq_dec t a); [auto|].
  constructor; [|auto]. intro Hin. apply in_remove in Hin. tauto.
Qed.

Lemma lock_inv_init c : initial c -> lock_inv c.
Proof.
  intros (Hl & Ht & _). split.
  - intros t r E. rewrite Ht in E. discriminate.
  - intros t m. unfold hold. rewrite Ht, Hl. simpl. split; [tauto|discriminate].
  - intros t m. unfold hold. rewrite Ht, Hl. simpl. split; [tauto|].
    intros (ts & E & Hin). inversion E; subst. destruct Hin.
  - intros m ts E. rewrite Hl in E. inversion E. constructor.
  - intros t. unfold hold. rewrite Ht. constructor.
Qed.

Lemma lock_inv_step c l c' : lock_inv c -> step c l c' -> lock_inv c'.
Proof.
  intros I H. destruct H as [t o path Hnone Hpath | t r e rest c' Ht Htodo Hev | t r Ht Htodo].
  - (* begin *)
    assert (Hh : forall t1, hold (set_thr c t (Some {| r_op := o; r_done := []; r_todo := path;
                   r_loc := fun _ => None; r_log := [] |})) t1 = hold c t1).
    { intro t1. rewrite (hold_upd c (set_thr c t _) t {| r_op := o; r_done := []; r_todo := path;
                   r_loc := fun _ => None; r_log := [] |} eq_refl).
      destruct (t1 =? t) eqn:E; [|reflexivity]. apply Nat.eqb_eq in E. subst.
      unfold hold. rewrite Hnone. reflexivity. }
    split; simpl.
    + intros t1 r1. unfold upd. destruct (t1 =? t) eqn:E.
      * intro R. inversion R; subst. exists path. split; [eapply path_of_in; eassumption|]. simpl. apply splits_nil_in.
      * apply (li_path _ I).
    + intros t1 m. rewrite Hh. apply (li_excl _ I).
    + intros t1 m. rewrite Hh. apply (li_shared _ I).
    + apply (li_nodup _ I).
    + intros t1. rewrite Hh. apply (li_once _ I).
  - (* event *)
    pose proof (li_path _ I _ _ Ht) as Hon.
    pose proof (on_path_ev _ _ _ Hon Htodo) as Hok.
    destruct (ev_step_thr _ _ _ _ _ _ Hev) as (r' & Ethr & Hd & Htd & Hop).
    pose proof (hold_ev _ _ _ _ _ _ Ht Hev) as Hh.
    assert (Hpath' : forall t1 r1, c_thr c' t1 = Some r1 -> on_path r1).
    { intros t1 r1. rewrite Ethr. unfold upd. destruct (t1 =? t).
      - intro R. injection R as <-. apply (on_path_adv r e rest r' Hon Htodo Hd Htd).
      - apply (li_path _ I). }
    assert (Hht : hold c t = held_after (r_done r)) by (unfold hold; rewrite Ht; reflexivity).
    destruct (is_lock_event e) eqn:Elk.
    2:{ (* not a lock event: nothing changes *)
      pose proof (ev_step_lk_same _ _ _ _ _ _ Hev Elk) as Elk'.
      assert (Hh' : forall t1, hold c' t1 = hold c t1).
      { intro t1. rewrite Hh. destruct (t1 =? t) eqn:E; [|reflexivity].
        apply Nat.eqb_eq in E. subst. apply held_step_same; assumption. }
      split.
      - assumption.
      - intros t1 m. rewrite Hh', Elk'. apply (li_excl _ I).
      - intros t1 m. rewrite Hh', Elk'. apply (li_shared _ I).
      - rewrite Elk'. apply (li_nodup _ I).
      - intros t1. rewrite Hh'. apply (li_once _ I). }
    unfold ev_ok in Hok. rewrite <- Hht in Hok.
    inversion Hev; subst; simpl in Elk; try discriminate; simpl in Hh |- *.
    + (* lock *)
      apply andb_true_iff in Hok as [Hok _]. apply andb_true_iff in Hok as [Hnl _].
      apply negb_true_iff in Hnl. rewrite hlocked_false in Hnl.
      split; simpl.
      * assumption.
      * intros t1 m1. rewrite Hh. unfold upd. destruct (Nat.eqb_spec t1 t) as [->|N1]; destruct (Nat.eqb_spec m1 m) as [->|N2]; simpl.
        -- split; auto.
        -- rewrite <- (li_excl _ I). split; [intros [X|X]; [inversion X; congruence|assumption]|auto].
        -- rewrite (li_excl _ I). rewrite H. split; [discriminate|intro X; inversion X; congruence].
        -- apply (li_excl _ I).
      * intros t1 m1. rewrite Hh. unfold upd. destruct (Nat.eqb_spec t1 t) as [->|N1]; destruct (Nat.eqb_spec m1 m) as [->|N2]; simpl.
        -- split; [intros [X|X]; [discriminate|exfalso; eapply Hnl; eassumption]|intros (ts & X & _); discriminate].
        -- rewrite <- (li_shared _ I). split; [intros [X|X]; [discriminate|assumption]|auto].
        -- rewrite (li_shared _ I). rewrite H. split; [intros (ts & X & Y); inversion X; subst; destruct Y|intros (ts & X & _); discriminate].
        -- apply (li_shared _ I).
      * intros m1 ts. unfold upd. destruct (m1 =? m); [discriminate|apply (li_nodup _ I)].
      * intros t1. rewrite Hh. destruct (t1 =? t) eqn:E1; [|apply (li_once _ I)].
        simpl. constructor; [|apply (li_once _ I)].
        intro Hin. apply in_map_iff in Hin as ([m' x'] & E & Hin). simpl in E. subst. eapply Hnl; eassumption.
    + (* unlock *)
      rewrite hmem_In in Hok. pose proof Hok as Hown. rewrite (li_excl _ I) in Hown.
      rewrite H in Hown. inversion Hown; subst t'.
      split; simpl.
      * assumption.
      * intros t1 m1. rewrite Hh. unfold upd. destruct (Nat.eqb_spec t1 t) as [->|N1]; destruct (Nat.eqb_spec m1 m) as [->|N2]; simpl.
        -- split; [intro X; exfalso; eapply hremove_In_same; [apply (li_once _ I)|eassumption]|discriminate].
        -- rewrite hremove_In_other; [apply (li_excl _ I)|]. intro X; inversion X; congruence.
        -- rewrite (li_excl _ I). rewrite H. split; [intro X; inversion X; congruence|discriminate].
        -- apply (li_excl _ I).
      * intros t1 m1. rewrite Hh. unfold upd. destruct (Nat.eqb_spec t1 t) as [->|N1]; destruct (Nat.eqb_spec m1 m) as [->|N2]; simpl.
        -- rewrite hremove_In_other by discriminate. rewrite (li_shared _ I). rewrite H.
           split; [intros (ts & X & _); discriminate|intros (ts & X & Y); inversion X; subst; destruct Y].
        -- rewrite hremove_In_other by discriminate. apply (li_shared _ I).
        -- rewrite (li_shared _ I). rewrite H. split; [intros (ts & X & _); discriminate|intros (ts & X & Y); inversion X; subst; destruct Y].
        -- apply (li_shared _ I).
      * intros m1 ts. unfold upd. destruct (m1 =? m); [intro X; inversion X; constructor|apply (li_nodup _ I)].
      * intros t1. rewrite Hh. destruct (t1 =? t) eqn:E1; [|apply (li_once _ I)].
        apply hremove_NoDup. apply (li_once _ I).
    + (* rlock *)
      apply andb_true_iff in Hok as [Hok _]. apply andb_true_iff in Hok as [Hnl _].
      apply negb_true_iff in Hnl. rewrite hlocked_false in Hnl.
      split; simpl.
      * assumption.
      * intros t1 m1. rewrite Hh. unfold upd. destruct (Nat.eqb_spec t1 t) as [->|N1]; destruct (Nat.eqb_spec m1 m) as [->|N2]; simpl.
        -- split; [intros [X|X]; [discriminate|exfalso; eapply Hnl; eassumption]|discriminate].
        -- rewrite <- (li_excl _ I). split; [intros [X|X]; [discriminate|assumption]|auto].
        -- rewrite (li_excl _ I). rewrite H. split; discriminate.
        -- apply (li_excl _ I).
      * intros t1 m1. rewrite Hh. unfold upd. destruct (Nat.eqb_spec t1 t) as [->|N1]; destruct (Nat.eqb_spec m1 m) as [->|N2]; simpl.
        -- split; [intros _; eexists; split; [reflexivity|left; reflexivity]|auto].
        -- rewrite <- (li_shared _ I). split; [intros [X|X]; [inversion X; congruence|assumption]|auto].
        -- rewrite (li_shared _ I). rewrite H. split.
           ++ intros (ts' & X & Y). inversion X; subst. eexists; split; [reflexivity|right; assumption].
           ++ intros (ts' & X & Y). inversion X; subst. destruct Y as [Y|Y]; [congruence|]. eexists; split; [reflexivity|assumption].
        -- apply (li_shared _ I).
      * intros m1 ts'. unfold upd. destruct (m1 =? m); [|apply (li_nodup _ I)].
        intro X; inversion X; subst. constructor; [|eapply (li_nodup _ I); eassumption].
        intro Hin. eapply (Hnl false). rewrite (li_shared _ I). eexists; split; eassumption.
      * intros t1. rewrite Hh. destruct (t1 =? t) eqn:E1; [|apply (li_once _ I)].
        simpl. constructor; [|apply (li_once _ I)].
        intro Hin. apply in_map_iff in Hin as ([m' x'] & E & Hin). simpl in E. subst. eapply Hnl; eassumption.
    + (* runlock *)
      rewrite hmem_In in Hok.
      split; simpl.
      * assumption.
      * intros t1 m1. rewrite Hh. unfold upd. destruct (Nat.eqb_spec t1 t) as [->|N1]; destruct (Nat.eqb_spec m1 m) as [->|N2]; simpl.
        -- rewrite hremove_In_other by discriminate. rewrite (li_excl _ I). rewrite H. split; discriminate.
        -- rewrite hremove_In_other by discriminate. apply (li_excl _ I).
        -- rewrite (li_excl _ I). rewrite H. split; discriminate.
        -- apply (li_excl _ I).
      * intros t1 m1. rewrite Hh. unfold upd. destruct (Nat.eqb_spec t1 t) as [->|N1]; destruct (Nat.eqb_spec m1 m) as [->|N2]; simpl.
        -- split; [intro X; exfalso; eapply hremove_In_same; [apply (li_once _ I)|eassumption]|].
           intros (ts' & X & Y). inversion X; subst. apply remove_In_iff in Y. tauto.
        -- rewrite hremove_In_other; [apply (li_shared _ I)|]. intro X; inversion X; congruence.
        -- rewrite (li_shared _ I). rewrite H. split.
           ++ intros (ts' & X & Y). inversion X; subst. eexists; split; [reflexivity|]. apply remove_In_iff. tauto.
           ++ intros (ts' & X & Y). inversion X; subst. apply remove_In_iff in Y. eexists; split; [reflexivity|tauto].
        -- apply (li_shared _ I).
      * intros m1 ts'. unfold upd. destruct (m1 =? m); [|apply (li_nodup _ I)].
        intro X; inversion X; subst. apply NoDup_remove_nat. eapply (li_nodup _ I); eassumption.
      * intros t1. rewrite Hh. destruct (t1 =? t) eqn:E1; [|apply (li_once _ I)].
        apply hremove_NoDup. apply (li_once _ I).
  - (* end *)
    pose proof (on_path_end _ (li_path _ I _ _ Ht) Htodo) as Hnil.
    assert (Hh : forall t1, hold (set_thr c t None) t1 = hold c t1).
    { intro t1. unfold hold, set_thr; simpl. unfold upd. destruct (t1 =? t) eqn:E; [|reflexivity].
      apply Nat.eqb_eq in E. subst. rewrite Ht. symmetry. assumption. }
    split; simpl.
    + intros t1 r1. unfold upd. destruct (t1 =? t); [discriminate|apply (li_path _ I)].
    + intros t1 m. rewrite Hh. apply (li_excl _ I).
    + intros t1 m. rewrite Hh. apply (li_shared _ I).
    + apply (li_nodup _ I).
    + intros t1. rewrite Hh. apply (li_once _ I).
Qed.

Theorem reach_lock_inv c : reach c -> lock_inv c.
Proof. induction 1; [apply lock_inv_init; assumption|eapply lock_inv_step; eassumption]. Qed.

(* ---------------------------------------------------------------- ownership of objects *)

Definition stat_of (r : run) : lname -> option status := stat_after (r_done r).

(** a local that is statically [Priv] refers to an object nobody else can reach *)
Record own_inv (c : cfg) : Prop := {
  oi_def : forall t r x, c_thr c t = Some r -> (stat_of r x = None <-> r_loc r x = None);
  oi_alloc : forall t r x o, c_thr c t = Some r -> r_loc r x = Some o -> o < c_next c;
  oi_ptr : forall p, c_ptr c p < c_next c;
  oi_priv : forall t r x o, c_thr c t = Some r -> stat_of r x = Some Priv -> r_loc r x = Some o ->
      (forall p, c_ptr c p <> o) /\
      (forall t' r' y, c_thr c t' = Some r' -> r_loc r' y = Some o -> t' = t /\ y = x)
}.

Lemma own_inv_init c : initial c -> own_inv c.
Proof.
  intros (_ & Ht & Hp). split; try (intros t r; intros; rewrite Ht in *; discriminate).
  assumption.
Qed.

Lemma upd_Some_inv {A} (f : nat -> option A) k v k' a :
  upd f k (Some v) k' = Some a -> (k' = k /\ a = v) \/ (k' <> k /\ f k' = Some a).
Proof.
  unfold upd. destruct (Nat.eqb_spec k' k); intro H; [left|right]; split; congruence.
Qed.

Lemma own_inv_step c l c' : lock_inv c -> own_inv c -> step c l c' -> own_inv c'.
Proof.
  intros LI I H. destruct H as [t o path Hnone Hpath | t r e rest c' Ht Htodo Hev | t r Ht Htodo].
  - (* begin *)
    split; simpl.
    + intros t1 r1 x E. apply upd_Some_inv in E as [[-> ->]|[N E]]; [|apply (oi_def _ I _ _ _ E)].
      unfold stat_of, stat_after. simpl. tauto.
    + intros t1 r1 x o1 E. apply upd_Some_inv in E as [[-> ->]|[N E]]; [simpl; discriminate|apply (oi_alloc _ I _ _ _ _ E)].
    + apply (oi_ptr _ I).
    + intros t1 r1 x o1 E. apply upd_Some_inv in E as [[-> ->]|[N E]]; [simpl; discriminate|].
      intros Hs Hl. destruct (oi_priv _ I _ _ _ _ E Hs Hl) as [P1 P2]. split; [assumption|].
      intros t2 r2 y E2. apply upd_Some_inv in E2 as [[-> ->]|[N2 E2]]; [simpl; discriminate|].
      apply P2; assumption.
  - (* event *)
    pose proof (on_path_ev _ _ _ (li_path _ LI _ _ Ht) Htodo) as Hok. unfold ev_ok in Hok.
    assert (Hdef : forall x, stat_of r x = None <-> r_loc r x = None) by (intro x; apply (oi_def _ I _ _ _ Ht)).
    inversion Hev; subst; simpl in *.
    (* the events that touch neither locals nor pointers *)
    1-6,10-11:
      (split; simpl;
       [ intros t1 r1 x1 E; apply upd_Some_inv in E as [[-> ->]|[N E]];
         [unfold stat_of; simpl; rewrite stat_after_snoc; simpl; apply Hdef | apply (oi_def _ I _ _ _ E)]
       | intros t1 r1 x1 o1 E; apply upd_Some_inv in E as [[-> ->]|[N E]]; simpl;
         [apply (oi_alloc _ I _ _ _ _ Ht) | apply (oi_alloc _ I _ _ _ _ E)]
       | apply (oi_ptr _ I)
       | intros t1 r1 x1 o1 E; apply upd_Some_inv in E as [[-> ->]|[N E]];
         unfold stat_of; simpl; try rewrite stat_after_snoc; simpl; intros Hs Hl;
         [ destruct (oi_priv _ I _ _ _ _ Ht Hs Hl) as [P1 P2] | destruct (oi_priv _ I _ _ _ _ E Hs Hl) as [P1 P2] ];
         (split; [assumption|]);
         intros t2 r2 y E2; apply upd_Some_inv in E2 as [[-> ->]|[N2 E2]]; simpl;
         try (apply P2; assumption); intro Hl'; apply (P2 _ _ _ Ht Hl') ]).
    + (* load *)
      split; simpl.
      * intros t1 r1 x1 E. apply upd_Some_inv in E as [[-> ->]|[N E]]; [|apply (oi_def _ I _ _ _ E)].
        unfold stat_of; simpl. rewrite stat_after_snoc. simpl. unfold upd.
        destruct (x1 =? x); [split; discriminate|apply Hdef].
      * intros t1 r1 x1 o1 E. apply upd_Some_inv in E as [[-> ->]|[N E]]; simpl; [|apply (oi_alloc _ I _ _ _ _ E)].
        intro Hl. apply upd_Some_inv in Hl as [[-> ->]|[N Hl]]; [apply (oi_ptr _ I)|apply (oi_alloc _ I _ _ _ _ Ht Hl)].
      * apply (oi_ptr _ I).
      * intros t1 r1 x1 o1 E. apply upd_Some_inv in E as [[-> ->]|[N E]]; unfold stat_of; simpl.
        -- rewrite stat_after_snoc. simpl. intros Hs Hl. unfold upd in Hs, Hl.
           destruct (Nat.eqb_spec x1 x) as [->|Nx]; [discriminate|].
           destruct (oi_priv _ I _ _ _ _ Ht Hs Hl) as [P1 P2]. split; [assumption|].
           intros t2 r2 y E2. apply upd_Some_inv in E2 as [[-> ->]|[N2 E2]]; simpl.
           ++ intro Hl'. apply upd_Some_inv in Hl' as [[-> Hl']|[Ny Hl']].
              ** exfalso. eapply P1. symmetry. eassumption.
              ** apply (P2 _ _ _ Ht Hl').
           ++ apply P2; assumption.
        -- intros Hs Hl. destruct (oi_priv _ I _ _ _ _ E Hs Hl) as [P1 P2]. split; [assumption|].
           intros t2 r2 y E2. apply upd_Some_inv in E2 as [[-> ->]|[N2 E2]]; simpl.
           ++ intro Hl'. apply upd_Some_inv in Hl' as [[-> Hl']|[Ny Hl']].
              ** exfalso. eapply P1. symmetry. eassumption.
              ** apply (P2 _ _ _ Ht Hl').
           ++ apply P2; assumption.
    + (* store *)
      assert (Hpx : stat_of r x = Some Priv).
      { unfold stat_of. destruct (stat_after (r_done r) x) as [[|]|]; simpl in Hok; try discriminate; reflexivity. }
      destruct (oi_priv _ I _ _ _ _ Ht Hpx H) as [Q1 Q2].
      split; simpl.
      * intros t1 r1 x1 E. apply upd_Some_inv in E as [[-> ->]|[N E]]; [|apply (oi_def _ I _ _ _ E)].
        unfold stat_of; simpl. rewrite stat_after_snoc. simpl. unfold upd.
        destruct (Nat.eqb_spec x1 x) as [->|Nx]; [rewrite H; split; discriminate|apply Hdef].
      * intros t1 r1 x1 o1 E. apply upd_Some_inv in E as [[-> ->]|[N E]]; simpl;
          [apply (oi_alloc _ I _ _ _ _ Ht) | apply (oi_alloc _ I _ _ _ _ E)].
      * intros p1. unfold upd. destruct (p1 =? p); [apply (oi_alloc _ I _ _ _ _ Ht H)|apply (oi_ptr _ I)].
      * intros t1 r1 x1 o1 E. apply upd_Some_inv in E as [[-> ->]|[N E]]; unfold stat_of; simpl.
        -- rewrite stat_after_snoc. simpl. intros Hs Hl. unfold upd in Hs.
           destruct (Nat.eqb_spec x1 x) as [->|Nx]; [discriminate|].
           destruct (oi_priv _ I _ _ _ _ Ht Hs Hl) as [P1 P2]. split.
           ++ intros p1. unfold upd. destruct (p1 =? p); [|apply P1].
              intro Eo. subst o1. destruct (Q2 _ _ _ Ht Hl) as [_ Ex]. congruence.
           ++ intros t2 r2 y E2. apply upd_Some_inv in E2 as [[-> ->]|[N2 E2]]; simpl.
              ** intro Hl'. apply (P2 _ _ _ Ht Hl').
              ** apply P2; assumption.
        -- intros Hs Hl. destruct (oi_priv _ I _ _ _ _ E Hs Hl) as [P1 P2]. split.
           ++ intros p1. unfold upd. destruct (p1 =? p); [|apply P1].
              intro Eo. subst o1. destruct (Q2 _ _ _ E Hl) as [Et _]. congruence.
           ++ intros t2 r2 y E2. apply upd_Some_inv in E2 as [[-> ->]|[N2 E2]]; simpl.
              ** intro Hl'. apply (P2 _ _ _ Ht Hl').
              ** apply P2; assumption.
    + (* clone *)
      split; simpl.
      * intros t1 r1 x1 E. apply upd_Some_inv in E as [[-> ->]|[N E]]; [|apply (oi_def _ I _ _ _ E)].
        unfold stat_of; simpl. rewrite stat_after_snoc. simpl. unfold upd.
        destruct (x1 =? y); [split; discriminate|apply Hdef].
      * intros t1 r1 x1 o1 E. apply upd_Some_inv in E as [[-> ->]|[N E]]; simpl.
        -- intro Hl. apply upd_Some_inv in Hl as [[-> ->]|[N Hl]]; [lia|].
           pose proof (oi_alloc _ I _ _ _ _ Ht Hl). lia.
        -- intro Hl. pose proof (oi_alloc _ I _ _ _ _ E Hl). lia.
      * intros p1. pose proof (oi_ptr _ I p1). lia.
      * intros t1 r1 x1 o1 E. apply upd_Some_inv in E as [[-> ->]|[N E]]; unfold stat_of; simpl.
        -- rewrite stat_after_snoc. simpl. intros Hs Hl. unfold upd in Hs.
           apply upd_Some_inv in Hl as [[-> ->]|[Nx Hl]].
           ++ (* the fresh clone *)
              split.
              ** intros p1 Ep. pose proof (oi_ptr _ I p1). lia.
              ** intros t2 r2 y' E2. apply upd_Some_inv in E2 as [[-> ->]|[N2 E2]]; simpl.
                 --- intro Hl'. apply upd_Some_inv in Hl' as [[-> _]|[Ny Hl']]; [auto|].
                     pose proof (oi_alloc _ I _ _ _ _ Ht Hl'). lia.
                 --- intro Hl'. pose proof (oi_alloc _ I _ _ _ _ E2 Hl'). lia.
           ++ apply Nat.eqb_neq in Nx. rewrite Nx in Hs.
              destruct (oi_priv _ I _ _ _ _ Ht Hs Hl) as [P1 P2]. split; [assumption|].
              intros t2 r2 y' E2. apply upd_Some_inv in E2 as [[-> ->]|[N2 E2]]; simpl.
              ** intro Hl'. apply upd_Some_inv in Hl' as [[-> Eo]|[Ny Hl']].
                 --- pose proof (oi_alloc _ I _ _ _ _ Ht Hl). inversion Eo. lia.
                 --- apply (P2 _ _ _ Ht Hl').
              ** apply P2; assumption.
        -- intros Hs Hl. destruct (oi_priv _ I _ _ _ _ E Hs Hl) as [P1 P2]. split; [assumption|].
           intros t2 r2 y' E2. apply upd_Some_inv in E2 as [[-> ->]|[N2 E2]]; simpl.
           ++ intro Hl'. apply upd_Some_inv in Hl' as [[-> Eo]|[Ny Hl']].
              ** pose proof (oi_alloc _ I _ _ _ _ E Hl). inversion Eo. lia.
              ** apply (P2 _ _ _ Ht Hl').
           ++ apply P2; assumption.
  - (* end *)
    split; simpl.
    + intros t1 r1 x E. unfold upd in E. destruct (t1 =? t); [discriminate|apply (oi_def _ I _ _ _ E)].
    + intros t1 r1 x o1 E. unfold upd in E. destruct (t1 =? t); [discriminate|apply (oi_alloc _ I _ _ _ _ E)].
    + apply (oi_ptr _ I).
    + intros t1 r1 x o1 E. unfold upd in E. destruct (t1 =? t) eqn:E1; [discriminate|].
      intros Hs Hl. destruct (oi_priv _ I _ _ _ _ E Hs Hl) as [P1 P2]. split; [assumption|].
      intros t2 r2 y E2. unfold upd in E2. destruct (t2 =? t); [discriminate|]. apply P2; assumption.
Qed.

Theorem reach_invs c : reach c -> lock_inv c /\ own_inv c.
Proof.
  induction 1 as [c Hi | c l c' Hr [IL IO] Hs].
  - split; [apply lock_inv_init | apply own_inv_init]; assumption.
  - split; [eapply lock_inv_step | eapply own_inv_step]; eassumption.
Qed.

(* ---------------------------------------------------------------- the theorems *)

(** no reachable configuration can crash (unlock of an unlocked mutex, nil
    dereference), release a lock it does not hold, or run into untranslated code *)
Theorem no_bad c : reach c -> ~ bad c.
Proof.
  intros Hr (t & r & e & rest & Ht & Htodo & Hb).
  destruct (reach_invs _ Hr) as [LI OI].
  pose proof (on_path_ev _ _ _ (li_path _ LI _ _ Ht) Htodo) as Hok. unfold ev_ok in Hok.
  assert (Hh : hold c t = held_after (r_done r)) by (unfold hold; rewrite Ht; reflexivity).
  assert (Hdef : forall x, is_def (stat_after (r_done r) x) = true -> r_loc r x <> None).
  { intros x Hd Hn. apply (oi_def _ OI _ _ _ Ht) in Hn. unfold stat_of in Hn. rewrite Hn in Hd. discriminate. }
  assert (Hpd : forall x, is_priv (stat_after (r_done r) x) = true -> r_loc r x <> None).
  { intros x Hp. apply Hdef. destruct (stat_after (r_done r) x) as [[|]|]; simpl in *; congruence. }
  destruct e; simpl in Hb; try contradiction; try discriminate.
  - apply Hb. apply (li_excl _ LI). rewrite Hh. apply hmem_In. assumption.
  - rewrite hmem_In, <- Hh in Hok. apply (li_shared _ LI) in Hok as (ts & E & Hin). eapply Hb; eassumption.
  - eapply Hpd; eassumption.
  - eapply Hdef; eassumption.
  - eapply Hdef; eassumption.
  - eapply Hpd; eassumption.
Qed.

(** a lock held exclusively by one thread is held by no other thread in any mode *)
Theorem mutual_exclusion c t1 t2 m x :
  reach c -> In (m, true) (hold c t1) -> In (m, x) (hold c t2) -> t1 = t2.
Proof.
  intros Hr H1 H2. destruct (reach_invs _ Hr) as [LI _].
  apply (li_excl _ LI) in H1. destruct x.
  - apply (li_excl _ LI) in H2. congruence.
  - apply (li_shared _ LI) in H2 as (ts & E & _). congruence.
Qed.

(** *** data-race freedom *)

(** the object (and access mode) the next event of a run touches *)
Definition obj_access (r : run) (e : event) : option (oid * bool) :=
  match e with
  | EObjRead x | EClone _ x => option_map (fun o => (o, false)) (r_loc r x)
  | EObjWrite x => option_map (fun o => (o, true)) (r_loc r x)
  | _ => None
  end.

(** two different threads are both about to access the same guarded field,
    at least one of them writing *)
Definition var_race (c : cfg) : Prop :=
  exists t1 t2 r1 r2 e1 e2 rest1 rest2 v w1 w2,
    t1 <> t2 /\ c_thr c t1 = Some r1 /\ c_thr c t2 = Some r2 /\
    r_todo r1 = e1 :: rest1 /\ r_todo r2 = e2 :: rest2 /\
    access e1 = Some (v, w1) /\ access e2 = Some (v, w2) /\ w1 || w2 = true.

(** the same for the objects behind the pointers *)
Definition obj_race (c : cfg) : Prop :=
  exists t1 t2 r1 r2 e1 e2 rest1 rest2 o w1 w2,
    t1 <> t2 /\ c_thr c t1 = Some r1 /\ c_thr c t2 = Some r2 /\
    r_todo r1 = e1 :: rest1 /\ r_todo r2 = e2 :: rest2 /\
    obj_access r1 e1 = Some (o, w1) /\ obj_access r2 e2 = Some (o, w2) /\ w1 || w2 = true.

Lemma access_point_in r e rest v w :
  on_path r -> r_todo r = e :: rest -> access e = Some (v, w) ->
  In (v, w, held_after (r_done r)) (flat_map access_points (all_paths sk)).
Proof.
  intros (path & Hp & Hs) E Ha. apply in_flat_map. exists path. split; [assumption|].
  unfold access_points. apply in_flat_map. exists (r_done r, r_todo r). split; [assumption|].
  simpl. rewrite E, Ha. left. reflexivity.
Qed.

Lemma excludes_spec h1 h2 :
  excludes h1 h2 = true ->
  exists m x, (In (m, true) h1 /\ In (m, x) h2) \/ (In (m, true) h2 /\ In (m, x) h1).
Proof.
  unfold excludes. intro H. apply orb_true_iff in H as [H|H];
    apply existsb_exists in H as ([m b] & Hin & H); simpl in H; apply andb_true_iff in H as [Hb Hl];
    subst b; unfold hlocked in Hl; apply existsb_exists in Hl as ([m' x] & Hin' & E); simpl in E;
    apply Nat.eqb_eq in E; subst m'; exists m, x; [left|right]; split; assumption.
Qed.

Theorem race_free c : reach c -> ~ var_race c /\ ~ obj_race c.
Proof.
  intros Hr. destruct (reach_invs _ Hr) as [LI OI]. split.
  - intros (t1 & t2 & r1 & r2 & e1 & e2 & rest1 & rest2 & v & w1 & w2 & Hne & Ht1 & Ht2 & E1 & E2 & A1 & A2 & Hw).
    pose proof (access_point_in _ _ _ _ _ (li_path _ LI _ _ Ht1) E1 A1) as P1.
    pose proof (access_point_in _ _ _ _ _ (li_path _ LI _ _ Ht2) E2 A2) as P2.
    pose proof WF as W. unfold wf_locks in W. apply andb_true_iff in W as [_ W]. unfold lockset_ok in W.
    rewrite forallb_forall in W. specialize (W _ P1). rewrite forallb_forall in W. specialize (W _ P2).
    simpl in W. rewrite Nat.eqb_refl, Hw in W. simpl in W.
    apply excludes_spec in W as (m & x & [[Ha Hb]|[Ha Hb]]).
    + apply Hne. eapply (mutual_exclusion c t1 t2 m x Hr); unfold hold; [rewrite Ht1|rewrite Ht2]; assumption.
    + apply Hne. symmetry. eapply (mutual_exclusion c t2 t1 m x Hr); unfold hold; [rewrite Ht2|rewrite Ht1]; assumption.
  - intros (t1 & t2 & r1 & r2 & e1 & e2 & rest1 & rest2 & o & w1 & w2 & Hne & Ht1 & Ht2 & E1 & E2 & A1 & A2 & Hw).
    pose proof (on_path_ev _ _ _ (li_path _ LI _ _ Ht1) E1) as Ok1.
    pose proof (on_path_ev _ _ _ (li_path _ LI _ _ Ht2) E2) as Ok2.
    assert (Hwr : forall t r e t' r' e' w',
               c_thr c t = Some r -> c_thr c t' = Some r' -> ev_ok sk (r_done r) e = true ->
               obj_access r e = Some (o, true) -> obj_access r' e' = Some (o, w') -> t' = t).
    { intros t r e t' r' e' w' Ht Ht' Hok Ha Ha'.
      destruct e; simpl in Ha; try discriminate;
        try (destruct (r_loc r x); discriminate).
      destruct (r_loc r x) as [o1|] eqn:El; [|discriminate]. simpl in Ha. inversion Ha; subst o1.
      unfold ev_ok in Hok.
      assert (Hp : stat_of r x = Some Priv).
      { unfold stat_of. destruct (stat_after (r_done r) x) as [[|]|]; simpl in Hok; try discriminate; reflexivity. }
      destruct (oi_priv _ OI _ _ _ _ Ht Hp El) as [_ P2].
      destruct e'; simpl in Ha'; try discriminate;
        (destruct (r_loc r' x0) as [o2|] eqn:El'; [|discriminate]); simpl in Ha'; inversion Ha'; subst o2;
        apply (P2 _ _ _ Ht' El'). }
    destruct w1.
    + apply Hne. symmetry. eapply (Hwr t1 r1 e1 t2 r2 e2 w2); eassumption.
    + simpl in Hw. subst w2. apply Hne. eapply (Hwr t2 r2 e2 t1 r1 e1 false); eassumption.
Qed.

(** *** deadlock freedom *)

(** only finitely many threads have ever been started *)
Lemma finite_support c : reach c -> exists n, forall t, n <= t -> c_thr c t = None.
Proof.
  induction 1 as [c (_ & Ht & _) | c l c' Hr [n IH] Hs].
  - exists 0. intros; apply Ht.
  - destruct Hs as [t o path Hnone Hpath | t r e rest c' Ht Htodo Hev | t r Ht Htodo].
    + exists (Nat.max n (S t)). intros t1 Hle. simpl. unfold upd.
      destruct (Nat.eqb_spec t1 t); [lia|]. apply IH. lia.
    + exists n. intros t1 Hle. destruct (ev_step_thr _ _ _ _ _ _ Hev) as (r' & E & _). rewrite E. unfold upd.
      destruct (Nat.eqb_spec t1 t) as [->|N]; [|apply IH; assumption].
      rewrite (IH _ Hle) in Ht. discriminate.
    + exists n. intros t1 Hle. simpl. unfold upd. destruct (t1 =? t); [reflexivity|apply IH; assumption].
Qed.

Lemma waiting_excl_dec c m n :
  (forall t, n <= t -> c_thr c t = None) -> {waiting_excl c m} + {~ waiting_excl c m}.
Proof.
  intro Hfin.
  assert (D : forall k, {exists t r rest, t < k /\ c_thr c t = Some r /\ r_todo r = ELock m :: rest} +
                        {~ exists t r rest, t < k /\ c_thr c t = Some r /\ r_todo r = ELock m :: rest}).
  { induction k as [|k [IH|IH]].
    - right. intros (t & _ & _ & Hlt & _). lia.
    - left. destruct IH as (t & r & rest & Hlt & H). exists t, r, rest. split; [lia|assumption].
    - destruct (c_thr c k) as [r|] eqn:E.
      + destruct (r_todo r) as [|e rest] eqn:Et.
        * right. intros (t & r' & rest' & Hlt & Ht & Htd). destruct (Nat.eq_dec t k) as [->|N].
          -- rewrite E in Ht. inversion Ht; subst. congruence.
          -- apply IH. exists t, r', rest'. split; [lia|auto].
        * destruct (event_eq_dec e (ELock m)) as [->|Ne].
          -- left. exists k, r, rest. auto.
          -- right. intros (t & r' & rest' & Hlt & Ht & Htd). destruct (Nat.eq_dec t k) as [->|N].
             ++ rewrite E in Ht. inversion Ht; subst. congruence.
             ++ apply IH. exists t, r', rest'. split; [lia|auto].
      + right. intros (t & r' & rest' & Hlt & Ht & Htd). destruct (Nat.eq_dec t k) as [->|N].
        * congruence.
        * apply IH. exists t, r', rest'. split; [lia|auto]. }
  destruct (D n) as [H|H].
  - left. destruct H as (t & r & rest & _ & H1 & H2). exists t, r, rest. auto.
  - right. intros (t & r & rest & H1 & H2). apply H. exists t, r, rest. split; [|auto].
    destruct (le_lt_dec n t) as [Hle|]; [|assumption]. rewrite (Hfin _ Hle) in H1. discriminate.
Qed.

(** a step of an operation in flight (not the start of a new operation) *)
Definition progress (c : cfg) : Prop :=
  exists l c', step c l c' /\ match l with LBegin _ _ => False | _ => True end.

Definition acquires (e : event) : option lock :=
  match e with ELock m | ERLock m => Some m | _ => None end.

Lemma holder_run c t m x : In (m, x) (hold c t) -> exists r, c_thr c t = Some r /\ In (m, x) (held_after (r_done r)).
Proof. unfold hold. destruct (c_thr c t) as [r|]; [eauto|intros []]. Qed.

Lemma ev_progress c t r e rest c' :
  c_thr c t = Some r -> r_todo r = e :: rest -> ev_step c t r rest e c' -> progress c.
Proof. intros Ht Htd Hs. exists (LEv t e), c'. split; [eapply step_ev; eassumption|exact I]. Qed.

Lemma nonacq_progress c t r e rest :
  ~ bad c -> c_thr c t = Some r -> r_todo r = e :: rest -> acquires e = None -> progress c.
Proof.
  intros Hnb Ht Htd Ha.
  assert (Hnbe : ~ bad_event c t r e) by (intro Hb; apply Hnb; exists t, r, e, rest; auto).
  destruct e; simpl in Ha; try discriminate; simpl in Hnbe.
  - destruct (c_lk c m) as [t'|ts] eqn:E.
    + eapply ev_progress; [eassumption..|]. eapply st_unlock; eassumption.
    + exfalso. apply Hnbe. discriminate.
  - destruct (c_lk c m) as [t'|ts] eqn:E.
    + exfalso. apply Hnbe. intros ts X. discriminate.
    + destruct (in_dec Nat.eq_dec t ts) as [Hin|Hnin].
      * eapply ev_progress; [eassumption..|]. eapply st_runlock; eassumption.
      * exfalso. apply Hnbe. intros ts' X. inversion X; subst. assumption.
  - eapply ev_progress; [eassumption..|]. apply st_read.
  - eapply ev_progress; [eassumption..|]. apply st_write.
  - eapply ev_progress; [eassumption..|]. apply st_load.
  - destruct (r_loc r x) as [o|] eqn:E; [|tauto].
    eapply ev_progress; [eassumption..|]. eapply st_store; eassumption.
  - destruct (r_loc r x) as [o|] eqn:E; [|tauto].
    eapply ev_progress; [eassumption..|]. eapply st_clone; eassumption.
  - destruct (r_loc r x) as [o|] eqn:E; [|tauto].
    eapply ev_progress; [eassumption..|]. eapply st_objread; eassumption.
  - destruct (r_loc r x) as [o|] eqn:E; [|tauto].
    eapply ev_progress; [eassumption..|]. eapply st_objwrite; eassumption.
  - tauto.
Qed.

(** a thread stuck on an acquisition: the holder can move, or is stuck on a
    lock of strictly higher rank; ranks are bounded *)
Lemma stuck_progress c :
  reach c ->
  forall d t r e rest m, c_thr c t = Some r -> r_todo r = e :: rest -> acquires e = Some m ->
    sk_bound sk - sk_rank sk m = d -> progress c.
Proof.
  intros Hr. destruct (reach_invs _ Hr) as [LI OI]. destruct (finite_support _ Hr) as [n Hfin].
  pose proof (no_bad _ Hr) as Hnb.
  induction d as [d IH] using lt_wf_ind. intros t r e rest m Ht Htd Ha Hd.
  assert (Hholder : forall j x, In (m, x) (hold c j) -> progress c).
  { intros j x Hin. apply holder_run in Hin as (rj & Hj & Hin).
    destruct (r_todo rj) as [|ej restj] eqn:Htdj.
    - exists (LEnd j (r_op rj) (r_log rj)), (set_thr c j None). split; [apply step_end; assumption|exact I].
    - destruct (acquires ej) as [mj|] eqn:Haj; [|eapply nonacq_progress; eassumption].
      pose proof (on_path_ev _ _ _ (li_path _ LI _ _ Hj) Htdj) as Hok. unfold ev_ok in Hok.
      assert (Hb : forallb (fun y : hentry => sk_rank sk (fst y) <? sk_rank sk mj) (held_after (r_done rj)) = true /\
                   (sk_rank sk mj <=? sk_bound sk) = true).
      { destruct ej; simpl in Haj; inversion Haj; subst;
          apply andb_true_iff in Hok as [Hok Hb2]; apply andb_true_iff in Hok as [_ Hb1]; auto. }
      destruct Hb as [Hb1 Hb2]. rewrite forallb_forall in Hb1. specialize (Hb1 _ Hin). simpl in Hb1.
      apply Nat.ltb_lt in Hb1. apply Nat.leb_le in Hb2.
      eapply (IH (sk_bound sk - sk_rank sk mj)); [lia|eassumption..|reflexivity]. }
  destruct e; simpl in Ha; inversion Ha; subst m0.
  - (* Lock m *)
    destruct (c_lk c m) as [j|[|j ts]] eqn:E.
    + apply (Hholder j true). apply (li_excl _ LI). assumption.
    + eapply ev_progress; [eassumption..|]. apply st_lock. assumption.
    + apply (Hholder j false). apply (li_shared _ LI). exists (j :: ts). split; [assumption|left; reflexivity].
  - (* RLock m *)
    destruct (c_lk c m) as [j|ts] eqn:E.
    + apply (Hholder j true). apply (li_excl _ LI). assumption.
    + destruct wp eqn:Ewp.
      * destruct (waiting_excl_dec c m n Hfin) as [Hw|Hw].
        -- destruct ts as [|j ts].
           ++ destruct Hw as (w & rw & restw & Hw1 & Hw2).
              eapply ev_progress; [eassumption..|]. apply st_lock. assumption.
           ++ apply (Hholder j false). apply (li_shared _ LI). exists (j :: ts). split; [assumption|left; reflexivity].
        -- eapply ev_progress; [eassumption..|]. eapply st_rlock; [eassumption|]. intros _. assumption.
      * eapply ev_progress; [eassumption..|]. eapply st_rlock; [eassumption|]. intro X. congruence.
Qed.

(** whenever an operation is in flight, some in-flight thread can take a step *)
Theorem deadlock_free c : reach c -> (exists t r, c_thr c t = Some r) -> progress c.
Proof.
  intros Hr (t & r & Ht). destruct (r_todo r) as [|e rest] eqn:Htd.
  - exists (LEnd t (r_op r) (r_log r)), (set_thr c t None). split; [apply step_end; assumption|exact I].
  - destruct (acquires e) as [m|] eqn:Ha.
    + eapply stuck_progress; try eassumption. reflexivity.
    + eapply nonacq_progress; try eassumption. apply no_bad. assumption.
Qed.

End Semantics.

Arguments o_meth {arg}. Arguments o_path {arg}. Arguments o_arg {arg}.
Arguments r_op {val arg}. Arguments r_done {val arg}. Arguments r_todo {val arg}.
Arguments r_loc {val arg}. Arguments r_log {val arg}.
Arguments c_lk {val arg}. Arguments c_val {val arg}. Arguments c_ptr {val arg}.
Arguments c_heap {val arg}. Arguments c_next {val arg}. Arguments c_thr {val arg}.
Arguments set_thr {val arg}. Arguments pc {val arg}.
Arguments LBegin {val arg}. Arguments LEv {val arg}. Arguments LEnd {val arg}.
Arguments ev_step {val arg}. Arguments step {val arg}. Arguments path_of {arg}.
Arguments bad_event {val arg}. Arguments bad {val arg}. Arguments initial {val arg}.
Arguments reach {val arg}. Arguments hold {val arg}. Arguments on_path {val arg}.
Arguments lock_inv {val arg}. Arguments own_inv {val arg}. Arguments stat_of {val arg}.
Arguments obj_access {val arg}. Arguments var_race {val arg}. Arguments obj_race {val arg}.
Arguments progress {val arg}. Arguments waiting_excl {val arg}.
Arguments reach_invs {val arg}. Arguments li_path {val arg}. Arguments li_excl {val arg}.
Arguments li_shared {val arg}. Arguments li_nodup {val arg}. Arguments li_once {val arg}.
Arguments oi_def {val arg}. Arguments oi_alloc {val arg}. Arguments oi_ptr {val arg}. Arguments oi_priv {val arg}.
