(** Base/GoUrl — executable mirror of the parts of Go's net/url (go1.23) that
    heimdall relies on.  Definitions only (lemmas are in Base/GoUrlFacts.v).

    Mirrored functions (net/url/url.go):
      ishex, unhex                       -> [ishex], [unhex]
      shouldEscape(c, mode)              -> [should_escape]   (modes encodePath, encodePathSegment, encodeQueryComponent)
      unescape(s, mode) / PathUnescape / QueryUnescape
                                         -> [unescape], [query_unescape]   ([None] = EscapeError)
      escape(s, mode) / PathEscape / QueryEscape
                                         -> [escape]
      validEncoded(s, encodePath)        -> [valid_encoded]
      URL.setPath                     -> [set_path]        (Path / RawPath split)
      URL.EscapedPath                 -> [escaped_path]
      URL.RequestURI                  -> [request_uri]     (Opaque = "", ForceQuery = false)
      ParseQuery / parseQuery            -> [parse_query]     (association list + "an error occurred")
      Values.Del / Values.Encode         -> [values_del], [values_encode]
    plus the `strings` helpers used next to them: Contains, ReplaceAll (non-empty
    old), CutPrefix/HasPrefix, Cut, Split on one byte.

    Strings are Coq [string]s, i.e. byte strings; every function is structurally
    recursive.  Every function is compared with the real library on every check
    run (stream "gourl" of C08). *)
From HV Require Import Base.Prelude.

Local Open Scope char_scope.
Local Open Scope N_scope.

(** * bytes *)

Definition nb (c : ascii) : N := N_of_ascii c.

Definition in_range (lo hi : N) (c : ascii) : bool := (lo <=? nb c) && (nb c <=? hi).

Definition is_digit (c : ascii) : bool := in_range 48 57 c.
Definition is_af (c : ascii) : bool := in_range 97 102 c.
Definition is_AF (c : ascii) : bool := in_range 65 70 c.

Definition ishex (c : ascii) : bool := is_digit c || is_af c || is_AF c.

Definition unhex (c : ascii) : N :=
  if is_digit c then nb c - 48
  else if is_af c then nb c - 97 + 10
  else if is_AF c then nb c - 65 + 10
  else 0.

(** [unhex(a)<<4 | unhex(b)] as a byte *)
Definition hexbyte (a b : ascii) : ascii := ascii_of_N ((unhex a * 16 + unhex b) mod 256).

(** [upperhex[n]] for n < 16 *)
Definition hexdig (n : N) : ascii :=
  if n <? 10 then ascii_of_N (48 + n) else ascii_of_N (55 + n).

Definition is_alpha (c : ascii) : bool := in_range 97 122 c || in_range 65 90 c.
Definition is_alnum (c : ascii) : bool := is_alpha c || is_digit c.

Fixpoint mem_ascii (c : ascii) (s : string) : bool :=
  match s with
  | EmptyString => false
  | String d r => Ascii.eqb c d || mem_ascii c r
  end.

(** RFC 3986 §2.3 unreserved: ALPHA / DIGIT / "-" / "." / "_" / "~" *)
Definition unreserved (c : ascii) : bool := is_alnum c || mem_ascii c "-_.~".

(** * shouldEscape *)

Inductive mode := MPath | MPathSegment | MQuery.

Definition should_escape (m : mode) (c : ascii) : bool :=
  if is_alnum c then false
  else if mem_ascii c "-_.~" then false
  else if mem_ascii c "$&+,/:;=?@" then
    match m with
    | MPath => Ascii.eqb c "?"
    | MPathSegment => mem_ascii c "/;,?"
    | MQuery => true
    end
  else true.

(** * unescape *)

(** one structural pass; Go validates the whole string first and then decodes,
    which gives the same result: an error iff some '%' is not followed by two
    hex digits, scanning left to right and skipping 3 bytes per escape *)
Fixpoint unescape_gen (plus : bool) (s : string) : option string :=
  match s with
  | EmptyString => Some EmptyString
  | String c r =>
    if Ascii.eqb c "%" then
      match r with
      | String a (String b r') =>
        if ishex a && ishex b then option_map (String (hexbyte a b)) (unescape_gen plus r')
        else None
      | _ => None
      end
    else if plus && Ascii.eqb c "+" then option_map (String " ") (unescape_gen plus r)
    else option_map (String c) (unescape_gen plus r)
  end.

(** [unescape(s, encodePath)] = [unescape(s, encodePathSegment)] = PathUnescape *)
Definition unescape : string -> option string := unescape_gen false.
(** QueryUnescape *)
Definition query_unescape : string -> option string := unescape_gen true.

(** Go callers that ignore the error get "" *)
Definition unescape_or_empty (s : string) : string :=
  match unescape s with Some p => p | None => EmptyString end.

(** * escape *)

Definition pct_triplet (c : ascii) (r : string) : string :=
  String "%" (String (hexdig (nb c / 16)) (String (hexdig (nb c mod 16)) r)).

Fixpoint escape (m : mode) (s : string) : string :=
  match s with
  | EmptyString => EmptyString
  | String c r =>
    if should_escape m c then
      match m with
      | MQuery => if Ascii.eqb c " " then String "+" (escape m r) else pct_triplet c (escape m r)
      | _ => pct_triplet c (escape m r)
      end
    else String c (escape m r)
  end.

(** * validEncoded (mode encodePath) *)

Definition valid_byte (c : ascii) : bool :=
  mem_ascii c "!$&'()*+,;=:@[]%" || negb (should_escape MPath c).

Fixpoint valid_encoded (s : string) : bool :=
  match s with
  | EmptyString => true
  | String c r => valid_byte c && valid_encoded r
  end.

(** * setPath / EscapedPath / RequestURI *)

Definition is_empty (s : string) : bool := match s with EmptyString => true | _ => false end.

(** [(Path, RawPath)] or the escape error *)
Definition set_path (p : string) : option (string * string) :=
  match unescape p with
  | None => None
  | Some path => Some (path, if String.eqb p (escape MPath path) then EmptyString else p)
  end.

Definition escaped_path (path rawpath : string) : string :=
  if negb (is_empty rawpath) && valid_encoded rawpath &&
     match unescape rawpath with Some p => String.eqb p path | None => false end
  then rawpath
  else if String.eqb path "*" then "*"%string
  else escape MPath path.

Definition request_uri (path rawpath rawquery : string) : string :=
  let r := escaped_path path rawpath in
  let r := if is_empty r then "/"%string else r in
  if is_empty rawquery then r else (r ++ String "?" rawquery)%string.

(** * strings helpers *)

Fixpoint has_prefix (p s : string) : bool :=
  match p, s with
  | EmptyString, _ => true
  | String a p', String b s' => Ascii.eqb a b && has_prefix p' s'
  | _, EmptyString => false
  end.

(** [strings.CutPrefix]: the rest after [p], if [s] starts with [p] *)
Fixpoint cut_prefix (p s : string) : option string :=
  match p, s with
  | EmptyString, _ => Some s
  | String a p', String b s' => if Ascii.eqb a b then cut_prefix p' s' else None
  | _, EmptyString => None
  end.

Fixpoint contains (sub s : string) : bool :=
  has_prefix sub s ||
  match s with
  | EmptyString => false
  | String _ r => contains sub r
  end.

Fixpoint drop (n : nat) (s : string) : string :=
  match n, s with
  | O, _ => s
  | S n', String _ r => drop n' r
  | S _, EmptyString => EmptyString
  end.

(** [strings.ReplaceAll s old new] for a non-empty [old]: left to right,
    non-overlapping.  [skip] counts the bytes of a match still to be dropped. *)
Fixpoint replace_all_from (old new : string) (skip : nat) (s : string) : string :=
  match s with
  | EmptyString => EmptyString
  | String c r =>
    match skip with
    | S k => replace_all_from old new k r
    | O =>
      if has_prefix old s
      then (new ++ replace_all_from old new (Nat.pred (String.length old)) r)%string
      else String c (replace_all_from old new O r)
    end
  end.

Definition replace_all (old new s : string) : string :=
  if is_empty old then s else replace_all_from old new O s.

(** [strings.Split s sep] for a one-byte separator (never empty): first piece
    and the remaining pieces *)
Fixpoint split1 (sep : ascii) (s : string) : string * list string :=
  match s with
  | EmptyString => (EmptyString, [])
  | String c r =>
    let '(h, t) := split1 sep r in
    if Ascii.eqb c sep then (EmptyString, h :: t) else (String c h, t)
  end.

Definition split_on (sep : ascii) (s : string) : list string :=
  let '(h, t) := split1 sep s in h :: t.

(** [strings.Cut s sep] for a one-byte separator: before, after (after = ""
    when the separator is absent) *)
Fixpoint cut_on (sep : ascii) (s : string) : string * string :=
  match s with
  | EmptyString => (EmptyString, EmptyString)
  | String c r =>
    if Ascii.eqb c sep then (EmptyString, r)
    else let '(a, b) := cut_on sep r in (String c a, b)
  end.

Fixpoint join_with (sep : string) (l : list string) : string :=
  match l with
  | [] => EmptyString
  | [x] => x
  | x :: r => (x ++ sep ++ join_with sep r)%string
  end.

(** * query strings: url.Values as an association list

    [url.Values] is a Go map; the model keeps the keys in order of first
    appearance (the order is unobservable: [Encode] sorts the keys). *)

Definition values := list (string * list string).

Fixpoint values_add (k v : string) (m : values) : values :=
  match m with
  | [] => [(k, [v])]
  | (k', vs) :: r => if String.eqb k k' then (k', vs ++ [v]) :: r else (k', vs) :: values_add k v r
  end.

Definition values_del (k : string) (m : values) : values :=
  filter (fun kv => negb (String.eqb k (fst kv))) m.

Definition values_get (k : string) (m : values) : list string :=
  match find (fun kv => String.eqb k (fst kv)) m with
  | Some kv => snd kv
  | None => []
  end.

(** one `key=value` setting of parseQuery: [None] = skipped with an error,
    [Some None] = skipped silently (empty), [Some (Some (k, v))] = added *)
Definition parse_setting (kv : string) : option (option (string * string)) :=
  if mem_ascii ";" kv then None
  else if is_empty kv then Some None
  else let '(k, v) := cut_on "=" kv in
       match query_unescape k with
       | None => None
       | Some k' =>
         match query_unescape v with
         | None => None
         | Some v' => Some (Some (k', v'))
         end
       end.

Fixpoint parse_settings (l : list string) (m : values) (err : bool) : values * bool :=
  match l with
  | [] => (m, err)
  | kv :: r =>
    match parse_setting kv with
    | None => parse_settings r m true
    | Some None => parse_settings r m err
    | Some (Some (k, v)) => parse_settings r (values_add k v m) err
    end
  end.

(** ParseQuery: the values found and whether an error is returned *)
Definition parse_query (q : string) : values * bool :=
  parse_settings (split_on "&" q) [] false.

(** insertion sort of the entries by key ([slices.Sort] on byte strings) *)
Fixpoint insert_entry (e : string * list string) (m : values) : values :=
  match m with
  | [] => [e]
  | e' :: r => if String.leb (fst e) (fst e') then e :: m else e' :: insert_entry e r
  end.

Definition sort_values (m : values) : values := fold_right insert_entry [] m.

Definition encode_entry (e : string * list string) : list string :=
  let k := escape MQuery (fst e) in
  map (fun v => (k ++ String "=" (escape MQuery v))%string) (snd e).

(** Values.Encode *)
Definition values_encode (m : values) : string :=
  join_with "&" (flat_map encode_entry (sort_values m)).
