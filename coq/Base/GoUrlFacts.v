(** Base/GoUrlFacts — lemmas about the net/url mirror of Base/GoUrl.v.

    Main statements
      [unescape_escape], [query_unescape_escape]   unescape (escape s) = s
      [escaped_path_valid]    valid_encoded r -> unescape r = Some p -> escaped_path p r = r
      [set_path_escaped]      the same through setPath
      [ishex_swapcase], [unhex_swapcase], [hexbyte_swapcase]   hex digits are case-insensitive
      [reenc]                 the relation "equivalent re-encoding" (RFC 3986 §6.2.2.1/2)
      [reenc_unescape]        re-encoding unreserved octets / changing hex case preserves unescape
      [reenc_valid_encoded], [reenc_split], [reenc_app], [reenc_join], [reenc_refl], [reenc_sym]
      [parse_encode]          ParseQuery (Values.Encode m) = m (sorted), no error *)
From HV Require Import Base.Prelude Base.GoUrl.

Local Open Scope char_scope.

(** * quantification over all 256 bytes by computation *)

Definition allb (f : bool -> bool) : bool := f true && f false.

Lemma allb_spec f : allb f = true -> forall b, f b = true.
Proof. unfold allb. intros H b. apply andb_true_iff in H as [H1 H2]. destruct b; assumption. Qed.

Definition all_ascii (P : ascii -> bool) : bool :=
  allb (fun b0 => allb (fun b1 => allb (fun b2 => allb (fun b3 =>
  allb (fun b4 => allb (fun b5 => allb (fun b6 => allb (fun b7 =>
    P (Ascii b0 b1 b2 b3 b4 b5 b6 b7))))))))).

Lemma all_ascii_spec P : all_ascii P = true -> forall c, P c = true.
Proof.
  intros H [b0 b1 b2 b3 b4 b5 b6 b7]. unfold all_ascii in H.
  pose proof (allb_spec _ H b0) as H0. cbv beta in H0.
  pose proof (allb_spec _ H0 b1) as H1. cbv beta in H1.
  pose proof (allb_spec _ H1 b2) as H2. cbv beta in H2.
  pose proof (allb_spec _ H2 b3) as H3. cbv beta in H3.
  pose proof (allb_spec _ H3 b4) as H4. cbv beta in H4.
  pose proof (allb_spec _ H4 b5) as H5. cbv beta in H5.
  pose proof (allb_spec _ H5 b6) as H6. cbv beta in H6.
  exact (allb_spec _ H6 b7).
Qed.

Definition all_ascii2 (P : ascii -> ascii -> bool) : bool :=
  all_ascii (fun a => all_ascii (fun b => P a b)).

Lemma all_ascii2_spec P : all_ascii2 P = true -> forall a b, P a b = true.
Proof.
  intros H a b. unfold all_ascii2 in H.
  pose proof (all_ascii_spec _ H a) as Ha. cbv beta in Ha.
  exact (all_ascii_spec _ Ha b).
Qed.

(** [by_ascii]: goals [forall c, P c = true] for a closed boolean [P] *)
Ltac by_ascii := apply all_ascii_spec; vm_compute; reflexivity.
Ltac by_ascii2 := apply all_ascii2_spec; vm_compute; reflexivity.

Lemma ascii_eqb_true a b : Ascii.eqb a b = true <-> a = b.
Proof. apply Ascii.eqb_eq. Qed.

Lemma ascii_eqb_false a b : Ascii.eqb a b = false <-> a <> b.
Proof. apply Ascii.eqb_neq. Qed.

(** * byte-level facts *)

Lemma hex_roundtrip_b : forall c,
  ishex (hexdig (nb c / 16)) && ishex (hexdig (nb c mod 16)) &&
  Ascii.eqb (hexbyte (hexdig (nb c / 16)) (hexdig (nb c mod 16))) c = true.
Proof. by_ascii. Qed.

Lemma hex_roundtrip c :
  ishex (hexdig (nb c / 16)) = true /\ ishex (hexdig (nb c mod 16)) = true /\
  hexbyte (hexdig (nb c / 16)) (hexdig (nb c mod 16)) = c.
Proof.
  pose proof (hex_roundtrip_b c) as H.
  apply andb_true_iff in H as [H H3]. apply andb_true_iff in H as [H1 H2].
  apply ascii_eqb_true in H3. auto.
Qed.

Lemma noesc_not_pct_b : forall c,
  implb (negb (should_escape MPath c) || negb (should_escape MPathSegment c) || negb (should_escape MQuery c))
        (negb (Ascii.eqb c "%") && negb (Ascii.eqb c "+" && negb (should_escape MQuery c))) = true.
Proof. by_ascii. Qed.

Lemma noesc_not_pct m c : should_escape m c = false -> Ascii.eqb c "%" = false.
Proof.
  intro H. pose proof (noesc_not_pct_b c) as B.
  destruct m; rewrite H in B; simpl in B; rewrite ?orb_true_r in B; simpl in B;
    apply andb_true_iff in B as [B _]; apply negb_true_iff in B; exact B.
Qed.

Lemma noesc_query_not_plus c : should_escape MQuery c = false -> Ascii.eqb c "+" = false.
Proof.
  intro H. pose proof (noesc_not_pct_b c) as B. rewrite H in B. simpl in B.
  rewrite ?orb_true_r in B. simpl in B. apply andb_true_iff in B as [_ B].
  apply negb_true_iff in B. rewrite andb_true_r in B. exact B.
Qed.

Lemma space_escaped_in_query : should_escape MQuery " " = true.
Proof. reflexivity. Qed.

Lemma unreserved_facts_b : forall c,
  implb (unreserved c)
        (negb (Ascii.eqb c "%") && negb (Ascii.eqb c "/") && valid_byte c &&
         negb (should_escape MPath c) && negb (should_escape MPathSegment c) && negb (should_escape MQuery c)) = true.
Proof. by_ascii. Qed.

Lemma unreserved_not_pct c : unreserved c = true -> Ascii.eqb c "%" = false.
Proof.
  intro H. pose proof (unreserved_facts_b c) as B. rewrite H in B. simpl in B.
  repeat (apply andb_true_iff in B as [B _]). apply negb_true_iff in B. exact B.
Qed.

Lemma unreserved_not_slash c : unreserved c = true -> Ascii.eqb c "/" = false.
Proof.
  intro H. pose proof (unreserved_facts_b c) as B. rewrite H in B. simpl in B.
  do 4 (apply andb_true_iff in B as [B _]). apply andb_true_iff in B as [_ B].
  apply negb_true_iff in B. exact B.
Qed.

Lemma unreserved_valid c : unreserved c = true -> valid_byte c = true.
Proof.
  intro H. pose proof (unreserved_facts_b c) as B. rewrite H in B. simpl in B.
  do 3 (apply andb_true_iff in B as [B _]). apply andb_true_iff in B as [_ B]. exact B.
Qed.

Lemma unreserved_never_escaped m c : unreserved c = true -> should_escape m c = false.
Proof.
  intro H. pose proof (unreserved_facts_b c) as B. rewrite H in B. simpl in B.
  apply andb_true_iff in B as [B B3]. apply andb_true_iff in B as [B B2]. apply andb_true_iff in B as [_ B1].
  destruct m; apply negb_true_iff; assumption.
Qed.

Lemma ishex_facts_b : forall c,
  implb (ishex c) (negb (Ascii.eqb c "%") && negb (Ascii.eqb c "/") && valid_byte c && unreserved c) = true.
Proof. by_ascii. Qed.

Lemma ishex_not_pct c : ishex c = true -> Ascii.eqb c "%" = false.
Proof.
  intro H. pose proof (ishex_facts_b c) as B. rewrite H in B. simpl in B.
  do 3 (apply andb_true_iff in B as [B _]). apply negb_true_iff in B. exact B.
Qed.

Lemma ishex_not_slash c : ishex c = true -> Ascii.eqb c "/" = false.
Proof.
  intro H. pose proof (ishex_facts_b c) as B. rewrite H in B. simpl in B.
  do 2 (apply andb_true_iff in B as [B _]). apply andb_true_iff in B as [_ B]. apply negb_true_iff in B. exact B.
Qed.

Lemma ishex_valid c : ishex c = true -> valid_byte c = true.
Proof.
  intro H. pose proof (ishex_facts_b c) as B. rewrite H in B. simpl in B.
  apply andb_true_iff in B as [B _]. apply andb_true_iff in B as [_ B]. exact B.
Qed.

Lemma ishex_unreserved c : ishex c = true -> unreserved c = true.
Proof.
  intro H. pose proof (ishex_facts_b c) as B. rewrite H in B. simpl in B.
  apply andb_true_iff in B as [_ B]. exact B.
Qed.

Lemma pct_valid : valid_byte "%" = true.
Proof. reflexivity. Qed.

(** ** hex digits are case-insensitive *)

(** the other-case spelling of an ASCII letter (identity on other bytes) *)
Definition swapcase (c : ascii) : ascii :=
  if in_range 97 122 c then ascii_of_N (nb c - 32)
  else if in_range 65 90 c then ascii_of_N (nb c + 32)
  else c.

Lemma swapcase_b : forall c,
  Bool.eqb (ishex (swapcase c)) (ishex c) && N.eqb (unhex (swapcase c)) (unhex c) &&
  Ascii.eqb (swapcase (swapcase c)) c = true.
Proof. by_ascii. Qed.

Lemma ishex_swapcase c : ishex (swapcase c) = ishex c.
Proof.
  pose proof (swapcase_b c) as B. do 2 (apply andb_true_iff in B as [B _]).
  apply Bool.eqb_prop in B. exact B.
Qed.

Lemma unhex_swapcase c : unhex (swapcase c) = unhex c.
Proof.
  pose proof (swapcase_b c) as B. apply andb_true_iff in B as [B _]. apply andb_true_iff in B as [_ B].
  apply N.eqb_eq in B. exact B.
Qed.

Lemma hexbyte_swapcase a b :
  hexbyte (swapcase a) b = hexbyte a b /\ hexbyte a (swapcase b) = hexbyte a b /\
  hexbyte (swapcase a) (swapcase b) = hexbyte a b.
Proof. unfold hexbyte. rewrite !unhex_swapcase. auto. Qed.

(** the encoded slash, by value: exactly %2F and %2f *)
Lemma enc_slash_by_value_b : forall a b,
  implb (ishex a && ishex b)
        (Bool.eqb (Ascii.eqb (hexbyte a b) "/") (Ascii.eqb a "2" && (Ascii.eqb b "F" || Ascii.eqb b "f"))) = true.
Proof. by_ascii2. Qed.

Lemma enc_slash_by_value a b : ishex a = true -> ishex b = true ->
  Ascii.eqb (hexbyte a b) "/" = Ascii.eqb a "2" && (Ascii.eqb b "F" || Ascii.eqb b "f").
Proof.
  intros Ha Hb. pose proof (enc_slash_by_value_b a b) as B. rewrite Ha, Hb in B. simpl in B.
  apply Bool.eqb_prop in B. exact B.
Qed.

(** * unescape after escape *)

Lemma unescape_gen_cons_plain plus c r :
  Ascii.eqb c "%" = false -> (plus && Ascii.eqb c "+") = false ->
  unescape_gen plus (String c r) = option_map (String c) (unescape_gen plus r).
Proof. intros H1 H2. simpl. rewrite H1, H2. reflexivity. Qed.

Lemma unescape_gen_triplet plus a b r :
  ishex a = true -> ishex b = true ->
  unescape_gen plus (String "%" (String a (String b r))) =
  option_map (String (hexbyte a b)) (unescape_gen plus r).
Proof. intros Ha Hb. simpl. rewrite Ha, Hb. reflexivity. Qed.

Lemma unescape_gen_pct_triplet plus c r :
  unescape_gen plus (pct_triplet c r) = option_map (String c) (unescape_gen plus r).
Proof.
  unfold pct_triplet. destruct (hex_roundtrip c) as (H1 & H2 & H3).
  rewrite unescape_gen_triplet by assumption. rewrite H3. reflexivity.
Qed.

Lemma unescape_escape m s : m <> MQuery -> unescape (escape m s) = Some s.
Proof.
  intro Hm. unfold unescape. induction s as [|c r IH]; [reflexivity|].
  simpl escape. destruct (should_escape m c) eqn:E.
  - destruct m; try congruence; rewrite unescape_gen_pct_triplet, IH; reflexivity.
  - rewrite unescape_gen_cons_plain, IH; [reflexivity | eapply noesc_not_pct; eassumption | reflexivity].
Qed.

Lemma query_unescape_escape s : query_unescape (escape MQuery s) = Some s.
Proof.
  unfold query_unescape. induction s as [|c r IH]; [reflexivity|].
  simpl escape. destruct (should_escape MQuery c) eqn:E.
  - destruct (Ascii.eqb c " ") eqn:Es.
    + apply ascii_eqb_true in Es. subst c. simpl. simpl in IH. rewrite IH. reflexivity.
    + rewrite unescape_gen_pct_triplet, IH. reflexivity.
  - rewrite unescape_gen_cons_plain, IH; [reflexivity | eapply noesc_not_pct; eassumption |].
    simpl. apply noesc_query_not_plus. assumption.
Qed.

(** * EscapedPath returns a valid RawPath unchanged *)

Lemma string_eqb_refl s : String.eqb s s = true.
Proof. apply String.eqb_refl. Qed.

Theorem escaped_path_valid r p :
  valid_encoded r = true -> unescape r = Some p -> escaped_path p r = r.
Proof.
  intros Hv Hu. unfold escaped_path. rewrite Hv, Hu, string_eqb_refl.
  destruct r as [|c r']; [|reflexivity].
  simpl. inversion Hu; subst. reflexivity.
Qed.

(** through setPath: what the HTTP server stores, re-read by EscapedPath *)
Theorem set_path_escaped r p rp :
  set_path r = Some (p, rp) -> p <> "*"%string ->
  escaped_path p rp = if valid_encoded r then r else escape MPath p.
Proof.
  unfold set_path. destruct (unescape r) as [p0|] eqn:Hu; [|discriminate].
  intros H Hstar. inversion H; subst p0 rp; clear H.
  destruct (String.eqb r (escape MPath p)) eqn:E.
  - apply String.eqb_eq in E. unfold escaped_path. simpl.
    destruct (String.eqb p "*") eqn:Es; [apply String.eqb_eq in Es; congruence|].
    destruct (valid_encoded r); congruence.
  - destruct (valid_encoded r) eqn:Hv.
    + apply escaped_path_valid; assumption.
    + unfold escaped_path. rewrite Hv, andb_false_r. simpl.
      destruct (String.eqb p "*") eqn:Es; [apply String.eqb_eq in Es; congruence|]. reflexivity.
Qed.

Lemma set_path_unescape r p rp : set_path r = Some (p, rp) -> unescape r = Some p.
Proof.
  unfold set_path. destruct (unescape r); [|discriminate]. intro H; inversion H; reflexivity.
Qed.

Lemma set_path_none r : set_path r = None <-> unescape r = None.
Proof. unfold set_path. destruct (unescape r); split; congruence. Qed.

(** * equivalent re-encodings *)

(** [reenc s s']: [s'] spells the same path as [s] — any unreserved octet may
    be percent-encoded or decoded, and the hex digits of any escape may be in
    either case.  Both strings are well-formed (every '%' starts an escape). *)
Inductive reenc : string -> string -> Prop :=
| reenc_nil : reenc EmptyString EmptyString
| reenc_keep c s s' :
    Ascii.eqb c "%" = false -> reenc s s' -> reenc (String c s) (String c s')
| reenc_enc c a b s s' :
    unreserved c = true -> ishex a = true -> ishex b = true -> hexbyte a b = c ->
    reenc s s' -> reenc (String c s) (String "%" (String a (String b s')))
| reenc_dec c a b s s' :
    unreserved c = true -> ishex a = true -> ishex b = true -> hexbyte a b = c ->
    reenc s s' -> reenc (String "%" (String a (String b s))) (String c s')
| reenc_trip a b a' b' s s' :
    ishex a = true -> ishex b = true -> ishex a' = true -> ishex b' = true ->
    hexbyte a b = hexbyte a' b' ->
    reenc s s' -> reenc (String "%" (String a (String b s))) (String "%" (String a' (String b' s'))).

Lemma reenc_sym s s' : reenc s s' -> reenc s' s.
Proof.
  induction 1.
  - constructor.
  - apply reenc_keep; assumption.
  - eapply reenc_dec; eassumption.
  - eapply reenc_enc; eassumption.
  - apply reenc_trip; auto.
Qed.

Theorem reenc_unescape s s' : reenc s s' -> unescape s = unescape s'.
Proof.
  unfold unescape. induction 1 as [|c s s' Hc _ IH|c a b s s' Hu Ha Hb Hv _ IH|c a b s s' Hu Ha Hb Hv _ IH
                                   |a b a' b' s s' Ha Hb Ha' Hb' Hv _ IH].
  - reflexivity.
  - rewrite !unescape_gen_cons_plain by (assumption || reflexivity). rewrite IH. reflexivity.
  - rewrite unescape_gen_cons_plain by (try reflexivity; apply unreserved_not_pct; assumption).
    rewrite unescape_gen_triplet by assumption. rewrite Hv, IH. reflexivity.
  - rewrite (unescape_gen_cons_plain false c s') by (try reflexivity; apply unreserved_not_pct; assumption).
    rewrite unescape_gen_triplet by assumption. rewrite Hv, IH. reflexivity.
  - rewrite !unescape_gen_triplet by assumption. rewrite Hv, IH. reflexivity.
Qed.

(** both sides of [reenc] are well-formed *)
Lemma reenc_unescapable s s' : reenc s s' -> exists p, unescape s = Some p.
Proof.
  unfold unescape. induction 1 as [|c s s' Hc _ [p IH]|c a b s s' Hu Ha Hb Hv _ [p IH]|c a b s s' Hu Ha Hb Hv _ [p IH]
                                   |a b a' b' s s' Ha Hb Ha' Hb' Hv _ [p IH]].
  - eexists; reflexivity.
  - rewrite unescape_gen_cons_plain by (assumption || reflexivity). rewrite IH. eexists; reflexivity.
  - rewrite unescape_gen_cons_plain by (try reflexivity; apply unreserved_not_pct; assumption).
    rewrite IH. eexists; reflexivity.
  - rewrite unescape_gen_triplet by assumption. rewrite IH. eexists; reflexivity.
  - rewrite unescape_gen_triplet by assumption. rewrite IH. eexists; reflexivity.
Qed.

Lemma valid_encoded_triplet a b s : ishex a = true -> ishex b = true ->
  valid_encoded (String "%" (String a (String b s))) = valid_encoded s.
Proof.
  intros Ha Hb. simpl valid_encoded. rewrite (ishex_valid a Ha), (ishex_valid b Hb). reflexivity.
Qed.

Theorem reenc_valid_encoded s s' : reenc s s' -> valid_encoded s = valid_encoded s'.
Proof.
  induction 1 as [|c s s' Hc _ IH|c a b s s' Hu Ha Hb Hv _ IH|c a b s s' Hu Ha Hb Hv _ IH
                  |a b a' b' s s' Ha Hb Ha' Hb' Hv _ IH].
  - reflexivity.
  - simpl. rewrite IH. reflexivity.
  - rewrite valid_encoded_triplet by assumption. simpl. rewrite (unreserved_valid c Hu). exact IH.
  - rewrite valid_encoded_triplet by assumption. simpl. rewrite (unreserved_valid c Hu). exact IH.
  - rewrite !valid_encoded_triplet by assumption. exact IH.
Qed.

Lemma reenc_empty s s' : reenc s s' -> (s = EmptyString <-> s' = EmptyString).
Proof. destruct 1; split; intro; congruence. Qed.

Lemma reenc_app a a' b b' : reenc a a' -> reenc b b' -> reenc (a ++ b) (a' ++ b').
Proof.
  intros Ha Hb. induction Ha; simpl.
  - assumption.
  - apply reenc_keep; assumption.
  - eapply reenc_enc; eassumption.
  - eapply reenc_dec; eassumption.
  - apply reenc_trip; assumption.
Qed.

(** ** segments: a re-encoding never moves a '/' *)

Lemma split1_cons_sep sep r :
  split1 sep (String sep r) = (EmptyString, fst (split1 sep r) :: snd (split1 sep r)).
Proof. simpl. destruct (split1 sep r). rewrite Ascii.eqb_refl. reflexivity. Qed.

Lemma split1_cons_other sep c r : Ascii.eqb c sep = false ->
  split1 sep (String c r) = (String c (fst (split1 sep r)), snd (split1 sep r)).
Proof. intro H. simpl. destruct (split1 sep r). rewrite H. reflexivity. Qed.

Lemma split_on_eq sep s : split_on sep s = fst (split1 sep s) :: snd (split1 sep s).
Proof. unfold split_on. destruct (split1 sep s). reflexivity. Qed.

Lemma split1_triplet a b s : ishex a = true -> ishex b = true ->
  split1 "/" (String "%" (String a (String b s))) =
  (String "%" (String a (String b (fst (split1 "/" s)))), snd (split1 "/" s)).
Proof.
  intros Ha Hb.
  rewrite split1_cons_other by reflexivity.
  rewrite (split1_cons_other "/" a) by (apply ishex_not_slash; assumption).
  rewrite (split1_cons_other "/" b) by (apply ishex_not_slash; assumption).
  reflexivity.
Qed.

Lemma reenc_split1 s s' : reenc s s' ->
  reenc (fst (split1 "/" s)) (fst (split1 "/" s')) /\
  Forall2 reenc (snd (split1 "/" s)) (snd (split1 "/" s')).
Proof.
  induction 1 as [|c s s' Hc _ [IH1 IH2]|c a b s s' Hu Ha Hb Hv _ [IH1 IH2]|c a b s s' Hu Ha Hb Hv _ [IH1 IH2]
                  |a b a' b' s s' Ha Hb Ha' Hb' Hv _ [IH1 IH2]].
  - simpl. split; constructor.
  - destruct (Ascii.eqb c "/") eqn:E.
    + apply ascii_eqb_true in E. subst c. rewrite !split1_cons_sep. simpl.
      split; [constructor | constructor; assumption].
    + rewrite !split1_cons_other by assumption. simpl. split; [apply reenc_keep|]; assumption.
  - rewrite split1_cons_other by (apply unreserved_not_slash; assumption).
    rewrite split1_triplet by assumption. simpl. split; [eapply reenc_enc; eassumption | assumption].
  - rewrite (split1_cons_other "/" c s') by (apply unreserved_not_slash; assumption).
    rewrite split1_triplet by assumption. simpl. split; [eapply reenc_dec; eassumption | assumption].
  - rewrite !split1_triplet by assumption. simpl. split; [apply reenc_trip|]; assumption.
Qed.

Theorem reenc_split s s' : reenc s s' -> Forall2 reenc (split_on "/" s) (split_on "/" s').
Proof.
  intro H. rewrite !split_on_eq. destruct (reenc_split1 _ _ H). constructor; assumption.
Qed.

Lemma reenc_join l l' : Forall2 reenc l l' -> reenc (join_with "/" l) (join_with "/" l').
Proof.
  induction 1 as [|x x' r r' Hx Hr IH]; [constructor|].
  simpl. destruct Hr as [|y y' r r' Hy Hr].
  - assumption.
  - apply reenc_app; [assumption|]. simpl. apply reenc_keep; [reflexivity|]. exact IH.
Qed.

(** ** every well-formed string is related to itself *)

Lemma reenc_refl_len n : forall s, (String.length s <= n)%nat -> unescape s <> None -> reenc s s.
Proof.
  unfold unescape. induction n as [|n IH]; intros s Hl Hu.
  - destruct s; [constructor | simpl in Hl; lia].
  - destruct s as [|c r]; [constructor|].
    destruct (Ascii.eqb c "%") eqn:Ec.
    + apply ascii_eqb_true in Ec. subst c.
      destruct r as [|a [|b r']]; try (simpl in Hu; congruence).
      simpl in Hu. destruct (ishex a) eqn:Ha; [|simpl in Hu; congruence].
      destruct (ishex b) eqn:Hb; [|simpl in Hu; congruence]. simpl in Hu.
      apply reenc_trip; try assumption; try reflexivity.
      apply IH; [simpl in Hl; lia|]. destruct (unescape_gen false r'); [congruence | simpl in Hu; congruence].
    + apply reenc_keep; [assumption|]. apply IH; [simpl in Hl; lia|].
      rewrite unescape_gen_cons_plain in Hu by (assumption || reflexivity).
      destruct (unescape_gen false r); [congruence | simpl in Hu; congruence].
Qed.

Theorem reenc_refl s p : unescape s = Some p -> reenc s s.
Proof. intro H. apply (reenc_refl_len (String.length s)); [lia | congruence]. Qed.

(** hex case-insensitivity of unescape, as a corollary: swapping the case of the
    digits of one escape does not change the decoded string *)
Corollary unescape_hex_case a b s : ishex a = true -> ishex b = true -> unescape s <> None ->
  unescape (String "%" (String (swapcase a) (String (swapcase b) s))) =
  unescape (String "%" (String a (String b s))).
Proof.
  intros Ha Hb Hs. apply reenc_unescape. apply reenc_trip; rewrite ?ishex_swapcase; try assumption.
  - apply hexbyte_swapcase.
  - destruct (unescape s) eqn:E; [|congruence]. eapply reenc_refl; eassumption.
Qed.
