(** C06/TreeBridge.v — the two transcriptions of internal/x/radixtree/tree.go agree:
    C06/Tree.v ([add_node], [del_node all_fix], [find_node false]: the model the
    implementation is compared with on every run; nodes carry isCatchAll / isWildcard) and
    Radix/Tree.v + C06/TreeDel.v (the model the refinement proofs are about; the kind of a
    child is the slot it hangs in).

    [emb] forgets the two kind flags; [flags_ok] says they agree with the slots.  Under
    [flags_ok] (and, for Delete and Find, the tree invariant [wfd] of the embedded tree)

      [add_bridge]    t_add   = tree_add_f   up to [emb]
      [del_bridge]    t_delete all_fix = tree_delete   up to [emb]; in particular the slice
                      expression in delNode cannot go out of range any more (no [EPanic])
      [find_bridge]   find_node false = find_node (all repairs) up to [emb] *)
From HV Require Import Base.Prelude C06.Pat C06.Model C06.Tree.
From HV Require Radix.Spec Radix.SpecProofs Radix.Machine Radix.Tree Radix.TreeProofs Radix.TreeAddProofs
  C06.TreeDel C06.TreeDelFacts C06.TreeRefine C06.TreeRepo.

Module RS := Radix.Spec.
Module RT := Radix.Tree.
Module TD := C06.TreeDel.

Notation rtree := C06.TreeRepo.rtree.

(** ** the embedding *)

Fixpoint emb (t : tree) : rtree :=
  match t with
  | Node p st w c _ _ vs ks b =>
    @RT.Node route p (map (fun x => (fst x, emb (snd x))) st)
             (match w with Some x => Some (emb x) | None => None end)
             (match c with Some x => Some (emb x) | None => None end) vs ks b
  end.

Definition embs (l : list (ascii * tree)) : list (ascii * rtree) := map (fun x => (fst x, emb (snd x))) l.
Definition embo (o : option tree) : option rtree := match o with Some x => Some (emb x) | None => None end.

Lemma emb_unfold (t : tree) :
  emb t = @RT.Node route (t_path t) (embs (t_statics t)) (embo (t_wild t)) (embo (t_catch t)) (t_values t) (t_keys t) (t_bt t).
Proof. destruct t. reflexivity. Qed.

(** the kind flags agree with the slots *)
Definition own_static (t : tree) : bool := negb (t_isCatchAll t) && negb (t_isWildcard t).
Definition own_wild (t : tree) : bool := t_isWildcard t.
Definition own_catch (t : tree) : bool := negb (t_isWildcard t) && t_isCatchAll t.

Fixpoint flags_ok (t : tree) : bool :=
  match t with
  | Node _ st w c _ _ _ _ _ =>
    forallb (fun x => own_static (snd x) && flags_ok (snd x)) st
    && match w with Some x => own_wild x && flags_ok x | None => true end
    && match c with Some x => own_catch x && flags_ok x | None => true end
  end.

Definition fl_statics (l : list (ascii * tree)) : bool := forallb (fun x => own_static (snd x) && flags_ok (snd x)) l.
Definition fl_wild (o : option tree) : bool := match o with Some x => own_wild x && flags_ok x | None => true end.
Definition fl_catch (o : option tree) : bool := match o with Some x => own_catch x && flags_ok x | None => true end.

Lemma flags_unfold (t : tree) : flags_ok t = fl_statics (t_statics t) && fl_wild (t_wild t) && fl_catch (t_catch t).
Proof. destruct t. reflexivity. Qed.

Lemma flags_parts (t : tree) : flags_ok t = true ->
  fl_statics (t_statics t) = true /\ fl_wild (t_wild t) = true /\ fl_catch (t_catch t) = true.
Proof.
  rewrite flags_unfold. intro H. apply andb_true_iff in H as [H H3]. apply andb_true_iff in H as [H1 H2]. auto.
Qed.

Lemma flags_build (t : tree) : fl_statics (t_statics t) = true -> fl_wild (t_wild t) = true -> fl_catch (t_catch t) = true ->
  flags_ok t = true.
Proof. intros H1 H2 H3. rewrite flags_unfold, H1, H2, H3. reflexivity. Qed.

(** the node's own kind *)
Definition own (t : tree) : bool * bool := (t_isCatchAll t, t_isWildcard t).

(** ** the primitives commute with the embedding *)

Lemma emb_path (t : tree) : RT.t_path (emb t) = t_path t.
Proof. destruct t. reflexivity. Qed.
Lemma emb_statics (t : tree) : RT.t_statics (emb t) = embs (t_statics t).
Proof. destruct t. reflexivity. Qed.
Lemma emb_wild (t : tree) : RT.t_wild (emb t) = embo (t_wild t).
Proof. destruct t. reflexivity. Qed.
Lemma emb_catch (t : tree) : RT.t_catch (emb t) = embo (t_catch t).
Proof. destruct t. reflexivity. Qed.
Lemma emb_vals (t : tree) : RT.t_vals (emb t) = t_values t.
Proof. destruct t. reflexivity. Qed.
Lemma emb_keys (t : tree) : RT.t_keys (emb t) = t_keys t.
Proof. destruct t. reflexivity. Qed.
Lemma emb_bt (t : tree) : RT.t_bt (emb t) = t_bt t.
Proof. destruct t. reflexivity. Qed.

Lemma emb_set_path p (t : tree) : emb (set_path p t) = RT.set_path route (emb t) p.
Proof. destruct t. reflexivity. Qed.
Lemma emb_set_statics s (t : tree) : emb (set_statics s t) = RT.set_statics route (emb t) (embs s).
Proof. destruct t. reflexivity. Qed.
Lemma emb_set_wild w (t : tree) : emb (set_wild (Some w) t) = RT.set_wild route (emb t) (emb w).
Proof. destruct t. reflexivity. Qed.
Lemma emb_set_catch c (t : tree) : emb (set_catch (Some c) t) = RT.set_catch route (emb t) (emb c).
Proof. destruct t. reflexivity. Qed.
Lemma emb_clear_wild (t : tree) : emb (set_wild None t) = TD.clear_wild (emb t).
Proof. destruct t. reflexivity. Qed.
Lemma emb_clear_catch (t : tree) : emb (set_catch None t) = TD.clear_catch (emb t).
Proof. destruct t. reflexivity. Qed.
Lemma emb_set_keys k (t : tree) : emb (set_keys k t) = RT.set_keys route (emb t) k.
Proof. destruct t. reflexivity. Qed.
Lemma emb_force_bt (t : tree) : emb (force_bt t) = RT.child_created route (emb t).
Proof. destruct t as [p st w c a b vs ks f]. destruct vs; reflexivity. Qed.
Lemma emb_new_node p : emb (new_node p) = RT.leaf p.
Proof. reflexivity. Qed.

Lemma embs_get l c : RT.find_static c (embs l) = embo (static_get l c).
Proof.
  induction l as [|[d x] r IH]; [reflexivity|]. cbn [embs map fst snd RT.find_static static_get].
  destruct (Ascii.eqb c d); [reflexivity | exact IH].
Qed.

Lemma embs_set l c t : embs (static_set l c t) = RT.replace_static route c (emb t) (embs l).
Proof.
  induction l as [|[d x] r IH]; [reflexivity|]. cbn [embs map fst snd RT.replace_static static_set].
  destruct (Ascii.eqb c d); cbn [map fst snd]; [reflexivity|]. f_equal. exact IH.
Qed.

Lemma embs_del l c : embs (static_del l c) = TD.remove_static c (embs l).
Proof.
  induction l as [|[d x] r IH]; [reflexivity|]. cbn [embs map fst snd TD.remove_static static_del].
  destruct (Ascii.eqb c d); cbn [map fst snd]; [reflexivity|]. f_equal. exact IH.
Qed.

Lemma embs_app l1 l2 : embs (l1 ++ l2) = embs l1 ++ embs l2.
Proof. apply map_app. Qed.

(** the kind flags under the primitives *)
Lemma fl_statics_get l c t : fl_statics l = true -> static_get l c = Some t -> own_static t = true /\ flags_ok t = true.
Proof.
  induction l as [|[d x] r IH]; [discriminate|]. cbn [fl_statics forallb snd static_get]. intros H Hg.
  apply andb_true_iff in H as [H1 H2]. destruct (Ascii.eqb c d); [|exact (IH H2 Hg)].
  inversion Hg; subst. apply andb_true_iff in H1. exact H1.
Qed.

Lemma fl_statics_set l c t : fl_statics l = true -> own_static t = true -> flags_ok t = true -> fl_statics (static_set l c t) = true.
Proof.
  intros H Ho Hf. induction l as [|[d x] r IH]; [reflexivity|]. cbn [fl_statics forallb snd] in H.
  apply andb_true_iff in H as [H1 H2]. cbn [static_set]. destruct (Ascii.eqb c d); cbn [fl_statics forallb snd].
  - rewrite Ho, Hf. exact H2.
  - rewrite H1. exact (IH H2).
Qed.

Lemma fl_statics_del l c : fl_statics l = true -> fl_statics (static_del l c) = true.
Proof.
  induction l as [|[d x] r IH]; [reflexivity|]. cbn [fl_statics forallb snd]. intro H.
  apply andb_true_iff in H as [H1 H2]. cbn [static_del]. destruct (Ascii.eqb c d); [exact H2|].
  cbn [fl_statics forallb snd]. rewrite H1. exact (IH H2).
Qed.

Lemma fl_statics_snoc l c t : fl_statics l = true -> own_static t = true -> flags_ok t = true -> fl_statics (l ++ [(c, t)]) = true.
Proof. intros H Ho Hf. unfold fl_statics. rewrite forallb_app. fold (fl_statics l). rewrite H. cbn [forallb snd]. rewrite Ho, Hf. reflexivity. Qed.

(** ** small coincidences of the two developments *)

Lemma index_slash_same s : index_slash s = RT.index_slash s.
Proof.
  induction s as [|c r IH]; [reflexivity|]. cbn [index_slash RT.index_slash]. change RS.ch_slash with ch_slash.
  destruct (Ascii.eqb c ch_slash); [reflexivity|]. rewrite IH. destruct (RT.index_slash r); reflexivity.
Qed.

Lemma has_prefix_same s pre : has_prefix s pre = RT.is_prefix pre s.
Proof.
  revert s. induction pre as [|x r IH]; intros s.
  - destruct s; reflexivity.
  - destruct s as [|y s']; [reflexivity|]. cbn [has_prefix RT.is_prefix]. rewrite IH. reflexivity.
Qed.

Lemma common_prefix_len_same a b : common_prefix_len a b = RT.common_prefix_len a b.
Proof. revert b. induction a as [|x r IH]; intros [|y s]; try reflexivity; cbn; rewrite IH; reflexivity. Qed.

Lemma flags_set_path p t : flags_ok (set_path p t) = flags_ok t.
Proof. destruct t. reflexivity. Qed.
Lemma flags_set_keys k t : flags_ok (set_keys k t) = flags_ok t.
Proof. destruct t. reflexivity. Qed.
Lemma flags_force_bt t : flags_ok (force_bt t) = flags_ok t.
Proof. destruct t as [p st w c a b vs ks f]. destruct vs; reflexivity. Qed.
Lemma own_set_path p t : own (set_path p t) = own t.
Proof. destruct t. reflexivity. Qed.
Lemma own_set_keys k t : own (set_keys k t) = own t.
Proof. destruct t. reflexivity. Qed.
Lemma own_force_bt t : own (force_bt t) = own t.
Proof. destruct t as [p st w c a b vs ks f]. destruct vs; reflexivity. Qed.

Lemma own_static_of t t0 : own t = own t0 -> own_static t = own_static t0.
Proof. unfold own, own_static. intro H. injection H as H1 H2. rewrite H1, H2. reflexivity. Qed.
Lemma own_wild_of t t0 : own t = own t0 -> own_wild t = own_wild t0.
Proof. unfold own, own_wild. intro H. injection H as H1 H2. exact H2. Qed.
Lemma own_catch_of t t0 : own t = own t0 -> own_catch t = own_catch t0.
Proof. unfold own, own_catch. intro H. injection H as H1 H2. rewrite H1, H2. reflexivity. Qed.

(** splitCommonPrefix *)
Lemma split_bridge (child : tree) tok : flags_ok child = true -> own_static child = true ->
  emb (fst (split_common_prefix child tok)) = fst (RT.split_common_prefix route (emb child) tok) /\
  snd (split_common_prefix child tok) = snd (RT.split_common_prefix route (emb child) tok) /\
  flags_ok (fst (split_common_prefix child tok)) = true /\ own_static (fst (split_common_prefix child tok)) = true.
Proof.
  intros Hf Ho. unfold split_common_prefix, RT.split_common_prefix. rewrite emb_path, has_prefix_same, common_prefix_len_same.
  destruct (RT.is_prefix (t_path child) tok); [cbn [fst snd]; auto|].
  destruct (skipn (RT.common_prefix_len (t_path child) tok) (t_path child)) as [|c rest] eqn:E; [cbn [fst snd]; auto|].
  cbn [fst snd]. split; [|split; [reflexivity|split]].
  - rewrite emb_set_statics. cbn [embs map fst snd emb new_node]. rewrite emb_set_path. reflexivity.
  - cbn [set_statics new_node flags_ok forallb snd]. rewrite flags_set_path, Hf.
    rewrite (own_static_of _ child (own_set_path _ _)), Ho. reflexivity.
  - reflexivity.
Qed.

(** ** Add *)

Section AddBridge.
Variable v : route.
Variable btf : bool.

Definition leaf6 (node : tree) : tree + err :=
  if can_add (t_values node) v then inl (set_values (t_values node ++ [v]) (set_bt btf node)) else inr EConstraint.

Definition add_rel (n0 : tree) (x : tree + err) (y : RT.tres route) : Prop :=
  match x, y with
  | inl n', RT.TOk m' => emb n' = m' /\ flags_ok n' = true /\ own n' = own n0
  | inr EInvalidPath, RT.TInvalid => True
  | inr EConstraint, RT.TConstraint => True
  | inr EPanic, RT.TFuel => True
  | _, _ => False
  end.

Lemma leaf_put (n0 node : tree) : flags_ok node = true -> own node = own n0 ->
  add_rel n0 (leaf6 node) (RT.put_value route can_add v btf (emb node)).
Proof.
  intros Hf Ho. unfold leaf6, RT.put_value. rewrite emb_vals. destruct (can_add (t_values node) v); [|exact I].
  destruct node as [p st w c a b vs ks f]. cbn. split; [reflexivity|]. split; [exact Hf | exact Ho].
Qed.

(** the three branches of C06/Tree.v's addNode, named *)
Definition star6 (n : tree) (path1 this_token : str) (next_slash : option nat) (wk : list str) : tree + err :=
  let name := tl this_token in
  match next_slash with
  | Some _ => inr EInvalidPath
  | None =>
    let (n1, cc) := match t_catch n with
                    | Some c => (n, c)
                    | None => (force_bt n, Node name [] None None true false [] [] false)
                    end in
    if negb (str_eqb path1 (t_path cc)) then inr EInvalidPath
    else if negb (is_nil (t_keys cc)) && negb (list_eqb str_eqb (t_keys cc) (wk ++ [name]))
    then inr EInvalidPath
    else
      match leaf6 (set_keys (wk ++ [name]) cc) with
      | inl cc' => inl (set_catch (Some cc') n1)
      | inr e => inr e
      end
  end.

Definition colon6 (f : nat) (n : tree) (this_token remaining : str) (wk : list str) : tree + err :=
  let (n1, w) := match t_wild n with
                 | Some w => (n, w)
                 | None => (force_bt n,
                            Node (list_ascii_of_string "wildcard") [] None None false true [] [] false)
                 end in
  match add_node f w remaining (wk ++ [tl this_token]) false leaf6 with
  | inl w' => inl (set_wild (Some w') n1)
  | inr e => inr e
  end.

Definition static6 (f : nat) (n : tree) (path : str) (token : ascii) (this_token remaining : str) (wk : list str) (ins : bool) : tree + err :=
  let unescaped := negb ins && is_escape this_token in
  let this_token' := if unescaped then tl this_token else this_token in
  let token' := if unescaped then match this_token' with c :: _ => c | [] => token end else token in
  match static_get (t_statics n) token' with
  | Some child =>
    let (child', split) := split_common_prefix child this_token' in
    let split' := if unescaped then S split else split in
    match add_node f child' (skipn split' path) wk (negb (Ascii.eqb token' ch_slash)) leaf6 with
    | inl c' => inl (set_statics (static_set (t_statics n) token' c') n)
    | inr e => inr e
    end
  | None =>
    match add_node f (new_node this_token') remaining wk (negb (Ascii.eqb token' ch_slash)) leaf6 with
    | inl c' => inl (set_statics (t_statics n ++ [(token', c')]) (force_bt n))
    | inr e => inr e
    end
  end.

Lemma add_node_cons6 f n token path1 wk ins :
  add_node (S f) n (token :: path1) wk ins leaf6 =
  let path := token :: path1 in
  let next_slash := index_slash path in
  let token_end := if Ascii.eqb token ch_slash then 1
                   else match next_slash with Some i => i | None => length path end in
  let this_token := firstn token_end path in
  let remaining := skipn token_end path in
  if negb ins && Ascii.eqb token ch_star then star6 n path1 this_token next_slash wk
  else if negb ins && Ascii.eqb token ch_colon then colon6 f n this_token remaining wk
  else static6 f n path token this_token remaining wk ins.
Proof. reflexivity. Qed.

End AddBridge.

Section AddBridge2.
Variable v : route.
Variable btf : bool.
Notation leaf6 := (leaf6 v btf).

Definition abridge_at (f : nat) : Prop :=
  forall n path wk ins, flags_ok n = true ->
    add_rel n (add_node f n path wk ins leaf6) (RT.add_node can_add f (emb n) path wk ins v btf).

(** errors do not depend on the node *)
Lemma add_rel_lift (n0 n1 : tree) (x : tree + err) (y : RT.tres route) (k6 : tree -> tree) (kR : rtree -> rtree) :
  add_rel n0 x y ->
  (forall n' m', emb n' = m' -> flags_ok n' = true -> own n' = own n0 ->
     emb (k6 n') = kR m' /\ flags_ok (k6 n') = true /\ own (k6 n') = own n1) ->
  add_rel n1 (match x with inl n' => inl (k6 n') | inr e => inr e end)
             (match y with
              | RT.TOk m' => RT.TOk (kR m')
              | RT.TInvalid => RT.TInvalid
              | RT.TConstraint => RT.TConstraint
              | RT.TFuel => RT.TFuel
              end).
Proof.
  intros H K. unfold add_rel in *. destruct x as [n'|[]], y as [m'| | |]; try contradiction; try exact I.
  destruct H as (H1 & H2 & H3). apply K; assumption.
Qed.

Lemma flags_set_wild w n : flags_ok n = true -> own_wild w = true -> flags_ok w = true -> flags_ok (set_wild (Some w) n) = true.
Proof.
  intros H Ho Hw. apply flags_parts in H as (H1 & H2 & H3). destruct n. apply flags_build; cbn in *; try assumption.
  rewrite Ho, Hw. reflexivity.
Qed.

Lemma flags_set_catch c n : flags_ok n = true -> own_catch c = true -> flags_ok c = true -> flags_ok (set_catch (Some c) n) = true.
Proof.
  intros H Ho Hw. apply flags_parts in H as (H1 & H2 & H3). destruct n. apply flags_build; cbn in *; try assumption.
  rewrite Ho, Hw. reflexivity.
Qed.

Lemma flags_set_statics s n : flags_ok n = true -> fl_statics s = true -> flags_ok (set_statics s n) = true.
Proof. intros H Hs. apply flags_parts in H as (H1 & H2 & H3). destruct n. apply flags_build; cbn in *; assumption. Qed.

Lemma own_set_wild w n : own (set_wild w n) = own n.
Proof. destruct n. reflexivity. Qed.
Lemma own_set_catch c n : own (set_catch c n) = own n.
Proof. destruct n. reflexivity. Qed.
Lemma own_set_statics s n : own (set_statics s n) = own n.
Proof. destruct n. reflexivity. Qed.

Lemma star_bridge (n : tree) token path1 this_token next_slash wk : flags_ok n = true ->
  add_rel n (star6 v btf n path1 this_token next_slash wk)
    (let name := skipn 1 this_token in
     match next_slash with
     | Some _ => RT.TInvalid
     | None =>
       let '(n1, c) := match RT.t_catch (emb n) with
                       | Some c => (emb n, c)
                       | None => (RT.child_created route (emb n), RT.leaf name)
                       end in
       if negb (Radix.Machine.str_eqb (skipn 1 (token :: path1)) (RT.t_path c)) then RT.TInvalid else
       if negb (is_nil (RT.t_keys c)) && negb (Radix.Machine.keys_eqb (RT.t_keys c) (wk ++ [name])) then RT.TInvalid else
       match RT.put_value route can_add v btf (RT.set_keys route c (wk ++ [name])) with
       | RT.TOk c' => RT.TOk (RT.set_catch route n1 c')
       | e => e
       end
     end).
Proof.
  intro Hf. unfold star6. cbv zeta. destruct next_slash; [exact I|].
  pose proof (flags_parts n Hf) as (_ & _ & H3). rewrite emb_catch.
  change (skipn 1 (token :: path1)) with path1. change (skipn 1 this_token) with (tl this_token).
  unfold Radix.Machine.keys_eqb, Radix.Machine.str_eqb, str_eqb.
  destruct (t_catch n) as [c|] eqn:Ec; cbn [embo].
  - cbn [fl_catch] in H3. apply andb_true_iff in H3 as [Hoc Hfc].
    rewrite emb_path, emb_keys.
    match goal with |- add_rel _ (if ?b then _ else _) (if ?b' then _ else _) => change b' with b; destruct b; [exact I|] end.
    match goal with |- add_rel _ (if ?b then _ else _) (if ?b' then _ else _) => change b' with b; destruct b; [exact I|] end.
    rewrite <- emb_set_keys.
    apply (add_rel_lift (set_keys (wk ++ [tl this_token]) c) n _ _ (fun cc' => set_catch (Some cc') n) (fun m' => RT.set_catch route (emb n) m')).
    + apply leaf_put; [rewrite flags_set_keys; exact Hfc | reflexivity].
    + intros n' m' E F O. subst m'. split; [apply emb_set_catch|]. split; [|apply own_set_catch].
      apply flags_set_catch; [exact Hf | | exact F]. rewrite (own_catch_of _ _ O), (own_catch_of _ _ (own_set_keys _ _)). exact Hoc.
  - set (CN := Node (tl this_token) [] None None true false [] [] false).
    change (RT.leaf (tl this_token)) with (emb CN). rewrite emb_path, emb_keys. cbn [CN t_path t_keys is_nil negb andb].
    match goal with |- add_rel _ (if ?b then _ else _) (if ?b' then _ else _) => change b' with b; destruct b; [exact I|] end.
    rewrite <- emb_set_keys, <- emb_force_bt.
    apply (add_rel_lift (set_keys (wk ++ [tl this_token]) CN) n _ _ (fun cc' => set_catch (Some cc') (force_bt n))
             (fun m' => RT.set_catch route (emb (force_bt n)) m')).
    + apply leaf_put; reflexivity.
    + intros n' m' E F O. subst m'. split; [apply emb_set_catch|]. split; [|rewrite own_set_catch; apply own_force_bt].
      apply flags_set_catch; [rewrite flags_force_bt; exact Hf | | exact F]. rewrite (own_catch_of _ _ O). reflexivity.
Qed.

Lemma colon_bridge f (n : tree) this_token remaining wk : abridge_at f -> flags_ok n = true ->
  add_rel n (colon6 v btf f n this_token remaining wk)
    (let '(n1, w) := match RT.t_wild (emb n) with
                     | Some w => (emb n, w)
                     | None => (RT.child_created route (emb n), RT.leaf (list_ascii_of_string "wildcard"))
                     end in
     match RT.add_node can_add f w remaining (wk ++ [skipn 1 this_token]) false v btf with
     | RT.TOk w' => RT.TOk (RT.set_wild route n1 w')
     | e => e
     end).
Proof.
  intros IH Hf. unfold colon6. pose proof (flags_parts n Hf) as (_ & H2 & _). rewrite emb_wild.
  change (skipn 1 this_token) with (tl this_token).
  destruct (t_wild n) as [w|] eqn:Ew; cbn [embo].
  - cbn [fl_wild] in H2. apply andb_true_iff in H2 as [How Hfw].
    apply (add_rel_lift w n _ _ (fun w' => set_wild (Some w') n) (fun m' => RT.set_wild route (emb n) m')).
    + apply IH. exact Hfw.
    + intros n' m' E F O. subst m'. split; [apply emb_set_wild|]. split; [|apply own_set_wild].
      apply flags_set_wild; [exact Hf | | exact F]. rewrite (own_wild_of _ _ O). exact How.
  - set (WN := Node (list_ascii_of_string "wildcard") [] None None false true [] [] false).
    change (RT.leaf (list_ascii_of_string "wildcard")) with (emb WN). rewrite <- emb_force_bt.
    apply (add_rel_lift WN n _ _ (fun w' => set_wild (Some w') (force_bt n)) (fun m' => RT.set_wild route (emb (force_bt n)) m')).
    + apply IH. reflexivity.
    + intros n' m' E F O. subst m'. split; [apply emb_set_wild|]. split; [|rewrite own_set_wild; apply own_force_bt].
      apply flags_set_wild; [rewrite flags_force_bt; exact Hf | | exact F]. rewrite (own_wild_of _ _ O). reflexivity.
Qed.

Lemma static_common f (n : tree) path wk tok' tt remaining ins' (esc : bool) : abridge_at f -> flags_ok n = true ->
  add_rel n
    (match static_get (t_statics n) tok' with
     | Some child =>
       let (child', split) := split_common_prefix child tt in
       let split' := if esc then S split else split in
       match add_node f child' (skipn split' path) wk ins' leaf6 with
       | inl c' => inl (set_statics (static_set (t_statics n) tok' c') n)
       | inr e => inr e
       end
     | None =>
       match add_node f (new_node tt) remaining wk ins' leaf6 with
       | inl c' => inl (set_statics (t_statics n ++ [(tok', c')]) (force_bt n))
       | inr e => inr e
       end
     end)
    (Radix.TreeAddProofs.static_R route can_add v btf f (emb n) wk tok' tt remaining ins'
       (fun split => skipn (if esc then S split else split) path)).
Proof.
  intros IH Hf. unfold Radix.TreeAddProofs.static_R. pose proof (flags_parts n Hf) as (H1 & _ & _).
  rewrite emb_statics, embs_get. destruct (static_get (t_statics n) tok') as [child|] eqn:Eg; cbn [embo].
  - destruct (fl_statics_get _ _ _ H1 Eg) as [Hoc Hfc].
    destruct (split_bridge child tt Hfc Hoc) as (S1 & S2 & S3 & S4).
    destruct (split_common_prefix child tt) as [c6 s6]. destruct (RT.split_common_prefix route (emb child) tt) as [cR sR].
    cbn [fst snd] in *. subst cR sR.
    apply (add_rel_lift c6 n _ _ (fun c' => set_statics (static_set (t_statics n) tok' c') n)
             (fun m' => RT.set_statics route (emb n) (RT.replace_static route tok' m' (embs (t_statics n))))).
    + apply IH. exact S3.
    + intros n' m' E F O. subst m'. split; [rewrite emb_set_statics, embs_set; reflexivity|]. split; [|apply own_set_statics].
      apply flags_set_statics; [exact Hf|]. apply fl_statics_set; [exact H1 | | exact F]. rewrite (own_static_of _ _ O). exact S4.
  - change (RT.leaf tt) with (emb (new_node tt)).
    apply (add_rel_lift (new_node tt) n _ _ (fun c' => set_statics (t_statics n ++ [(tok', c')]) (force_bt n))
             (fun m' => RT.set_statics route (RT.child_created route (emb n)) (embs (t_statics n) ++ [(tok', m')]))).
    + apply IH. reflexivity.
    + intros n' m' E F O. subst m'. split; [rewrite emb_set_statics, embs_app, emb_force_bt; reflexivity|].
      split; [|rewrite own_set_statics; apply own_force_bt].
      apply flags_set_statics; [rewrite flags_force_bt; exact Hf|]. apply fl_statics_snoc; [exact H1 | | exact F].
      rewrite (own_static_of _ _ O). reflexivity.
Qed.

Lemma static_bridge f (n : tree) token path1 this_token remaining wk ins : abridge_at f -> flags_ok n = true ->
  add_rel n (static6 v btf f n (token :: path1) token this_token remaining wk ins)
    (let esc := negb ins &&
                match this_token with
                | c1 :: c2 :: _ => Ascii.eqb c1 RS.ch_bslash && RS.is_special c2
                | _ => false
                end in
     let token' := if esc then match this_token with _ :: c2 :: _ => c2 | _ => token end else token in
     let this_token' := if esc then skipn 1 this_token else this_token in
     Radix.TreeAddProofs.static_R route can_add v btf f (emb n) wk token' this_token' remaining (negb (Ascii.eqb token' RS.ch_slash))
       (fun split => skipn (if esc then S split else split) (token :: path1))).
Proof.
  intros IH Hf. unfold static6. cbv zeta. unfold is_escape.
  change RS.ch_bslash with ch_bslash. change RS.ch_slash with ch_slash. change RS.is_special with is_special.
  destruct (negb ins && match this_token with
                        | a :: b :: _ => Ascii.eqb a ch_bslash && is_special b
                        | _ => false
                        end) eqn:Eesc.
  - destruct this_token as [|c1 [|c2 r]]; try (rewrite andb_false_r in Eesc; discriminate).
    cbn [tl skipn]. apply (static_common f n (token :: path1) wk c2 (c2 :: r) remaining _ true IH Hf).
  - apply (static_common f n (token :: path1) wk token this_token remaining _ false IH Hf).
Qed.

Theorem add_bridge : forall f, abridge_at f.
Proof.
  induction f as [|f IH]; intros n path wk ins Hf; [exact I|].
  destruct path as [|token path1].
  - cbn [add_node RT.add_node]. destruct wk as [|k wk'].
    + cbn [is_nil]. apply leaf_put; [exact Hf | reflexivity].
    + cbn [is_nil]. rewrite emb_keys. unfold Radix.Machine.keys_eqb, Radix.Machine.str_eqb, str_eqb.
      match goal with |- add_rel _ (if ?b then _ else _) (if ?b' then _ else _) => change b' with b; destruct b; [exact I|] end.
      rewrite <- emb_set_keys. apply leaf_put; [rewrite flags_set_keys; exact Hf | apply own_set_keys].
  - rewrite add_node_cons6, (Radix.TreeAddProofs.add_node_cons route can_add v btf f (emb n) token path1 wk ins). cbv zeta.
    replace (RT.index_slash (token :: path1)) with (index_slash (token :: path1)) by apply index_slash_same.
    change RS.ch_slash with ch_slash. change RS.ch_star with ch_star. change RS.ch_colon with ch_colon.
    destruct (negb ins && Ascii.eqb token ch_star); [apply star_bridge; exact Hf|].
    destruct (negb ins && Ascii.eqb token ch_colon); [apply colon_bridge; assumption|].
    apply static_bridge; assumption.
Qed.

End AddBridge2.

(** ** Delete *)

Module TF := C06.TreeDelFacts.
Module TP := C06.TreeDelProofs.

Definition cvsl (sl : slot) : TD.slot :=
  match sl with SWild => TD.SWild | SCatch => TD.SCatch | SStatic c => TD.SStatic c end.

Definition del_rel (n0 : tree) (x : option tree + err) (y : option rtree) : Prop :=
  match x, y with
  | inl (Some n'), Some m' => emb n' = m' /\ flags_ok n' = true /\ own n' = own n0
  | inl None, None => True
  | _, _ => False
  end.

Lemma is_nil_embs l : is_nil (embs l) = is_nil l.
Proof. destruct l; reflexivity. Qed.

Lemma is_leaf_emb (t : tree) :
  RT.is_leaf route (emb t) = is_nil (t_statics t) && is_none (t_wild t) && is_none (t_catch t).
Proof. destruct t as [p st w c a b vs ks f]. unfold RT.is_leaf. cbn. destruct st, w, c; reflexivity. Qed.

Lemma put_bridge (n : tree) sl c :
  flags_ok n = true -> flags_ok c = true ->
  match sl with SWild => own_wild c | SCatch => own_catch c | SStatic _ => own_static c end = true ->
  emb (put_child n sl c) = TD.put_child (emb n) (cvsl sl) (emb c) /\ flags_ok (put_child n sl c) = true /\ own (put_child n sl c) = own n.
Proof.
  intros Hf Hc Ho. destruct sl as [| |tk]; cbn [put_child cvsl TD.put_child].
  - split; [apply emb_set_wild|]. split; [apply flags_set_wild; assumption | apply own_set_wild].
  - split; [apply emb_set_catch|]. split; [apply flags_set_catch; assumption | apply own_set_catch].
  - split; [rewrite emb_set_statics, embs_set, emb_statics; reflexivity|]. split; [|apply own_set_statics].
    apply flags_set_statics; [exact Hf|]. apply fl_statics_set; [apply (flags_parts n Hf) | exact Ho | exact Hc].
Qed.

Lemma drop_bridge (n : tree) sl c1 token :
  flags_ok n = true ->
  match sl with SWild => own_wild c1 | SCatch => own_catch c1 | SStatic tk => own_static c1 && Ascii.eqb tk token end = true ->
  let r := if t_isWildcard c1 then set_wild None n
           else if t_isCatchAll c1 then set_catch None n
           else set_statics (static_del (t_statics n) token) n in
  emb r = TD.drop_child (emb n) (cvsl sl) /\ flags_ok r = true /\ own r = own n.
Proof.
  intros Hf Ho r. pose proof (flags_parts n Hf) as (H1 & H2 & H3). subst r.
  destruct sl as [| |tk]; cbn [cvsl TD.drop_child].
  - unfold own_wild in Ho. rewrite Ho. split; [apply emb_clear_wild|]. split; [|apply own_set_wild].
    destruct n. apply flags_build; cbn in *; auto.
  - unfold own_catch in Ho. apply andb_true_iff in Ho as [Ha Hb]. apply negb_true_iff in Ha. rewrite Ha, Hb.
    split; [apply emb_clear_catch|]. split; [|apply own_set_catch]. destruct n. apply flags_build; cbn in *; auto.
  - apply andb_true_iff in Ho as [Ho Ht]. apply Ascii.eqb_eq in Ht. subst tk.
    unfold own_static in Ho. apply andb_true_iff in Ho as [Ha Hb]. apply negb_true_iff in Ha. apply negb_true_iff in Hb. rewrite Ha, Hb.
    split; [rewrite emb_set_statics, embs_del, emb_statics; reflexivity|]. split; [|apply own_set_statics].
    apply flags_set_statics; [exact Hf | apply fl_statics_del; exact H1].
Qed.

Lemma mergeable_emb (c : tree) :
  TD.mergeable (emb c) =
  match t_statics c with
  | [(i, _)] => negb (Ascii.eqb i ch_slash) && negb (str_eqb (t_path c) [ch_slash])
  | _ => false
  end.
Proof. unfold TD.mergeable. rewrite emb_statics, emb_path. destruct (t_statics c) as [|[i g] [|? ?]]; reflexivity. Qed.

(** deleteChild / what delNode does with the child it came back from *)
Lemma after_bridge (n : tree) sl c' token :
  flags_ok n = true -> flags_ok c' = true ->
  match sl with
  | SWild => own_wild c' && negb (TD.mergeable (emb c'))
  | SCatch => own_catch c' && negb (TD.mergeable (emb c'))
  | SStatic tk => own_static c' && Ascii.eqb tk token
  end = true ->
  let r := if is_nil (t_values c') then delete_child n sl c' token else put_child n sl c' in
  emb r = TD.after_child (emb n) (cvsl sl) (emb c') /\ flags_ok r = true /\ own r = own n.
Proof.
  intros Hf Hc Ho r. subst r. unfold TD.after_child. rewrite emb_vals.
  assert (Hown : match sl with SWild => own_wild c' | SCatch => own_catch c' | SStatic _ => own_static c' end = true).
  { destruct sl; apply andb_true_iff in Ho; tauto. }
  destruct (is_nil (t_values c')); [|apply put_bridge; assumption].
  unfold delete_child, TD.delete_child. rewrite mergeable_emb.
  destruct (match t_statics c' with
            | [(i, _)] => negb (Ascii.eqb i ch_slash) && negb (str_eqb (t_path c') [ch_slash])
            | _ => false
            end) eqn:Em.
  - (* merged with the only child: only in a static slot *)
    destruct sl as [| |tk]; try (rewrite mergeable_emb, Em in Ho; rewrite andb_false_r in Ho; discriminate).
    destruct (t_statics c') as [|[i g] [|? ?]] eqn:Est; try discriminate.
    assert (Hg : own_static g = true /\ flags_ok g = true).
    { pose proof (flags_parts c' Hc) as (H1 & _). rewrite Est in H1. cbn [fl_statics forallb snd] in H1.
      apply andb_true_iff in H1 as [H1 _]. apply andb_true_iff in H1. exact H1. }
    destruct Hg as [Hog Hfg].
    set (g1 := set_path (t_path c' ++ t_path g) g).
    assert (Eg1 : emb g1 = TD.merged (emb c')).
    { unfold TD.merged, g1. rewrite emb_statics, Est. cbn [embs map fst snd]. rewrite emb_set_path, !emb_path. reflexivity. }
    assert (Hfg1 : flags_ok g1 = true) by (unfold g1; rewrite flags_set_path; exact Hfg).
    assert (Hog1 : own_static g1 = true) by (unfold g1; rewrite (own_static_of _ _ (own_set_path _ _)); exact Hog).
    rewrite <- Eg1, emb_vals, is_leaf_emb. cbn [andb].
    destruct (negb (is_nil (t_values g1))); [apply (put_bridge n (SStatic tk) g1); assumption|].
    destruct (is_nil (t_statics g1) && is_none (t_wild g1) && is_none (t_catch g1)).
    + apply (drop_bridge n (SStatic tk) g1 token Hf). rewrite Hog1. apply andb_true_iff in Ho. cbn [andb]. tauto.
    + apply (put_bridge n (SStatic tk) g1); assumption.
  - cbn [andb]. rewrite is_leaf_emb.
    destruct (is_nil (t_statics c') && is_none (t_wild c') && is_none (t_catch c')); [|apply put_bridge; assumption].
    apply (drop_bridge n sl c' token Hf). destruct sl; try exact Hown. exact Ho.
Qed.

(** the end of the path *)
Lemma here_bridge (fm : route -> bool) (n : tree) : flags_ok n = true ->
  del_rel n
    (match t_values n with
     | [] => inl None
     | _ =>
       let vs := filter (fun v => negb (fm v)) (t_values n) in
       if Nat.eqb (length vs) (length (t_values n)) then inl None
       else inl (Some (set_values vs (match vs with
                                      | [] => set_bt true (set_keys [] n)
                                      | _ => n
                                      end)))
     end)
    (TD.del_here fm (emb n)).
Proof.
  intro Hf. unfold TD.del_here. rewrite emb_vals. destruct n as [p st w c a b vs ks f]. cbn [t_values].
  destruct vs as [|v0 vs0]; [exact I|]. cbv zeta.
  destruct (Nat.eqb _ _); [exact I|].
  destruct (filter (fun v => negb (fm v)) (v0 :: vs0)); cbn; auto.
Qed.

Lemma del_node_cons6 fm f n token rest0 ins :
  del_node all_fix (S f) n (token :: rest0) fm ins =
  let path := token :: rest0 in
  let after (sl : slot) (tk : ascii) (r : option tree + err) : option tree + err :=
    match r with
    | inl (Some c') => inl (Some (if is_nil (t_values c') then delete_child n sl c' tk else put_child n sl c'))
    | inl None => inl None
    | inr e => inr e
    end in
  if negb ins && Ascii.eqb token ch_colon then
    match t_wild n with
    | None => inl None
    | Some w => after SWild token (del_node all_fix f w (skipn (next_separator path) path) fm false)
    end
  else if negb ins && Ascii.eqb token ch_star then
    match t_catch n with
    | None => inl None
    | Some c => after SCatch token (del_node all_fix f c [] fm false)
    end
  else
    let esc := negb ins && is_escape path in
    let path_len := if esc then length (tl path) else length path in
    let path' := if esc then tl path else path in
    let token' := if esc then match path' with c :: _ => c | [] => token end else token in
    match static_get (t_statics n) token' with
    | None => inl None
    | Some child =>
      let cl := length (t_path child) in
      if Nat.leb cl path_len then
        if Nat.ltb (length path') cl then inr EPanic
        else if str_eqb (t_path child) (firstn cl path') then
          after (SStatic token') token' (del_node all_fix f child (skipn cl path') fm (negb (Ascii.eqb token' ch_slash)))
        else inl None
      else inl None
    end.
Proof. reflexivity. Qed.

Lemma is_prefix_leb_eqb a : forall b,
  RT.is_prefix a b = Nat.leb (length a) (length b) && str_eqb a (firstn (length a) b).
Proof.
  induction a as [|x r IH]; intros b; [reflexivity|]. destruct b as [|y s]; [reflexivity|].
  cbn [RT.is_prefix length Nat.leb firstn]. unfold str_eqb in *. cbn [list_eqb]. rewrite IH.
  destruct (Ascii.eqb x y); [reflexivity|]. cbn [andb]. rewrite andb_false_r. reflexivity.
Qed.

Lemma next_sep_take_seg s : skipn (next_separator s) s = snd (RS.take_seg s).
Proof.
  unfold next_separator. rewrite index_slash_same. apply (Radix.TreeAddProofs.index_slash_take_seg s).
Qed.

Lemma take_seg_colon_len rest0 : length (snd (RS.take_seg (ch_colon :: rest0))) <= length rest0.
Proof.
  rewrite (Radix.TreeAddProofs.take_seg_cons_noslash ch_colon rest0 eq_refl). cbn [snd]. apply Radix.SpecProofs.take_seg_length.
Qed.

Section DelBridge.
Variable fm : route -> bool.

Definition dbridge_at (f : nat) : Prop :=
  forall n path ins, flags_ok n = true -> TD.wfd (emb n) = true -> length path < f ->
    del_rel n (del_node all_fix f n path fm ins) (TD.del_node fm f (emb n) path ins).

Lemma del_rel_after (n c0 : tree) sl tk (x : option tree + err) (y : option rtree) :
  flags_ok n = true -> del_rel c0 x y ->
  (forall c', x = inl (Some c') ->
     match sl with
     | SWild => own_wild c0 && negb (TD.mergeable (emb c'))
     | SCatch => own_catch c0 && negb (TD.mergeable (emb c'))
     | SStatic tk' => own_static c0 && Ascii.eqb tk' tk
     end = true) ->
  del_rel n
    (match x with
     | inl (Some c') => inl (Some (if is_nil (t_values c') then delete_child n sl c' tk else put_child n sl c'))
     | inl None => inl None
     | inr e => inr e
     end)
    (match y with Some m' => Some (TD.after_child (emb n) (cvsl sl) m') | None => None end).
Proof.
  intros Hf H Hs. unfold del_rel in *. destruct x as [[c'|]|e], y as [m'|]; try contradiction; [|exact I].
  destruct H as (E & F & O). subst m'. specialize (Hs c' eq_refl).
  apply (after_bridge n sl c' tk Hf F).
  destruct sl; [rewrite (own_wild_of _ _ O) | rewrite (own_catch_of _ _ O) | rewrite (own_static_of _ _ O)]; exact Hs.
Qed.

Lemma static_del_bridge f (n : tree) token' path' ins' : dbridge_at f -> flags_ok n = true -> TD.wfd (emb n) = true ->
  length path' <= f ->
  del_rel n
    (match static_get (t_statics n) token' with
     | None => inl None
     | Some child =>
       let cl := length (t_path child) in
       if Nat.leb cl (length path') then
         if Nat.ltb (length path') cl then inr EPanic
         else if str_eqb (t_path child) (firstn cl path') then
           match del_node all_fix f child (skipn cl path') fm ins' with
           | inl (Some c') => inl (Some (if is_nil (t_values c') then delete_child n (SStatic token') c' token' else put_child n (SStatic token') c'))
           | inl None => inl None
           | inr e => inr e
           end
         else inl None
       else inl None
     end)
    (TP.static_D route fm f (emb n) token' path' ins').
Proof.
  intros IH Hf Hwd Hl. unfold TP.static_D. rewrite emb_statics, embs_get.
  destruct (static_get (t_statics n) token') as [child|] eqn:Eg; cbn [embo]; [|exact I]. cbv zeta.
  rewrite emb_path, is_prefix_leb_eqb.
  destruct (fl_statics_get _ _ _ (proj1 (flags_parts n Hf)) Eg) as [Hoc Hfc].
  assert (Egr : RT.find_static token' (RT.t_statics (emb n)) = Some (emb child)) by (rewrite emb_statics, embs_get, Eg; reflexivity).
  destruct (TF.wfd_static_child route (emb n) token' (emb child) Hwd Egr) as ([cp' Hcp] & Hwch & _). rewrite emb_path in Hcp.
  destruct (Nat.leb (length (t_path child)) (length path')) eqn:El; cbn [andb]; [|exact I].
  apply Nat.leb_le in El.
  replace (Nat.ltb (length path') (length (t_path child))) with false by (symmetry; apply Nat.ltb_ge; exact El).
  destruct (str_eqb (t_path child) (firstn (length (t_path child)) path')); [|exact I].
  apply (del_rel_after n child (SStatic token') token' _ _ Hf).
  - apply IH; [exact Hfc | exact Hwch |]. rewrite skipn_length, Hcp in *. cbn [length] in *. lia.
  - intros c' _. rewrite Hoc, Ascii.eqb_refl. reflexivity.
Qed.

Theorem del_bridge : forall f, dbridge_at f.
Proof.
  induction f as [|f IH]; intros n path ins Hf Hwd Hl; [lia|].
  destruct path as [|token rest0].
  - apply here_bridge. exact Hf.
  - cbn [length] in Hl. assert (Hl0 : length rest0 < f) by lia.
    rewrite del_node_cons6, (TP.del_node_cons route fm f (emb n) token rest0 ins). cbv zeta.
    change RS.ch_colon with ch_colon. change RS.ch_star with ch_star. change RS.ch_slash with ch_slash.
    pose proof (flags_parts n Hf) as (H1 & H2 & H3).
    destruct (negb ins && Ascii.eqb token ch_colon) eqn:Ecol.
    { (* single wildcard *)
      apply andb_true_iff in Ecol as [_ Ecol]. apply Ascii.eqb_eq in Ecol. subst token.
      rewrite emb_wild, next_sep_take_seg. destruct (t_wild n) as [w|] eqn:Ew; cbn [embo]; [|exact I].
      cbn [fl_wild] in H2. apply andb_true_iff in H2 as [How Hfw].
      assert (Ewr : RT.t_wild (emb n) = Some (emb w)) by (rewrite emb_wild, Ew; reflexivity).
      destruct (TF.wfd_wild_child route (emb n) (emb w) Hwd Ewr) as [Hww Hos].
      assert (Hrec : del_rel w (del_node all_fix f w (snd (RS.take_seg (ch_colon :: rest0))) fm false)
                       (TD.del_node fm f (emb w) (snd (RS.take_seg (ch_colon :: rest0))) false)).
      { apply IH; [exact Hfw | exact Hww |]. pose proof (take_seg_colon_len rest0). lia. }
      apply (del_rel_after n w SWild ch_colon _ _ Hf Hrec).
      intros c' Hc'. rewrite How. cbn [andb]. apply negb_true_iff.
      unfold del_rel in Hrec. rewrite Hc' in Hrec.
      destruct (TD.del_node fm f (emb w) (snd (RS.take_seg (ch_colon :: rest0))) false) as [m'|] eqn:Ed; [|contradiction].
      destruct Hrec as (E & _). subst m'.
      destruct (TP.del_node_frame route fm f (emb w) (emb c') _ _ Ed) as (_ & _ & Hos').
      apply TF.only_slash_not_mergeable. apply Hos'. exact Hos. }
    destruct (negb ins && Ascii.eqb token ch_star) eqn:Estar.
    { (* free wildcard *)
      rewrite emb_catch. destruct (t_catch n) as [c|] eqn:Ec; cbn [embo]; [|exact I].
      cbn [fl_catch] in H3. apply andb_true_iff in H3 as [Hoc Hfc].
      destruct f as [|f']; [lia|].
      change (TD.del_node fm (S f') (emb c) [] false) with (TD.del_here fm (emb c)).
      set (X := del_node all_fix (S f') c [] fm false).
      assert (Hrec : del_rel c X (TD.del_here fm (emb c))) by exact (here_bridge fm c Hfc).
      apply (del_rel_after n c SCatch token X _ Hf Hrec).
      intros c' Hc'. rewrite Hoc. cbn [andb]. apply negb_true_iff.
      unfold del_rel in Hrec. rewrite Hc' in Hrec.
      destruct (TD.del_here fm (emb c)) as [m'|] eqn:Ed; [|contradiction]. destruct Hrec as (E & _). subst m'.
      destruct (TP.del_here_frame route fm (emb c) (emb c') Ed) as (_ & Hst & _).
      pose proof (TF.wfd_leaf_or route (emb n) Hwd) as Hwb.
      apply Radix.TreeAddProofs.wfb_parts in Hwb as (_ & _ & _ & _ & H5). unfold Radix.TreeProofs.wf_catch in H5.
      rewrite emb_catch, Ec in H5. cbn [embo] in H5.
      apply andb_true_iff in H5 as [H5 _]. apply andb_true_iff in H5 as [H5 _]. apply andb_true_iff in H5 as [Hleaf _].
      unfold RT.is_leaf in Hleaf. apply andb_true_iff in Hleaf as [Hleaf _]. apply andb_true_iff in Hleaf as [Hleaf _].
      unfold TD.mergeable. rewrite Hst. destruct (RT.t_statics (emb c)); [reflexivity | discriminate]. }
    (* static token *)
    unfold TD.is_escape, is_escape. change RS.ch_bslash with ch_bslash. change RS.is_special with is_special.
    destruct (negb ins && match token :: rest0 with
                          | a :: b :: _ => Ascii.eqb a ch_bslash && is_special b
                          | _ => false
                          end) eqn:Eesc.
    + destruct rest0 as [|c2 rest1]; [rewrite andb_false_r in Eesc; discriminate|].
      cbn [tl skipn]. apply (static_del_bridge f n c2 (c2 :: rest1) _ IH Hf Hwd). cbn [length] in *. lia.
    + apply (static_del_bridge f n token (token :: rest0) _ IH Hf Hwd). cbn [length]. lia.
Qed.

End DelBridge.

(** ** Find *)

Definition find_rel (x : option route * bool) (y : RT.fres route) : Prop :=
  match y with
  | RT.FFound v _ _ => x = (Some v, false)
  | RT.FNot _ b => x = (None, b)
  end.

Lemma find_node_cons6 (m : route -> bool) f n c rest :
  find_node false (S f) n (c :: rest) m =
  let path := c :: rest in
  let r1 :=
    match static_get (t_statics n) c with
    | Some child =>
      let cl := length (t_path child) in
      if Nat.leb cl (length path) && str_eqb (t_path child) (firstn cl path)
      then find_node false f child (skipn cl path) m
      else (None, true)
    | None => (None, true)
    end in
  match r1 with
  | (Some v, b) => (Some v, b)
  | (None, false) => (None, false)
  | (None, true) =>
    let r2 :=
      match t_wild n with
      | Some w =>
        let sep := next_separator path in
        match firstn sep path with
        | [] => (None, true)
        | _ => find_node false f w (skipn sep path) m
        end
      | None => (None, true)
      end in
    match r2 with
    | (Some v, b) => (Some v, b)
    | (None, false) => (None, false)
    | (None, true) =>
      match t_catch n with
      | Some cc =>
        match find m (t_values cc) with
        | Some v => (Some v, false)
        | None => (None, t_bt cc)
        end
      | None => (None, true)
      end
    end
  end.
Proof. reflexivity. Qed.

Lemma next_sep_firstn s : firstn (next_separator s) s = fst (RS.take_seg s).
Proof. unfold next_separator. rewrite index_slash_same. apply (Radix.TreeAddProofs.index_slash_take_seg s). Qed.

Section FindBridge.
Variable m : route -> bool.
Let m3 : RS.matcher route := fun v _ _ => m v.

Lemma find_bridge : forall fuel n path caps, Radix.Tree.wfb (emb n) = true -> length path < fuel ->
  find_rel (find_node false fuel n path m) (RT.find_node true true true m3 (emb n) path caps).
Proof.
  induction fuel as [|f IH]; intros n path caps Hw Hl; [lia|].
  destruct path as [|c rest].
  - rewrite (Radix.TreeProofs.find_node_nil route m3 true true true (emb n) caps). cbn [find_node].
    rewrite emb_vals, emb_bt. destruct (t_values n) as [|v0 vs]; [reflexivity|].
    unfold m3. change (find (fun v : route => m v) (v0 :: vs)) with (find m (v0 :: vs)).
    destruct (find m (v0 :: vs)); reflexivity.
  - cbn [length] in Hl.
    rewrite find_node_cons6, (Radix.TreeProofs.find_node_cons route m3 true true true (emb n) c rest caps). cbv zeta.
    rewrite emb_statics, embs_get, emb_wild, emb_catch.
    (* the static child *)
    match goal with |- find_rel (match ?A with _ => _ end) (match ?B with _ => _ end) => set (r1 := A); set (s1 := B) end.
    assert (H1 : find_rel r1 s1 /\ (forall caps', s1 = RT.FNot caps' true -> True)).
    { split; [|auto]. subst r1 s1. destruct (static_get (t_statics n) c) as [child|] eqn:Eg; cbn [embo]; [|reflexivity].
      rewrite emb_path, is_prefix_leb_eqb.
      assert (Egr : RT.find_static c (RT.t_statics (emb n)) = Some (emb child)) by (rewrite emb_statics, embs_get, Eg; reflexivity).
      destruct (Radix.TreeAddProofs.wf_statics_child route (emb n) c (emb child) Hw Egr) as ([cp' Hcp] & Hwch). rewrite emb_path in Hcp.
      destruct (Nat.leb (length (t_path child)) (length (c :: rest)) && str_eqb (t_path child) (firstn (length (t_path child)) (c :: rest))) eqn:Ep;
        [|reflexivity].
      apply IH; [exact Hwch|]. rewrite skipn_length, Hcp. cbn [length]. lia. }
    destruct H1 as [H1 _]. clearbody r1 s1.
    destruct s1 as [v1 k1 c1|caps1 [|]]; unfold find_rel in H1; subst r1; try reflexivity.
    (* the single wildcard *)
    rewrite next_sep_firstn, next_sep_take_seg.
    pose proof (Radix.SpecProofs.take_seg_length_lt (c :: rest)) as Hts.
    destruct (RS.take_seg (c :: rest)) as [seg rest'] eqn:Ets. cbn [fst snd] in *.
    match goal with |- find_rel (match ?A with _ => _ end) (match ?B with _ => _ end) => set (r2 := A); set (s2 := B) end.
    assert (H2 : match s2 with Some r => find_rel r2 r /\ r <> RT.FNot [] true /\ (forall cs, r <> RT.FNot cs true) | None => r2 = (None, true) end).
    { subst r2 s2. destruct (t_wild n) as [w|] eqn:Ew; cbn [embo]; [|reflexivity].
      destruct seg as [|x sg]; [reflexivity|].
      assert (Hww : Radix.Tree.wfb (emb w) = true).
      { apply Radix.TreeAddProofs.wfb_parts in Hw as (_ & _ & _ & H4 & _). rewrite emb_wild, Ew in H4. exact H4. }
      assert (Hl' : length rest' < f) by (assert (length rest' < length (c :: rest)) by (apply Hts; discriminate); cbn [length] in *; lia).
      match goal with |- context [RT.find_node true true true m3 (emb w) rest' ?cs] =>
        pose proof (IH w rest' cs Hww Hl') as Hr;
        destruct (RT.find_node true true true m3 (emb w) rest' cs) as [v2 k2 c2|caps2 [|]]; unfold find_rel in *
      end.
      - split; [exact Hr|]. split; [discriminate | intro cs; discriminate].
      - exact Hr.
      - split; [exact Hr|]. split; [discriminate | intro cs; discriminate]. }
    clearbody r2 s2. destruct s2 as [r|].
    { destruct H2 as (H2 & _ & Hnt). destruct r as [v2 k2 c2|caps2 [|]]; unfold find_rel in H2; subst r2; try reflexivity.
      exfalso. apply (Hnt caps2). reflexivity. }
    subst r2.
    (* the free wildcard *)
    destruct (t_catch n) as [cc|]; cbn [embo]; [|reflexivity].
    rewrite emb_vals, emb_bt. unfold m3. change (find (fun v : route => m v) (t_values cc)) with (find m (t_values cc)).
    destruct (find m (t_values cc)); reflexivity.
Qed.

End FindBridge.
