(** C06/RepoSim.v — the repository of C06/Model.v ([gstep]: AddRuleSet / UpdateRuleSet /
    DeleteRuleSet over ANY index with "add one route" / "delete the values of a rule at
    one route") run over two indexes that simulate each other:

      [gstep_sim]   if Add and Delete of one route on the two indexes give the same outcome
                    and keep the simulation relation, every repository operation gives the
                    same outcome (same error or none), the same known rules and related
                    indexes;
      [grun_sim]    hence so does every history.

    Delete is only required to agree for routes with a VALID path expression: the
    repository only deletes routes of known rules, and a rule becomes known only after
    all its routes were added ([kvalid]). *)
From HV Require Import Base.Prelude C06.Pat C06.Model.

Definition valid (v : route) : Prop := pat_of (rt_path v) <> None.

Definition osim {A B} (R : A -> B -> Prop) (x : A + err) (y : B + err) : Prop :=
  match x, y with
  | inl a, inl b => R a b
  | inr e, inr e' => e = e'
  | _, _ => False
  end.

Section GSim.
Variables I1 I2 : Type.
Variable a1 : I1 -> route -> I1 + err.
Variable d1 : I1 -> rule -> route -> I1 + err.
Variable a2 : I2 -> route -> I2 + err.
Variable d2 : I2 -> rule -> route -> I2 + err.
Variable R : I1 -> I2 -> Prop.

Hypothesis Hadd : forall i1 i2 v, R i1 i2 -> osim R (a1 i1 v) (a2 i2 v).
Hypothesis Hdel : forall i1 i2 r v, R i1 i2 -> valid v -> osim R (d1 i1 r v) (d2 i2 r v).
Hypothesis Hvalid : forall i2 v i2', a2 i2 v = inl i2' -> valid v.

Lemma add_routes_sim vs : forall i1 i2, R i1 i2 -> osim R (add_routes I1 a1 i1 vs) (add_routes I2 a2 i2 vs).
Proof.
  induction vs as [|v vs IH]; intros i1 i2 H; [exact H|]. cbn [add_routes].
  pose proof (Hadd i1 i2 v H) as Ha. unfold osim in Ha.
  destruct (a1 i1 v) as [i1'|e1], (a2 i2 v) as [i2'|e2]; try contradiction; [apply IH; exact Ha | exact Ha].
Qed.

Lemma add_routes_valid vs : forall i2 i2', add_routes I2 a2 i2 vs = inl i2' -> Forall valid vs.
Proof.
  induction vs as [|v vs IH]; intros i2 i2' H; [constructor|]. cbn [add_routes] in H.
  destruct (a2 i2 v) as [j|e] eqn:E; [|discriminate]. constructor; [eapply Hvalid; exact E | eapply IH; exact H].
Qed.

Lemma add_rules_sim rs : forall i1 i2, R i1 i2 -> osim R (add_rules I1 a1 i1 rs) (add_rules I2 a2 i2 rs).
Proof.
  induction rs as [|r rs IH]; intros i1 i2 H; [exact H|]. cbn [add_rules].
  pose proof (add_routes_sim (routes_of r) i1 i2 H) as Ha. unfold osim in Ha.
  destruct (add_routes I1 a1 i1 (routes_of r)) as [i1'|e1], (add_routes I2 a2 i2 (routes_of r)) as [i2'|e2];
    try contradiction; [apply IH; exact Ha | exact Ha].
Qed.

Definition kvalid (K : list rule) : Prop := forall r, In r K -> Forall valid (routes_of r).

Lemma add_rules_valid rs : forall i2 i2', add_rules I2 a2 i2 rs = inl i2' -> kvalid rs.
Proof.
  induction rs as [|r rs IH]; intros i2 i2' H; [intros x []|]. cbn [add_rules] in H.
  destruct (add_routes I2 a2 i2 (routes_of r)) as [j|e] eqn:E; [|discriminate].
  intros x [<-|Hx]; [eapply add_routes_valid; exact E | eapply IH; eassumption].
Qed.

Lemma del_routes_sim r vs : Forall valid vs -> forall i1 i2, R i1 i2 ->
  osim R (del_routes I1 d1 i1 r vs) (del_routes I2 d2 i2 r vs).
Proof.
  induction 1 as [|v vs Hv Hvs IH]; intros i1 i2 H; [exact H|]. cbn [del_routes].
  pose proof (Hdel i1 i2 r v H Hv) as Ha. unfold osim in Ha.
  destruct (d1 i1 r v) as [i1'|e1], (d2 i2 r v) as [i2'|e2]; try contradiction; [apply IH; exact Ha | exact Ha].
Qed.

Lemma del_rules_sim rs : kvalid rs -> forall i1 i2, R i1 i2 ->
  osim R (del_rules I1 d1 i1 rs) (del_rules I2 d2 i2 rs).
Proof.
  induction rs as [|r rs IH]; intros Hk i1 i2 H; [exact H|]. cbn [del_rules].
  pose proof (del_routes_sim r (routes_of r) (Hk r (or_introl eq_refl)) i1 i2 H) as Ha. unfold osim in Ha.
  destruct (del_routes I1 d1 i1 r (routes_of r)) as [i1'|e1], (del_routes I2 d2 i2 r (routes_of r)) as [i2'|e2];
    try contradiction; [|exact Ha].
  apply IH; [|exact Ha]. intros x Hx. apply Hk. right. exact Hx.
Qed.

Definition srel (s1 : grepo I1) (s2 : grepo I2) : Prop :=
  known s1 = known s2 /\ R (index s1) (index s2) /\ kvalid (known s1).

Lemma kvalid_app a b : kvalid a -> kvalid b -> kvalid (a ++ b).
Proof. intros Ha Hb r Hr. apply in_app_or in Hr as [Hr|Hr]; auto. Qed.

Lemma kvalid_filter (P : rule -> bool) K : kvalid K -> kvalid (filter P K).
Proof. intros H r Hr. apply filter_In in Hr as [Hr _]. auto. Qed.

Theorem gstep_sim (s1 : grepo I1) (s2 : grepo I2) (o : op) : srel s1 s2 ->
  snd (gstep I1 a1 d1 s1 o) = snd (gstep I2 a2 d2 s2 o) /\
  srel (fst (gstep I1 a1 d1 s1 o)) (fst (gstep I2 a2 d2 s2 o)).
Proof.
  intros (Hk & Hr & Hv). destruct o as [s ds|s ds|s|s]; cbn [gstep].
  - (* AddRuleSet *)
    pose proof (add_rules_sim (stamp s ds) _ _ Hr) as Ha. unfold osim in Ha.
    destruct (add_rules I1 a1 (index s1) (stamp s ds)) as [i1'|e1], (add_rules I2 a2 (index s2) (stamp s ds)) as [i2'|e2] eqn:E2;
      try contradiction; cbn [fst snd].
    + split; [reflexivity|]. split; [cbn [known]; rewrite Hk; reflexivity|]. split; [exact Ha|].
      cbn [known]. apply kvalid_app; [exact Hv | eapply add_rules_valid; exact E2].
    + split; [congruence|]. split; [exact Hk|]. split; assumption.
  - (* UpdateRuleSet *)
    rewrite <- Hk.
    set (app := filter (from_src s) (known s1)).
    set (tba := to_be_added app (stamp s ds)). set (tbd := to_be_deleted app (stamp s ds)).
    assert (Hvd : kvalid tbd).
    { unfold tbd, to_be_deleted, app. apply kvalid_filter. apply kvalid_filter. exact Hv. }
    pose proof (del_rules_sim tbd Hvd _ _ Hr) as Hd. unfold osim in Hd.
    destruct (del_rules I1 d1 (index s1) tbd) as [j1|e1], (del_rules I2 d2 (index s2) tbd) as [j2|e2]; try contradiction; cbn [fst snd].
    2:{ split; [congruence|]. split; [exact Hk|]. split; assumption. }
    pose proof (add_rules_sim tba _ _ Hd) as Ha. unfold osim in Ha.
    destruct (add_rules I1 a1 j1 tba) as [i1'|e1], (add_rules I2 a2 j2 tba) as [i2'|e2] eqn:E2; try contradiction; cbn [fst snd].
    + split; [reflexivity|]. split; [reflexivity|]. split; [exact Ha|]. cbn [known].
      apply kvalid_app; [apply kvalid_filter; exact Hv | eapply add_rules_valid; exact E2].
    + split; [congruence|]. split; [exact Hk|]. split; assumption.
  - (* DeleteRuleSet *)
    rewrite <- Hk.
    set (app := filter (from_src s) (known s1)).
    assert (Hvd : kvalid app) by (apply kvalid_filter; exact Hv).
    pose proof (del_rules_sim app Hvd _ _ Hr) as Hd. unfold osim in Hd.
    destruct (del_rules I1 d1 (index s1) app) as [j1|e1], (del_rules I2 d2 (index s2) app) as [j2|e2]; try contradiction; cbn [fst snd].
    + split; [reflexivity|]. split; [reflexivity|]. split; [exact Hd|]. cbn [known]. apply kvalid_filter. exact Hv.
    + split; [congruence|]. split; [exact Hk|]. split; assumption.
  - split; [reflexivity|]. split; [exact Hk|]. split; assumption.
Qed.

Theorem grun_sim ops : forall (s1 : grepo I1) (s2 : grepo I2), srel s1 s2 ->
  srel (grun_from I1 a1 d1 s1 ops) (grun_from I2 a2 d2 s2 ops).
Proof.
  induction ops as [|o ops IH]; intros s1 s2 H; [exact H|].
  unfold grun_from in *. cbn [fold_left]. apply IH. apply gstep_sim. exact H.
Qed.

End GSim.
