(** C06/ReprFacts.v — the abstract index represents a list of routes: per
    pattern the routes with that pattern, in list order.  How one [tree.Add] /
    [tree.Delete] of the repository changes the represented list, and when it
    fails. *)
From HV Require Import Base.Prelude C06.Pat C06.Model C06.DbFacts.

(** ** routes and their patterns *)

Definition rpat (v : route) : option pat := pat_of (rt_path v).

Definition has_pat (q : pat) (v : route) : bool :=
  match rpat v with Some p => pat_eqb p q | None => false end.

Definition at_q (q : pat) (L : list route) : list route := filter (has_pat q) L.

Lemma has_pat_rpat q v : has_pat q v = true <-> rpat v = Some q.
Proof.
  unfold has_pat. destruct (rpat v) as [p|]; split; intro H; try discriminate.
  - apply pat_eqb_eq in H. congruence.
  - inversion H. apply pat_eqb_refl.
Qed.

Lemma has_pat_unique p q v : has_pat p v = true -> has_pat q v = true -> p = q.
Proof. rewrite !has_pat_rpat. congruence. Qed.

Lemma has_pat_self v p : rpat v = Some p -> forall q, has_pat q v = pat_eqb p q.
Proof. intros H q. unfold has_pat. rewrite H. reflexivity. Qed.

Lemma at_q_app q L1 L2 : at_q q (L1 ++ L2) = at_q q L1 ++ at_q q L2.
Proof. apply filter_app. Qed.

Lemma in_at_q q L x : In x (at_q q L) <-> In x L /\ has_pat q x = true.
Proof. apply filter_In. Qed.

(** ** generic list facts *)

Lemma filter_filter {A} (f g : A -> bool) l : filter f (filter g l) = filter (fun x => g x && f x) l.
Proof.
  induction l as [|a l IH]; simpl; [reflexivity|].
  destruct (g a); simpl; [destruct (f a); simpl; congruence | exact IH].
Qed.

Lemma filter_length_le {A} (f : A -> bool) l : length (filter f l) <= length l.
Proof. induction l as [|a l IH]; simpl; [lia|]. destruct (f a); simpl; lia. Qed.

Lemma filter_length_all {A} (f : A -> bool) l :
  length (filter f l) = length l -> forall x, In x l -> f x = true.
Proof.
  induction l as [|a l IH]; simpl; [tauto|].
  destruct (f a) eqn:E; simpl; intros H x [Hx|Hx].
  - subst. exact E.
  - apply IH; [lia | exact Hx].
  - pose proof (filter_length_le f l). lia.
  - pose proof (filter_length_le f l). lia.
Qed.

Lemma filter_all_true {A} (f : A -> bool) l : (forall x, In x l -> f x = true) -> filter f l = l.
Proof.
  induction l as [|a l IH]; simpl; intro H; [reflexivity|].
  rewrite (H a (or_introl eq_refl)). f_equal. apply IH. intros x Hx. apply H. right. exact Hx.
Qed.

Lemma filter_all_false {A} (f : A -> bool) l : (forall x, In x l -> f x = false) -> filter f l = [].
Proof.
  induction l as [|a l IH]; simpl; intro H; [reflexivity|].
  rewrite (H a (or_introl eq_refl)). apply IH. intros x Hx. apply H. right. exact Hx.
Qed.

(** ** representation *)

Record ReprV (d : db) (L : list route) : Prop := {
  rv_sorted : sorted d;
  rv_vals : forall q, vals_at d q = at_q q L;
  rv_nonempty : forall q n, get d q = Some n -> vals n <> [] }.

(** a node's flag is the flag of all its routes — claimed for the routes of the
    sources selected by [P] (the others may be in the state finding C06-F2 leaves) *)
Definition ReprF (P : nat -> bool) (d : db) : Prop :=
  forall q n v, get d q = Some n -> In v (vals n) -> P (rt_src v) = true -> flag n = rt_bt v.

Definition all_src : nat -> bool := fun _ => true.

(** routes with the same pattern come from the same source / have the same flag *)
Definition srcuni (L : list route) : Prop :=
  forall x y q, In x L -> In y L -> has_pat q x = true -> has_pat q y = true -> rt_src x = rt_src y.

Definition btuni (P : nat -> bool) (L : list route) : Prop :=
  forall x y q, In x L -> In y L -> has_pat q x = true -> has_pat q y = true -> P (rt_src x) = true ->
                rt_bt x = rt_bt y.

(** the wildcard names of routes with the same pattern are compatible *)
Definition kcompat (x y : route) : bool := keys_compat (rt_path x) (rt_path y).
Definition keyuni (L : list route) : Prop := forall x y, In x L -> In y L -> kcompat x y = true.

Lemma kcompat_sym x y : kcompat x y = kcompat y x.
Proof. apply keys_compat_sym. Qed.

Lemma kcompat_refl x : kcompat x x = true.
Proof. apply keys_compat_refl. Qed.

Lemma kcompat_other_pat x v p : rpat v = Some p -> has_pat p x = false -> kcompat x v = true.
Proof.
  intros Ev Hx. apply keys_compat_diff. fold (rpat x) (rpat v). rewrite Ev.
  destruct (rpat x) as [px|] eqn:Ex; [left | right; reflexivity].
  intro E. inversion E; subst px. unfold has_pat in Hx. rewrite Ex, pat_eqb_refl in Hx. discriminate.
Qed.

Lemma ReprV_nil : ReprV [] [].
Proof. split; simpl; try tauto; try reflexivity. intros q n H. discriminate. Qed.

Lemma ReprF_nil P : ReprF P [].
Proof. intros q n v H. discriminate. Qed.

Lemma ReprF_mono (P Q : nat -> bool) d : (forall s, Q s = true -> P s = true) -> ReprF P d -> ReprF Q d.
Proof. intros H F q n v G Hv HQ. apply (F q n v G Hv). apply H. exact HQ. Qed.

Lemma btuni_mono (P Q : nat -> bool) L : (forall s, Q s = true -> P s = true) -> btuni P L -> btuni Q L.
Proof. intros H B x y q Hx Hy Hqx Hqy HQ. apply (B x y q); try assumption. apply H. exact HQ. Qed.

Lemma ReprV_in d L q n x : ReprV d L -> get d q = Some n -> In x (vals n) -> In x L /\ has_pat q x = true.
Proof.
  intros R G Hx. apply in_at_q. rewrite <- (rv_vals _ _ R). unfold vals_at. rewrite G. exact Hx.
Qed.

(** two indexes representing lists with the same routes per pattern are equal *)
Lemma Repr_eq d1 d2 L1 L2 :
  ReprV d1 L1 -> ReprF all_src d1 -> ReprV d2 L2 -> ReprF all_src d2 ->
  (forall q, at_q q L1 = at_q q L2) -> d1 = d2.
Proof.
  intros R1 F1 R2 F2 H. apply db_ext; [apply R1 | apply R2 |].
  intro q. pose proof (rv_vals _ _ R1 q) as V1. pose proof (rv_vals _ _ R2 q) as V2.
  unfold vals_at in V1, V2. rewrite <- H in V2.
  destruct (get d1 q) as [n1|] eqn:G1, (get d2 q) as [n2|] eqn:G2.
  - destruct n1 as [v1 f1], n2 as [v2 f2]. simpl in *.
    assert (v1 = v2) by congruence. subst v2.
    destruct v1 as [|x r].
    + exfalso. apply (rv_nonempty _ _ R1 q _ G1). reflexivity.
    + pose proof (F1 q _ x G1 (or_introl eq_refl) eq_refl) as E1.
      assert (Hx2 : In x (vals {| vals := at_q q L1; flag := f2 |})) by (simpl; rewrite <- V1; left; reflexivity).
      pose proof (F2 q _ x G2 Hx2 eq_refl) as E2. simpl in E1, E2. congruence.
  - exfalso. apply (rv_nonempty _ _ R1 q _ G1). congruence.
  - exfalso. apply (rv_nonempty _ _ R2 q _ G2). congruence.
  - reflexivity.
Qed.

(** ** one Add *)

Lemma add1_spec d L v : ReprV d L -> srcuni L ->
  match m_add1 d v with
  | inl d' => rpat v <> None /\ ReprV d' (L ++ [v]) /\ srcuni (L ++ [v]) /\ (forall x, In x L -> kcompat x v = true)
  | inr _ => rpat v = None \/
             (exists x q, In x L /\ has_pat q x = true /\ has_pat q v = true /\ rt_src x <> rt_src v) \/
             (exists x, In x L /\ kcompat x v = false)
  end.
Proof.
  intros R U. unfold m_add1. fold (rpat v). destruct (rpat v) as [p|] eqn:EP; [|left; reflexivity].
  rewrite (rv_vals _ _ R).
  destruct (keys_fit (at_q p L) v) eqn:KF.
  2:{ right. right. unfold keys_fit in KF.
      assert (Hex : existsb (fun x => negb (keys_compat (rt_path x) (rt_path v))) (at_q p L) = true).
      { clear -KF. induction (at_q p L) as [|a l IH]; simpl in *; [discriminate|].
        destruct (keys_compat (rt_path a) (rt_path v)); simpl in *; [apply IH; exact KF | reflexivity]. }
      apply existsb_exists in Hex as (x & Hx & Hc). apply in_at_q in Hx as [Hx _].
      exists x. split; [exact Hx|]. apply negb_true_iff in Hc. exact Hc. }
  assert (Hk : forall x, In x L -> kcompat x v = true).
  { intros x Hx. destruct (has_pat p x) eqn:Hp.
    - unfold keys_fit in KF. rewrite forallb_forall in KF. apply KF. apply in_at_q. tauto.
    - apply (kcompat_other_pat x v p EP Hp). }
  pose proof (add_spec d p v (rt_bt v) (rv_sorted _ _ R)) as A.
  unfold vals_at in A. fold (vals_at d p) in A. rewrite (rv_vals _ _ R) in A.
  destruct (add d p v (rt_bt v)) as [d'|].
  - destruct A as (CA & S' & _ & G). split; [discriminate|]. split; [|split; [|exact Hk]].
    + split.
      * exact S'.
      * intro q. unfold vals_at. rewrite G. rewrite at_q_app. simpl. rewrite (has_pat_self v p EP q).
        rewrite (pat_eqb_sym q p). destruct (pat_eqb p q) eqn:E.
        -- apply pat_eqb_eq in E. subst q. reflexivity.
        -- rewrite app_nil_r. apply (rv_vals _ _ R).
      * intros q n. rewrite G. destruct (pat_eqb q p).
        -- intro H. inversion H. simpl. destruct (at_q p L); discriminate.
        -- apply (rv_nonempty _ _ R).
    + (* sources stay uniform *)
      assert (Hv : forall x q, In x L -> has_pat q x = true -> has_pat q v = true -> rt_src x = rt_src v).
      { intros x q Hx Hq Hqv. apply has_pat_rpat in Hqv. rewrite EP in Hqv. inversion Hqv; subst q.
        assert (Hin : In x (at_q p L)) by (apply in_at_q; split; assumption).
        destruct (at_q p L) as [|h t] eqn:EA; [destruct Hin|].
        simpl in CA. apply Nat.eqb_eq in CA.
        assert (Hh : In h L /\ has_pat p h = true) by (apply in_at_q; rewrite EA; left; reflexivity).
        rewrite <- CA. apply (U x h p); tauto. }
      intros x y q Hx Hy Hqx Hqy. apply in_app_iff in Hx. apply in_app_iff in Hy.
      destruct Hx as [Hx|[Hx|[]]], Hy as [Hy|[Hy|[]]]; subst.
      * apply (U x y q); assumption.
      * apply (Hv x q); assumption.
      * symmetry. apply (Hv y q); assumption.
      * reflexivity.
  - right. left. destruct (at_q p L) as [|h t] eqn:EA; [discriminate|].
    simpl in A. apply Nat.eqb_neq in A.
    assert (Hh : In h L /\ has_pat p h = true) by (apply in_at_q; rewrite EA; left; reflexivity).
    exists h, p. split; [tauto|]. split; [tauto|]. split; [apply has_pat_rpat; exact EP | exact A].
Qed.

Lemma add1_flag P d L v d' : ReprV d L -> ReprF P d -> m_add1 d v = inl d' -> btuni P (L ++ [v]) -> ReprF P d'.
Proof.
  intros R F E B. unfold m_add1 in E. fold (rpat v) in E.
  destruct (rpat v) as [p|] eqn:EP; [|discriminate].
  destruct (keys_fit (vals_at d p) v); [|discriminate].
  pose proof (add_spec d p v (rt_bt v) (rv_sorted _ _ R)) as A.
  destruct (add d p v (rt_bt v)) as [d1|]; [|discriminate]. inversion E; subst d1.
  destruct A as (_ & _ & _ & G).
  intros q n x Hg Hx HP. rewrite G in Hg. destruct (pat_eqb q p) eqn:Eq.
  - apply pat_eqb_eq in Eq. subst q. inversion Hg; subst n. simpl in *.
    rewrite (rv_vals _ _ R) in Hx. symmetry.
    apply (B x v p).
    + apply in_app_iff in Hx. apply in_app_iff. destruct Hx as [Hx|Hx]; [left; apply in_at_q in Hx; tauto | right; exact Hx].
    + apply in_app_iff. right. left. reflexivity.
    + apply in_app_iff in Hx. destruct Hx as [Hx|[Hx|[]]]; [apply in_at_q in Hx; tauto | subst; apply has_pat_rpat; exact EP].
    + apply has_pat_rpat. exact EP.
    + exact HP.
  - apply (F q n x Hg Hx HP).
Qed.

(** ** one Delete *)

(** the routes a Delete for route [v] of rule [r] removes *)
Definition hit (fx : fixes) (r : rule) (v : route) (x : route) : bool :=
  match rpat v with
  | Some p => has_pat p x && del_matcher fx r v x
  | None => false
  end.

Lemma del1_spec P fx d L r v : ReprV d L -> ReprF P d ->
  (exists x, In x L /\ hit fx r v x = true) ->
  exists d', m_del1 fx d r v = inl d' /\ ReprV d' (filter (fun x => negb (hit fx r v x)) L) /\ ReprF P d'.
Proof.
  intros R F (x0 & Hx0 & Hh0). unfold m_del1. fold (rpat v). unfold hit in *.
  destruct (rpat v) as [p|] eqn:EP; [|discriminate].
  set (f := del_matcher fx r v).
  pose proof (delete_spec d p f (rv_sorted _ _ R)) as D. cbv zeta in D.
  rewrite (rv_vals _ _ R) in D.
  destruct (delete d p f) as [d'|].
  - exists d'. split; [reflexivity|]. destruct D as (NL & S' & _ & G).
    assert (EQ : forall q, at_q q (filter (fun x => negb (has_pat p x && f x)) L) =
                           if pat_eqb q p then filter (fun v => negb (f v)) (at_q p L) else at_q q L).
    { intro q. unfold at_q. rewrite !filter_filter. destruct (pat_eqb q p) eqn:Eq.
      - apply pat_eqb_eq in Eq. subst q. apply filter_ext. intro a.
        destruct (has_pat p a); simpl; [destruct (f a); reflexivity | reflexivity].
      - apply filter_ext. intro a. destruct (has_pat q a) eqn:Hq; [|rewrite andb_false_r; reflexivity].
        destruct (has_pat p a) eqn:Hp.
        + rewrite (has_pat_unique _ _ _ Hp Hq), pat_eqb_refl in Eq. discriminate.
        + reflexivity. }
    split; [split|].
    + exact S'.
    + intro q. unfold vals_at. rewrite G, EQ. destruct (pat_eqb q p) eqn:Eq.
      * destruct (filter (fun v => negb (f v)) (at_q p L)); reflexivity.
      * apply (rv_vals _ _ R).
    + intros q n. rewrite G. destruct (pat_eqb q p).
      * destruct (filter (fun v => negb (f v)) (at_q p L)); [discriminate|]. intro H. inversion H. simpl. discriminate.
      * apply (rv_nonempty _ _ R).
    + intros q n x. rewrite G. destruct (pat_eqb q p) eqn:Eq.
      * apply pat_eqb_eq in Eq. subst q.
        destruct (filter (fun v => negb (f v)) (at_q p L)) as [|a l] eqn:EF; [discriminate|].
        intro H. inversion H; subst n. simpl. intro Hx.
        assert (Hx' : In x (at_q p L)).
        { assert (In x (filter (fun v => negb (f v)) (at_q p L))) by (rewrite EF; exact Hx).
          apply filter_In in H0. tauto. }
        pose proof (rv_vals _ _ R p) as V. unfold vals_at in V.
        destruct (get d p) as [n0|] eqn:G0.
        -- apply (F p n0 x G0). rewrite V. exact Hx'.
        -- rewrite <- V in Hx'. destruct Hx'.
      * apply F.
  - exfalso. apply andb_true_iff in Hh0 as [Hp Hf].
    assert (Hin : In x0 (at_q p L)) by (apply in_at_q; split; assumption).
    pose proof (filter_length_all _ _ D x0 Hin) as Hn. simpl in Hn. unfold f in Hn. rewrite Hf in Hn. discriminate.
Qed.
