(** C06/Tree.v — internal/x/radixtree/tree.go transcribed function by function
    (addNode, splitCommonPrefix, delNode, deleteChild, delEdge, findNode, Add,
    Delete), and the repository over it.  Executable only: this is the model the
    implementation is compared with on every run, for all generated histories —
    including those inside the guards of C06-F3 / C06-F5, where node compression
    and wildcard key names are observable.  The abstract index of C06/Model.v
    (which the theorems are about) is compared with this tree on every generated
    history outside those two guards (Run/Eval_C06.v).

    Deviations from the Go text, none observable:
    - mutation through pointers becomes a returned tree; [Clone] is the identity;
    - [priority] and [sortStaticChildren] are left out: they only permute the
      static children, which are searched by their (unique) first byte;
    - [findNode] does not collect captures and does not pass key names to the
      matcher: the conditions used by the C06 streams (methods) do not read them
      (captures and key names are property C03);
    - recursion on the path is by fuel [length path + 1] (every recursive call
      is on a strictly shorter path); [EPanic] is Go's run-time panic (slice
      bounds out of range in delNode, see below). *)
From HV Require Import Base.Prelude C06.Pat C06.Model.

Inductive tree :=
  Node (path : str)
       (statics : list (ascii * tree))       (* staticIndices / staticChildren *)
       (wild : option tree) (catch : option tree)
       (isCatchAll isWildcard : bool)
       (values : list route) (keys : list str) (bt : bool).

Definition t_path (n : tree) := match n with Node p _ _ _ _ _ _ _ _ => p end.
Definition t_statics (n : tree) := match n with Node _ s _ _ _ _ _ _ _ => s end.
Definition t_wild (n : tree) := match n with Node _ _ w _ _ _ _ _ _ => w end.
Definition t_catch (n : tree) := match n with Node _ _ _ c _ _ _ _ _ => c end.
Definition t_isCatchAll (n : tree) := match n with Node _ _ _ _ b _ _ _ _ => b end.
Definition t_isWildcard (n : tree) := match n with Node _ _ _ _ _ b _ _ _ => b end.
Definition t_values (n : tree) := match n with Node _ _ _ _ _ _ v _ _ => v end.
Definition t_keys (n : tree) := match n with Node _ _ _ _ _ _ _ k _ => k end.
Definition t_bt (n : tree) := match n with Node _ _ _ _ _ _ _ _ b => b end.

Definition set_path p (n : tree) := match n with Node _ s w c a b v k f => Node p s w c a b v k f end.
Definition set_statics s (n : tree) := match n with Node p _ w c a b v k f => Node p s w c a b v k f end.
Definition set_wild w (n : tree) := match n with Node p s _ c a b v k f => Node p s w c a b v k f end.
Definition set_catch c (n : tree) := match n with Node p s w _ a b v k f => Node p s w c a b v k f end.
Definition set_values v (n : tree) := match n with Node p s w c a b _ k f => Node p s w c a b v k f end.
Definition set_keys k (n : tree) := match n with Node p s w c a b v _ f => Node p s w c a b v k f end.
Definition set_bt f (n : tree) := match n with Node p s w c a b v k _ => Node p s w c a b v k f end.

(** &Tree[V]{path: p} *)
Definition new_node (p : str) : tree := Node p [] None None false false [] [] false.

(** radixtree.New *)
Definition t_empty : tree := new_node [].

(** "if len(n.values) == 0 { n.backtrackingEnabled = true }" *)
Definition force_bt (n : tree) : tree :=
  match t_values n with [] => set_bt true n | _ => n end.

Fixpoint index_slash (s : str) : option nat :=
  match s with
  | [] => None
  | c :: r => if Ascii.eqb c ch_slash then Some 0
              else match index_slash r with Some i => Some (S i) | None => None end
  end.

Definition next_separator (s : str) : nat :=
  match index_slash s with Some i => i | None => length s end.

Fixpoint common_prefix_len (a b : str) : nat :=
  match a, b with
  | x :: a', y :: b' => if Ascii.eqb x y then S (common_prefix_len a' b') else 0
  | _, _ => 0
  end.

Fixpoint has_prefix (s pre : str) : bool :=
  match pre, s with
  | [], _ => true
  | x :: pre', y :: s' => Ascii.eqb x y && has_prefix s' pre'
  | _ :: _, [] => false
  end.

Fixpoint static_get (l : list (ascii * tree)) (c : ascii) : option tree :=
  match l with
  | [] => None
  | (i, t) :: r => if Ascii.eqb c i then Some t else static_get r c
  end.

(** replace the (first) child with index [c] *)
Fixpoint static_set (l : list (ascii * tree)) (c : ascii) (t : tree) : list (ascii * tree) :=
  match l with
  | [] => []
  | (i, x) :: r => if Ascii.eqb c i then (i, t) :: r else (i, x) :: static_set r c t
  end.

(** delEdge *)
Fixpoint static_del (l : list (ascii * tree)) (c : ascii) : list (ascii * tree) :=
  match l with
  | [] => []
  | (i, x) :: r => if Ascii.eqb c i then r else (i, x) :: static_del r c
  end.

Definition is_escape (s : str) : bool :=
  match s with
  | a :: b :: _ => Ascii.eqb a ch_bslash && is_special b
  | _ => false
  end.

(** splitCommonPrefix: the child to descend into (already put in place of the
    existing one) and the length of the consumed prefix *)
Definition split_common_prefix (child : tree) (p : str) : tree * nat :=
  if has_prefix p (t_path child) then (child, length (t_path child))
  else
    let i := common_prefix_len (t_path child) p in
    let rest := skipn i (t_path child) in
    let child' := set_path rest child in
    match rest with
    | c :: _ => (set_statics [(c, child')] (new_node (firstn i p)), i)
    | [] => (child, i) (* unreachable: p does not have child.path as a prefix *)
    end.

(** addNode; [leaf] is what [Add] does with the node it gets back *)
Fixpoint add_node (fuel : nat) (n : tree) (path : str) (wkeys : list str) (in_static : bool)
         (leaf : tree -> tree + err) : tree + err :=
  match fuel with
  | O => inr EPanic
  | S fuel' =>
    match path with
    | [] =>
      match wkeys with
      | [] => leaf n
      | _ =>
        if negb (is_nil (t_keys n)) && negb (list_eqb str_eqb (t_keys n) wkeys)
        then inr EInvalidPath
        else leaf (set_keys wkeys n)
      end
    | token :: path1 =>
      let next_slash := index_slash path in
      let token_end :=
        if Ascii.eqb token ch_slash then 1
        else match next_slash with Some i => i | None => length path end in
      let this_token := firstn token_end path in
      let remaining := skipn token_end path in
      if negb in_static && Ascii.eqb token ch_star then
        let name := tl this_token in
        match next_slash with
        | Some _ => inr EInvalidPath
        | None =>
          let (n1, cc) := match t_catch n with
                          | Some c => (n, c)
                          | None => (force_bt n, Node name [] None None true false [] [] false)
                          end in
          if negb (str_eqb path1 (t_path cc)) then inr EInvalidPath
          else if negb (is_nil (t_keys cc)) && negb (list_eqb str_eqb (t_keys cc) (wkeys ++ [name]))
          then inr EInvalidPath   (* fix: commit 20f92b3 (C03-F3): "wildcard keys differ" *)
          else
            match leaf (set_keys (wkeys ++ [name]) cc) with
            | inl cc' => inl (set_catch (Some cc') n1)
            | inr e => inr e
            end
        end
      else if negb in_static && Ascii.eqb token ch_colon then
        let (n1, w) := match t_wild n with
                       | Some w => (n, w)
                       | None => (force_bt n,
                                  Node (list_ascii_of_string "wildcard") [] None None false true [] [] false)
                       end in
        match add_node fuel' w remaining (wkeys ++ [tl this_token]) false leaf with
        | inl w' => inl (set_wild (Some w') n1)
        | inr e => inr e
        end
      else
        let unescaped := negb in_static && is_escape this_token in
        let this_token := if unescaped then tl this_token else this_token in
        let token := if unescaped then match this_token with c :: _ => c | [] => token end else token in
        match static_get (t_statics n) token with
        | Some child =>
          let (child', split) := split_common_prefix child this_token in
          let split := if unescaped then S split else split in
          match add_node fuel' child' (skipn split path) wkeys (negb (Ascii.eqb token ch_slash)) leaf with
          | inl c' => inl (set_statics (static_set (t_statics n) token c') n)
          | inr e => inr e
          end
        | None =>
          match add_node fuel' (new_node this_token) remaining wkeys (negb (Ascii.eqb token ch_slash)) leaf with
          | inl c' => inl (set_statics (t_statics n ++ [(token, c')]) (force_bt n))
          | inr e => inr e
          end
        end
    end
  end.

(** Add (with the WithBacktracking option) *)
Definition t_add (root : tree) (path : str) (v : route) (btf : bool) : tree + err :=
  add_node (S (length path)) root path [] false
           (fun node => if can_add (t_values node) v
                        then inl (set_values (t_values node ++ [v]) (set_bt btf node))
                        else inr EConstraint).

(** deleteChild; [slot] says where [child] hangs below [n] *)
Inductive slot := SWild | SCatch | SStatic (token : ascii).

Definition put_child (n : tree) (sl : slot) (child : tree) : tree :=
  match sl with
  | SWild => set_wild (Some child) n
  | SCatch => set_catch (Some child) n
  | SStatic c => set_statics (static_set (t_statics n) c child) n
  end.

Definition is_none {A} (x : option A) : bool := match x with None => true | Some _ => false end.

Definition delete_child (n : tree) (sl : slot) (child : tree) (token : ascii) : tree :=
  let mergeable :=
    match t_statics child with
    | [(i, _)] => negb (Ascii.eqb i ch_slash) && negb (str_eqb (t_path child) [ch_slash])
    | _ => false
    end in
  let child1 :=
    if mergeable then
      match t_statics child with
      | [(_, g)] => set_path (t_path child ++ t_path g) g
      | _ => child
      end
    else child in
  if mergeable && negb (is_nil (t_values child1)) then put_child n sl child1
  else if is_nil (t_statics child1) && is_none (t_wild child1) && is_none (t_catch child1) then
    if t_isWildcard child1 then set_wild None n
    else if t_isCatchAll child1 then set_catch None n
    else set_statics (static_del (t_statics n) token) n
  else put_child n sl child1.

(** delNode: [Some n'] = true (with the tree after the deletion), [None] = false,
    [inr EPanic] = the slice expression [path[:childPathLen]] is out of range:
    [pathLen] is computed before the leading backslash of an escape is dropped,
    so the length test lets a path through that is one byte shorter than the
    child's. *)
Fixpoint del_node (fx : fixes) (fuel : nat) (n : tree) (path : str) (f : route -> bool) (in_static : bool)
  : option tree + err :=
  match fuel with
  | O => inr EPanic
  | S fuel' =>
    match path with
    | [] =>
      match t_values n with
      | [] => inl None
      | _ =>
        let vs := filter (fun v => negb (f v)) (t_values n) in
        if Nat.eqb (length vs) (length (t_values n)) then inl None
        else inl (Some (set_values vs (match vs with
                                       | [] => set_bt true (if fix_F5 fx then set_keys [] n else n)
                                       | _ => n
                                       end)))
      end
    | token :: _ =>
      (* fixes/C06-F3.diff: ':' '*' and escapes are special only at the start of a segment *)
      let literal := fix_F3 fx && in_static in
      let via (sl : slot) (child : tree) (next : str) : option tree + err :=
        match del_node fx fuel' child next f false with
        | inl (Some c') =>
          inl (Some (if is_nil (t_values c') then delete_child n sl c' token else put_child n sl c'))
        | other => other
        end in
      if negb literal && Ascii.eqb token ch_colon then
        match t_wild n with
        | None => inl None
        | Some w => via SWild w (skipn (next_separator path) path)
        end
      else if negb literal && Ascii.eqb token ch_star then
        match t_catch n with
        | None => inl None
        | Some c => via SCatch c []
        end
      else
        let esc := negb literal && is_escape path in
        (* fixes/C06-F4.diff: pathLen is taken after the backslash is dropped *)
        let path_len := if fix_F4 fx && esc then length (tl path) else length path in
        let path := if esc then tl path else path in
        let token := if esc then match path with c :: _ => c | [] => token end else token in
        match static_get (t_statics n) token with
        | None => inl None
        | Some child =>
          let cl := length (t_path child) in
          if Nat.leb cl path_len then
            if Nat.ltb (length path) cl then inr EPanic
            else if str_eqb (t_path child) (firstn cl path) then
              match del_node fx fuel' child (skipn cl path) f (negb (Ascii.eqb token ch_slash)) with
              | inl (Some c') =>
                inl (Some (if is_nil (t_values c') then delete_child n (SStatic token) c' token
                           else put_child n (SStatic token) c'))
              | other => other
              end
            else inl None
          else inl None
        end
    end
  end.

Definition t_delete (fx : fixes) (root : tree) (path : str) (f : route -> bool) : tree + err :=
  match del_node fx (S (length path)) root path f false with
  | inl (Some t) => inl t
  | inl None => inr EDelete
  | inr e => inr e
  end.

(** findNode: (found, backtrack) *)
Fixpoint find_node (faithful : bool) (fuel : nat) (n : tree) (path : str) (m : route -> bool) : option route * bool :=
  match fuel with
  | O => (None, false)
  | S fuel' =>
    match path with
    | [] =>
      match t_values n with
      | [] => (None, true)
      | vs => match find m vs with Some v => (Some v, false) | None => (None, t_bt n) end
      end
    | c :: _ =>
      let r1 :=
        match static_get (t_statics n) c with
        | Some child =>
          let cl := length (t_path child) in
          if Nat.leb cl (length path) && str_eqb (t_path child) (firstn cl path)
          then find_node faithful fuel' child (skipn cl path) m
          else (None, true)
        | None => (None, true)
        end in
      match r1 with
      | (Some v, b) => (Some v, b)
      | (None, false) => (None, false)
      | (None, true) =>
        let r2 :=
          match t_wild n with
          | Some w =>
            let sep := next_separator path in
            match firstn sep path with
            | [] => (None, true)
            | _ => find_node faithful fuel' w (skipn sep path) m
            end
          | None => (None, true)
          end in
        match r2 with
        | (Some v, b) => (Some v, b)
        | (None, false) => (None, false)
        | (None, true) =>
          match t_catch n with
          | Some cc =>
            match find m (t_values cc) with
            | Some v => (Some v, false)
            | None => (None, if faithful then t_bt n else t_bt cc)  (* C02-F1: the parent's flag *)
            end
          | None => (None, true)
          end
        end
      end
    end
  end.

Definition t_find_rule (faithful : bool) (root : tree) (path : str) (m : route -> bool) : option rule :=
  match fst (find_node faithful (S (length path)) root path m) with
  | Some v => Some (rt_rule v)
  | None => None
  end.

(** ** the repository over the tree *)

Definition t_add1 (t : tree) (v : route) : tree + err := t_add t (rt_path v) v (rt_bt v).
Definition t_del1 (fx : fixes) (t : tree) (r : rule) (v : route) : tree + err :=
  t_delete fx t (rt_path v) (del_matcher fx r v).

Definition trepo := grepo tree.
Definition t_empty_repo : trepo := {| known := []; index := t_empty |}.
Definition t_step (fx : fixes) : trepo -> op -> trepo * option err := gstep tree t_add1 (t_del1 fx).
