(** C06/Witness.v — concrete histories: the witnesses of the findings (each
    guard fires and the property fails) and a non-trivial history on which the
    hypotheses of the main theorem hold.  All by computation. *)
From HV Require Import Base.Prelude C06.Pat C06.Model C06.Spec C06.Tree.

Local Open Scope string_scope.

Definition sl (s : string) : str := list_ascii_of_string s.

Definition mkd (id body : nat) (bt : bool) (meth : list nat) (paths : list string) : rdef :=
  {| d_id := id; d_uid := 10 * id + body; d_body := body; d_bt := bt; d_meth := meth; d_paths := map sl paths |}.

(** the repository over the transcribed tree, along a history *)
Definition t_run_fx (fx : fixes) (ops : list op) : trepo := fold_left (fun st o => fst (t_step fx st o)) ops t_empty_repo.
Definition t_run := t_run_fx no_fix.
Local Notation run := (Model.run no_fix).
Local Notation fresh := (Spec.fresh no_fix).

(** the answers to compare: label of the rule found *)
Definition m_answer (st : repo) (meth : nat) (path : string) : option nat :=
  match find_rule false (index st) (sl path) (accepts meth) with Some r => Some (d_uid (r_def r)) | None => None end.

Definition t_answer (st : trepo) (meth : nat) (path : string) : option nat :=
  match t_find_rule false (index st) (sl path) (accepts meth) with Some r => Some (d_uid (r_def r)) | None => None end.

(** C06-F1: rules [A,B] on /x, the update changes only A *)
Definition w_F1 : list op :=
  [Add 0 [mkd 0 0 false [] ["/x"]; mkd 1 0 false [] ["/x"]];
   Update 0 [mkd 0 1 false [] ["/x"]; mkd 1 0 false [] ["/x"]]].

(** C06-F1, reordering of unchanged rules *)
Definition w_F1b : list op :=
  [Add 0 [mkd 0 0 false [] ["/x"]; mkd 1 0 false [] ["/x"]];
   Update 0 [mkd 1 0 false [] ["/x"]; mkd 0 0 false [] ["/x"]]].

(** C06-F2: A (POST, backtracking on) and B (PUT, off) on /y, Z on /:z; the update changes A *)
Definition w_F2 : list op :=
  [Add 0 [mkd 0 0 true [1] ["/y"]; mkd 1 0 false [2] ["/y"]; mkd 2 0 false [] ["/:z"]];
   Update 0 [mkd 0 1 true [1] ["/y"]; mkd 1 0 false [2] ["/y"]; mkd 2 0 false [] ["/:z"]]].

(** C06-F3: prefix split in front of ':' inside a literal segment, then an update *)
Definition w_F3 : list op :=
  [Add 0 [mkd 0 0 false [] ["/a:b"]; mkd 1 0 false [] ["/ax"]];
   Update 0 [mkd 0 1 false [] ["/a:b"]; mkd 1 0 false [] ["/ax"]]].

(** C06-F3 with an escape *)
Definition w_F3b : list op :=
  [Add 0 [mkd 0 0 false [] ["/a\:b"]; mkd 1 0 false [] ["/ax"]];
   Delete 0].

(** C06-F4: the same path twice in one rule *)
Definition w_F4 : list op :=
  [Add 0 [mkd 0 0 false [] ["/d"; "/d"]];
   Update 0 [mkd 0 1 false [] ["/d"]]].

(** C06-F4, the panic: the second delete of /\:a meets the merged node ":ab" *)
Definition w_F4p : list op :=
  [Add 0 [mkd 0 0 false [] ["/\:a"; "/\:a"]; mkd 1 0 false [] ["/\:ab"]]].

(** C06-F5: key names of a deleted route survive on a kept node *)
Definition w_F5 : list op :=
  [Add 0 [mkd 0 0 false [] ["/a/:x"]];
   Add 1 [mkd 0 0 false [] ["/a/:y/b"]];
   Delete 0;
   Add 2 [mkd 0 0 false [] ["/a/:z"]]].

(** C06-F6: two rules with the same id *)
Definition w_F6 : list op :=
  [Add 0 [mkd 0 0 false [] ["/p"]; mkd 0 9 false [] ["/q"]];
   Update 0 [mkd 0 0 false [] ["/p"]];
   Delete 0].

(** a history inside the hypotheses of the main theorem: three sources, shared
    prefixes, wildcards, a free wildcard, rules sharing an expression, an update
    that changes one of several rules, a rejected creation (expression owned by
    another set), an invalid expression, deletion and re-creation *)
Definition w_plain : list op :=
  [Add 0 [mkd 0 0 false [] ["/a"; "/ab"]; mkd 1 0 false [0] ["/abc"]; mkd 2 0 false [] ["/a/:p1"]];
   Add 1 [mkd 0 0 true [] ["/b/*rest"]; mkd 1 0 true [1] ["/b/x"]];
   Update 0 [mkd 0 0 false [] ["/a"; "/ab"]; mkd 1 1 false [0; 1] ["/abc"; "/abd"]; mkd 2 0 false [] ["/a/:p1"]];
   Add 2 [mkd 0 0 false [] ["/a"]];
   Add 2 [mkd 0 0 false [] ["/c/*r/x"]];
   Update 1 [mkd 1 0 true [1] ["/b/x"]; mkd 2 0 true [2] ["/b/x"]];
   Delete 0;
   Add 2 [mkd 0 0 false [] ["/a"]];
   Update 0 [mkd 5 0 false [] ["/ab/:p1"]]].

Lemma w_F1_ok : wf_history w_F1 = true /\ guard_F1 w_F1 = true /\
  m_answer (run w_F1) 0 "/x" = Some 10 /\ m_answer (fresh (current w_F1)) 0 "/x" = Some 1.
Proof. vm_compute. repeat split; reflexivity. Qed.

Lemma w_F1b_ok : wf_history w_F1b = true /\ guard_F1 w_F1b = true /\
  m_answer (run w_F1b) 0 "/x" = Some 0 /\ m_answer (fresh (current w_F1b)) 0 "/x" = Some 10.
Proof. vm_compute. repeat split; reflexivity. Qed.

Lemma w_F2_ok : wf_history w_F2 = true /\ guard_F2 w_F2 = true /\
  m_answer (run w_F2) 0 "/y" = Some 20 /\ m_answer (fresh (current w_F2)) 0 "/y" = None.
Proof. vm_compute. repeat split; reflexivity. Qed.

Lemma w_F3_ok : wf_history w_F3 = true /\ guard_F3 w_F3 = true /\
  snd (t_step no_fix (t_run [hd (Delete 0) w_F3]) (nth 1 w_F3 (Delete 0))) = Some EDelete /\
  t_answer (t_run w_F3) 0 "/a:b" = Some 0 /\ t_answer (t_run (fresh_ops (current w_F3))) 0 "/a:b" = Some 1.
Proof. vm_compute. repeat split; reflexivity. Qed.

Lemma w_F3b_ok : wf_history w_F3b = true /\ guard_F3 w_F3b = true /\
  t_answer (t_run w_F3b) 0 "/ax" = Some 10 /\ t_answer (t_run (fresh_ops (current w_F3b))) 0 "/ax" = None.
Proof. vm_compute. repeat split; reflexivity. Qed.

Lemma w_F4_ok : wf_history w_F4 = true /\ guard_F4 w_F4 = true /\
  m_answer (run w_F4) 0 "/d" = Some 0 /\ m_answer (fresh (current w_F4)) 0 "/d" = Some 1.
Proof. vm_compute. repeat split; reflexivity. Qed.

Lemma w_F4p_ok : wf_history (w_F4p ++ [Delete 0]) = true /\ guard_F4 w_F4p = true /\
  snd (t_step no_fix (t_run w_F4p) (Delete 0)) = Some EPanic.
Proof. vm_compute. repeat split; reflexivity. Qed.

Lemma w_F5_ok : wf_history w_F5 = true /\ guard_F5 w_F5 = true /\
  t_answer (t_run w_F5) 0 "/a/1" = None /\ t_answer (t_run (fresh_ops (current w_F5))) 0 "/a/1" = Some 0.
Proof. vm_compute. repeat split; reflexivity. Qed.

Lemma w_F6_ok : wf_history w_F6 = true /\ guard_dupid w_F6 = true /\
  m_answer (run w_F6) 0 "/p" = Some 0 /\ m_answer (fresh (current w_F6)) 0 "/p" = None.
Proof. vm_compute. repeat split; reflexivity. Qed.

Lemma w_plain_ok : wf_history w_plain = true /\ no_guard w_plain = true /\
  map (fun o => is_nil (get_set (current [o]) 0)) [nth 3 w_plain (Delete 0)] = [true] /\
  length (current w_plain) = 3 /\ length (index (run w_plain)) = 3 /\
  m_answer (run w_plain) 1 "/b/x" = Some 10 /\ m_answer (run w_plain) 2 "/b/x" = Some 20 /\
  m_answer (run w_plain) 0 "/ab/zz" = Some 50 /\ m_answer (run w_plain) 0 "/abc" = None.
Proof. vm_compute. repeat split; reflexivity. Qed.

(** *** the tree as it is now (all three repairs) *)

Lemma w_F1_now : wf_history w_F1 = true /\ guard_F1 w_F1 = true /\
  m_answer (Model.run all_fix w_F1) 0 "/x" = Some 10 /\ m_answer (Spec.fresh all_fix (current w_F1)) 0 "/x" = Some 1.
Proof. vm_compute. repeat split; reflexivity. Qed.

Lemma w_F2_now : wf_history w_F2 = true /\ guard_F2 w_F2 = true /\
  m_answer (Model.run all_fix w_F2) 0 "/y" = Some 20 /\ m_answer (Spec.fresh all_fix (current w_F2)) 0 "/y" = None.
Proof. vm_compute. repeat split; reflexivity. Qed.

(** duplicate ids after the repair of C06-F4: the update brings a second rule with
    the id of an unchanged one; the diff takes the unchanged rule for changed when
    deleting (it is SameAs the new twin, not EqualTo it) but for unchanged when
    adding: it disappears *)
Definition w_F6_now : list op :=
  [Add 0 [mkd 0 0 false [] ["/p"]];
   Update 0 [mkd 0 0 false [] ["/p"]; mkd 0 9 false [] ["/q"]]].

Lemma w_F6_now_ok : wf_history w_F6_now = true /\ guard_dupid w_F6_now = true /\
  m_answer (Model.run all_fix w_F6_now) 0 "/p" = None /\ m_answer (Spec.fresh all_fix (current w_F6_now)) 0 "/p" = Some 0.
Proof. vm_compute. repeat split; reflexivity. Qed.

(** a history in the territory of the repaired findings (node boundary in front of
    ':', a path listed twice, renamed path parameter next to a kept node), with
    updates and a deletion: the hypotheses of the theorems for the tree as it is
    now hold *)
Definition w_now : list op :=
  [Add 0 [mkd 0 0 false [] ["/a:b"]; mkd 1 0 false [] ["/ax"]];
   Update 0 [mkd 0 1 false [] ["/a:b"]; mkd 1 0 false [] ["/ax"]];
   Add 1 [mkd 0 0 false [] ["/d"; "/d"]];
   Update 1 [mkd 0 1 false [] ["/d"]];
   Add 2 [mkd 0 0 false [] ["/k/:x"]];
   Add 3 [mkd 0 0 false [] ["/k/:y/b"]];
   Delete 2;
   Add 2 [mkd 0 0 false [] ["/k/:z"]];
   Delete 0].

Lemma w_now_ok : wf_history w_now = true /\ open_guards w_now = false /\ dirty w_now = [] /\
  guard_F3 w_now = true /\ guard_F4 w_now = true /\ guard_F5 w_now = true /\
  length (current w_now) = 3 /\ length (index (Model.run all_fix w_now)) = 3 /\
  m_answer (Model.run all_fix w_now) 0 "/d" = Some 1 /\ m_answer (Model.run all_fix w_now) 0 "/k/7" = Some 0 /\
  m_answer (Model.run all_fix w_now) 0 "/a:b" = None.
Proof. vm_compute. repeat split; reflexivity. Qed.

Lemma w_plain_now : wf_history w_plain = true /\ open_guards w_plain = false /\ dirty w_plain = [] /\
  length (index (Model.run all_fix w_plain)) = 3 /\ m_answer (Model.run all_fix w_plain) 1 "/b/x" = Some 10.
Proof. vm_compute. repeat split; reflexivity. Qed.

(** a history that goes through C06-F1 and C06-F2 and recovers: source 0 is hit by
    F1 (rule re-appended), source 1 is loaded with the F2 shape; both rule sets are
    deleted and created again.  The history-global guards fire, no source is dirty
    at the end: the main theorem applies. *)
Definition w_reset : list op :=
  w_F1 ++
  [Add 1 [mkd 0 0 true [1] ["/y"]; mkd 1 0 false [2] ["/y"]; mkd 2 0 false [] ["/:z"]];
   Update 0 [mkd 0 2 false [] ["/x"]; mkd 1 0 false [] ["/x"]];
   Delete 0; Delete 1;
   Add 0 [mkd 0 2 false [] ["/x"]; mkd 1 0 false [] ["/x"]];
   Add 1 [mkd 2 0 false [] ["/:z"]]].

Lemma w_reset_ok : wf_history w_reset = true /\ guard_dupid w_reset = false /\
  guard_F1 w_reset = true /\ guard_F2 w_reset = true /\ dirty w_reset = [] /\
  dirty (firstn 4 w_reset) = [0; 1; 0] /\
  length (index (Model.run all_fix w_reset)) = 2 /\ m_answer (Model.run all_fix w_reset) 0 "/x" = Some 2.
Proof. vm_compute. repeat split; reflexivity. Qed.
