(** C06/SpecFacts.v — the vocabulary of C06/Spec.v (rule sets as lists of
    definitions, boolean guards) in terms of routes. *)
From HV Require Import Base.Prelude C06.Pat C06.Model C06.Spec C06.DbFacts C06.ReprFacts C06.RepoFacts.

(** ** rule sets *)

Lemma get_put_set S s ds t : get_set (put_set S s ds) t = if Nat.eqb s t then ds else get_set S t.
Proof.
  induction S as [|[u x] r IH]; simpl.
  - destruct (Nat.eqb s t); reflexivity.
  - destruct (Nat.eqb u s) eqn:E; simpl.
    + apply Nat.eqb_eq in E. subst u. destruct (Nat.eqb s t); reflexivity.
    + destruct (Nat.eqb u t) eqn:E2.
      * apply Nat.eqb_eq in E2. subst u. rewrite Nat.eqb_sym, E. reflexivity.
      * exact IH.
Qed.

Lemma get_set_in S s d : In d (get_set S s) -> exists ds, In (s, ds) S /\ In d ds.
Proof.
  induction S as [|[u x] r IH]; simpl; [tauto|].
  destruct (Nat.eqb u s) eqn:E.
  - apply Nat.eqb_eq in E. subst u. intro H. exists x. split; [left; reflexivity | exact H].
  - intro H. destruct (IH H) as (ds & A & B). exists ds. split; [right; exact A | exact B].
Qed.

Lemma in_get_set S s ds : NoDup (map fst S) -> In (s, ds) S -> get_set S s = ds.
Proof.
  induction S as [|[u x] r IH]; simpl; [tauto|].
  intros ND [H|H].
  - inversion H; subst. rewrite Nat.eqb_refl. reflexivity.
  - inversion ND as [|? ? Hn Hd]; subst. destruct (Nat.eqb u s) eqn:E.
    + apply Nat.eqb_eq in E. subst u. exfalso. apply Hn. apply in_map_iff. exists (s, ds). split; [reflexivity | exact H].
    + apply IH; assumption.
Qed.

Lemma has_set_in S s : has_set S s = true <-> In s (map fst S).
Proof.
  induction S as [|[u x] r IH]; simpl; [split; [discriminate | tauto]|].
  rewrite orb_true_iff, Nat.eqb_eq, IH. tauto.
Qed.

Lemma has_set_false_get S s : has_set S s = false -> get_set S s = [].
Proof.
  induction S as [|[u x] r IH]; simpl; [reflexivity|].
  intro H. apply orb_false_iff in H as [E H]. rewrite E. apply IH. exact H.
Qed.

Lemma put_set_fst S s ds : forall t, In t (map fst (put_set S s ds)) <-> t = s \/ In t (map fst S).
Proof.
  induction S as [|[u x] r IH]; simpl; intro t.
  - split; [intros [H|[]]; left; congruence | intros [H|[]]; left; congruence].
  - destruct (Nat.eqb u s) eqn:E; simpl.
    + apply Nat.eqb_eq in E. subst u. split; [tauto|]. intros [H|H]; [left; congruence | exact H].
    + rewrite IH. tauto.
Qed.

Lemma put_set_nodup S s ds : NoDup (map fst S) -> NoDup (map fst (put_set S s ds)).
Proof.
  induction S as [|[u x] r IH]; simpl; intro ND.
  - constructor; [intros [] | constructor].
  - inversion ND as [|? ? Hn Hd]; subst. destruct (Nat.eqb u s) eqn:E; simpl.
    + constructor; assumption.
    + constructor; [|apply IH; exact Hd]. rewrite put_set_fst. intros [H|H]; [|contradiction].
      subst. rewrite Nat.eqb_refl in E. discriminate.
Qed.

Lemma put_set_in S s ds t dt : NoDup (map fst S) ->
  In (t, dt) (put_set S s ds) -> (t = s /\ dt = ds) \/ (t <> s /\ In (t, dt) S).
Proof.
  induction S as [|[u x] r IH]; simpl; intro ND.
  - intros [H|[]]. inversion H. left. tauto.
  - inversion ND as [|? ? Hn Hd]; subst. destruct (Nat.eqb u s) eqn:E.
    + apply Nat.eqb_eq in E. subst u. intros [H|H].
      * inversion H. left. tauto.
      * right. split; [|right; exact H]. intro; subst. apply Hn. apply in_map_iff. exists (s, dt). tauto.
    + intros [H|H].
      * inversion H; subst. right. split; [intro; subst; rewrite Nat.eqb_refl in E; discriminate | left; reflexivity].
      * destruct (IH Hd H) as [A|[A B]]; [left; exact A | right; split; [exact A | right; exact B]].
Qed.

Lemma get_del_set S s t : NoDup (map fst S) -> get_set (del_set S s) t = if Nat.eqb s t then [] else get_set S t.
Proof.
  induction S as [|[u x] r IH]; simpl; intro ND.
  - destruct (Nat.eqb s t); reflexivity.
  - inversion ND as [|? ? Hn Hd]; subst. destruct (Nat.eqb u s) eqn:E; simpl.
    + apply Nat.eqb_eq in E. subst u. destruct (Nat.eqb s t) eqn:E2; [|reflexivity].
      apply Nat.eqb_eq in E2. subst t. apply has_set_false_get.
      destruct (has_set r s) eqn:H; [|reflexivity]. apply has_set_in in H. contradiction.
    + destruct (Nat.eqb u t) eqn:E2.
      * apply Nat.eqb_eq in E2. subst u. rewrite Nat.eqb_sym, E. reflexivity.
      * apply IH. exact Hd.
Qed.

Lemma del_set_in S s t dt : In (t, dt) (del_set S s) -> In (t, dt) S.
Proof.
  induction S as [|[u x] r IH]; simpl; [tauto|].
  destruct (Nat.eqb u s); [intro; right; assumption|].
  intros [H|H]; [left; exact H | right; apply IH; exact H].
Qed.

Lemma del_set_nodup S s : NoDup (map fst S) -> NoDup (map fst (del_set S s)).
Proof.
  induction S as [|[u x] r IH]; simpl; intro ND; [constructor|].
  inversion ND as [|? ? Hn Hd]; subst. destruct (Nat.eqb u s); [exact Hd|].
  simpl. constructor; [|apply IH; exact Hd].
  intro H. apply Hn. apply in_map_iff in H as ([a b] & E & Hin). simpl in E. subst a.
  apply in_map_iff. exists (u, b). split; [reflexivity | eapply del_set_in; exact Hin].
Qed.

(** ** routes of a stamped rule set *)

Lemma in_stamp s ds r : In r (stamp s ds) <-> r_src r = s /\ In (r_def r) ds.
Proof.
  unfold stamp. rewrite in_map_iff. split.
  - intros (d & E & H). subst r. simpl. tauto.
  - intros [E H]. exists (r_def r). destruct r. simpl in *. subst. tauto.
Qed.

(** a route of a stamped rule set belongs to one of its definitions and spells one of its paths *)
Lemma in_routes_stamp s ds x :
  In x (routes (stamp s ds)) ->
  exists d, In d ds /\ rt_rule x = {| r_src := s; r_def := d |} /\ In (rt_path x) (d_paths d).
Proof.
  rewrite in_routes. intros (r & Hr & Hx). apply in_stamp in Hr as [Es Hd].
  apply routes_of_in in Hx as [E He]. exists (r_def r). split; [exact Hd|]. split; [|exact He].
  rewrite E. destruct r. simpl in *. subst. reflexivity.
Qed.

(** and every path of every definition has its route *)
Lemma routes_stamp_ex s ds d e : In d ds -> In e (d_paths d) ->
  exists x, In x (routes (stamp s ds)) /\ rt_rule x = {| r_src := s; r_def := d |} /\ rt_path x = e.
Proof.
  intros Hd He. destruct (routes_of_ex {| r_src := s; r_def := d |} e He) as (x & Hx & Ep).
  exists x. split; [|split; [apply (routes_of_rule _ _ Hx) | exact Ep]].
  apply in_routes. exists {| r_src := s; r_def := d |}. split; [|exact Hx]. apply in_stamp. simpl. tauto.
Qed.

Lemma stamp_filter s (P : rdef -> bool) ds :
  stamp s (filter P ds) = filter (fun r => P (r_def r)) (stamp s ds).
Proof.
  induction ds as [|d ds IH]; simpl; [reflexivity|].
  destruct (P d); simpl; rewrite IH; reflexivity.
Qed.

Lemma stamp_app s a b : stamp s (a ++ b) = stamp s a ++ stamp s b.
Proof. apply map_app. Qed.

Lemma from_src_stamp s ds : filter (from_src s) (stamp s ds) = stamp s ds.
Proof.
  apply filter_all_true. intros r Hr. apply in_stamp in Hr as [E _]. unfold from_src. apply Nat.eqb_eq. exact E.
Qed.

Lemma from_src_stamp_other s t ds : s <> t -> filter (from_src t) (stamp s ds) = [].
Proof.
  intro N. apply filter_all_false. intros r Hr. apply in_stamp in Hr as [E _]. unfold from_src.
  apply Nat.eqb_neq. congruence.
Qed.

(** ** validity and patterns *)

Lemma valid_exprs_routes s ds :
  forallb valid_expr (exprs ds) = true <-> forall x, In x (routes (stamp s ds)) -> rpat x <> None.
Proof.
  rewrite forallb_forall. unfold exprs. split.
  - intros H x Hx. apply in_routes_stamp in Hx as (d & Hd & _ & He). unfold rpat.
    specialize (H (rt_path x)). unfold valid_expr in H. destruct (pat_of (rt_path x)); [discriminate|].
    exfalso. assert (false = true); [|discriminate]. apply H. apply in_flat_map. exists d. tauto.
  - intros H e He. apply in_flat_map in He as (d & Hd & He).
    destruct (routes_stamp_ex s ds d e Hd He) as (x & Hx & _ & Ep).
    specialize (H x Hx). unfold rpat in H. rewrite Ep in H. unfold valid_expr.
    destruct (pat_of e); [reflexivity|]. exfalso. apply H. reflexivity.
Qed.

Lemma mem_pat_in p l : mem_pat p l = true <-> In p l.
Proof.
  unfold mem_pat. rewrite existsb_exists. split.
  - intros (x & Hx & E). apply pat_eqb_eq in E. subst. exact Hx.
  - intro H. exists p. split; [exact H | apply pat_eqb_refl].
Qed.

Lemma in_pats p ds : In p (pats ds) <-> exists d e, In d ds /\ In e (d_paths d) /\ pat_of e = Some p.
Proof.
  unfold pats, exprs. rewrite in_flat_map. split.
  - intros (e & He & Hp). apply in_flat_map in He as (d & Hd & He).
    exists d, e. split; [exact Hd|]. split; [exact He|].
    destruct (pat_of e); [destruct Hp as [Hp|[]]; congruence | destruct Hp].
  - intros (d & e & Hd & He & Hp). exists e. split.
    + apply in_flat_map. exists d. tauto.
    + rewrite Hp. left. reflexivity.
Qed.

Lemma pats_routes s p ds : In p (pats ds) <-> exists x, In x (routes (stamp s ds)) /\ has_pat p x = true.
Proof.
  rewrite in_pats. split.
  - intros (d & e & Hd & He & Hp). destruct (routes_stamp_ex s ds d e Hd He) as (x & Hx & _ & Ep).
    exists x. split; [exact Hx|]. apply has_pat_rpat. unfold rpat. rewrite Ep. exact Hp.
  - intros (x & Hx & Hp). apply in_routes_stamp in Hx as (d & Hd & _ & He).
    apply has_pat_rpat in Hp. exists d, (rt_path x). tauto.
Qed.

Lemma in_def_pats p d : In p (def_pats d) <-> exists e, In e (d_paths d) /\ pat_of e = Some p.
Proof.
  unfold def_pats. rewrite in_pats. split.
  - intros (d' & e & [Hd|[]] & He & Hp). subst d'. exists e. tauto.
  - intros (e & He & Hp). exists d, e. split; [left; reflexivity | tauto].
Qed.

Lemma share_pat_spec a b : share_pat a b = true <-> exists p, In p (def_pats a) /\ In p (def_pats b).
Proof.
  unfold share_pat. rewrite existsb_exists. split.
  - intros (p & Hp & Hm). apply mem_pat_in in Hm. exists p. tauto.
  - intros (p & Ha & Hb). exists p. split; [exact Ha | apply mem_pat_in; exact Hb].
Qed.

(** ** all_pairs *)

Lemma all_pairs_spec {A} (f : A -> A -> bool) l :
  all_pairs f l = true -> forall l1 a l2 b l3, l = l1 ++ a :: l2 ++ b :: l3 -> f a b = true.
Proof.
  induction l as [|x l IH]; simpl; intros H l1 a l2 b l3 E.
  - destruct l1; discriminate.
  - apply andb_true_iff in H as [H1 H2]. destruct l1 as [|y l1]; simpl in E; inversion E; subst.
    + rewrite forallb_forall in H1. apply H1. apply in_app_iff. right. left. reflexivity.
    + eapply IH; [exact H2 | reflexivity].
Qed.

Lemma all_pairs_sym {A} (f : A -> A -> bool) l :
  (forall a b, f a b = f b a) -> (forall a, f a a = true) ->
  all_pairs f l = true -> forall a b, In a l -> In b l -> f a b = true.
Proof.
  intros Sy Rf. induction l as [|x l IH]; simpl; intros H a b Ha Hb; [destruct Ha|].
  apply andb_true_iff in H as [H1 H2]. rewrite forallb_forall in H1.
  destruct Ha as [Ha|Ha], Hb as [Hb|Hb]; subst.
  - apply Rf.
  - apply H1. exact Hb.
  - rewrite Sy. apply H1. exact Ha.
  - apply IH; assumption.
Qed.

(** ** the guards of one rule set *)

(** what the guards say about one rule set ([fx]: with fixes/C06-F4.diff a duplicate
    path in a rule is no longer a problem) *)
Definition base_good (fx : fixes) (ds : list rdef) : bool :=
  (fix_F4 fx || negb (f4_set ds)) && negb (dupid_set ds).

Definition set_good (fx : fixes) (ds : list rdef) : bool :=
  negb (f2_set ds) && base_good fx ds.

(** the sources that are not in the state C06-F1 / C06-F2 leave *)
Definition clean (D : list nat) (s : nat) : bool := negb (existsb (Nat.eqb s) D).

Lemma clean_nil s : clean [] s = true.
Proof. reflexivity. Qed.

Lemma clean_cons D t s : clean (t :: D) s = negb (Nat.eqb s t) && clean D s.
Proof. unfold clean. simpl. rewrite negb_orb. reflexivity. Qed.

Lemma clean_rm D t s : clean (rm_src t D) s = Nat.eqb s t || clean D s.
Proof.
  unfold clean, rm_src. induction D as [|u D IH]; simpl.
  - rewrite orb_true_r. reflexivity.
  - destruct (Nat.eqb u t) eqn:E; simpl.
    + apply Nat.eqb_eq in E. subst u. rewrite IH. destruct (Nat.eqb s t); reflexivity.
    + destruct (Nat.eqb s u) eqn:E2; simpl.
      * apply Nat.eqb_eq in E2. subst u. rewrite E. reflexivity.
      * exact IH.
Qed.

Lemma share_pat_sym a b : share_pat a b = share_pat b a.
Proof.
  destruct (share_pat a b) eqn:E1, (share_pat b a) eqn:E2; try reflexivity.
  - apply share_pat_spec in E1 as (p & A & B).
    assert (share_pat b a = true) by (apply share_pat_spec; exists p; tauto). congruence.
  - apply share_pat_spec in E2 as (p & A & B).
    assert (share_pat a b = true) by (apply share_pat_spec; exists p; tauto). congruence.
Qed.

Lemma good_f2 ds : negb (f2_set ds) = true ->
  forall a b, In a ds -> In b ds -> share_pat a b = true -> d_bt a = d_bt b.
Proof.
  unfold f2_set. rewrite negb_involutive. intros H a b Ha Hb Hs.
  pose proof (all_pairs_sym (fun a b => negb (share_pat a b) || Bool.eqb (d_bt a) (d_bt b)) ds) as P.
  assert (X : negb (share_pat a b) || Bool.eqb (d_bt a) (d_bt b) = true).
  { apply P; try assumption.
    - intros x y. rewrite (share_pat_sym x y). f_equal. destruct (d_bt x), (d_bt y); reflexivity.
    - intro x. rewrite eqb_reflx. apply orb_true_r. }
  rewrite Hs in X. simpl in X. apply eqb_prop. exact X.
Qed.

Lemma good_dupid ds : negb (dupid_set ds) = true -> NoDup (map d_id ds).
Proof.
  unfold dupid_set. rewrite negb_involutive.
  induction ds as [|d ds IH]; simpl; intro H; [constructor|].
  apply andb_true_iff in H as [H1 H2]. constructor; [|apply IH; exact H2].
  intro Hin. apply in_map_iff in Hin as (x & E & Hx). rewrite forallb_forall in H1.
  specialize (H1 x Hx). rewrite <- E, Nat.eqb_refl in H1. discriminate.
Qed.

Lemma nodup_pats_spec l : nodup_pats l = true <-> NoDup l.
Proof.
  induction l as [|p l IH]; simpl; [split; [constructor | reflexivity]|].
  rewrite andb_true_iff, negb_true_iff, IH. split.
  - intros [A B]. constructor; [|exact B]. intro Hin. apply mem_pat_in in Hin. congruence.
  - intro H. inversion H; subst. split; [|assumption].
    destruct (mem_pat p l) eqn:E; [|reflexivity]. apply mem_pat_in in E. contradiction.
Qed.

Lemma good_f4 ds : negb (f4_set ds) = true -> forall d, In d ds -> NoDup (def_pats d).
Proof.
  unfold f4_set. rewrite negb_involutive, forallb_forall. intros H d Hd. apply nodup_pats_spec. apply H. exact Hd.
Qed.

(** with valid expressions, the patterns of a rule's routes are its [def_pats] *)
Lemma def_pats_routes s d :
  (forall e, In e (d_paths d) -> pat_of e <> None) ->
  map rpat (routes_of {| r_src := s; r_def := d |}) = map Some (def_pats d).
Proof.
  assert (E : map rpat (routes_of {| r_src := s; r_def := d |}) = map pat_of (d_paths d)).
  { change (d_paths d) with (d_paths (r_def {| r_src := s; r_def := d |})).
    rewrite <- (map_rt_path {| r_src := s; r_def := d |}), map_map. reflexivity. }
  rewrite E. clear E. unfold def_pats, pats, exprs. simpl. rewrite app_nil_r.
  induction (d_paths d) as [|e l IH]; simpl; intro H; [reflexivity|].
  destruct (pat_of e) eqn:Ee.
  - simpl. f_equal. apply IH. intros x Hx. apply H. right. exact Hx.
  - exfalso. apply (H e); [left; reflexivity | exact Ee].
Qed.

Lemma NoDup_map_Some {A} (l : list A) : NoDup l -> NoDup (map Some l).
Proof.
  induction l as [|a l IH]; simpl; intro H; [constructor|].
  inversion H; subst. constructor; [|apply IH; assumption].
  intro Hin. apply in_map_iff in Hin as (x & E & Hx). inversion E; subst. contradiction.
Qed.

(** ** keys: outside guard F5 every rule set passes the key-name check *)

Lemma keys_compat_of_noclash a b : keys_clash a b = false -> keys_compat a b = true.
Proof.
  unfold keys_clash, keys_compat.
  destruct (parse_expr a) as [[p ka]|]; [|reflexivity].
  destruct (parse_expr b) as [[q kb]|]; [|reflexivity].
  destruct (pat_eqb p q); simpl; [|reflexivity].
  rewrite negb_false_iff. intro H. exact H.
Qed.

Lemma guard_F5_keys_ok ops : guard_F5 ops = false -> forall o, In o ops -> keys_ok (op_set o) = true.
Proof.
  unfold guard_F5, keys_ok. intros H o Ho.
  apply forallb_forall. intros a Ha. apply forallb_forall. intros b Hb.
  apply keys_compat_of_noclash.
  assert (Ia : In a (all_exprs ops)) by (apply in_flat_map; exists o; tauto).
  assert (Ib : In b (all_exprs ops)) by (apply in_flat_map; exists o; tauto).
  destruct (keys_clash a b) eqn:E; [|reflexivity].
  assert (existsb (fun a0 => existsb (keys_clash a0) (all_exprs ops)) (all_exprs ops) = true); [|congruence].
  apply existsb_exists. exists a. split; [exact Ia|]. apply existsb_exists. exists b. tauto.
Qed.
