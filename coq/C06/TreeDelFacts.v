(** C06/TreeDelFacts.v — what the refinement proof of Delete (C06/TreeDelProofs.v) is
    assembled from:

    - the pattern-map machine's [delete] entry by entry ([delete_assoc]);
    - [shape] in parts; static children lists with an edge removed;
    - how the removal / replacement of ONE child of a node shows in the abstraction of
      the node ([lift_static], [lift_wild_clear], [lift_catch_clear], [lift_here_clear]);
    - the frame of [del_node]: path, absence of wildcard children and the set of static
      indices of the node it is called on never grow. *)
From HV Require Import Base.Prelude Radix.Spec Radix.SpecProofs Radix.Machine Radix.MachineProofs
  Radix.Load Radix.LoadProofs Radix.Tree Radix.TreeProofs Radix.TreeAddProofs C06.TreeDel.

(** ** the machine's delete, entry by entry *)

Section MachineDel.
Variable V : Type.
Variable f : V -> bool.
Notation node := (node V).
Notation db := (db V).

(** what a Delete does to the node of its expression: [None] = it fails *)
Definition del_upd (o : option node) : option (option node) :=
  match o with
  | None => None
  | Some nd =>
    let vs := filter (fun v => negb (f v)) (vals nd) in
    if Nat.eqb (length vs) (length (vals nd)) then None
    else Some (match vs with
               | [] => None
               | _ => Some {| vals := vs; flag := flag nd; keys := keys nd |}
               end)
  end.

Lemma assoc_notin {A} p (d : list (pat * A)) : ~ In p (map fst d) -> assoc p d = None.
Proof.
  induction d as [|[q a] d IH]; [reflexivity|]. cbn [map fst assoc]. intro H.
  destruct (pat_eqb p q) eqn:E.
  - apply pat_eqb_eq in E. subst q. exfalso. apply H. left. reflexivity.
  - apply IH. intro Hin. apply H. right. exact Hin.
Qed.

Lemma delete_assoc (d : db) p : NoDup (map fst d) ->
  match delete d p f with
  | DOk d' => exists y, del_upd (assoc p d) = Some y /\ updated V d d' p y
  | DFailed => del_upd (assoc p d) = None
  end.
Proof.
  induction d as [|[q n] r IH]; intro Hnd; [reflexivity|].
  cbn [map fst] in Hnd. inversion Hnd as [|x l Hnin Hnd']; subst.
  cbn [delete assoc]. destruct (pat_eqb p q) eqn:E.
  - apply pat_eqb_eq in E. subst q. unfold del_upd.
    destruct (Nat.eqb (length (filter (fun v => negb (f v)) (vals n))) (length (vals n))); [reflexivity|].
    destruct (filter (fun v => negb (f v)) (vals n)) as [|v0 vs] eqn:Ef.
    + exists None. split; [reflexivity|]. intro r0. cbn [assoc]. destruct (pat_eqb r0 p) eqn:E0; [|reflexivity].
      apply pat_eqb_eq in E0. subst r0. apply assoc_notin. exact Hnin.
    + eexists. split; [reflexivity|]. intro r0. cbn [assoc]. destruct (pat_eqb r0 p); reflexivity.
  - specialize (IH Hnd'). destruct (delete r p f) as [r'|]; [|exact IH].
    destruct IH as (y & Hy & Hu). exists y. split; [exact Hy|]. intro r0. cbn [assoc].
    destruct (pat_eqb r0 q) eqn:E0; [|apply Hu].
    apply pat_eqb_eq in E0. subst r0. rewrite (pat_eqb_sym q p), E. reflexivity.
Qed.

(** [delete] keeps the index a machine state *)
Lemma delete_fst_incl (d d' : db) p : delete d p f = DOk d' -> incl (map fst d') (map fst d).
Proof.
  revert d'. induction d as [|[q n] r IH]; intros d'; cbn [delete]; [discriminate|].
  destruct (pat_eqb p q).
  - destruct (Nat.eqb _ _); [discriminate|]. destruct (filter _ _); intro H; inversion H; subst.
    + intros x Hx. right. exact Hx.
    + intros x Hx. exact Hx.
  - destruct (delete r p f) as [r'|] eqn:Er; [|discriminate]. intro H. inversion H; subst.
    intros x [Hx|Hx]; [left; exact Hx | right; apply (IH r' eq_refl); exact Hx].
Qed.

Lemma delete_NoDup (d d' : db) p : delete d p f = DOk d' -> NoDup (map fst d) -> NoDup (map fst d').
Proof.
  revert d'. induction d as [|[q n] r IH]; intros d'; cbn [delete]; [discriminate|].
  intros H Hnd. cbn [map fst] in Hnd. inversion Hnd as [|x l Hnin Hnd']; subst.
  destruct (pat_eqb p q).
  - destruct (Nat.eqb _ _); [discriminate|]. destruct (filter _ _); inversion H; subst; [exact Hnd'|].
    cbn [map fst]. constructor; assumption.
  - destruct (delete r p f) as [r'|] eqn:Er; [|discriminate]. inversion H; subst.
    cbn [map fst]. constructor; [|apply IH; [reflexivity | exact Hnd']].
    intro Hin. apply Hnin. eapply delete_fst_incl; eassumption.
Qed.

End MachineDel.

Arguments del_upd {V}.

(** ** static children: an edge removed *)

Section Statics.
Variable V : Type.
Notation tree := (tree V).

Lemma find_static_remove c0 c (l : list (ascii * tree)) : indices_distinct V l = true ->
  find_static c0 (remove_static c l) = if Ascii.eqb c0 c then None else find_static c0 l.
Proof.
  induction l as [|[d x] r IH]; [destruct (Ascii.eqb c0 c); reflexivity|].
  cbn [indices_distinct]. intro H. apply andb_true_iff in H as [Hn Hi]. apply negb_true_iff in Hn.
  cbn [remove_static find_static]. destruct (Ascii.eqb c d) eqn:Ecd.
  - apply Ascii.eqb_eq in Ecd. subst d. destruct (Ascii.eqb c0 c) eqn:E0; [|reflexivity].
    apply Ascii.eqb_eq in E0. subst c0.
    destruct (find_static c r) as [t|] eqn:Ef; [|reflexivity]. exfalso.
    apply find_static_in in Ef. assert (existsb (fun x : ascii * tree => Ascii.eqb c (fst x)) r = true).
    { apply existsb_exists. exists (c, t). split; [exact Ef | apply Ascii.eqb_refl]. }
    congruence.
  - cbn [find_static]. destruct (Ascii.eqb c0 d) eqn:E0d.
    + apply Ascii.eqb_eq in E0d. subst d. rewrite (Ascii.eqb_sym c0 c), Ecd. reflexivity.
    + apply IH. exact Hi.
Qed.

Lemma remove_static_incl c (l : list (ascii * tree)) : incl (remove_static c l) l.
Proof.
  induction l as [|[d x] r IH]; [intros y []|]. cbn [remove_static]. destruct (Ascii.eqb c d).
  - intros y Hy. right. exact Hy.
  - intros y [Hy|Hy]; [left; exact Hy | right; apply IH; exact Hy].
Qed.

Lemma indices_distinct_remove c (l : list (ascii * tree)) :
  indices_distinct V l = true -> indices_distinct V (remove_static c l) = true.
Proof.
  induction l as [|[d x] r IH]; [reflexivity|]. cbn [indices_distinct remove_static]. intro H.
  apply andb_true_iff in H as [Hn Hi]. destruct (Ascii.eqb c d); [exact Hi|].
  cbn [indices_distinct]. rewrite (IH Hi), andb_true_r. apply negb_true_iff. apply negb_true_iff in Hn.
  destruct (existsb _ (remove_static c r)) eqn:E; [|reflexivity].
  apply existsb_exists in E as (y & Hy & Ey). apply remove_static_incl in Hy.
  assert (existsb (fun x0 : ascii * tree => Ascii.eqb d (fst x0)) r = true) by (apply existsb_exists; eauto).
  congruence.
Qed.

Lemma forallb_remove (P : ascii * tree -> bool) c l : forallb P l = true -> forallb P (remove_static c l) = true.
Proof.
  rewrite !forallb_forall. intros H x Hx. apply H. eapply remove_static_incl. exact Hx.
Qed.

Lemma forallb_replace (P : ascii * tree -> bool) c (t' : tree) l :
  forallb P l = true -> (forall d, P (d, t') = true) -> forallb P (replace_static V c t' l) = true.
Proof.
  intros H Ht. induction l as [|[d x] r IH]; [reflexivity|]. cbn [forallb] in H.
  apply andb_true_iff in H as [H1 H2]. cbn [replace_static]. destruct (Ascii.eqb c d); cbn [forallb].
  - rewrite Ht, H2. reflexivity.
  - rewrite H1, (IH H2). reflexivity.
Qed.

Lemma forallb_replace_fst (P : ascii * tree -> bool) c (t' : tree) l :
  (forall d x y, P (d, x) = P (d, y)) -> forallb P l = true -> forallb P (replace_static V c t' l) = true.
Proof.
  intros HP H. induction l as [|[d y] r IH]; [reflexivity|]. cbn [forallb] in H.
  apply andb_true_iff in H as [H1 H2]. cbn [replace_static]. destruct (Ascii.eqb c d); cbn [forallb].
  - rewrite (HP d t' y), H1, H2. reflexivity.
  - rewrite H1, (IH H2). reflexivity.
Qed.

Lemma find_static_forallb (P : ascii * tree -> bool) c l (t : tree) :
  forallb P l = true -> find_static c l = Some t -> P (c, t) = true.
Proof. intros H Hf. apply find_static_in in Hf. rewrite forallb_forall in H. apply H. exact Hf. Qed.

End Statics.

(** ** [shape] in parts *)

Section ShapeParts.
Variable V : Type.
Notation tree := (tree V).

Definition shape_statics (l : list (ascii * tree)) : bool :=
  forallb (fun x => seg_ok (snd x) && shape (snd x)) l.

Definition shape_wild (o : option tree) : bool :=
  match o with Some w => only_slash (t_statics w) && shape w | None => true end.

Lemma shape_unfold (n : tree) : shape n = shape_statics (t_statics n) && shape_wild (t_wild n).
Proof.
  destruct n as [p st w c vs ks b]. cbn [shape t_statics t_wild shape_wild]. f_equal.
  induction st as [|[d ch] r IH]; [reflexivity|]. cbn [shape_statics forallb snd]. rewrite IH. reflexivity.
Qed.

Lemma wfd_parts (n : tree) : wfd n = true -> wfb n = true /\ shape_statics (t_statics n) = true /\ shape_wild (t_wild n) = true.
Proof.
  unfold wfd. rewrite shape_unfold. intro H. apply andb_true_iff in H as [H1 H2].
  apply andb_true_iff in H2 as [H2 H3]. auto.
Qed.

Lemma wfd_build (n : tree) : wfb n = true -> shape_statics (t_statics n) = true -> shape_wild (t_wild n) = true -> wfd n = true.
Proof. intros H1 H2 H3. unfold wfd. rewrite shape_unfold, H1, H2, H3. reflexivity. Qed.

Lemma shape_set_path (n : tree) p : shape (set_path V n p) = shape n.
Proof. destruct n. reflexivity. Qed.

Lemma wfd_leaf_or (n : tree) : wfd n = true -> wfb n = true.
Proof. intro H. apply wfd_parts in H. tauto. Qed.

(** the static child found is a well-formed child *)
Lemma wfd_static_child (n : tree) c child : wfd n = true -> find_static c (t_statics n) = Some child ->
  (exists cp', t_path child = c :: cp') /\ wfd child = true /\ seg_ok child = true.
Proof.
  intros H Hf. apply wfd_parts in H as (Hw & Hs & _).
  destruct (wf_statics_child V n c child Hw Hf) as [Hp Hwc]. split; [exact Hp|].
  pose proof (find_static_forallb V _ c _ child Hs Hf) as Hc. cbn [snd] in Hc.
  apply andb_true_iff in Hc as [Hc1 Hc2]. split; [|exact Hc1]. unfold wfd. rewrite Hwc, Hc2. reflexivity.
Qed.

Lemma seg_ok_inside (ch : tree) c cp' : t_path ch = c :: cp' -> Ascii.eqb c ch_slash = false -> seg_ok ch = true ->
  has_slash (c :: cp') = false /\ no_wc ch = true.
Proof.
  intros Hp Hc H. unfold seg_ok in H. rewrite Hp in H. apply orb_true_iff in H as [H|H].
  - unfold str_eqb in H. cbn [list_eqb] in H. rewrite Hc in H. discriminate.
  - apply andb_true_iff in H as [H1 H2]. apply negb_true_iff in H1. auto.
Qed.

Lemma seg_ok_slash (ch : tree) cp' : t_path ch = ch_slash :: cp' -> seg_ok ch = true -> cp' = [].
Proof.
  intros Hp H. unfold seg_ok in H. rewrite Hp in H. apply orb_true_iff in H as [H|H].
  - apply str_eqb_eq in H. inversion H. reflexivity.
  - apply andb_true_iff in H as [H1 _]. cbn in H1. discriminate.
Qed.

Lemma wfd_wild_child (n w : tree) : wfd n = true -> t_wild n = Some w -> wfd w = true /\ only_slash (t_statics w) = true.
Proof.
  intros H Hw. apply wfd_parts in H as (Hwf & _ & Hs). apply wfb_parts in Hwf as (_ & _ & _ & H4 & _).
  rewrite Hw in Hs, H4. cbn [shape_wild wf_wild] in *. apply andb_true_iff in Hs as [Hs1 Hs2].
  unfold wfd. rewrite H4, Hs2. auto.
Qed.

Lemma only_slash_not_mergeable (w : tree) : only_slash (t_statics w) = true -> mergeable w = false.
Proof.
  unfold mergeable, only_slash. destruct (t_statics w) as [|[i g] [|? ?]]; try reflexivity.
  cbn [forallb fst]. intro H. apply andb_true_iff in H as [H _]. rewrite H. reflexivity.
Qed.

End ShapeParts.

(** ** one child of a node removed or replaced: the abstraction of the node *)

Section Lift.
Variable V : Type.
Notation tree := (tree V).
Notation node := (node V).
Notation db := (db V).

Lemma updated_same_r (d d1 d2 : db) q x : updated V d d1 q x -> same_entries V d1 d2 -> updated V d d2 q x.
Proof. intros Hu H r. rewrite <- (H r). apply Hu. Qed.

Lemma here_abs_eq (n n' : tree) : wfb n = true -> wfb n' = true ->
  t_vals n' = t_vals n -> t_keys n' = t_keys n -> t_bt n' = t_bt n -> here (abs n') = here (abs n).
Proof.
  intros Hw Hw' H1 H2 H3. apply wfb_parts in Hw as (_ & _ & Hs & _). apply wfb_parts in Hw' as (_ & _ & Hs' & _).
  rewrite (here_abs' V _ Hs), (here_abs' V _ Hs'). unfold node_of. rewrite H1, H2, H3. reflexivity.
Qed.

(** the static slot [c] changed, everything else is as before *)
Lemma lift_static (n n' : tree) c child cp' (D' : db) q0 y :
  wfb n = true -> wfb n' = true ->
  find_static c (t_statics n) = Some child -> t_path child = c :: cp' ->
  t_vals n' = t_vals n -> t_keys n' = t_keys n -> t_bt n' = t_bt n -> t_wild n' = t_wild n -> t_catch n' = t_catch n ->
  (forall c0, Ascii.eqb c0 c = false -> find_static c0 (t_statics n') = find_static c0 (t_statics n)) ->
  same_entries V (map (pre (lits cp')) D')
     (match find_static c (t_statics n') with Some ch => map (pre (lits (tl (t_path ch)))) (abs ch) | None => [] end) ->
  updated V (abs child) D' q0 y ->
  updated V (abs n) (abs n') (L c :: lits cp' ++ q0) y.
Proof.
  intros Hw Hw' Hf Hcp Hv Hk Hb Hwi Hca Hoth Hsame Hu.
  pose proof Hw as Hp. apply wfb_parts in Hp as (H1 & _ & H3 & _).
  pose proof Hw' as Hp'. apply wfb_parts in Hp' as (H1' & _ & H3' & _).
  apply updated_cons.
  - apply here_abs_eq; assumption.
  - intros t' Ht r. destruct t' as [c0| |].
    + apply tok_eqb_L_false in Ht. rewrite (deriv_L_abs V c0 _ H1 H3), (deriv_L_abs V c0 _ H1' H3'), (Hoth c0 Ht). reflexivity.
    + rewrite (deriv_W_abs V _ H3), (deriv_W_abs V _ H3'), Hwi. reflexivity.
    + rewrite (deriv_C_abs V _ H3), (deriv_C_abs V _ H3'), Hca. reflexivity.
  - rewrite (deriv_L_abs V c _ H1 H3), (deriv_L_abs V c _ H1' H3'), Hf, Hcp. cbn [tl].
    eapply updated_same_r; [apply updated_pre; exact Hu | exact Hsame].
Qed.

Lemma wfb_replace (n : tree) c (child2 : tree) :
  wfb n = true -> wfb child2 = true -> starts_with c (t_path child2) = true ->
  wfb (set_statics V n (replace_static V c child2 (t_statics n))) = true.
Proof.
  intros Hw Hw2 Hs. apply wfb_parts in Hw as (H1 & H2 & H3 & H4 & H5).
  destruct n as [p st w cc vs ks b]. apply wfb_build; cbn [set_statics t_statics t_wild t_catch t_vals t_keys t_bt] in *; try assumption.
  - rewrite indices_distinct_replace. exact H1.
  - apply wf_statics_replace; assumption.
Qed.

Lemma wfb_remove (n : tree) c : wfb n = true -> wfb (set_statics V n (remove_static c (t_statics n))) = true.
Proof.
  intros Hw. apply wfb_parts in Hw as (H1 & H2 & H3 & H4 & H5).
  destruct n as [p st w cc vs ks b]. apply wfb_build; cbn [set_statics t_statics t_wild t_catch t_vals t_keys t_bt] in *; try assumption.
  - apply indices_distinct_remove. exact H1.
  - unfold wf_statics. apply forallb_remove. exact H3.
Qed.

(** a child [child2] (path [c :: a']) in the place of [child] (path [c :: cp']) *)
Lemma lift_static_put (n : tree) c child cp' (child2 : tree) a' (D' : db) q0 y :
  wfb n = true -> find_static c (t_statics n) = Some child -> t_path child = c :: cp' ->
  wfb child2 = true -> t_path child2 = c :: a' ->
  same_entries V (map (pre (lits cp')) D') (map (pre (lits a')) (abs child2)) ->
  updated V (abs child) D' q0 y ->
  let n' := set_statics V n (replace_static V c child2 (t_statics n)) in
  wfb n' = true /\ updated V (abs n) (abs n') (L c :: lits cp' ++ q0) y.
Proof.
  intros Hw Hf Hcp Hw2 Hp2 Hsame Hu n'.
  assert (Hw' : wfb n' = true).
  { apply wfb_replace; [assumption | assumption |]. rewrite Hp2. cbn. apply Ascii.eqb_refl. }
  split; [exact Hw'|].
  assert (Hst : t_statics n' = replace_static V c child2 (t_statics n)) by (destruct n; reflexivity).
  eapply (lift_static n n' c child cp' D' q0 y Hw Hw' Hf Hcp); try (destruct n; reflexivity).
  - intros c0 H0. rewrite Hst, find_static_replace, H0. reflexivity.
  - rewrite Hst, find_static_replace, Ascii.eqb_refl, Hf, Hp2. cbn [tl]. exact Hsame.
  - exact Hu.
Qed.

(** the child [child] (path [c :: cp']) removed *)
Lemma lift_static_drop (n : tree) c child cp' (D' : db) q0 y :
  wfb n = true -> find_static c (t_statics n) = Some child -> t_path child = c :: cp' ->
  D' = [] -> updated V (abs child) D' q0 y ->
  let n' := set_statics V n (remove_static c (t_statics n)) in
  wfb n' = true /\ updated V (abs n) (abs n') (L c :: lits cp' ++ q0) y.
Proof.
  intros Hw Hf Hcp HD Hu n'. subst D'.
  assert (Hw' : wfb n' = true) by (apply wfb_remove; assumption).
  split; [exact Hw'|].
  assert (Hst : t_statics n' = remove_static c (t_statics n)) by (destruct n; reflexivity).
  pose proof Hw as Hp. apply wfb_parts in Hp as (H1 & _).
  eapply (lift_static n n' c child cp' [] q0 y Hw Hw' Hf Hcp); try (destruct n; reflexivity).
  - intros c0 H0. rewrite Hst, (find_static_remove V c0 c _ H1), H0. reflexivity.
  - rewrite Hst, (find_static_remove V c c _ H1), Ascii.eqb_refl. intro r. reflexivity.
  - exact Hu.
Qed.

(** the single-wildcard child removed *)
Lemma lift_wild_clear (n w : tree) q y :
  wfb n = true -> t_wild n = Some w -> updated V (abs w) [] q y ->
  wfb (clear_wild n) = true /\ updated V (abs n) (abs (clear_wild n)) (W :: q) y.
Proof.
  intros Hw Hwi Hu. pose proof Hw as Hp. apply wfb_parts in Hp as (H1 & H2 & H3 & H4 & H5).
  assert (Hw' : wfb (clear_wild n) = true).
  { destruct n as [p st w0 c vs ks b]. apply wfb_build; cbn [clear_wild t_statics t_wild t_catch t_vals t_keys t_bt] in *; try assumption. reflexivity. }
  split; [exact Hw'|].
  pose proof Hw' as Hp'. apply wfb_parts in Hp' as (H1' & _ & H3' & _).
  apply updated_cons.
  - apply here_abs_eq; try assumption; destruct n; reflexivity.
  - intros t' Ht r. destruct t' as [c0| |]; [| discriminate |].
    + rewrite (deriv_L_abs V c0 _ H1 H3), (deriv_L_abs V c0 _ H1' H3'). destruct n; reflexivity.
    + rewrite (deriv_C_abs V _ H3), (deriv_C_abs V _ H3'). destruct n; reflexivity.
  - rewrite (deriv_W_abs V _ H3), (deriv_W_abs V _ H3'), Hwi.
    replace (t_wild (clear_wild n)) with (@None tree) by (destruct n; reflexivity). exact Hu.
Qed.

(** the free-wildcard child removed *)
Lemma lift_catch_clear (n : tree) :
  wfb n = true ->
  wfb (clear_catch n) = true /\ updated V (abs n) (abs (clear_catch n)) [C] None.
Proof.
  intros Hw. pose proof Hw as Hp. apply wfb_parts in Hp as (H1 & H2 & H3 & H4 & H5).
  assert (Hw' : wfb (clear_catch n) = true).
  { destruct n as [p st w0 c vs ks b]. apply wfb_build; cbn [clear_catch t_statics t_wild t_catch t_vals t_keys t_bt] in *; try assumption. reflexivity. }
  split; [exact Hw'|].
  pose proof Hw' as Hp'. apply wfb_parts in Hp' as (H1' & _ & H3' & _).
  apply updated_cons.
  - apply here_abs_eq; try assumption; destruct n; reflexivity.
  - intros t' Ht r. destruct t' as [c0| |]; [| | discriminate].
    + rewrite (deriv_L_abs V c0 _ H1 H3), (deriv_L_abs V c0 _ H1' H3'). destruct n; reflexivity.
    + rewrite (deriv_W_abs V _ H3), (deriv_W_abs V _ H3'). destruct n; reflexivity.
  - rewrite (deriv_C_abs V _ H3), (deriv_C_abs V _ H3').
    replace (t_catch (clear_catch n)) with (@None tree) by (destruct n; reflexivity).
    intro r. cbn [assoc]. destruct r as [|t r]; [reflexivity|]. change (pat_eqb (t :: r) []) with false. cbv iota.
    destruct (t_catch n); [rewrite same_entries_nil_here_entry by discriminate|]; reflexivity.
Qed.

(** the node itself loses its last value *)
Definition emptied (n : tree) : tree :=
  {| t_path := t_path n; t_statics := t_statics n; t_wild := t_wild n; t_catch := t_catch n;
     t_vals := []; t_keys := []; t_bt := true |}.

Lemma lift_here_clear (n : tree) :
  wfb n = true -> wfb (emptied n) = true /\ updated V (abs n) (abs (emptied n)) [] None.
Proof.
  intros Hw. pose proof Hw as Hp. apply wfb_parts in Hp as (H1 & H2 & H3 & H4 & H5).
  assert (Hw' : wfb (emptied n) = true).
  { apply wfb_build; cbn [emptied t_statics t_wild t_catch t_vals t_keys t_bt]; try assumption; try reflexivity.
    unfold wf_catch in *. cbn [emptied t_catch t_vals t_bt]. destruct (t_catch n) as [c0|]; [|reflexivity].
    apply andb_true_iff in H5 as [H5 _]. rewrite H5. reflexivity. }
  split; [exact Hw'|].
  assert (Hs' : wf_statics V (t_statics (emptied n)) = true) by exact H3.
  assert (Hi' : indices_distinct V (t_statics (emptied n)) = true) by exact H1.
  apply updated_nil.
  - rewrite (here_abs' V _ Hs'). reflexivity.
  - intros t r. destruct t as [c0| |].
    + rewrite (deriv_L_abs V c0 _ H1 H3), (deriv_L_abs V c0 _ Hi' Hs'). reflexivity.
    + rewrite (deriv_W_abs V _ H3), (deriv_W_abs V _ Hs'). reflexivity.
    + rewrite (deriv_C_abs V _ H3), (deriv_C_abs V _ Hs'). reflexivity.
Qed.

(** a node without values and without children stands for nothing *)
Lemma abs_empty_leaf (n : tree) : t_vals n = [] -> is_leaf V n = true -> abs n = [].
Proof.
  intros Hv Hl. rewrite abs_unfold. unfold here_entry. rewrite Hv. unfold is_leaf in Hl.
  apply andb_true_iff in Hl as [Hl Hc]. apply andb_true_iff in Hl as [Hs Hw].
  destruct (t_statics n); [|discriminate]. destruct (t_wild n); [discriminate|]. destruct (t_catch n); [discriminate|].
  reflexivity.
Qed.

End Lift.

Arguments emptied {V}.
