(** C06/DbFacts.v — the abstract index as a finite map: [get] after [add] and
    [delete], and extensionality of strictly ordered association lists. *)
From HV Require Import Base.Prelude C06.Pat C06.Model.

Ltac splits := repeat match goal with |- _ /\ _ => split end.

(** ** strictly ordered association lists *)

Definition below (p : pat) (d : db) : Prop := forall q n, In (q, n) d -> pat_cmp p q = Lt.

Fixpoint sorted (d : db) : Prop :=
  match d with
  | [] => True
  | (p, _) :: r => below p r /\ sorted r
  end.

Lemma below_get_none p d : below p d -> get d p = None.
Proof.
  induction d as [|[q n] r IH]; simpl; intro H; [reflexivity|].
  destruct (pat_eqb p q) eqn:E.
  - apply pat_eqb_eq in E. subst q. specialize (H p n (or_introl eq_refl)).
    rewrite pat_cmp_refl in H. discriminate.
  - apply IH. intros q' n' Hin. apply (H q' n'). right. exact Hin.
Qed.

Lemma below_trans p q d : pat_cmp p q = Lt -> below q d -> below p d.
Proof. intros H B x n Hin. eapply pat_cmp_trans; [exact H | eapply B; exact Hin]. Qed.

Lemma get_in d p n : get d p = Some n -> In (p, n) d.
Proof.
  induction d as [|[q m] r IH]; simpl; [discriminate|].
  destruct (pat_eqb p q) eqn:E.
  - apply pat_eqb_eq in E. subst q. intro H. inversion H. left. reflexivity.
  - intro H. right. apply IH. exact H.
Qed.

Lemma in_get d p n : sorted d -> In (p, n) d -> get d p = Some n.
Proof.
  induction d as [|[q m] r IH]; simpl; [tauto|].
  intros [B S] [H|H].
  - inversion H; subst. rewrite pat_eqb_refl. reflexivity.
  - destruct (pat_eqb p q) eqn:E.
    + apply pat_eqb_eq in E. subst q. specialize (B p n H). rewrite pat_cmp_refl in B. discriminate.
    + apply IH; assumption.
Qed.

Lemma below_get_lt p d q n : below p d -> get d q = Some n -> pat_cmp p q = Lt.
Proof. intros B H. apply get_in in H. eapply B. exact H. Qed.

(** two strictly ordered lists with the same content are equal *)
Lemma db_ext d1 : forall d2, sorted d1 -> sorted d2 -> (forall q, get d1 q = get d2 q) -> d1 = d2.
Proof.
  induction d1 as [|[p n] r1 IH]; intros [|[q m] r2] S1 S2 H.
  - reflexivity.
  - specialize (H q). simpl in H. rewrite pat_eqb_refl in H. discriminate.
  - specialize (H p). simpl in H. rewrite pat_eqb_refl in H. discriminate.
  - simpl in S1, S2. destruct S1 as [B1 S1]. destruct S2 as [B2 S2].
    assert (Epq : p = q).
    { destruct (pat_cmp p q) eqn:C.
      - apply pat_cmp_eq in C. exact C.
      - (* p < q: p is not in the second list *)
        pose proof (H p) as Hp. simpl in Hp. rewrite pat_eqb_refl in Hp.
        destruct (pat_eqb p q) eqn:E; [apply pat_eqb_eq in E; exact E|].
        symmetry in Hp. apply (below_get_lt q r2 p n B2) in Hp.
        apply pat_cmp_gt_lt in Hp. congruence.
      - pose proof (H q) as Hq. simpl in Hq. rewrite pat_eqb_refl in Hq.
        destruct (pat_eqb q p) eqn:E; [apply pat_eqb_eq in E; congruence|].
        apply (below_get_lt p r1 q m B1) in Hq. congruence. }
    subst q.
    pose proof (H p) as Hp. simpl in Hp. rewrite pat_eqb_refl in Hp. inversion Hp; subst m.
    f_equal. apply IH; try assumption.
    intro x. specialize (H x). simpl in H.
    destruct (pat_eqb x p) eqn:E; [|exact H].
    apply pat_eqb_eq in E. subst x. rewrite (below_get_none p r1 B1), (below_get_none p r2 B2). reflexivity.
Qed.

(** ** [add] *)

Ltac split4 := split; [|split; [|split]].

Lemma add_spec d : forall p v bt, sorted d ->
  match add d p v bt with
  | Some d' => can_add (vals_at d p) v = true /\ sorted d' /\
               (forall x, below x d -> pat_cmp x p = Lt -> below x d') /\
               forall q, get d' q = if pat_eqb q p then Some {| vals := vals_at d p ++ [v]; flag := bt |} else get d q
  | None => can_add (vals_at d p) v = false
  end.
Proof.
  induction d as [|[q n] r IH]; intros p v bt S.
  - simpl. split4.
    + reflexivity.
    + split; [intros y m []|exact I].
    + intros x _ Hx y m [E|[]]. inversion E; subst. exact Hx.
    + intro y. unfold vals_at. simpl. destruct (pat_eqb y p); reflexivity.
  - simpl in S. destruct S as [B S]. simpl. unfold vals_at. simpl.
    destruct (pat_cmp p q) eqn:C.
    + apply pat_cmp_eq in C. subst q. rewrite pat_eqb_refl.
      destruct (can_add (vals n) v) eqn:CA; [|reflexivity].
      split4.
      * reflexivity.
      * simpl. split; assumption.
      * intros x Bx Hx y m [E|Hin]; [inversion E; subst; exact Hx | apply (Bx y m); right; exact Hin].
      * intro y. simpl. destruct (pat_eqb y p); reflexivity.
    + assert (E : pat_eqb p q = false) by (apply pat_eqb_neq; apply pat_cmp_lt_neq; exact C).
      rewrite E. rewrite (below_get_none p r (below_trans _ _ _ C B)).
      split4.
      * reflexivity.
      * simpl. split; [|split; assumption].
        intros y m [E'|Hin]; [inversion E'; subst; exact C|]. eapply pat_cmp_trans; [exact C | apply (B y m Hin)].
      * intros x Bx Hx y m [E'|Hin]; [inversion E'; subst; exact Hx | apply (Bx y m Hin)].
      * intro y. simpl. destruct (pat_eqb y p) eqn:Ey; [reflexivity|]. reflexivity.
    + assert (E : pat_eqb p q = false).
      { apply pat_eqb_neq. intro; subst. rewrite pat_cmp_refl in C. discriminate. }
      rewrite E. specialize (IH p v bt S). unfold vals_at in IH.
      destruct (add r p v bt) as [r'|]; [|exact IH].
      destruct IH as (CA & S' & Bl & G). split4.
      * exact CA.
      * simpl. split; [|exact S']. apply Bl; [exact B|]. apply pat_cmp_gt_lt. exact C.
      * intros x Bx Hx y m [E'|Hin].
        -- inversion E'; subst. apply (Bx y m). left. reflexivity.
        -- assert (Bxr : below x r) by (intros a b Hab; apply (Bx a b); right; exact Hab).
           apply (Bl x Bxr Hx y m Hin).
      * intro y. simpl. rewrite G. destruct (pat_eqb y q) eqn:Ey; [|reflexivity].
        apply pat_eqb_eq in Ey. subst y. rewrite (pat_eqb_sym q p), E. reflexivity.
Qed.

(** ** [delete] *)

Lemma delete_spec d : forall p f, sorted d ->
  let vs := filter (fun v => negb (f v)) (vals_at d p) in
  match delete d p f with
  | Some d' => length vs <> length (vals_at d p) /\ sorted d' /\
               (forall x, below x d -> below x d') /\
               forall q, get d' q =
                 if pat_eqb q p then
                   match vs with
                   | [] => None
                   | _ => Some {| vals := vs; flag := match get d p with Some n => flag n | None => false end |}
                   end
                 else get d q
  | None => length vs = length (vals_at d p)
  end.
Proof.
  induction d as [|[q n] r IH]; intros p f S; simpl.
  - reflexivity.
  - simpl in S. destruct S as [B S]. unfold vals_at. simpl.
    destruct (pat_eqb p q) eqn:E.
    + apply pat_eqb_eq in E. subst q.
      destruct (Nat.eqb (length (filter (fun v => negb (f v)) (vals n))) (length (vals n))) eqn:EL.
      * apply Nat.eqb_eq in EL. exact EL.
      * apply Nat.eqb_neq in EL.
        destruct (filter (fun v => negb (f v)) (vals n)) as [|v0 vs0] eqn:EF.
        -- split4.
           ++ exact EL.
           ++ exact S.
           ++ intros x Bx y m Hin. apply (Bx y m). right. exact Hin.
           ++ intro y. destruct (pat_eqb y p) eqn:Ey; [|reflexivity].
              apply pat_eqb_eq in Ey. subst y. apply below_get_none. exact B.
        -- split4.
           ++ exact EL.
           ++ simpl. split; assumption.
           ++ intros x Bx y m [E'|Hin]; [inversion E'; subst; apply (Bx y n); left; reflexivity | apply (Bx y m); right; exact Hin].
           ++ intro y. simpl. destruct (pat_eqb y p); reflexivity.
    + specialize (IH p f S). unfold vals_at in IH. simpl in IH.
      destruct (delete r p f) as [r'|]; [|exact IH].
      destruct IH as (NL & S' & Bl & G). split4.
      * exact NL.
      * simpl. split; [apply Bl; exact B | exact S'].
      * intros x Bx y m [E'|Hin].
        -- inversion E'; subst. apply (Bx y m). left. reflexivity.
        -- assert (Bxr : below x r) by (intros a b Hab; apply (Bx a b); right; exact Hab).
           apply (Bl x Bxr y m Hin).
      * intro y. simpl. rewrite G. destruct (pat_eqb y q) eqn:Ey; [|reflexivity].
        apply pat_eqb_eq in Ey. subst y. rewrite (pat_eqb_sym q p), E. reflexivity.
Qed.
