(** C06/Processor.v — the repair of C06-F6 (fixes/C06-F6.diff): the rule-set
    processor refuses a rule set in which a rule id occurs twice, before the
    repository sees it.  In the model that is the layer around [step]: such a
    creation / update is [Refused].  With it, "no duplicate ids" is no longer a
    hypothesis on the history but a consequence of acceptance. *)
From HV Require Import Base.Prelude C06.Pat C06.Model C06.Spec C06.Tree C06.ReprFacts C06.Proofs C06.Witness C06.TreeTheorems.

(** the operation brings a rule set with a duplicate rule id *)
Definition dup_op (o : op) : bool := dupid_set (op_set o).

(** ruleset_processor_impl.go loadRules with the repair ([f6] = true) *)
Definition pstep (f6 : bool) (fx : fixes) (st : repo) (o : op) : repo * option err :=
  if f6 && dup_op o then (st, Some ELoad) else step fx st o.

Definition t_pstep (f6 : bool) (fx : fixes) (st : trepo) (o : op) : trepo * option err :=
  if f6 && dup_op o then (st, Some ELoad) else t_step fx st o.

Definition prun (f6 : bool) (fx : fixes) (ops : list op) : repo :=
  fold_left (fun st o => fst (pstep f6 fx st o)) ops empty.

Definition t_prun (f6 : bool) (fx : fixes) (ops : list op) : trepo :=
  fold_left (fun st o => fst (t_pstep f6 fx st o)) ops t_empty_repo.

(** what the processor makes of the history: the refused operations *)
Definition san1 (o : op) : op := if dup_op o then Refused (op_src o) else o.
Definition san (ops : list op) : list op := map san1 ops.

(** the specification of the repaired system: a rule set with a duplicate rule id
    cannot be applied *)
Definition pspec_ok (S : sets) (o : op) : bool := negb (dup_op o) && spec_ok S o.
Definition pcurrent (ops : list op) : sets := current (san ops).
Definition pwf (ops : list op) : bool := wf_history (san ops).
Definition pdirty (ops : list op) : list nat := dirty (san ops).

Lemma pstep_san fx st o : pstep true fx st o = step fx st (san1 o).
Proof. unfold pstep, san1. simpl. destruct (dup_op o); reflexivity. Qed.

Lemma t_pstep_san fx st o : t_pstep true fx st o = t_step fx st (san1 o).
Proof. unfold t_pstep, san1. simpl. destruct (dup_op o); reflexivity. Qed.

Lemma prun_san fx ops : prun true fx ops = run fx (san ops).
Proof.
  unfold prun, run, run_from, san. generalize empty.
  induction ops as [|o ops IH]; intro st; simpl; [reflexivity|]. rewrite pstep_san. apply IH.
Qed.

Lemma t_prun_san fx ops : t_prun true fx ops = t_run_fx fx (san ops).
Proof.
  unfold t_prun, t_run_fx, san. generalize t_empty_repo.
  induction ops as [|o ops IH]; intro st; simpl; [reflexivity|]. rewrite t_pstep_san. apply IH.
Qed.

Lemma pspec_ok_san S o : pspec_ok S o = spec_ok S (san1 o).
Proof. unfold pspec_ok, san1. destruct (dup_op o); reflexivity. Qed.

Lemma san1_no_dup o : dupid_set (op_set (san1 o)) = false.
Proof. unfold san1. destruct (dup_op o) eqn:E; [reflexivity | exact E]. Qed.

(** no refused-or-kept operation brings duplicate ids *)
Lemma guard_dupid_san ops : guard_dupid (san ops) = false.
Proof.
  unfold guard_dupid, san. induction ops as [|o ops IH]; simpl; [reflexivity|].
  rewrite san1_no_dup. exact IH.
Qed.

Lemma san_app a b : san (a ++ b) = san a ++ san b.
Proof. apply map_app. Qed.

(** ** the theorems for the tree with the repair of C06-F6: no hypothesis on ids *)

Theorem f6_history_equals_fresh ops : pwf ops = true -> pdirty ops = [] ->
  index (prun true all_fix ops) = index (fresh all_fix (pcurrent ops)).
Proof.
  intros W D. rewrite prun_san. apply now_history_equals_fresh; [exact W | apply guard_dupid_san | exact D].
Qed.

Theorem f6_lookups_equal_fresh ops : pwf ops = true -> pdirty ops = [] ->
  forall pinned_lookup path m,
    find_rule pinned_lookup (index (prun true all_fix ops)) path m =
    find_rule pinned_lookup (index (fresh all_fix (pcurrent ops))) path m.
Proof. intros W D fa path m. rewrite (f6_history_equals_fresh ops W D). reflexivity. Qed.

Theorem f6_rejected_iff_cannot_apply ops o : pwf (ops ++ [o]) = true ->
  exists st' res, pstep true all_fix (prun true all_fix ops) o = (st', res) /\
    (res = None <-> pspec_ok (pcurrent ops) o = true) /\ (res <> None -> st' = prun true all_fix ops).
Proof.
  intro W. unfold pwf in W. rewrite san_app in W. simpl in W.
  rewrite pstep_san, prun_san, pspec_ok_san. unfold pcurrent.
  apply now_rejected_iff_cannot_apply; [exact W|].
  change [san1 o] with (san [o]). rewrite <- san_app. apply guard_dupid_san.
Qed.

Theorem f6_found_is_current ops : pwf ops = true ->
  forall pinned_lookup path m r, find_rule pinned_lookup (index (prun true all_fix ops)) path m = Some r ->
    In (r_def r) (get_set (pcurrent ops) (r_src r)).
Proof. intro W. rewrite prun_san. apply now_found_is_current; [exact W | apply guard_dupid_san]. Qed.

Theorem f6_current_rules_indexed ops : pwf ops = true ->
  forall r x p, In (r_def r) (get_set (pcurrent ops) (r_src r)) -> In x (routes_of r) -> rpat x = Some p ->
    exists n, get (index (prun true all_fix ops)) p = Some n /\ In x (vals n).
Proof. intro W. rewrite prun_san. apply now_current_rules_indexed; [exact W | apply guard_dupid_san]. Qed.

(** and on the transcribed radix tree *)
Theorem f6_tree_history_equals_fresh ops : pwf ops = true -> pdirty ops = [] ->
  forall path (conditions : route -> bool),
    t_find_rule false (index (t_prun true all_fix ops)) path conditions =
    t_find_rule false (index (t_run_fx all_fix (fresh_ops (pcurrent ops)))) path conditions.
Proof.
  intros W D. rewrite t_prun_san. apply tree_history_equals_fresh; [exact W | apply guard_dupid_san | exact D].
Qed.

(** a rule set with a duplicate id is refused and changes nothing *)
Theorem f6_duplicate_ids_refused fx st o : dup_op o = true -> pstep true fx st o = (st, Some ELoad).
Proof. intro H. unfold pstep. rewrite H. reflexivity. Qed.

(** the witness of C06-F6 with the repair: the update with the twin is refused,
    the unchanged rule keeps answering, history = fresh *)
Example f6_repaired_example :
  pwf w_F6_now = true /\ pdirty w_F6_now = [] /\
  m_answer (prun true all_fix w_F6_now) 0 "/p" = Some 0 /\
  m_answer (fresh all_fix (pcurrent w_F6_now)) 0 "/p" = Some 0 /\
  t_answer (t_prun true all_fix w_F6_now) 0 "/p" = Some 0.
Proof. vm_compute. repeat split; reflexivity. Qed.

Theorem f6_node_has_one_source ops : pwf ops = true ->
  forall q n x y, get (index (prun true all_fix ops)) q = Some n -> In x (vals n) -> In y (vals n) -> rt_src x = rt_src y.
Proof. intro W. rewrite prun_san. apply now_node_has_one_source; [exact W | apply guard_dupid_san]. Qed.

(** key names and captured values too (findNode as transcribed with them in
    Radix/Tree.v, run on the tree of C06/Tree.v) *)
Theorem f6_tree_captures_equal_fresh ops : pwf ops = true -> pdirty ops = [] ->
  forall path (conditions : Radix.Spec.matcher route),
    Radix.Tree.tree_find true true true conditions (TreeBridge.emb (index (t_prun true all_fix ops))) path =
    Radix.Tree.tree_find true true true conditions
      (TreeBridge.emb (index (t_run_fx all_fix (fresh_ops (pcurrent ops))))) path.
Proof.
  intros W D. rewrite t_prun_san. apply tree_captures_equal_fresh; [exact W | apply guard_dupid_san | exact D].
Qed.

(** without the check ([f6] = false) the layer is the bare repository *)
Lemma prun_false fx ops : prun false fx ops = run fx ops.
Proof. reflexivity. Qed.

(** ** witnesses for the system as it is now *)

Local Open Scope string_scope.

Lemma w_F1_f6 : pwf w_F1 = true /\ guard_F1 w_F1 = true /\ pdirty w_F1 = [0] /\
  m_answer (prun true all_fix w_F1) 0 "/x" = Some 10 /\ m_answer (fresh all_fix (pcurrent w_F1)) 0 "/x" = Some 1.
Proof. vm_compute. repeat split; reflexivity. Qed.

Lemma w_F2_f6 : pwf w_F2 = true /\ guard_F2 w_F2 = true /\ pdirty w_F2 = [0; 0; 0] /\
  m_answer (prun true all_fix w_F2) 0 "/y" = Some 20 /\ m_answer (fresh all_fix (pcurrent w_F2)) 0 "/y" = None.
Proof. vm_compute. repeat split; reflexivity. Qed.

(** a refused update (duplicate id) between accepted operations: it leaves no trace *)
Definition w_refused : list op :=
  [Add 0 [mkd 0 0 false [] ["/p"]; mkd 1 0 false [0] ["/q/:p1"]];
   Update 0 [mkd 0 1 false [] ["/p"]; mkd 0 9 false [] ["/r"]];
   Add 1 [mkd 0 0 false [] ["/r"]];
   Update 0 [mkd 0 1 false [] ["/p"]; mkd 1 0 false [0] ["/q/:p1"]; mkd 2 0 false [] ["/s"]];
   Update 1 [mkd 0 0 false [] ["/r"]; mkd 0 0 false [] ["/r"]];
   Delete 1].

Lemma w_refused_ok : pwf w_refused = true /\ pdirty w_refused = [] /\ guard_dupid w_refused = true /\
  length (pcurrent w_refused) = 1 /\ length (index (prun true all_fix w_refused)) = 3 /\
  snd (pstep true all_fix (prun true all_fix (firstn 1 w_refused)) (nth 1 w_refused (Delete 0))) = Some ELoad /\
  m_answer (prun true all_fix (firstn 2 w_refused)) 0 "/p" = Some 0 /\
  m_answer (prun true all_fix w_refused) 0 "/p" = Some 1 /\ m_answer (prun true all_fix w_refused) 0 "/r" = None.
Proof. vm_compute. repeat split; reflexivity. Qed.

Lemma w_main_f6 : pwf w_plain = true /\ pdirty w_plain = [] /\ pwf w_reset = true /\ pdirty w_reset = [] /\
  pwf w_now = true /\ pdirty w_now = [].
Proof. vm_compute. repeat split; reflexivity. Qed.
