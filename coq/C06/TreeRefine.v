(** C06/TreeRefine.v — from the compressed radix tree (Radix/Tree.v + C06/TreeDel.v, with
    routes as values) to the abstract index of C06/Model.v, the one the C06 theorems are
    about.

    [trel t d]: the tree satisfies [wfd], and entry by entry the abstraction of the tree and
    the abstract index hold the same values and flag; the wildcard key names a tree node
    carries are those of (every one of) its values — which is how C06/Model.v computes
    them ([keys_fit]).

      [sim_add]     one Add of a route: same outcome (ok / invalid path / constraint), [trel] kept
      [sim_del]     one Delete of a route with a valid expression: same outcome, [trel] kept
      [sim_find]    every lookup finds the same route

    C06/Pat.v is a copy of Radix/Spec.v's tokens and parser (two inductive types);
    [parse_expr_cv] shows that the two parsers are the same function up to the renaming
    [cv] of the constructors. *)
From HV Require Import Base.Prelude Radix.Spec Radix.SpecProofs Radix.Machine Radix.MachineProofs
  Radix.Load Radix.LoadProofs Radix.Tree Radix.TreeProofs Radix.TreeAddProofs
  C06.TreeDel C06.TreeDelFacts C06.TreeDelProofs C06.TreeAddShape.
From HV Require C06.Pat C06.Model C06.DbFacts.

Notation route := C06.Model.route.
Notation rt_path := C06.Model.rt_path.

(** ** the two copies of the pattern language *)

Definition cv (t : tok) : C06.Pat.tok :=
  match t with L c => C06.Pat.L c | W => C06.Pat.W | C => C06.Pat.C end.
Definition cvp (p : pat) : C06.Pat.pat := map cv p.
Definition cvm (md : pmode) : C06.Pat.pmode :=
  match md with SegStart => C06.Pat.SegStart | InSeg => C06.Pat.InSeg | InName => C06.Pat.InName end.

Definition cv_res (o : option (pat * str * list str)) : option (C06.Pat.pat * C06.Pat.str * list C06.Pat.str) :=
  match o with Some (p, cur, ks) => Some (cvp p, cur, ks) | None => None end.

Lemma has_slash_same s : C06.Pat.has_slash s = has_slash s.
Proof. reflexivity. Qed.

Lemma parse_go_cv_n n : forall s md, length s <= n -> C06.Pat.parse_go (cvm md) s = cv_res (parse_go md s).
Proof.
  induction n as [|n IH]; intros s md Hl.
  - destruct s; [destruct md; reflexivity | simpl in Hl; lia].
  - destruct s as [|c r]; [destruct md; reflexivity|]. simpl in Hl.
    assert (Hr : forall md', C06.Pat.parse_go (cvm md') r = cv_res (parse_go md' r)) by (intro md'; apply IH; lia).
    pose proof (Hr SegStart) as HrS. pose proof (Hr InSeg) as HrI. pose proof (Hr InName) as HrN. cbn [cvm] in HrS, HrI, HrN.
    cbn [C06.Pat.parse_go parse_go]. change C06.Pat.ch_slash with ch_slash.
    destruct (Ascii.eqb c ch_slash).
    { rewrite HrS. destruct (parse_go SegStart r) as [[[p cur] ks]|]; reflexivity. }
    destruct md; cbn [cvm].
    + change C06.Pat.ch_star with ch_star. change C06.Pat.ch_colon with ch_colon. change C06.Pat.ch_bslash with ch_bslash.
      destruct (Ascii.eqb c ch_star).
      { rewrite has_slash_same. destruct (has_slash r); reflexivity. }
      destruct (Ascii.eqb c ch_colon).
      { rewrite HrN. destruct (parse_go InName r) as [[[p cur] ks]|]; reflexivity. }
      assert (Hlit : forall c' r', length r' <= n ->
                match C06.Pat.parse_go C06.Pat.InSeg r' with
                | Some (p, _, ks) => Some (C06.Pat.L c' :: p, @nil ascii, ks)
                | None => None
                end = cv_res (match parse_go InSeg r' with
                              | Some (p, _, ks) => Some (L c' :: p, @nil ascii, ks)
                              | None => None
                              end)).
      { intros c' r' Hl'. pose proof (IH r' InSeg Hl') as Hq. cbn [cvm] in Hq. rewrite Hq. destruct (parse_go InSeg r') as [[[p cur] ks]|]; reflexivity. }
      destruct (Ascii.eqb c ch_bslash).
      * destruct r as [|c2 r2]; [apply Hlit; simpl; lia|].
        change (C06.Pat.is_special c2) with (is_special c2). destruct (is_special c2); apply Hlit; simpl in *; lia.
      * apply Hlit. lia.
    + rewrite HrI. destruct (parse_go InSeg r) as [[[p cur] ks]|]; reflexivity.
    + rewrite HrN. destruct (parse_go InName r) as [[[p cur] ks]|]; reflexivity.
Qed.

Lemma parse_expr_cv s :
  C06.Pat.parse_expr s = match parse_expr s with Some (p, ks) => Some (cvp p, ks) | None => None end.
Proof.
  unfold C06.Pat.parse_expr, parse_expr. pose proof (parse_go_cv_n (length s) s SegStart (le_n _)) as H. cbn [cvm] in H. rewrite H.
  destruct (parse_go SegStart s) as [[[p cur] ks]|]; reflexivity.
Qed.

Lemma pat_of_cv s : C06.Pat.pat_of s = match parse_expr s with Some (p, _) => Some (cvp p) | None => None end.
Proof. unfold C06.Pat.pat_of. rewrite parse_expr_cv. destruct (parse_expr s) as [[p ks]|]; reflexivity. Qed.

Lemma tok_eqb_cv a b : C06.Pat.tok_eqb (cv a) (cv b) = tok_eqb a b.
Proof. destruct a, b; reflexivity. Qed.

Lemma pat_eqb_cv p : forall q, C06.Pat.pat_eqb (cvp p) (cvp q) = pat_eqb p q.
Proof.
  unfold C06.Pat.pat_eqb, pat_eqb, cvp.
  induction p as [|a p IH]; intros [|b q]; try reflexivity.
  cbn [map list_eqb]. rewrite tok_eqb_cv, IH. reflexivity.
Qed.

(** ** the number of key names of an expression is the number of its wildcards *)

Fixpoint nwild (p : pat) : nat :=
  match p with
  | [] => 0
  | L _ :: r => nwild r
  | _ :: r => S (nwild r)
  end.

Lemma parse_go_nwild_n n : forall s md p cur ks, length s <= n ->
  parse_go md s = Some (p, cur, ks) -> length ks = nwild p.
Proof.
  induction n as [|n IH]; intros s md p cur ks Hl H.
  - destruct s; [|simpl in Hl; lia]. simpl in H. inversion H. reflexivity.
  - destruct s as [|c r]; [simpl in H; inversion H; reflexivity|]. simpl in Hl. cbn [parse_go] in H.
    assert (Hlit : forall c' r', length r' <= n ->
              match parse_go InSeg r' with
              | Some (p0, _, ks0) => Some (L c' :: p0, @nil ascii, ks0)
              | None => None
              end = Some (p, cur, ks) -> length ks = nwild p).
    { intros c' r' Hl' H'. destruct (parse_go InSeg r') as [[[p0 cur0] ks0]|] eqn:E; [|discriminate].
      inversion H'; subst. cbn [nwild]. eapply IH; eassumption. }
    destruct (Ascii.eqb c ch_slash).
    { destruct (parse_go SegStart r) as [[[p0 cur0] ks0]|] eqn:E; [|discriminate]. inversion H; subst.
      cbn [nwild]. eapply IH; [|exact E]. lia. }
    destruct md.
    + destruct (Ascii.eqb c ch_star).
      { destruct (has_slash r); [discriminate|]. inversion H; subst. reflexivity. }
      destruct (Ascii.eqb c ch_colon).
      { destruct (parse_go InName r) as [[[p0 cur0] ks0]|] eqn:E; [|discriminate]. inversion H; subst.
        cbn [nwild length]. f_equal. eapply IH; [|exact E]. lia. }
      destruct (Ascii.eqb c ch_bslash).
      * destruct r as [|c2 r2]; [apply (Hlit c []); [simpl; lia | exact H]|].
        destruct (is_special c2); [apply (Hlit c2 r2) | apply (Hlit c (c2 :: r2))]; try exact H; simpl in *; lia.
      * apply (Hlit c r); [lia | exact H].
    + apply (Hlit c r); [lia | exact H].
    + destruct (parse_go InName r) as [[[p0 cur0] ks0]|] eqn:E; [|discriminate]. inversion H; subst.
      eapply IH; [|exact E]. lia.
Qed.

Lemma parse_expr_nwild s p ks : parse_expr s = Some (p, ks) -> length ks = nwild p.
Proof.
  unfold parse_expr. destruct (parse_go SegStart s) as [[[p0 cur] ks0]|] eqn:E; [|discriminate].
  intro H. inversion H; subst. eapply parse_go_nwild_n; [apply le_n | exact E].
Qed.

Lemma ends_C_nwild p : ends_C p = true -> 1 <= nwild p.
Proof.
  induction p as [|t r IH]; [discriminate|]. destruct t; cbn [nwild]; try lia.
  destruct r; [discriminate|]. intro H. apply IH. exact H.
Qed.

(** ** Add and Delete on the tree, entry by entry (any type of values) *)

Section Entries.
Variable V : Type.
Variable can_add : list V -> V -> bool.
Notation tree := (tree V).

Lemma parse2_of_expr e : parse2 SegStart e = parse_expr e.
Proof. unfold parse2, parse_expr. destruct (parse_go SegStart e) as [[[p cur] ks]|]; reflexivity. Qed.

(** Tree.Add with any sufficient fuel ([tree_add] uses [S (S (length e))], C06/Tree.v's [t_add] uses [S (length e)]) *)
Definition tree_add_f (f : nat) (t : tree) (e : str) (v : V) (flag : bool) : tres V :=
  add_node can_add f t e [] false v flag.

Lemma tree_add_entries f (t : tree) e v flag : wfd t = true -> length e < f ->
  match parse_expr e with
  | None => tree_add_f f t e v flag = TInvalid
  | Some (p, ks) =>
    let x := assoc p (abs t) in
    tkind V (tree_add_f f t e v flag) = Some (add_kind V can_add (ends_C p) x ks v) /\
    forall t', tree_add_f f t e v flag = TOk t' ->
      wfd t' = true /\ updated V (abs t) (abs t') p (upd' V can_add (ends_C p) x ks v flag)
  end.
Proof.
  intros Hwd Hl. unfold tree_add_f.
  pose proof (add_node_spec V can_add v flag f t e [] false (wfd_leaf_or V t Hwd) Hl) as H.
  unfold add_spec in H. cbn [mode] in H. rewrite parse2_of_expr in H.
  destruct (parse_expr e) as [[p ks]|]; [|exact H]. cbv zeta in H. cbn [app] in H. destruct H as [Hk Hok].
  split; [exact Hk|]. intros t' Ht'. destruct (Hok t' Ht') as (_ & _ & Hu). split; [|exact Hu].
  eapply add_node_wfd; eassumption.
Qed.

Lemma tree_delete_entries (fm : V -> bool) (t : tree) e p ks : wfd t = true -> parse_expr e = Some (p, ks) ->
  let x := assoc p (abs t) in
  match tree_delete fm t e with
  | None => del_upd fm x = None
  | Some t' => exists y, del_upd fm x = Some y /\ wfd t' = true /\ updated V (abs t) (abs t') p y
  end.
Proof.
  intros Hwd Hp. unfold tree_delete.
  pose proof (del_node_spec V fm (S (length e)) t e false Hwd ltac:(lia)) as H.
  unfold del_spec in H. cbn [mode] in H. rewrite parse2_of_expr, Hp in H. exact H.
Qed.

End Entries.

(** ** the relation between the tree and the abstract index of C06/Model.v *)

Notation mnode := C06.Model.node.
Notation mdb := C06.Model.db.
Notation tree := (Radix.Tree.tree route).
Notation node := (Radix.Spec.node route).
Notation db := (Radix.Spec.db route).

Definition strip (N : node) : mnode := {| C06.Model.vals := vals N; C06.Model.flag := flag N |}.

(** a node holds values, and its key names are those of each of its values *)
Definition key_inv (p : pat) (N : node) : Prop :=
  vals N <> [] /\ Forall (fun v => parse_expr (rt_path v) = Some (p, keys N)) (vals N).

Definition brel (D : db) (d : mdb) : Prop :=
  C06.DbFacts.sorted d /\
  forall p, match assoc p D with
            | Some N => C06.Model.get d (cvp p) = Some (strip N) /\ key_inv p N
            | None => C06.Model.get d (cvp p) = None
            end.

Definition trel (t : tree) (d : mdb) : Prop := wfd t = true /\ brel (abs t) d.

Lemma trel_empty : trel empty_tree [].
Proof. split; [reflexivity|]. split; [exact I|]. intro p. reflexivity. Qed.

(** *** key names *)

Lemma keys_fit_inv p N v ks : key_inv p N -> parse_expr (rt_path v) = Some (p, ks) ->
  C06.Model.keys_fit (vals N) v = keys_eqb (keys N) ks.
Proof.
  intros [Hne HF] Hv. unfold C06.Model.keys_fit.
  assert (Hall : forall x, In x (vals N) -> C06.Pat.keys_compat (rt_path x) (rt_path v) = keys_eqb (keys N) ks).
  { intros x Hx. rewrite Forall_forall in HF. specialize (HF x Hx). unfold C06.Pat.keys_compat.
    rewrite !parse_expr_cv, HF, Hv. rewrite pat_eqb_cv, pat_eqb_refl. reflexivity. }
  destruct (vals N) as [|x0 r]; [congruence|]. clear Hne HF.
  destruct (keys_eqb (keys N) ks) eqn:E.
  - apply forallb_forall. intros x Hx. rewrite Hall by exact Hx. reflexivity.
  - cbn [forallb]. rewrite (Hall x0 (or_introl eq_refl)). reflexivity.
Qed.

Lemma keys_eqb_eq a b : keys_eqb a b = true <-> a = b.
Proof. apply list_eqb_spec. apply str_eqb_eq. Qed.

Lemma merge_keys_inv p N e ks x0 : key_inv p N -> In x0 (vals N) -> parse_expr e = Some (p, ks) ->
  merge_keys' route (ends_C p) N ks = if keys_eqb (keys N) ks then Some ks else None.
Proof.
  intros [_ HF] Hx Hv. rewrite Forall_forall in HF. specialize (HF x0 Hx).
  pose proof (parse_expr_nwild _ _ _ HF) as L1. pose proof (parse_expr_nwild _ _ _ Hv) as L2.
  unfold merge_keys'. destruct (keys_eqb (keys N) ks) eqn:E.
  - apply keys_eqb_eq in E. rewrite E. destruct (ends_C p).
    + rewrite str_eqb_refl. replace (keys_eqb ks ks) with true by (symmetry; apply keys_eqb_eq; reflexivity).
      rewrite orb_true_r. reflexivity.
    + destruct ks as [|k1 ks1]; [reflexivity|]. replace (keys_eqb (k1 :: ks1) (k1 :: ks1)) with true by (symmetry; apply keys_eqb_eq; reflexivity).
      rewrite orb_true_r. reflexivity.
  - destruct (ends_C p) eqn:Ec.
    + apply ends_C_nwild in Ec. destruct (keys N) as [|k0 kr]; [simpl in L1; lia|]. cbn [is_nil orb]. rewrite andb_false_r. reflexivity.
    + destruct ks as [|k ks'].
      * destruct (keys N) as [|k0 kr]; [discriminate E | simpl in *; lia].
      * destruct (keys N) as [|k0 kr]; [simpl in *; lia|]. cbn [is_nil orb]. reflexivity.
Qed.

Lemma key_inv_in p N : key_inv p N -> exists x0, In x0 (vals N).
Proof. intros [Hne _]. destruct (vals N) as [|x0 r]; [congruence|]. exists x0. left. reflexivity. Qed.

(** one entry changed on both sides *)
Lemma brel_update (D D' : db) (d d' : mdb) p (newN : option node) :
  brel D d -> C06.DbFacts.sorted d' ->
  updated route D D' p newN ->
  (forall q, C06.Model.get d' q = if C06.Pat.pat_eqb q (cvp p) then option_map strip newN else C06.Model.get d q) ->
  match newN with Some N => key_inv p N | None => True end ->
  brel D' d'.
Proof.
  intros [_ HB] Hso Hu Hg Hk. split; [exact Hso|]. intro p0.
  rewrite (Hu p0), (Hg (cvp p0)), pat_eqb_cv. destruct (pat_eqb p0 p) eqn:E; [|apply HB].
  apply pat_eqb_eq in E. subst p0. destruct newN as [N|]; cbn [option_map]; auto.
Qed.

(** *** Add *)
Lemma sim_add f (t : tree) (d : mdb) (v : route) : trel t d -> length (rt_path v) < f ->
  match tree_add_f route C06.Model.can_add f t (rt_path v) v (C06.Model.rt_bt v), C06.Model.m_add1 d v with
  | TOk t', inl d' => trel t' d'
  | TInvalid, inr C06.Model.EInvalidPath => True
  | TConstraint, inr C06.Model.EConstraint => True
  | _, _ => False
  end.
Proof.
  intros [Hwd HBr] Hlf. pose proof HBr as [Hso HB].
  pose proof (tree_add_entries route C06.Model.can_add f t (rt_path v) v (C06.Model.rt_bt v) Hwd Hlf) as HA.
  unfold C06.Model.m_add1. rewrite pat_of_cv.
  destruct (parse_expr (rt_path v)) as [[p ks]|] eqn:Ep.
  2:{ rewrite HA. exact I. }
  cbv zeta in HA. destruct HA as [Hk Hok]. pose proof (HB p) as HBp.
  pose proof (C06.DbFacts.add_spec d (cvp p) v (C06.Model.rt_bt v) Hso) as HS.
  unfold C06.Model.vals_at in *.
  destruct (assoc p (abs t)) as [N|] eqn:EN.
  - destruct HBp as [Hg Hki]. rewrite Hg in *. cbn [strip C06.Model.vals] in *.
    rewrite (keys_fit_inv p N v ks Hki Ep).
    destruct (key_inv_in p N Hki) as [x0 Hx0].
    unfold add_kind in Hk. unfold upd' in Hok. rewrite (merge_keys_inv p N (rt_path v) ks x0 Hki Hx0 Ep) in Hk, Hok.
    destruct (keys_eqb (keys N) ks) eqn:Eke.
    2:{ destruct (tree_add_f _ _ _ _ _ _ _); try discriminate. exact I. }
    apply keys_eqb_eq in Eke.
    destruct (C06.Model.can_add (vals N) v) eqn:Eca.
    + destruct (tree_add_f _ _ _ _ _ _ _) as [t'| | |]; try discriminate.
      destruct (C06.Model.add d (cvp p) v (C06.Model.rt_bt v)) as [d'|]; [|congruence].
      destruct HS as (_ & Hso' & _ & Hget). destruct (Hok t' eq_refl) as [Hwd' Hu].
      split; [exact Hwd'|]. eapply brel_update; [exact HBr | exact Hso' | exact Hu | exact Hget |].
      destruct Hki as [Hne HF]. split; cbn [vals keys].
      * destruct (vals N); discriminate.
      * apply Forall_app. split; [rewrite <- Eke; exact HF | constructor; [exact Ep | constructor]].
    + destruct (tree_add_f _ _ _ _ _ _ _); try discriminate.
      destruct (C06.Model.add d (cvp p) v (C06.Model.rt_bt v)) as [d'|]; [destruct HS; congruence | exact I].
  - rewrite HBp in *. cbn [C06.Model.keys_fit forallb].
    unfold add_kind in Hk. unfold upd' in Hok. change (C06.Model.can_add [] v) with true in *. cbv iota in Hk, Hok.
    destruct (tree_add_f _ _ _ _ _ _ _) as [t'| | |]; try discriminate.
    destruct (C06.Model.add d (cvp p) v (C06.Model.rt_bt v)) as [d'|]; [|discriminate].
    destruct HS as (_ & Hso' & _ & Hget). destruct (Hok t' eq_refl) as [Hwd' Hu].
    split; [exact Hwd'|]. eapply brel_update; [exact HBr | exact Hso' | exact Hu | exact Hget |].
    split; cbn [vals keys]; [discriminate | constructor; [exact Ep | constructor]].
Qed.

(** *** Delete *)
Lemma sim_del (fm : route -> bool) (t : tree) (d : mdb) (e : str) p ks : trel t d -> parse_expr e = Some (p, ks) ->
  match tree_delete fm t e, C06.Model.delete d (cvp p) fm with
  | Some t', Some d' => trel t' d'
  | None, None => True
  | _, _ => False
  end.
Proof.
  intros [Hwd HBr] Ep. pose proof HBr as [Hso HB].
  pose proof (tree_delete_entries route fm t e p ks Hwd Ep) as HD. cbv zeta in HD.
  pose proof (C06.DbFacts.delete_spec d (cvp p) fm Hso) as HS. cbv zeta in HS.
  pose proof (HB p) as HBp. unfold C06.Model.vals_at in HS.
  destruct (assoc p (abs t)) as [N|] eqn:EN.
  - destruct HBp as [Hg Hki]. rewrite Hg in HS. cbn [strip C06.Model.vals C06.Model.flag] in HS.
    unfold del_upd in HD.
    destruct (Nat.eqb (length (filter (fun v => negb (fm v)) (vals N))) (length (vals N))) eqn:El.
    + apply Nat.eqb_eq in El. destruct (tree_delete fm t e) as [t'|]; [destruct HD as (y & Hy & _); discriminate|].
      destruct (C06.Model.delete d (cvp p) fm) as [d'|]; [destruct HS; congruence | exact I].
    + apply Nat.eqb_neq in El. destruct (tree_delete fm t e) as [t'|]; [|discriminate].
      destruct (C06.Model.delete d (cvp p) fm) as [d'|]; [|congruence].
      destruct HD as (y & Hy & Hwd' & Hu). inversion Hy; subst y. clear Hy.
      destruct HS as (_ & Hso' & _ & Hget). split; [exact Hwd'|].
      eapply brel_update; [exact HBr | exact Hso' | exact Hu | |].
      * intro q. rewrite (Hget q). destruct (C06.Pat.pat_eqb q (cvp p)); [|reflexivity].
        destruct (filter (fun v => negb (fm v)) (vals N)); reflexivity.
      * destruct (filter (fun v => negb (fm v)) (vals N)) as [|v1 vs1] eqn:Ef; [exact I|].
        destruct Hki as [_ HF]. split; cbn [vals keys]; [discriminate|].
        rewrite <- Ef. rewrite Forall_forall in *. intros x Hx. apply HF. apply filter_In in Hx. tauto.
  - rewrite HBp in HS. cbn [filter length] in HS. unfold del_upd in HD.
    destruct (tree_delete fm t e) as [t'|]; [destruct HD as (y & Hy & _); discriminate|].
    destruct (C06.Model.delete d (cvp p) fm) as [d'|]; [destruct HS as [HS _]; congruence | exact I].
Qed.

(** *** lookups *)

Definition cv_r (r : res route) : C06.Model.res :=
  match r with
  | RFound v _ _ => C06.Model.RFound v
  | RNotFound b => C06.Model.RNotFound b
  | ROutOfFuel => C06.Model.ROutOfFuel
  end.

Definition erel (D : db) (d : mdb) : Prop := forall p, option_map strip (assoc p D) = C06.Model.get d (cvp p).

Lemma brel_erel D d : brel D d -> erel D d.
Proof. intros [_ HB] p. specialize (HB p). destruct (assoc p D); [destruct HB as [HB _]|]; rewrite HB; reflexivity. Qed.

Lemma get_deriv t q (d : mdb) : C06.Model.get (C06.Model.deriv t d) q = C06.Model.get d (t :: q).
Proof.
  induction d as [|[p a] d IH]; [reflexivity|].
  unfold C06.Model.deriv in *. cbn [flat_map fst snd C06.Model.get]. destruct p as [|t' p']; cbn [app]; [exact IH|].
  change (C06.Pat.pat_eqb (t :: q) (t' :: p')) with (C06.Pat.tok_eqb t t' && C06.Pat.pat_eqb q p').
  destruct (C06.Pat.tok_eqb t t'); cbn [app andb C06.Model.get]; [|exact IH]. destruct (C06.Pat.pat_eqb q p'); [reflexivity | exact IH].
Qed.

Lemma here_get (d : mdb) : C06.Model.here d = C06.Model.get d [].
Proof.
  unfold C06.Model.here. induction d as [|[p a] d IH]; [reflexivity|]. cbn [flat_map fst snd C06.Model.get].
  destruct p; [reflexivity | exact IH].
Qed.

Lemma erel_deriv t D d : erel D d -> erel (deriv t D) (C06.Model.deriv (cv t) d).
Proof. intros H p. rewrite assoc_deriv, get_deriv. apply (H (t :: p)). Qed.

Lemma erel_here D d : erel D d -> option_map strip (here D) = C06.Model.here d.
Proof. intro H. rewrite <- assoc_nil_here, here_get. apply (H []). Qed.

Lemma mlookup_or_nil fa f m (d : mdb) path :
  (if is_nil d then C06.Model.RNotFound true else C06.Model.lookup fa (S f) m d path) = C06.Model.lookup fa (S f) m d path.
Proof. destruct d; [destruct path; reflexivity | reflexivity]. Qed.

Section Lookup.
Variable fa : bool.
Variable m : route -> bool.
Let m3 : matcher route := fun v _ _ => m v.

Lemma mlookup_cons f (d : mdb) c rest :
  C06.Model.lookup fa (S f) m d (c :: rest) =
  let path := c :: rest in
  let r1 := let d1 := C06.Model.deriv (C06.Pat.L c) d in
            if is_nil d1 then C06.Model.RNotFound true else C06.Model.lookup fa f m d1 rest in
  match r1 with
  | C06.Model.RNotFound true =>
    let r2 := let dw := C06.Model.deriv C06.Pat.W d in
              if is_nil dw then C06.Model.RNotFound true
              else let (seg, rest') := take_seg path in
                   match seg with
                   | [] => C06.Model.RNotFound true
                   | _ => C06.Model.lookup fa f m dw rest'
                   end in
    match r2 with
    | C06.Model.RNotFound true =>
      match C06.Model.here (C06.Model.deriv C06.Pat.C d) with
      | Some n =>
        match find m (C06.Model.vals n) with
        | Some v => C06.Model.RFound v
        | None => C06.Model.RNotFound (if fa then C06.Model.parent_flag d else C06.Model.flag n)
        end
      | None => C06.Model.RNotFound true
      end
    | _ => r2
    end
  | _ => r1
  end.
Proof. reflexivity. Qed.

Lemma catch_bridge (D : db) (d : mdb) caps path : erel D d ->
  cv_r (match here (deriv C D) with
        | Some n =>
          match find (fun v => if fa then m3 v (parent_keys D) caps else m3 v (keys n) (caps ++ [path])) (vals n) with
          | Some v => RFound v (keys n) (caps ++ [path])
          | None => RNotFound (if fa then parent_flag D else flag n)
          end
        | None => RNotFound true
        end)
  = match C06.Model.here (C06.Model.deriv C06.Pat.C d) with
    | Some n =>
      match find m (C06.Model.vals n) with
      | Some v => C06.Model.RFound v
      | None => C06.Model.RNotFound (if fa then C06.Model.parent_flag d else C06.Model.flag n)
      end
    | None => C06.Model.RNotFound true
    end.
Proof.
  intro HE. pose proof (erel_here _ _ (erel_deriv C D d HE)) as Hh. cbn [cv] in Hh. rewrite <- Hh.
  destruct (here (deriv C D)) as [n|]; [|reflexivity]. cbn [option_map strip C06.Model.vals C06.Model.flag].
  unfold m3.
  replace (find (fun v : route => if fa then m v else m v) (vals n)) with (find m (vals n)) by (apply find_ext; intro v; destruct fa; reflexivity).
  destruct (find m (vals n)); [reflexivity|]. cbn [cv_r]. f_equal. destruct fa; [|reflexivity].
  unfold parent_flag, C06.Model.parent_flag. rewrite <- (erel_here D d HE). destruct (here D) as [n0|]; reflexivity.
Qed.

Lemma lookup_bridge : forall fuel (D : db) (d : mdb) path caps, erel D d -> length path < fuel ->
  cv_r (lookup fa fuel m3 D path caps) = C06.Model.lookup fa fuel m d path.
Proof.
  induction fuel as [|f IH]; intros D d path caps HE Hl; [lia|].
  destruct path as [|c rest].
  - cbn [lookup C06.Model.lookup]. rewrite <- (erel_here D d HE).
    destruct (here D) as [n|]; [|reflexivity]. cbn [option_map strip C06.Model.vals C06.Model.flag].
    destruct (vals n); [reflexivity|]. unfold m3. destruct (find _ _); reflexivity.
  - cbn [length] in Hl. destruct f as [|f']; [lia|].
    rewrite (lookup_cons route m3 fa (S f') D c rest caps), mlookup_cons. cbv zeta.
    rewrite lookup_or_nil, mlookup_or_nil.
    pose proof (IH (deriv (L c) D) (C06.Model.deriv (C06.Pat.L c) d) rest caps (erel_deriv (L c) D d HE) ltac:(lia)) as H1.
    rewrite <- H1. destruct (lookup fa (S f') m3 (deriv (L c) D) rest caps) as [v1 k1 c1|[|]|]; cbn [cv_r]; try reflexivity.
    pose proof (take_seg_length_lt (c :: rest)) as Hts.
    destruct (take_seg (c :: rest)) as [seg rest'] eqn:Ets. cbn [fst snd] in Hts.
    destruct seg as [|x sg].
    + replace (if is_nil (deriv W D) then RNotFound true else RNotFound true) with (@RNotFound route true) by (destruct (is_nil (deriv W D)); reflexivity).
      replace (if is_nil (C06.Model.deriv C06.Pat.W d) then C06.Model.RNotFound true else C06.Model.RNotFound true)
        with (C06.Model.RNotFound true) by (destruct (is_nil (C06.Model.deriv C06.Pat.W d)); reflexivity).
      apply catch_bridge. exact HE.
    + rewrite lookup_or_nil, mlookup_or_nil.
      assert (Hl' : length rest' < S f').
      { assert (length rest' < length (c :: rest)) by (apply Hts; discriminate). cbn [length] in H. lia. }
      match goal with |- cv_r (match ?X with _ => _ end) = _ =>
        assert (H2 : cv_r X = C06.Model.lookup fa (S f') m (C06.Model.deriv C06.Pat.W d) rest')
          by (apply IH; [apply (erel_deriv W D d HE) | exact Hl']);
        rewrite <- H2; destruct X as [v2 k2 c2|[|]|]; cbn [cv_r]; try reflexivity
      end.
      apply catch_bridge. exact HE.
Qed.

End Lookup.

(** findNode on the tree finds the route the abstract index finds *)
Theorem sim_find (t : tree) (d : mdb) path (m : route -> bool) : trel t d ->
  match tree_find true true true (fun v _ _ => m v) t path with
  | Found v _ _ => Some (C06.Model.rt_rule v)
  | NoMatch => None
  end = C06.Model.find_rule false d path m.
Proof.
  intros [Hwd HB]. rewrite (tree_find_refines route (fun v _ _ => m v) true t path (wfd_leaf_or route t Hwd)).
  unfold find_in, find_res, C06.Model.find_rule. cbn [negb].
  rewrite <- (lookup_bridge false m (S (length path)) (abs t) d path [] (brel_erel _ _ HB) ltac:(lia)).
  destruct (lookup false (S (length path)) _ (abs t) path []); reflexivity.
Qed.
