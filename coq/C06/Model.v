(** C06/Model.v — the rule repository of internal/rules/repository_impl.go as a
    state machine over the abstract pattern-map index (heimdall's radix tree
    without node compression).

    State    [repo] = known rules (with source id) + index.
    Index    an association list  pattern -> node  (values in insertion order and
             the node's backtracking flag); only patterns with at least one value
             are present.  The list is kept strictly ordered by [pat_cmp]; the
             order is not observable (nothing reads it), it only makes two
             indexes with the same content equal terms.
    Lookup   [findNode] of tree.go on the derivatives of the pattern set: static
             byte first, then the single wildcard, then the free wildcard; the flag
             of a failed node decides whether the search may go on.  [lookup false]
             is the code as it is now (after the fix: commit e897fef for finding
             C02-F1: a failed free-wildcard node consults its own flag),
             [lookup true] the code before e897fef (the parent node's flag).
    Ops      [AddRuleSet] / [UpdateRuleSet] / [DeleteRuleSet], transcribed:
             diff by SameAs / EqualTo, delete-then-add on a clone, same-source
             constraint per node, swap only on success.

    Not in this model (it is in the faithful tree of C06/Tree.v, against which the
    implementation is compared on every run): node compression; and the wildcard
    key names of a node are taken to be those of its values.  The two places where
    that differs from the code without fixes/C06-F3.diff / C06-F5.diff (finding
    C06-F3: delete fails at a node boundary in front of ':' '*' or an escape;
    finding C06-F5: key names of a deleted route survive on a node that is kept)
    are excluded from the theorems by guards on the history. *)
From HV Require Import Base.Prelude C06.Pat.

(** ** Rules *)

(** a rule definition as the rule factory hands it to the repository: id, the
    rest of its definition ([d_body], whatever the hash covers beyond the fields
    below), backtracking flag, accepted methods (empty = all) and path
    expressions.  [d_uid] is a label the harness gives to every distinct
    (source, definition); lookups are observed as the label of the rule found. *)
Record rdef := { d_id : nat; d_uid : nat; d_body : nat; d_bt : bool; d_meth : list nat; d_paths : list str }.

Record rule := { r_src : nat; r_def : rdef }.

Definition rdef_eqb (a b : rdef) : bool :=
  Nat.eqb (d_id a) (d_id b) && Nat.eqb (d_uid a) (d_uid b) && Nat.eqb (d_body a) (d_body b) &&
  Bool.eqb (d_bt a) (d_bt b) && list_eqb Nat.eqb (d_meth a) (d_meth b) && list_eqb str_eqb (d_paths a) (d_paths b).

(** rule_impl.go SameAs: same id and source *)
Definition sameas (a b : rule) : bool :=
  Nat.eqb (d_id (r_def a)) (d_id (r_def b)) && Nat.eqb (r_src a) (r_src b).

(** rule_impl.go EqualTo: same id, same source, same definition hash (the hash
    is modelled by its pre-image, the whole definition) *)
Definition equalto (a b : rule) : bool :=
  sameas a b && rdef_eqb (r_def a) (r_def b).

Definition rule_eqb (a b : rule) : bool :=
  Nat.eqb (r_src a) (r_src b) && rdef_eqb (r_def a) (r_def b).

Definition stamp (s : nat) (ds : list rdef) : list rule :=
  map (fun d => {| r_src := s; r_def := d |}) ds.

(** a route: one path expression of a rule (rule_impl.go routeImpl); [rt_idx] is
    its position in the rule's list of paths (two entries of that list are two
    route objects, also when they spell the same path) *)
Record route := { rt_rule : rule; rt_idx : nat; rt_path : str }.

Definition routes_of (r : rule) : list route :=
  let ps := d_paths (r_def r) in
  map (fun ie => {| rt_rule := r; rt_idx := fst ie; rt_path := snd ie |}) (combine (seq 0 (length ps)) ps).

Definition route_eqb (a b : route) : bool :=
  rule_eqb (rt_rule a) (rt_rule b) && Nat.eqb (rt_idx a) (rt_idx b) && str_eqb (rt_path a) (rt_path b).

(** repairs of this property's findings that the code may contain (fixes/C06-F3.diff,
    C06-F4.diff, C06-F5.diff); all false = the code without them *)
Record fixes := { fix_F3 : bool; fix_F4 : bool; fix_F5 : bool }.
Definition no_fix : fixes := {| fix_F3 := false; fix_F4 := false; fix_F5 := false |}.
Definition all_fix : fixes := {| fix_F3 := true; fix_F4 := true; fix_F5 := true |}.

Definition rt_bt (v : route) : bool := d_bt (r_def (rt_rule v)).
Definition rt_src (v : route) : nat := r_src (rt_rule v).

(** ** The index *)

Record node := { vals : list route; flag : bool }.
Definition db := list (pat * node).

Fixpoint get (d : db) (p : pat) : option node :=
  match d with
  | [] => None
  | (q, n) :: r => if pat_eqb p q then Some n else get r p
  end.

Definition vals_at (d : db) (p : pat) : list route :=
  match get d p with Some n => vals n | None => [] end.

(** tree.go addNode at the end of the path: the wildcard names of the new
    expression must fit those the node has (those of its values) *)
Definition keys_fit (old : list route) (v : route) : bool :=
  forallb (fun x => keys_compat (rt_path x) (rt_path v)) old.

(** repository_impl.go newRepository, WithValuesConstraints: only rules of the
    same rule set may share a node *)
Definition can_add (old : list route) (v : route) : bool :=
  match old with
  | [] => true
  | o :: _ => Nat.eqb (rt_src o) (rt_src v)
  end.

(** [EPanic]: a Go run-time panic (only the transcribed tree of C06/Tree.v can produce it);
    [ELoad]: the rule-set processor refused the rule set before the repository saw it *)
Inductive err := EInvalidPath | EConstraint | EDelete | EPanic | ELoad.

Definition err_eqb (a b : err) : bool :=
  match a, b with
  | EInvalidPath, EInvalidPath | EConstraint, EConstraint | EDelete, EDelete | EPanic, EPanic | ELoad, ELoad => true
  | _, _ => false
  end.

(** tree.go Add at this level: the node of [p] gets [v] appended and its flag
    overwritten by the option of this Add *)
Fixpoint add (d : db) (p : pat) (v : route) (bt : bool) : option db :=
  match d with
  | [] => Some [(p, {| vals := [v]; flag := bt |})]
  | (q, n) :: r =>
    match pat_cmp p q with
    | Eq => if can_add (vals n) v
            then Some ((q, {| vals := vals n ++ [v]; flag := bt |}) :: r)
            else None
    | Lt => Some ((p, {| vals := [v]; flag := bt |}) :: d)
    | Gt => match add r p v bt with
            | Some r' => Some ((q, n) :: r')
            | None => None
            end
    end
  end.

(** tree.go Delete at this level: all values of the node of [p] that the matcher
    accepts are removed; it fails when there is no such node or nothing was
    removed; a node without values disappears; the flag stays *)
Fixpoint delete (d : db) (p : pat) (f : route -> bool) : option db :=
  match d with
  | [] => None
  | (q, n) :: r =>
    if pat_eqb p q then
      let vs := filter (fun v => negb (f v)) (vals n) in
      if Nat.eqb (length vs) (length (vals n)) then None
      else match vs with
           | [] => Some r
           | _ => Some ((q, {| vals := vs; flag := flag n |}) :: r)
           end
    else
      match delete r p f with
      | Some r' => Some ((q, n) :: r')
      | None => None
      end
  end.

(** ** Lookup *)

Definition deriv {A} (t : tok) (d : list (pat * A)) : list (pat * A) :=
  flat_map (fun e => match fst e with
                     | t' :: p' => if tok_eqb t t' then [(p', snd e)] else []
                     | [] => []
                     end) d.

Definition here {A} (d : list (pat * A)) : option A :=
  match flat_map (fun e => match fst e with [] => [snd e] | _ => [] end) d with
  | a :: _ => Some a
  | [] => None
  end.

Inductive res :=
| RFound (v : route)
| RNotFound (backtrack : bool)
| ROutOfFuel.

(** flag of the node the search stands on, as [findNode] reads it in its
    free-wildcard branch: a node without values has its flag forced to true
    (addNode / delNode) *)
Definition parent_flag (d : db) : bool :=
  match here d with
  | Some n => match vals n with [] => true | _ => flag n end
  | None => true
  end.

Fixpoint lookup (faithful : bool) (fuel : nat) (m : route -> bool) (d : db) (path : str) : res :=
  match fuel with
  | O => ROutOfFuel
  | S fuel' =>
    match path with
    | [] =>
      match here d with
      | Some n =>
        match vals n with
        | [] => RNotFound true
        | _ => match find m (vals n) with
               | Some v => RFound v
               | None => RNotFound (flag n)
               end
        end
      | None => RNotFound true
      end
    | c :: rest =>
      let r1 := let d1 := deriv (L c) d in
                if is_nil d1 then RNotFound true else lookup faithful fuel' m d1 rest in
      match r1 with
      | RNotFound true =>
        let r2 := let dw := deriv W d in
                  if is_nil dw then RNotFound true
                  else let (seg, rest') := take_seg path in
                       match seg with
                       | [] => RNotFound true
                       | _ => lookup faithful fuel' m dw rest'
                       end in
        match r2 with
        | RNotFound true =>
          match here (deriv C d) with
          | Some n =>
            match find m (vals n) with
            | Some v => RFound v
            | None => RNotFound (if faithful then parent_flag d else flag n)
            end
          | None => RNotFound true
          end
        | _ => r2
        end
      | _ => r1
      end
    end
  end.

(** tree.go Find + repository_impl.go FindRule (without a default rule): the rule
    of the route found *)
Definition find_rule (faithful : bool) (d : db) (path : str) (m : route -> bool) : option rule :=
  match lookup faithful (S (length path)) m d path with
  | RFound v => Some (rt_rule v)
  | _ => None
  end.

(** ** The repository, over any index with "add one route" / "delete the values
    of a rule at one route" (instantiated below with the abstract index, and in
    C06/Tree.v with the transcribed radix tree) *)

(** [Refused s]: a creation or update of the rule set of [s] that
    ruleset_processor_impl.go does not hand to the repository (unsupported rule-set
    version, a rule the factory cannot create) *)
Inductive op := Add (s : nat) (ds : list rdef) | Update (s : nat) (ds : list rdef) | Delete (s : nat) | Refused (s : nat).

Definition from_src (s : nat) (r : rule) : bool := Nat.eqb (r_src r) s.

(** UpdateRuleSet: new rules and changed ones *)
Definition to_be_added (applicable new : list rule) : list rule :=
  filter (fun n =>
            negb (existsb (fun e => sameas e n) applicable) ||
            existsb (fun e => sameas e n && negb (equalto e n)) applicable) new.

(** UpdateRuleSet: rules that are gone and changed ones *)
Definition to_be_deleted (applicable new : list rule) : list rule :=
  filter (fun e =>
            negb (existsb (fun n => sameas n e) new) ||
            existsb (fun n => sameas n e && negb (equalto n e)) new) applicable.

(** [slices.Contains(toBeDeleted, loaded)] compares pointers; [toBeDeleted] is a
    filter of the loaded rules by a predicate on (source, id, hash), so a loaded
    rule is in it exactly when an equal rule is *)
Definition mem_rule (r : rule) (l : list rule) : bool := existsb (rule_eqb r) l.

Section Repo.
Variable I : Type.
Variable add1 : I -> route -> I + err.          (* tree.Add(route.Path(), route, WithBacktracking(rule.AllowsBacktracking())) *)
Variable del1 : I -> rule -> route -> I + err.  (* tree.Delete(route.Path(), value.Rule().SameAs(rule)) *)

Record grepo := { known : list rule; index : I }.

(** repository_impl.go addRulesTo *)
Fixpoint add_routes (d : I) (vs : list route) : I + err :=
  match vs with
  | [] => inl d
  | v :: rest =>
    match add1 d v with
    | inl d' => add_routes d' rest
    | inr e => inr e
    end
  end.

Fixpoint add_rules (d : I) (rs : list rule) : I + err :=
  match rs with
  | [] => inl d
  | r :: rest =>
    match add_routes d (routes_of r) with
    | inl d' => add_rules d' rest
    | inr e => inr e
    end
  end.

(** repository_impl.go removeRulesFrom *)
Fixpoint del_routes (d : I) (r : rule) (vs : list route) : I + err :=
  match vs with
  | [] => inl d
  | v :: rest =>
    match del1 d r v with
    | inl d' => del_routes d' r rest
    | inr e => inr e
    end
  end.

Fixpoint del_rules (d : I) (rs : list rule) : I + err :=
  match rs with
  | [] => inl d
  | r :: rest =>
    match del_routes d r (routes_of r) with
    | inl d' => del_rules d' rest
    | inr e => inr e
    end
  end.

(** Add / Update / DeleteRuleSet: work on a clone (here: a value), swap on success *)
Definition gstep (st : grepo) (o : op) : grepo * option err :=
  match o with
  | Add s ds =>
    let rs := stamp s ds in
    match add_rules (index st) rs with
    | inl d => ({| known := known st ++ rs; index := d |}, None)
    | inr e => (st, Some e)
    end
  | Update s ds =>
    let rs := stamp s ds in
    let applicable := filter (from_src s) (known st) in
    let tba := to_be_added applicable rs in
    let tbd := to_be_deleted applicable rs in
    match del_rules (index st) tbd with
    | inr e => (st, Some e)
    | inl d1 =>
      match add_rules d1 tba with
      | inr e => (st, Some e)
      | inl d2 => ({| known := filter (fun r => negb (mem_rule r tbd)) (known st) ++ tba; index := d2 |}, None)
      end
    end
  | Delete s =>
    let applicable := filter (from_src s) (known st) in
    match del_rules (index st) applicable with
    | inr e => (st, Some e)
    | inl d => ({| known := filter (fun r => negb (mem_rule r applicable)) (known st); index := d |}, None)
    end
  | Refused _ => (st, Some ELoad)
  end.

Definition grun_from (st : grepo) (ops : list op) : grepo :=
  fold_left (fun st o => fst (gstep st o)) ops st.

End Repo.

Arguments known {I}.
Arguments index {I}.

(** *** over the abstract index *)

Definition m_add1 (d : db) (v : route) : db + err :=
  match pat_of (rt_path v) with
  | None => inr EInvalidPath
  | Some p =>
    if keys_fit (vals_at d p) v then
      match add d p v (rt_bt v) with Some d' => inl d' | None => inr EConstraint end
    else inr EInvalidPath
  end.

(** which values a Delete for route [v] of rule [r] removes: every route of a rule
    that is SameAs [r]; with fixes/C06-F4.diff the very route *)
Definition del_matcher (fx : fixes) (r : rule) (v : route) (x : route) : bool :=
  if fix_F4 fx then route_eqb x v else sameas (rt_rule x) r.

Definition m_del1 (fx : fixes) (d : db) (r : rule) (v : route) : db + err :=
  match pat_of (rt_path v) with
  | None => inr EDelete
  | Some p => match delete d p (del_matcher fx r v) with Some d' => inl d' | None => inr EDelete end
  end.

Definition repo := grepo db.
Definition empty : repo := {| known := []; index := [] |}.
Definition step (fx : fixes) : repo -> op -> repo * option err := gstep db m_add1 (m_del1 fx).
Definition run_from (fx : fixes) (st : repo) (ops : list op) : repo :=
  fold_left (fun st o => fst (step fx st o)) ops st.
Definition run (fx : fixes) (ops : list op) : repo := run_from fx empty ops.

(** the conditions of a route in this development: the accepted methods
    (route_matcher.go methodMatcher; an empty list accepts every method) *)
Definition accepts (meth : nat) (v : route) : bool :=
  let ms := d_meth (r_def (rt_rule v)) in
  is_nil ms || existsb (Nat.eqb meth) ms.
