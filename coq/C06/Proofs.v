(** C06/Proofs.v — the theorems of property C06 about the repository model. *)
From HV Require Import Base.Prelude C06.Pat C06.Model C06.Spec C06.DbFacts C06.ReprFacts C06.RepoFacts C06.SpecFacts C06.StepFacts.

Section Fx.
Variable fx : fixes.   (* which repairs of C06 findings the code contains *)
Notation step := (Model.step fx).
Notation run_from := (Model.run_from fx).
Notation run := (Model.run fx).
Notation fresh := (Spec.fresh fx).
Notation base_good := (SpecFacts.base_good fx).
Notation Inv := (StepFacts.Inv fx).
Notation SInv := (StepFacts.SInv fx).
Notation KInv := (RepoFacts.KInv fx).

(** ** the histories the theorems talk about: a rule set is created only when it
    does not exist; no rule set (accepted or not) has two rules with the same id
    (C06-F6) or — without fixes/C06-F4.diff — a rule listing a pattern twice *)

Definition step_ok (S : sets) (o : op) : bool :=
  match o with
  | Add s ds => negb (has_set S s) && base_good ds
  | Update s ds => base_good ds
  | Delete _ | Refused _ => true
  end.

Fixpoint ok_from (S : sets) (ops : list op) : bool :=
  match ops with
  | [] => true
  | o :: r => step_ok S o && ok_from (spec_step S o) r
  end.

(** ** UpdateRuleSet *)

Lemma update_sound D st S s ds :
  Inv D st -> Rel D (known st) S -> SInv D S -> base_good ds = true ->
  let D' := dirty_step S (Update s ds) D in
  (spec_accepts S s ds = true ->
     exists st', step st (Update s ds) = (st', None) /\ Inv D' st' /\ Rel D' (known st') (put_set S s ds)) /\
  (spec_accepts S s ds = false -> exists e, step st (Update s ds) = (st, Some e)).
Proof.
  intros HI HR HS Hg D'.
  destruct (upd_del_phase fx D st s ds HI Hg) as (d1 & Ed & R1 & F1).
  unfold Model.step, gstep. cbv zeta. rewrite Ed, (upd_tba fx D st s ds HI). split.
  - intros A. destruct (upd_accept fx D st S s ds HI HR HS Hg d1 R1 F1 A) as (d2 & Ea & R2 & F2). rewrite Ea.
    eexists. split; [reflexivity|]. rewrite (upd_known fx st s ds Hg).
    destruct (upd_KInv fx D st S s ds HI HR HS Hg A) as [KI KB]. split.
    + split; simpl; [exact KI | exact R2 | exact F2 | exact KB].
    + split; simpl; [apply (upd_mem D st S s ds HR) | apply (upd_ord D st S s ds HR A)].
  - intro A.
    destruct (add_rules d1 (filter (fun n => negb (mem_rule n (filter (from_src s) (known st)))) (stamp s ds))) as [d2|e] eqn:Ea.
    + rewrite (upd_complete fx D st S s ds HI HR HS d1 d2 R1 Ea) in A. discriminate.
    + exists e. reflexivity.
Qed.

(** ** AddRuleSet of a source without rules is UpdateRuleSet *)

Lemma filter_true {A} (l : list A) : filter (fun _ => true) l = l.
Proof. induction l; simpl; congruence. Qed.

Lemma add_as_update (st : repo) s ds :
  filter (from_src s) (known st) = [] -> step st (Add s ds) = step st (Update s ds).
Proof.
  intro E. unfold Model.step, gstep. cbv zeta. rewrite E. unfold to_be_added, to_be_deleted. simpl.
  rewrite !filter_true. reflexivity.
Qed.

Lemma f1_step_nil ds : f1_step [] ds = false.
Proof.
  unfold f1_step. apply negb_false_iff. apply forallb_forall. intros p _. simpl.
  apply rdef_list_eqb_eq. f_equal. symmetry. apply filter_all_true. reflexivity.
Qed.

Lemma no_rules_of D Kn S s : Rel D Kn S -> get_set S s = [] -> filter (from_src s) Kn = [].
Proof.
  intros R E. apply filter_all_false. intros r Hr. unfold from_src. apply Nat.eqb_neq. intro Es.
  apply (r_mem _ _ _ R) in Hr. rewrite Es, E in Hr. destruct Hr.
Qed.

(** ** DeleteRuleSet *)

Lemma del_set_in_neq S s t dt : NoDup (map fst S) -> In (t, dt) (del_set S s) -> t <> s.
Proof.
  induction S as [|[u x] r IH]; simpl; intros ND H; [destruct H|].
  inversion ND as [|? ? Hn Hd]; subst. destruct (Nat.eqb u s) eqn:E.
  - apply Nat.eqb_eq in E. subst u. intro; subst t. apply Hn. apply in_map_iff. exists (s, dt). tauto.
  - destruct H as [H|H]; [inversion H; subst; apply Nat.eqb_neq; exact E | apply (IH Hd H)].
Qed.

Lemma delete_sound D st S s : Inv D st -> Rel D (known st) S -> SInv D S ->
  let D' := rm_src s D in
  exists st', step st (Delete s) = (st', None) /\ Inv D' st' /\ Rel D' (known st') (del_set S s) /\ SInv D' (del_set S s).
Proof.
  intros HI HR HS D'.
  destruct (del_rules_spec fx (clean D) (known st) (from_src s) (index st) (i_k _ _ _ HI) (i_v _ _ _ HI) (i_f _ _ _ HI))
    as (d' & Ed & R' & F').
  unfold Model.step, gstep. cbv zeta. rewrite Ed. eexists. split; [reflexivity|].
  assert (EK : filter (fun r => negb (mem_rule r (filter (from_src s) (known st)))) (known st) =
               filter (fun r => negb (from_src s r)) (known st)).
  { apply filter_ext_in. intros r Hr. f_equal. apply bool_eq_iff. rewrite mem_rule_in, filter_In. tauto. }
  rewrite EK.
  (* what remains has no rule of source s *)
  assert (Hno : forall x, In x (routes (filter (fun r => negb (from_src s r)) (known st))) -> rt_src x <> s).
  { intros x Hx. apply in_routes_rule in Hx. apply filter_In in Hx as [_ Hx]. unfold from_src, rt_src in *.
    apply negb_true_iff in Hx. apply Nat.eqb_neq. exact Hx. }
  assert (Hcl : forall t, t <> s -> clean D' t = true -> clean D t = true).
  { intros t N H. unfold D' in H. rewrite clean_rm in H. apply orb_true_iff in H as [H|H]; [|exact H].
    apply Nat.eqb_eq in H. contradiction. }
  split; [|split].
  - split; simpl.
    + apply KInv_filter. apply (i_k _ _ _ HI).
    + exact R'.
    + intros q n v Hg Hv Hc. destruct (ReprV_in _ _ _ _ _ R' Hg Hv) as [Hin _].
      apply (F' q n v Hg Hv). apply Hcl; [apply Hno; exact Hin | exact Hc].
    + intros x y q Hx Hy Hqx Hqy Hc.
      assert (Incl : incl (routes (filter (fun r => negb (from_src s r)) (known st))) (routes (known st))).
      { intros z Hz. rewrite routes_filter in Hz. apply filter_In in Hz. tauto. }
      apply (i_bt _ _ _ HI x y q (Incl x Hx) (Incl y Hy) Hqx Hqy). apply Hcl; [apply Hno; exact Hx | exact Hc].
  - split; simpl.
    + intro r. rewrite filter_In, (get_del_set S s (r_src r) (s_nodup _ _ _ HS)), (r_mem _ _ _ HR r).
      unfold from_src. rewrite (Nat.eqb_sym s). destruct (Nat.eqb (r_src r) s); simpl; [split; [intros [_ H]; discriminate | tauto] | tauto].
    + intros t q Hc. rewrite (get_del_set S s t (s_nodup _ _ _ HS)), filter_filter.
      destruct (Nat.eqb s t) eqn:E.
      * apply Nat.eqb_eq in E. subst t. rewrite filter_all_false; [reflexivity|].
        intros r _. destruct (from_src s r); reflexivity.
      * apply Nat.eqb_neq in E.
        rewrite <- (r_ord _ _ _ HR t q (Hcl t (fun H => E (eq_sym H)) Hc)). f_equal. f_equal.
        apply filter_ext. intro r. unfold from_src.
        destruct (Nat.eqb (r_src r) t) eqn:E2; [|apply andb_false_r].
        apply Nat.eqb_eq in E2. subst t.
        assert (E3 : Nat.eqb (r_src r) s = false) by (apply Nat.eqb_neq; congruence). rewrite E3. reflexivity.
  - split.
    + apply del_set_nodup. apply (s_nodup _ _ _ HS).
    + intros t dt Ht. apply (s_good _ _ _ HS t dt). apply (del_set_in _ _ _ _ Ht).
    + intros t dt Ht Hc. apply (s_f2 _ _ _ HS t dt (del_set_in _ _ _ _ Ht)).
      apply Hcl; [apply (del_set_in_neq S s t dt (s_nodup _ _ _ HS) Ht) | exact Hc].
    + intros t u dt du p Ht Hu. apply (s_disj _ _ _ HS t u dt du p); eapply del_set_in; eassumption.
Qed.

(** ** one operation *)

Lemma dirty_step_rejected S s ds D : spec_accepts S s ds = false -> dirty_step S (Update s ds) D = D.
Proof. intro A. unfold dirty_step, dirty2_step, dirty1_step. rewrite A. reflexivity. Qed.

Lemma dirty_step_add S s ds D : get_set S s = [] -> dirty_step S (Add s ds) D = dirty_step S (Update s ds) D.
Proof.
  intro E. unfold dirty_step, dirty2_step, dirty1_step. rewrite E, f1_step_nil, andb_false_r. reflexivity.
Qed.

Lemma step_sound D st S o : Inv D st -> Rel D (known st) S -> SInv D S -> step_ok S o = true ->
  let D' := dirty_step S o D in
  exists st' res, step st o = (st', res) /\
    (res = None <-> spec_ok S o = true) /\ (res <> None -> st' = st) /\
    Inv D' st' /\ Rel D' (known st') (spec_step S o) /\ SInv D' (spec_step S o).
Proof.
  intros HI HR HS Hok.
  assert (Upd : forall s ds, base_good ds = true ->
            let D' := dirty_step S (Update s ds) D in
            exists st' res, step st (Update s ds) = (st', res) /\
              (res = None <-> spec_accepts S s ds = true) /\ (res <> None -> st' = st) /\
              Inv D' st' /\ Rel D' (known st') (if spec_accepts S s ds then put_set S s ds else S) /\
              SInv D' (if spec_accepts S s ds then put_set S s ds else S)).
  { intros s ds Hg D'. destruct (update_sound D st S s ds HI HR HS Hg) as [Acc Rej].
    destruct (spec_accepts S s ds) eqn:A.
    - destruct (Acc eq_refl) as (st' & E & I' & R').
      exists st', None. split; [exact E|]. split; [tauto|]. split; [congruence|].
      split; [exact I'|]. split; [exact R'|]. apply (upd_SInv fx D S s ds HS Hg A).
    - destruct (Rej eq_refl) as (e & E). exists st, (Some e). split; [exact E|].
      split; [split; discriminate|]. unfold D'. rewrite (dirty_step_rejected S s ds D A). tauto. }
  destruct o as [s ds|s ds|s|s]; simpl in Hok; unfold spec_ok, spec_step.
  - apply andb_true_iff in Hok as [Hn Hg]. apply negb_true_iff in Hn.
    rewrite (add_as_update st s ds (no_rules_of D _ S s HR (has_set_false_get S s Hn))).
    rewrite (dirty_step_add S s ds D (has_set_false_get S s Hn)). apply Upd. exact Hg.
  - apply Upd. exact Hok.
  - destruct (delete_sound D st S s HI HR HS) as (st' & E & I' & R' & S').
    exists st', None. split; [exact E|]. split; [tauto|]. split; [congruence|].
    unfold dirty_step, dirty2_step, dirty1_step.
    assert (Eq : rm_src s (rm_src s D) = rm_src s D).
    { unfold rm_src. rewrite filter_filter. apply filter_ext. intro t. destruct (Nat.eqb t s); reflexivity. }
    rewrite Eq. tauto.
  - exists st, (Some ELoad). split; [reflexivity|]. split; [split; discriminate|]. simpl. tauto.
Qed.

(** ** histories *)

Lemma run_from_cons st o ops : run_from st (o :: ops) = run_from (fst (step st o)) ops.
Proof. reflexivity. Qed.

Lemma run_sound ops : forall D st S, Inv D st -> Rel D (known st) S -> SInv D S -> ok_from S ops = true ->
  let D' := dirty_from S D ops in
  Inv D' (run_from st ops) /\ Rel D' (known (run_from st ops)) (current_from S ops) /\ SInv D' (current_from S ops).
Proof.
  induction ops as [|o ops IH]; intros D st S HI HR HS Hok; simpl in Hok.
  - simpl. tauto.
  - apply andb_true_iff in Hok as [H1 H2].
    destruct (step_sound D st S o HI HR HS H1) as (st' & res & E & _ & _ & I' & R' & S').
    rewrite run_from_cons, E. simpl. apply (IH _ st' (spec_step S o) I' R' S' H2).
Qed.

(** ** the fresh load *)

Lemma put_set_new S s ds : has_set S s = false -> put_set S s ds = S ++ [(s, ds)].
Proof.
  induction S as [|[t x] r IH]; simpl; [reflexivity|].
  intro H. apply orb_false_iff in H as [E H]. rewrite E. f_equal. apply IH. exact H.
Qed.

Lemma fresh_current S : forall S0, SInv [] (S0 ++ S) ->
  current_from S0 (fresh_ops S) = S0 ++ S /\ ok_from S0 (fresh_ops S) = true /\ dirty_from S0 [] (fresh_ops S) = [].
Proof.
  induction S as [|[s ds] S IH]; intros S0 HS; simpl.
  - rewrite app_nil_r. tauto.
  - assert (Hin : In (s, ds) (S0 ++ (s, ds) :: S)) by (apply in_app_iff; right; left; reflexivity).
    destruct (s_good _ _ _ HS s ds Hin) as (Hg & Hv & Hk).
    pose proof (s_f2 _ _ _ HS s ds Hin (clean_nil s)) as Hf2.
    pose proof (s_nodup _ _ _ HS) as ND. rewrite map_app in ND. simpl in ND.
    assert (Hn : has_set S0 s = false).
    { destruct (has_set S0 s) eqn:E; [|reflexivity]. apply has_set_in in E. exfalso.
      apply NoDup_remove_2 in ND. apply ND. apply in_app_iff. left. exact E. }
    assert (A : spec_accepts S0 s ds = true).
    { unfold spec_accepts. rewrite Hv, Hk. simpl.
      apply forallb_forall. intros [t dt] Ht. simpl. destruct (Nat.eqb t s) eqn:E; [reflexivity|]. simpl.
      apply Nat.eqb_neq in E. apply forallb_forall. intros p Hp. apply negb_true_iff.
      destruct (mem_pat p (pats dt)) eqn:M; [|reflexivity]. apply mem_pat_in in M. exfalso.
      apply (s_disj _ _ _ HS s t ds dt p Hin); [apply in_app_iff; left; exact Ht | congruence | exact Hp | exact M]. }
    unfold dirty_step, dirty2_step, dirty1_step.
    rewrite A, Hn, Hg, Hf2. simpl. rewrite (put_set_new S0 s ds Hn).
    specialize (IH (S0 ++ [(s, ds)])). rewrite <- app_assoc in IH. simpl in IH. apply IH. exact HS.
Qed.

(** ** per pattern, two rule lists holding the same rule sets have the same routes *)

Lemma at_q_one_source Kn q x : srcuni (routes Kn) -> In x (routes Kn) -> has_pat q x = true ->
  at_q q (routes Kn) = at_q q (routes (filter (from_src (rt_src x)) Kn)).
Proof.
  intros U Hx Hq. rewrite routes_filter, at_q_filter. symmetry. apply filter_all_true.
  intros y Hy. apply in_at_q in Hy as [Hy Hqy]. unfold from_src. apply Nat.eqb_eq.
  apply (U y x q); assumption.
Qed.

Lemma rel_at_q_one K1 K2 S q x : KInv K1 -> KInv K2 -> Rel [] K1 S -> Rel [] K2 S ->
  In x (at_q q (routes K1)) -> at_q q (routes K1) = at_q q (routes K2).
Proof.
  intros I1 I2 R1 R2 Hx. apply in_at_q in Hx as [Hx Hq].
  rewrite (at_q_one_source K1 q x (proj1 (k_uni _ _ I1)) Hx Hq), (r_ord _ _ _ R1 _ _ (clean_nil _)),
          <- (r_ord _ _ _ R2 _ _ (clean_nil _)).
  assert (Hy : In x (at_q q (routes (filter (from_src (rt_src x)) K2)))).
  { rewrite (r_ord _ _ _ R2 _ _ (clean_nil _)), <- (r_ord _ _ _ R1 _ _ (clean_nil _)). apply in_at_q. split; [|exact Hq].
    rewrite routes_filter. apply filter_In. split; [exact Hx|]. unfold from_src. apply Nat.eqb_refl. }
  apply in_at_q in Hy as [Hy _]. rewrite routes_filter in Hy. apply filter_In in Hy as [Hy _].
  symmetry. apply (at_q_one_source K2 q x (proj1 (k_uni _ _ I2)) Hy Hq).
Qed.

Lemma rel_at_q K1 K2 S q : KInv K1 -> KInv K2 -> Rel [] K1 S -> Rel [] K2 S ->
  at_q q (routes K1) = at_q q (routes K2).
Proof.
  intros I1 I2 R1 R2.
  destruct (at_q q (routes K1)) as [|x l] eqn:E1.
  - destruct (at_q q (routes K2)) as [|y l'] eqn:E2; [reflexivity|].
    assert (Hy : In y (at_q q (routes K2))) by (rewrite E2; left; reflexivity).
    pose proof (rel_at_q_one K2 K1 S q y I2 I1 R2 R1 Hy) as H. rewrite E1, E2 in H. discriminate.
  - assert (Hx : In x (at_q q (routes K1))) by (rewrite E1; left; reflexivity).
    rewrite <- E1. apply (rel_at_q_one K1 K2 S q x I1 I2 R1 R2 Hx).
Qed.

Lemma ReprF_all D d : D = [] -> ReprF (clean D) d -> ReprF all_src d.
Proof. intros E F. subst D. apply (ReprF_mono (clean []) all_src d); [intros; reflexivity | exact F]. Qed.

(** ** main theorem: when no source is left in the state C06-F1 / C06-F2 leave,
    the index is that of a fresh load *)

Theorem history_equals_fresh_ok ops : ok_from [] ops = true -> dirty ops = [] ->
  index (run ops) = index (fresh (current ops)).
Proof.
  intros Hok HD.
  destruct (run_sound ops [] empty [] (Inv_empty fx []) (Rel_empty []) (SInv_empty fx []) Hok) as (I1 & R1 & S1).
  fold (run ops) in I1, R1. fold (current ops) in R1, S1. fold (dirty ops) in I1, R1, S1. rewrite HD in I1, R1, S1.
  destruct (fresh_current (current ops) [] S1) as (Ec & Hokf & Df). simpl in Ec.
  destruct (run_sound (fresh_ops (current ops)) [] empty [] (Inv_empty fx []) (Rel_empty []) (SInv_empty fx []) Hokf) as (I2 & R2 & _).
  rewrite Ec, Df in *. fold (run (fresh_ops (current ops))) in I2, R2. fold (fresh (current ops)) in I2, R2.
  apply (Repr_eq _ _ _ _ (i_v _ _ _ I1) (ReprF_all [] _ eq_refl (i_f _ _ _ I1))
                         (i_v _ _ _ I2) (ReprF_all [] _ eq_refl (i_f _ _ _ I2))).
  intro q. apply (rel_at_q _ _ (current ops) q (i_k _ _ _ I1) (i_k _ _ _ I2) R1 R2).
Qed.

(** ** from the guards to [ok_from] and [dirty] *)

Definition sets_base_good (ops : list op) : Prop :=
  forall o, In o ops -> base_good (op_set o) = true.

Lemma ok_from_guards ops : forall S, sets_base_good ops -> wf_from S ops = true -> ok_from S ops = true.
Proof.
  induction ops as [|o ops IH]; intros S G W; simpl in *; [reflexivity|].
  apply andb_true_iff in W as [W1 W2].
  apply andb_true_iff. split.
  - pose proof (G o (or_introl eq_refl)) as Hg. destruct o as [s ds|s ds|s|s]; simpl in *.
    + rewrite W1, Hg. reflexivity.
    + exact Hg.
    + reflexivity.
    + reflexivity.
  - apply IH; try assumption. intros o' Ho'. apply G. right. exact Ho'.
Qed.

(** the histories without duplicate ids (and, without fixes/C06-F4.diff, without a
    pattern listed twice in a rule) *)
Definition base_guard (ops : list op) : bool := guard_dupid ops || (negb (fix_F4 fx) && guard_F4 ops).

Lemma base_guard_good ops : base_guard ops = false -> sets_base_good ops.
Proof.
  unfold base_guard. rewrite orb_false_iff. intros [G6 G4] o Ho. unfold SpecFacts.base_good.
  assert (X : forall (f : list rdef -> bool), existsb (fun o => f (op_set o)) ops = false -> f (op_set o) = false).
  { intros f H. destruct (f (op_set o)) eqn:E; [|reflexivity].
    assert (existsb (fun o => f (op_set o)) ops = true); [|congruence].
    apply existsb_exists. exists o. tauto. }
  rewrite (X dupid_set G6). simpl. rewrite andb_true_r.
  destruct (fix_F4 fx); [reflexivity|]. simpl in *. rewrite (X f4_set G4). reflexivity.
Qed.

Lemma base_ok ops : wf_history ops = true -> base_guard ops = false -> ok_from [] ops = true.
Proof. intros W G. apply ok_from_guards; [apply base_guard_good; exact G | exact W]. Qed.

(** the history-global guards of C06-F1 / C06-F2 imply that no source is ever dirty *)
Lemma guards_clean ops : forall S D, D = [] -> f1_from S ops = false -> guard_F2 ops = false -> dirty_from S D ops = [].
Proof.
  induction ops as [|o ops IH]; intros S D ED F1 F2; simpl in *; [exact ED|].
  apply orb_false_iff in F1 as [F1a F1b]. unfold guard_F2 in F2. simpl in F2. apply orb_false_iff in F2 as [F2a F2b].
  apply IH; try assumption. subst D. unfold dirty_step, dirty2_step, dirty1_step.
  destruct o as [s ds|s ds|s|s]; simpl in *.
  - rewrite F2a, andb_false_r. reflexivity.
  - rewrite F1a, F2a, andb_false_r. reflexivity.
  - reflexivity.
  - reflexivity.
Qed.

Lemma no_guard_parts ops : no_guard_fx fx ops = true ->
  base_guard ops = false /\ guard_F1 ops = false /\ guard_F2 ops = false.
Proof.
  unfold no_guard_fx, base_guard. rewrite negb_true_iff, !orb_false_iff. tauto.
Qed.

(** ** the property theorems *)

Theorem history_equals_fresh ops : wf_history ops = true -> base_guard ops = false -> dirty ops = [] ->
  index (run ops) = index (fresh (current ops)).
Proof. intros W G HD. apply history_equals_fresh_ok; [apply base_ok; assumption | exact HD]. Qed.

(** the older, coarser form: no guard of a finding fires anywhere in the history *)
Corollary history_equals_fresh_guards ops : wf_history ops = true -> no_guard_fx fx ops = true ->
  index (run ops) = index (fresh (current ops)).
Proof.
  intros W G. destruct (no_guard_parts ops G) as (B & F1 & F2).
  apply history_equals_fresh; [exact W | exact B |]. apply guards_clean; [reflexivity | exact F1 | exact F2].
Qed.

(** all requests, all conditions *)
Corollary lookups_equal_fresh ops : wf_history ops = true -> base_guard ops = false -> dirty ops = [] ->
  forall faithful path m,
    find_rule faithful (index (run ops)) path m = find_rule faithful (index (fresh (current ops))) path m.
Proof. intros W G HD fa path m. rewrite (history_equals_fresh ops W G HD). reflexivity. Qed.

(** a rejected change leaves the repository as it was (for every state and
    operation, no guard needed: the work is done on a clone) *)
Theorem rejected_is_noop (st : repo) o st' e : step st o = (st', Some e) -> st' = st.
Proof.
  unfold Model.step, gstep. destruct o as [s ds|s ds|s|s]; cbv zeta.
  - destruct (Model.add_rules db m_add1 (index st) (stamp s ds)); intro H; inversion H; reflexivity.
  - destruct (Model.del_rules db (m_del1 fx) (index st) _); [|intro H; inversion H; reflexivity].
    destruct (Model.add_rules db m_add1 d _); intro H; inversion H; reflexivity.
  - destruct (Model.del_rules db (m_del1 fx) (index st) _); intro H; inversion H; reflexivity.
  - intro H; inversion H; reflexivity.
Qed.

Lemma ok_from_app ops o : forall S, ok_from S (ops ++ [o]) = true ->
  ok_from S ops = true /\ step_ok (current_from S ops) o = true.
Proof.
  induction ops as [|a l IH]; intros S H; simpl in *.
  - apply andb_true_iff in H. tauto.
  - apply andb_true_iff in H as [H1 H2]. destruct (IH (spec_step S a) H2) as [A B].
    rewrite H1, A. tauto.
Qed.

(** along a history — also one that went through C06-F1 / C06-F2 —: an operation
    is rejected exactly when the specification says it cannot be applied (invalid
    expression, incompatible wildcard names, expression owned by another rule
    set), and then nothing changes *)
Theorem rejected_iff_cannot_apply ops o : wf_history (ops ++ [o]) = true -> base_guard (ops ++ [o]) = false ->
  exists st' res, step (run ops) o = (st', res) /\
    (res = None <-> spec_ok (current ops) o = true) /\ (res <> None -> st' = run ops).
Proof.
  intros W G. destruct (ok_from_app ops o [] (base_ok _ W G)) as [Hok Hs].
  destruct (run_sound ops [] empty [] (Inv_empty fx []) (Rel_empty []) (SInv_empty fx []) Hok) as (I1 & R1 & S1).
  destruct (step_sound _ _ _ o I1 R1 S1 Hs) as (st' & res & E & A & B & _).
  exists st', res. tauto.
Qed.

(** ** what a lookup can return *)

Lemma in_deriv {A} t (d : list (pat * A)) p a : In (p, a) (deriv t d) -> In (t :: p, a) d.
Proof.
  unfold deriv. rewrite in_flat_map. intros ([q b] & Hin & H). simpl in H.
  destruct q as [|t' p']; [destruct H|].
  destruct (tok_eqb t t') eqn:E; [|destruct H]. apply tok_eqb_eq in E. subst t'.
  destruct H as [H|[]]. inversion H; subst. exact Hin.
Qed.

Lemma here_in {A} (d : list (pat * A)) a : here d = Some a -> In ([], a) d.
Proof.
  unfold here. intro H.
  match type of H with match ?l with _ => _ end = _ => remember l as l0 eqn:El end.
  assert (Hin : In a l0) by (destruct l0 as [|x l1]; [discriminate | inversion H; left; reflexivity]).
  rewrite El in Hin. apply in_flat_map in Hin as ([q b] & Hin & Hq). simpl in Hq. destruct q; [|destruct Hq].
  destruct Hq as [Hq|[]]. subst. exact Hin.
Qed.

(** a route found is a value of the index *)
Lemma lookup_in fa fuel m : forall (d : db) path v, lookup fa fuel m d path = RFound v ->
  exists q n, In (q, n) d /\ In v (vals n).
Proof.
  induction fuel as [|fuel IH]; intros d path v H; simpl in H; [discriminate|].
  destruct path as [|c rest].
  - destruct (here d) as [n|] eqn:Eh; [|discriminate].
    destruct (vals n) as [|x l] eqn:Ev; [discriminate|].
    destruct (find m (x :: l)) as [w|] eqn:Ef; [|discriminate]. inversion H; subst w.
    exists [], n. split; [apply here_in; exact Eh|]. rewrite Ev. apply (find_some _ _ Ef).
  - set (r1 := if is_nil (deriv (L c) d) then RNotFound true else lookup fa fuel m (deriv (L c) d) rest) in H.
    assert (Sub : forall t (d' : db) path', lookup fa fuel m (deriv t d) path' = RFound v ->
              exists q n, In (q, n) d /\ In v (vals n)).
    { intros t d' path' Hl. destruct (IH _ _ _ Hl) as (q & n & Hin & Hv).
      exists (t :: q), n. split; [apply in_deriv; exact Hin | exact Hv]. }
    destruct r1 as [w|b|] eqn:E1.
    + inversion H; subst w. unfold r1 in E1. destruct (is_nil (deriv (L c) d)); [discriminate|].
      apply (Sub (L c) d rest E1).
    + destruct b; [|discriminate].
      set (r2 := if is_nil (deriv W d) then RNotFound true
                 else let (seg, rest') := take_seg (c :: rest) in
                      match seg with [] => RNotFound true | _ :: _ => lookup fa fuel m (deriv W d) rest' end) in H.
      destruct r2 as [w|b|] eqn:E2.
      * inversion H; subst w. unfold r2 in E2. destruct (is_nil (deriv W d)); [discriminate|].
        destruct (take_seg (c :: rest)) as [seg rest']. destruct seg; [discriminate|].
        apply (Sub W d rest' E2).
      * destruct b; [|discriminate].
        destruct (here (deriv C d)) as [n|] eqn:Eh; [|discriminate].
        destruct (find m (vals n)) as [w|] eqn:Ef; [|discriminate]. inversion H; subst w.
        exists [C], n. split; [apply in_deriv; apply here_in; exact Eh | apply (find_some _ _ Ef)].
      * discriminate.
    + discriminate.
Qed.

(** rules of deleted or replaced versions never match again: whatever a lookup
    returns is a rule of the current version of an existing rule set (also after
    C06-F1 / C06-F2) *)
Theorem found_is_current ops : wf_history ops = true -> base_guard ops = false ->
  forall faithful path m r, find_rule faithful (index (run ops)) path m = Some r ->
    In (r_def r) (get_set (current ops) (r_src r)).
Proof.
  intros W G fa path m r H.
  destruct (run_sound ops [] empty [] (Inv_empty fx []) (Rel_empty []) (SInv_empty fx []) (base_ok _ W G)) as (I1 & R1 & _).
  fold (run ops) in I1, R1. fold (current ops) in R1.
  unfold find_rule in H. destruct (lookup fa (S (length path)) m (index (run ops)) path) as [v| |] eqn:E; try discriminate.
  inversion H; subst r. destruct (lookup_in _ _ _ _ _ _ E) as (q & n & Hin & Hv).
  apply (in_get _ _ _ (rv_sorted _ _ (i_v _ _ _ I1))) in Hin.
  destruct (ReprV_in _ _ _ _ _ (i_v _ _ _ I1) Hin Hv) as [Hr _].
  apply (r_mem _ _ _ R1). apply in_routes_rule. exact Hr.
Qed.

(** unchanged rules keep working: every route of every rule of a current rule set
    is a value of the node of its pattern (also after C06-F1 / C06-F2) *)
Theorem current_rules_indexed ops : wf_history ops = true -> base_guard ops = false ->
  forall r x p, In (r_def r) (get_set (current ops) (r_src r)) -> In x (routes_of r) -> rpat x = Some p ->
    exists n, get (index (run ops)) p = Some n /\ In x (vals n).
Proof.
  intros W G r x p Hr Hx Hp.
  destruct (run_sound ops [] empty [] (Inv_empty fx []) (Rel_empty []) (SInv_empty fx []) (base_ok _ W G)) as (I1 & R1 & _).
  fold (run ops) in I1, R1. fold (current ops) in R1.
  apply (r_mem _ _ _ R1) in Hr.
  assert (Hin : In x (at_q p (routes (known (run ops))))).
  { apply in_at_q. split; [apply in_routes; exists r; tauto | apply has_pat_rpat; exact Hp]. }
  rewrite <- (rv_vals _ _ (i_v _ _ _ I1) p) in Hin. unfold vals_at in Hin.
  destruct (get (index (run ops)) p) as [n|]; [exists n; tauto | destruct Hin].
Qed.

(** same-source constraint: all rules sharing a path expression come from one rule set *)
Theorem node_has_one_source ops : wf_history ops = true -> base_guard ops = false ->
  forall q n x y, get (index (run ops)) q = Some n -> In x (vals n) -> In y (vals n) -> rt_src x = rt_src y.
Proof.
  intros W G q n x y Hg Hx Hy.
  destruct (run_sound ops [] empty [] (Inv_empty fx []) (Rel_empty []) (SInv_empty fx []) (base_ok _ W G)) as (I1 & _ & _).
  fold (run ops) in I1.
  destruct (ReprV_in _ _ _ _ _ (i_v _ _ _ I1) Hg Hx) as [Hx1 Hx2].
  destruct (ReprV_in _ _ _ _ _ (i_v _ _ _ I1) Hg Hy) as [Hy1 Hy2].
  apply (proj1 (k_uni _ _ (i_k _ _ _ I1)) x y q); assumption.
Qed.

End Fx.

(** ** deleting a rule set cleans its source *)

Lemma dirty_from_app ops1 : forall S D ops2,
  dirty_from S D (ops1 ++ ops2) = dirty_from (current_from S ops1) (dirty_from S D ops1) ops2.
Proof. induction ops1 as [|o r IH]; intros S D ops2; simpl; [reflexivity | apply IH]. Qed.

Lemma not_in_rm_src s D : ~ In s (rm_src s D).
Proof. unfold rm_src. rewrite filter_In. intros [_ H]. rewrite Nat.eqb_refl in H. discriminate. Qed.

Theorem delete_cleans ops s : ~ In s (dirty (ops ++ [Delete s])).
Proof.
  unfold dirty. rewrite dirty_from_app. simpl. unfold dirty_step, dirty2_step, dirty1_step.
  intro H. apply (not_in_rm_src s (rm_src s (dirty_from [] [] ops))). exact H.
Qed.

(** ** the tree as it is now: all three repairs *)

Lemma base_guard_all_fix ops : guard_dupid ops = false -> base_guard all_fix ops = false.
Proof. intro H. unfold base_guard. simpl. rewrite H. reflexivity. Qed.

Theorem now_history_equals_fresh ops : wf_history ops = true -> guard_dupid ops = false -> dirty ops = [] ->
  index (run all_fix ops) = index (fresh all_fix (current ops)).
Proof. intros W G D. apply history_equals_fresh; [exact W | apply base_guard_all_fix; exact G | exact D]. Qed.

Theorem now_lookups_equal_fresh ops : wf_history ops = true -> guard_dupid ops = false -> dirty ops = [] ->
  forall pinned_lookup path m,
    find_rule pinned_lookup (index (run all_fix ops)) path m =
    find_rule pinned_lookup (index (fresh all_fix (current ops))) path m.
Proof. intros W G D. apply lookups_equal_fresh; [exact W | apply base_guard_all_fix; exact G | exact D]. Qed.

Theorem now_rejected_iff_cannot_apply ops o : wf_history (ops ++ [o]) = true -> guard_dupid (ops ++ [o]) = false ->
  exists st' res, step all_fix (run all_fix ops) o = (st', res) /\
    (res = None <-> spec_ok (current ops) o = true) /\ (res <> None -> st' = run all_fix ops).
Proof. intros W G. apply rejected_iff_cannot_apply; [exact W | apply base_guard_all_fix; exact G]. Qed.

Theorem now_found_is_current ops : wf_history ops = true -> guard_dupid ops = false ->
  forall pinned_lookup path m r, find_rule pinned_lookup (index (run all_fix ops)) path m = Some r ->
    In (r_def r) (get_set (current ops) (r_src r)).
Proof. intros W G. apply found_is_current; [exact W | apply base_guard_all_fix; exact G]. Qed.

Theorem now_current_rules_indexed ops : wf_history ops = true -> guard_dupid ops = false ->
  forall r x p, In (r_def r) (get_set (current ops) (r_src r)) -> In x (routes_of r) -> rpat x = Some p ->
    exists n, get (index (run all_fix ops)) p = Some n /\ In x (vals n).
Proof. intros W G. apply current_rules_indexed; [exact W | apply base_guard_all_fix; exact G]. Qed.

Theorem now_node_has_one_source ops : wf_history ops = true -> guard_dupid ops = false ->
  forall q n x y, get (index (run all_fix ops)) q = Some n -> In x (vals n) -> In y (vals n) -> rt_src x = rt_src y.
Proof. intros W G. apply node_has_one_source; [exact W | apply base_guard_all_fix; exact G]. Qed.
