(** C06/Pat.v — path expressions of heimdall's rule index as token lists.

    Copied (definitions only as far as C06 needs them) from Radix/Spec.v and
    Radix/SpecProofs.v, so that the C06 development does not depend on files
    that are still changing.  Contents:

    - tokens [L c | W | C] (literal byte, single wildcard, free wildcard),
    - [parse_expr] : expression -> tokens + wildcard key names, with the escapes
      and the static validity rule of tree.go's [addNode],
    - [take_seg] (the bytes up to the next '/'),
    - the total order [pat_cmp] on patterns (used only to keep the abstract index
      of C06/Model.v in a canonical order) and its order lemmas. *)
From HV Require Import Base.Prelude.

Definition str := list ascii.

Definition ch_slash : ascii := "/"%char.
Definition ch_colon : ascii := ":"%char.
Definition ch_star : ascii := "*"%char.
Definition ch_bslash : ascii := "\"%char.

Definition is_special (c : ascii) : bool :=
  Ascii.eqb c ch_colon || Ascii.eqb c ch_star || Ascii.eqb c ch_bslash.

Inductive tok := L (c : ascii) | W | C.
Definition pat := list tok.

Definition tok_eqb (a b : tok) : bool :=
  match a, b with
  | L x, L y => Ascii.eqb x y
  | W, W | C, C => true
  | _, _ => false
  end.

Definition pat_eqb : pat -> pat -> bool := list_eqb tok_eqb.

Definition str_eqb : str -> str -> bool := list_eqb Ascii.eqb.

(** ** Parsing an expression (tree.go addNode, seen from outside)

    A segment is what stands between two '/'.  Only its first byte is special:
    ':' makes the segment a single wildcard (the rest is its key name), '*' a
    free wildcard (the rest is its key name; nothing may follow the segment), a
    backslash followed by ':', '*' or a backslash is dropped and the rest of the
    segment is literal.  Everywhere else every byte (backslashes, ':' and '*'
    included) is literal.  Every '/' is a literal of its own.

    [parse_go md s] returns (tokens, pending key-name prefix, key names). *)

Inductive pmode := SegStart | InSeg | InName.

Fixpoint has_slash (s : str) : bool :=
  match s with
  | [] => false
  | c :: r => Ascii.eqb c ch_slash || has_slash r
  end.

Fixpoint parse_go (md : pmode) (s : str) : option (pat * str * list str) :=
  match s with
  | [] => Some ([], [], [])
  | c :: r =>
    if Ascii.eqb c ch_slash then
      match parse_go SegStart r with
      | Some (p, _, ks) => Some (L c :: p, [], ks)
      | None => None
      end
    else
      match md with
      | InSeg =>
        match parse_go InSeg r with
        | Some (p, _, ks) => Some (L c :: p, [], ks)
        | None => None
        end
      | InName =>
        match parse_go InName r with
        | Some (p, cur, ks) => Some (p, c :: cur, ks)
        | None => None
        end
      | SegStart =>
        if Ascii.eqb c ch_star then
          if has_slash r then None else Some ([C], [], [r])
        else if Ascii.eqb c ch_colon then
          match parse_go InName r with
          | Some (p, cur, ks) => Some (W :: p, [], cur :: ks)
          | None => None
          end
        else
          let lit c' r' :=
            match parse_go InSeg r' with
            | Some (p, _, ks) => Some (L c' :: p, [], ks)
            | None => None
            end in
          if Ascii.eqb c ch_bslash then
            match r with
            | c2 :: r2 => if is_special c2 then lit c2 r2 else lit c r
            | [] => lit c r
            end
          else lit c r
      end
  end.

Definition parse_expr (s : str) : option (pat * list str) :=
  match parse_go SegStart s with
  | Some (p, _, ks) => Some (p, ks)
  | None => None
  end.

(** the pattern of an expression, if it is valid *)
Definition pat_of (s : str) : option pat :=
  match parse_expr s with Some (p, _) => Some p | None => None end.

(** wildcard names: two expressions with the same pattern must use the same key
    names (tree.go addNode: "wildcard keys differ" at the end of the path and, since
    fix: commit 20f92b3 for finding C03-F3, also for a path ending in a free
    wildcard; "free wildcard name doesn't match" is the special case of the last
    name) *)
Definition keys_compat (a b : str) : bool :=
  match parse_expr a, parse_expr b with
  | Some (p, ka), Some (q, kb) => negb (pat_eqb p q) || list_eqb str_eqb ka kb
  | _, _ => true
  end.

(** the bytes up to the next '/' and the rest *)
Fixpoint take_seg (s : str) : str * str :=
  match s with
  | [] => ([], [])
  | c :: r => if Ascii.eqb c ch_slash then ([], s) else let (a, b) := take_seg r in (c :: a, b)
  end.

(** ** A total order on patterns (literal < single wildcard < free wildcard,
    token by token; the specificity order of Radix/Spec.v) *)

Definition tok_cmp (a b : tok) : comparison :=
  match a, b with
  | L x, L y => N.compare (N_of_ascii x) (N_of_ascii y)
  | L _, _ => Lt
  | W, L _ => Gt
  | W, W => Eq
  | W, C => Lt
  | C, C => Eq
  | C, _ => Gt
  end.

Fixpoint pat_cmp (p q : pat) : comparison :=
  match p, q with
  | [], [] => Eq
  | [], _ :: _ => Lt
  | _ :: _, [] => Gt
  | a :: p', b :: q' => match tok_cmp a b with Eq => pat_cmp p' q' | c => c end
  end.

(** ** Facts *)

Lemma tok_eqb_eq a b : tok_eqb a b = true <-> a = b.
Proof.
  destruct a, b; simpl; split; intro H; try congruence; try discriminate.
  - apply Ascii.eqb_eq in H. congruence.
  - inversion H. apply Ascii.eqb_refl.
Qed.

Lemma pat_eqb_eq p q : pat_eqb p q = true <-> p = q.
Proof. apply list_eqb_spec. apply tok_eqb_eq. Qed.

Lemma pat_eqb_refl p : pat_eqb p p = true.
Proof. apply pat_eqb_eq. reflexivity. Qed.

Lemma pat_eqb_neq p q : pat_eqb p q = false <-> p <> q.
Proof.
  split; intro H.
  - intro E. apply pat_eqb_eq in E. congruence.
  - destruct (pat_eqb p q) eqn:E; [|reflexivity]. apply pat_eqb_eq in E. contradiction.
Qed.

Lemma pat_eqb_sym p q : pat_eqb p q = pat_eqb q p.
Proof.
  destruct (pat_eqb p q) eqn:E1, (pat_eqb q p) eqn:E2; try reflexivity.
  - apply pat_eqb_eq in E1. subst. rewrite pat_eqb_refl in E2. discriminate.
  - apply pat_eqb_eq in E2. subst. rewrite pat_eqb_refl in E1. discriminate.
Qed.

Lemma str_eqb_eq a b : str_eqb a b = true <-> a = b.
Proof. apply list_eqb_spec. apply Ascii.eqb_eq. Qed.

Lemma N_of_ascii_inj a b : N_of_ascii a = N_of_ascii b -> a = b.
Proof. intro H. rewrite <- (ascii_N_embedding a), <- (ascii_N_embedding b). congruence. Qed.

Lemma tok_cmp_eq a b : tok_cmp a b = Eq <-> a = b.
Proof.
  destruct a, b; simpl; split; intro H; try congruence; try discriminate.
  - apply N.compare_eq_iff in H. apply N_of_ascii_inj in H. congruence.
  - inversion H. apply N.compare_refl.
Qed.

Lemma tok_cmp_antisym a b : tok_cmp b a = CompOpp (tok_cmp a b).
Proof. destruct a, b; simpl; try reflexivity. apply N.compare_antisym. Qed.

Lemma tok_cmp_trans a b c : tok_cmp a b = Lt -> tok_cmp b c = Lt -> tok_cmp a c = Lt.
Proof.
  destruct a, b, c; simpl; try congruence; try discriminate.
  rewrite !N.compare_lt_iff. apply N.lt_trans.
Qed.

Lemma pat_cmp_eq p : forall q, pat_cmp p q = Eq <-> p = q.
Proof.
  induction p as [|a p IH]; intros [|b q]; simpl; split; intro H; try congruence; try discriminate.
  - destruct (tok_cmp a b) eqn:E; try discriminate. apply tok_cmp_eq in E. apply IH in H. congruence.
  - inversion H; subst. rewrite (proj2 (tok_cmp_eq b b) eq_refl). apply IH. reflexivity.
Qed.

Lemma pat_cmp_refl p : pat_cmp p p = Eq.
Proof. apply pat_cmp_eq. reflexivity. Qed.

Lemma pat_cmp_antisym p : forall q, pat_cmp q p = CompOpp (pat_cmp p q).
Proof.
  induction p as [|a p IH]; intros [|b q]; simpl; try reflexivity.
  rewrite (tok_cmp_antisym a b). destruct (tok_cmp a b); simpl; auto.
Qed.

Lemma pat_cmp_trans p : forall q r, pat_cmp p q = Lt -> pat_cmp q r = Lt -> pat_cmp p r = Lt.
Proof.
  induction p as [|a p IH]; intros [|b q] [|c r]; simpl; try congruence; try discriminate.
  destruct (tok_cmp a b) eqn:Eab; try discriminate.
  - apply tok_cmp_eq in Eab. subst b. destruct (tok_cmp a c); try congruence. apply IH.
  - intros _. destruct (tok_cmp b c) eqn:Ebc; try discriminate.
    + apply tok_cmp_eq in Ebc. subst c. rewrite Eab. reflexivity.
    + intros _. rewrite (tok_cmp_trans _ _ _ Eab Ebc). reflexivity.
Qed.

Lemma pat_cmp_gt_lt p q : pat_cmp p q = Gt <-> pat_cmp q p = Lt.
Proof. rewrite (pat_cmp_antisym p q). destruct (pat_cmp p q); simpl; split; congruence. Qed.

Lemma pat_cmp_lt_neq p q : pat_cmp p q = Lt -> p <> q.
Proof. intros H E. subst. rewrite pat_cmp_refl in H. discriminate. Qed.

Lemma list_eqb_sym {A} (eqb : A -> A -> bool) : (forall x y, eqb x y = eqb y x) ->
  forall a b, list_eqb eqb a b = list_eqb eqb b a.
Proof.
  intros H a. induction a as [|x a IH]; intros [|y b]; simpl; try reflexivity.
  rewrite (H x y), IH. reflexivity.
Qed.

Lemma str_eqb_sym a b : str_eqb a b = str_eqb b a.
Proof. apply list_eqb_sym. intros x y. apply Ascii.eqb_sym. Qed.

Lemma str_eqb_refl a : str_eqb a a = true.
Proof. apply str_eqb_eq. reflexivity. Qed.

Lemma keys_compat_sym a b : keys_compat a b = keys_compat b a.
Proof.
  unfold keys_compat.
  destruct (parse_expr a) as [[p ka]|]; destruct (parse_expr b) as [[q kb]|]; try reflexivity.
  rewrite (pat_eqb_sym p q). destruct (pat_eqb q p) eqn:E; simpl; [|reflexivity].
  apply list_eqb_sym. apply str_eqb_sym.
Qed.

Lemma keys_compat_refl a : keys_compat a a = true.
Proof.
  unfold keys_compat. destruct (parse_expr a) as [[p ka]|]; [|reflexivity].
  rewrite pat_eqb_refl. simpl.
  apply list_eqb_spec; [apply str_eqb_eq | reflexivity].
Qed.

(** expressions with different patterns (or an invalid one) are compatible *)
Lemma keys_compat_diff a b : pat_of a <> pat_of b \/ pat_of a = None -> keys_compat a b = true.
Proof.
  unfold keys_compat, pat_of.
  destruct (parse_expr a) as [[p ka]|]; [|reflexivity].
  destruct (parse_expr b) as [[q kb]|]; [|reflexivity].
  intros [H|H]; [|discriminate].
  destruct (pat_eqb p q) eqn:E; [|reflexivity]. apply pat_eqb_eq in E. subst. congruence.
Qed.
