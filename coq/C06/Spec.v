(** C06/Spec.v — what the property says, written without the repository:
    which rule sets exist after a history ([current]), which changes can be
    applied ([spec_accepts]), what "loaded once into an empty instance" means
    ([fresh]), and the guards of the recorded findings as boolean functions of the
    history.  Definitions only; the proofs are in C06/Proofs.v. *)
From HV Require Import Base.Prelude C06.Pat C06.Model.

(** ** The rule sets that exist: source id -> current version, in creation order *)

Definition sets := list (nat * list rdef).

Fixpoint get_set (S : sets) (s : nat) : list rdef :=
  match S with
  | [] => []
  | (t, ds) :: r => if Nat.eqb t s then ds else get_set r s
  end.

Fixpoint has_set (S : sets) (s : nat) : bool :=
  match S with
  | [] => false
  | (t, _) :: r => Nat.eqb t s || has_set r s
  end.

Fixpoint put_set (S : sets) (s : nat) (ds : list rdef) : sets :=
  match S with
  | [] => [(s, ds)]
  | (t, x) :: r => if Nat.eqb t s then (t, ds) :: r else (t, x) :: put_set r s ds
  end.

Fixpoint del_set (S : sets) (s : nat) : sets :=
  match S with
  | [] => []
  | (t, x) :: r => if Nat.eqb t s then r else (t, x) :: del_set r s
  end.

(** ** Which changes can be applied

    "A change that cannot be applied (invalid path expression, a path expression
    already owned by another rule set) is rejected as a whole." *)

Definition exprs (ds : list rdef) : list str := flat_map d_paths ds.

Definition valid_expr (e : str) : bool :=
  match pat_of e with Some _ => true | None => false end.

(** the patterns of the valid expressions of a rule set *)
Definition pats (ds : list rdef) : list pat :=
  flat_map (fun e => match pat_of e with Some p => [p] | None => [] end) (exprs ds).

Definition mem_pat (p : pat) (l : list pat) : bool := existsb (pat_eqb p) l.

(** no expression of [ds] is owned by a rule set of another source *)
Definition not_owned (S : sets) (s : nat) (ds : list rdef) : bool :=
  forallb (fun t => Nat.eqb (fst t) s ||
                    forallb (fun p => negb (mem_pat p (pats (snd t)))) (pats ds)) S.

(** wildcard names: two expressions of a rule set with the same pattern must be
    compatible ([keys_compat], C06/Pat.v) *)
Definition keys_ok (ds : list rdef) : bool :=
  let es := exprs ds in forallb (fun a => forallb (keys_compat a) es) es.

Definition spec_accepts (S : sets) (s : nat) (ds : list rdef) : bool :=
  forallb valid_expr (exprs ds) && keys_ok ds && not_owned S s ds.

(** can the change be applied?  (a deletion always can) *)
Definition spec_ok (S : sets) (o : op) : bool :=
  match o with
  | Add s ds | Update s ds => spec_accepts S s ds
  | Delete _ => true
  | Refused _ => false
  end.

Definition spec_step (S : sets) (o : op) : sets :=
  match o with
  | Add s ds | Update s ds => if spec_accepts S s ds then put_set S s ds else S
  | Delete s => del_set S s
  | Refused _ => S
  end.

Definition current_from (S : sets) (ops : list op) : sets := fold_left spec_step ops S.
Definition current (ops : list op) : sets := current_from [] ops.

(** ** "loaded once into an empty instance" *)

Definition fresh_ops (S : sets) : list op := map (fun t => Add (fst t) (snd t)) S.
Definition fresh (fx : fixes) (S : sets) : repo := run fx (fresh_ops S).

(** ** Histories the property talks about: a rule set is created only when no
    set of that source exists (a second creation is not a creation). *)

Fixpoint wf_from (S : sets) (ops : list op) : bool :=
  match ops with
  | [] => true
  | o :: r =>
    (match o with Add s _ => negb (has_set S s) | _ => true end) && wf_from (spec_step S o) r
  end.

Definition wf_history (ops : list op) : bool := wf_from [] ops.

(** ** Guards of the findings (boolean functions of the history) *)

(** the rule set an operation brings *)
Definition op_set (o : op) : list rdef :=
  match o with Add _ ds | Update _ ds => ds | Delete _ | Refused _ => [] end.

Definition op_src (o : op) : nat :=
  match o with Add s _ | Update s _ | Delete s | Refused s => s end.

Definition def_pats (d : rdef) : list pat := pats [d].

Definition share_pat (a b : rdef) : bool :=
  existsb (fun p => mem_pat p (def_pats b)) (def_pats a).

(** [pairs_ok f l]: [f a b] for all a before b in l *)
Fixpoint all_pairs {A} (f : A -> A -> bool) (l : list A) : bool :=
  match l with
  | [] => true
  | a :: r => forallb (f a) r && all_pairs f r
  end.

(** *** C06-F2: the node's flag is that of the last Add.  Shows when two rules of
    one rule set share an expression and differ in backtracking_enabled. *)
Definition f2_set (ds : list rdef) : bool :=
  negb (all_pairs (fun a b => negb (share_pat a b) || Bool.eqb (d_bt a) (d_bt b)) ds).

Definition guard_F2 (ops : list op) : bool := existsb (fun o => f2_set (op_set o)) ops.

(** *** C06-F4: a rule that lists the same expression twice (more precisely: two
    expressions with the same pattern) can never be deleted or updated again. *)
Fixpoint nodup_pats (l : list pat) : bool :=
  match l with
  | [] => true
  | p :: r => negb (mem_pat p r) && nodup_pats r
  end.

Definition f4_set (ds : list rdef) : bool := negb (forallb (fun d => nodup_pats (def_pats d)) ds).

Definition guard_F4 (ops : list op) : bool := existsb (fun o => f4_set (op_set o)) ops.

(** *** Two rules with the same id in one rule set: SameAs cannot tell them apart,
    the diff of an update and the value matcher of a delete treat them as one. *)
Definition dupid_set (ds : list rdef) : bool :=
  negb (all_pairs (fun a b => negb (Nat.eqb (d_id a) (d_id b))) ds).

Definition guard_dupid (ops : list op) : bool := existsb (fun o => dupid_set (op_set o)) ops.

(** *** C06-F1: an update deletes the changed rules and appends them (and the new
    ones) behind the unchanged ones; the order of the unchanged ones is never
    touched.  For every expression of the new version this must give the order of
    the new version:  unchanged rules in their old order, then changed / new rules
    in their new order  =  the new version, restricted to that expression. *)
Definition unchanged_in (l : list rdef) (d : rdef) : bool := existsb (rdef_eqb d) l.

Definition at_pat (p : pat) (ds : list rdef) : list rdef :=
  filter (fun d => mem_pat p (def_pats d)) ds.

Definition f1_step (old new : list rdef) : bool :=
  let kept := filter (unchanged_in new) old in
  let moved := filter (fun d => negb (unchanged_in old d)) new in
  negb (forallb (fun p => list_eqb rdef_eqb (at_pat p new) (at_pat p kept ++ at_pat p moved)) (pats new)).

Fixpoint f1_from (S : sets) (ops : list op) : bool :=
  match ops with
  | [] => false
  | o :: r =>
    (match o with
     | Update s ds => spec_accepts S s ds && f1_step (get_set S s) ds
     | _ => false
     end) || f1_from (spec_step S o) r
  end.

Definition guard_F1 (ops : list op) : bool := f1_from [] ops.

(** *** C06-F3 (node compression): delNode reads ':' '*' and backslash escapes at
    every node boundary, addNode only at the start of a segment.  A boundary can
    lie in front of any byte of a literal segment, so the guard is: some
    expression of the history has, inside a segment (not at its start), a ':' or
    '*' or a backslash followed by ':' '*' or a backslash. *)
Fixpoint trouble_seg (start : bool) (s : str) : bool :=
  match s with
  | [] => false
  | c :: r =>
    if Ascii.eqb c ch_slash then trouble_seg true r
    else if start then
      (* the first byte of a segment is treated alike by addNode and delNode; an
         escape there stands for its second byte *)
      match r with
      | c2 :: r2 => if Ascii.eqb c ch_bslash && is_special c2 then trouble_seg false r2
                    else trouble_seg false r
      | [] => false
      end
    else
      Ascii.eqb c ch_colon || Ascii.eqb c ch_star ||
      (Ascii.eqb c ch_bslash && match r with c2 :: _ => is_special c2 | [] => false end) ||
      trouble_seg false r
  end.

Definition trouble (e : str) : bool := trouble_seg true e.

Definition guard_F3 (ops : list op) : bool :=
  existsb (fun o => existsb trouble (exprs (op_set o))) ops.

(** *** C06-F5 (wildcard key names): the key names of a node survive the deletion
    of its last value when the node is kept.  Cannot show when all expressions of
    the history that have the same pattern use the same key names. *)
Definition keys_of (e : str) : option (pat * list str) := parse_expr e.

Definition keys_clash (a b : str) : bool :=
  match parse_expr a, parse_expr b with
  | Some (p, ka), Some (q, kb) => pat_eqb p q && negb (list_eqb str_eqb ka kb)
  | _, _ => false
  end.

Definition all_exprs (ops : list op) : list str := flat_map (fun o => exprs (op_set o)) ops.

Definition guard_F5 (ops : list op) : bool :=
  let es := all_exprs ops in
  existsb (fun a => existsb (keys_clash a) es) es.

(** no guard of a finding that the bare repository still has fires ([fx]: which of
    the repairs of C06-F3/F4/F5 — fix: commits 2d9cd1f, 003095f, f6ce52b — it contains) *)
Definition no_guard_fx (fx : fixes) (ops : list op) : bool :=
  negb (guard_F1 ops || guard_F2 ops || (negb (fix_F3 fx) && guard_F3 ops) || (negb (fix_F4 fx) && guard_F4 ops) ||
        (negb (fix_F5 fx) && guard_F5 ops) || guard_dupid ops).

Definition no_guard (ops : list op) : bool := no_guard_fx no_fix ops.

(** ** The open findings C06-F1 / C06-F2, per source and with a reset

    An update hit by C06-F1, or an accepted rule set with the C06-F2 shape, leaves
    the order / the node flags of THAT source's rules in a state a fresh load would
    not produce; deleting the rule set removes all of it.  [dirty ops]: the sources
    in such a state after the history. *)

Definition rm_src (s : nat) (l : list nat) : list nat := filter (fun t => negb (Nat.eqb t s)) l.

Definition dirty1_step (S : sets) (o : op) (d : list nat) : list nat :=
  match o with
  | Update s ds => if spec_accepts S s ds && f1_step (get_set S s) ds then s :: d else d
  | Delete s => rm_src s d
  | _ => d
  end.

Definition dirty2_step (S : sets) (o : op) (d : list nat) : list nat :=
  match o with
  | Add s ds | Update s ds => if spec_accepts S s ds && f2_set ds then s :: d else d
  | Delete s => rm_src s d
  | Refused _ => d
  end.

Definition dirty_step (S : sets) (o : op) (d : list nat) : list nat :=
  dirty2_step S o (dirty1_step S o d).

Fixpoint dirty_from (S : sets) (d : list nat) (ops : list op) : list nat :=
  match ops with
  | [] => d
  | o :: r => dirty_from (spec_step S o) (dirty_step S o d) r
  end.

Definition dirty (ops : list op) : list nat := dirty_from [] [] ops.

(** the history-global guards that matter for the BARE repository [run all_fix]
    (C06-F3, F4, F5 are repaired: fix: commits 2d9cd1f, 003095f, f6ce52b; C06-F6 is
    repaired in the rule-set processor, 5e2c60e, which the bare repository does not
    contain: see C06/Processor.v).  Used by the witnesses only. *)
Definition open_guards (ops : list op) : bool := guard_F1 ops || guard_F2 ops || guard_dupid ops.
