(** C06/TreeDelProofs.v — Delete on the compressed radix tree (C06/TreeDel.v: delNode,
    deleteChild with its pruning and merging) refines the pattern-map machine's [delete]
    (Radix/Machine.v), and keeps the tree invariant [wfd] = [wfb] (Radix/Tree.v) + [shape]:

      [del_node_spec]        for every node, rest of a path expression and mode: [del_node]
                             fails exactly when the machine's delete fails on the node of the
                             parsed expression; otherwise the new tree satisfies [wfd] and its
                             abstraction is the old one with that entry updated
      [tree_delete_refines]  the same for [tree_delete] and [delete] on [abs t] *)
From HV Require Import Base.Prelude Radix.Spec Radix.SpecProofs Radix.Machine Radix.MachineProofs
  Radix.Load Radix.LoadProofs Radix.Tree Radix.TreeProofs Radix.TreeAddProofs C06.TreeDel C06.TreeDelFacts.

(** ** strings *)

Lemma is_prefix_within cp' : forall tt' remaining,
  is_prefix cp' (tt' ++ remaining) = true -> has_slash cp' = false -> seg_end remaining ->
  exists b, tt' = cp' ++ b /\ skipn (length cp') (tt' ++ remaining) = b ++ remaining.
Proof.
  induction cp' as [|x r IH]; intros tt' remaining Hp Hs He; [exists tt'; split; reflexivity|].
  cbn [has_slash] in Hs. apply orb_false_iff in Hs as [Hx Hr].
  destruct tt' as [|y t].
  - cbn [app] in Hp. destruct He as [->|[r' ->]]; [discriminate|].
    cbn [is_prefix] in Hp. apply andb_true_iff in Hp as [Hp _]. apply Ascii.eqb_eq in Hp. subst x. discriminate.
  - cbn [app is_prefix] in Hp. apply andb_true_iff in Hp as [Hxy Hp]. apply Ascii.eqb_eq in Hxy. subst y.
    destruct (IH t remaining Hp Hr He) as (b & Hb1 & Hb2). exists b. split; [cbn [app]; f_equal; exact Hb1 | exact Hb2].
Qed.

Definition starts_slash_or_nil (q : pat) : Prop := q = [] \/ exists r, q = L ch_slash :: r.

Lemma strip_lits_prefix cp' : forall tt' q_rem remaining r0,
  has_slash cp' = false -> starts_slash_or_nil q_rem ->
  strip_prefix (lits cp') (lits tt' ++ q_rem) = Some r0 -> is_prefix cp' (tt' ++ remaining) = true.
Proof.
  induction cp' as [|x r IH]; intros tt' q_rem remaining r0 Hs Hq H; [reflexivity|].
  cbn [has_slash] in Hs. apply orb_false_iff in Hs as [Hx Hr].
  destruct tt' as [|y t].
  - cbn [lits map app strip_prefix] in H. destruct Hq as [->|[r' ->]]; [discriminate|].
    cbn [tok_eqb] in H. rewrite Hx in H. discriminate.
  - cbn [lits map app strip_prefix tok_eqb] in H. cbn [app is_prefix].
    destruct (Ascii.eqb x y) eqn:E; [|discriminate]. cbn [andb]. eapply IH; eassumption.
Qed.

Lemma parse2_seg_end_shape md remaining q ks : seg_end remaining -> parse2 md remaining = Some (q, ks) -> starts_slash_or_nil q.
Proof.
  intros [->|[r ->]] H.
  - rewrite parse2_nil in H. inversion H. left. reflexivity.
  - rewrite parse2_slash in H. destruct (parse2 SegStart r) as [[p k]|]; [|discriminate]. inversion H. right. eexists. reflexivity.
Qed.

(** ** the frame of Delete *)

Section Frame.
Variable V : Type.
Variable fm : V -> bool.
Notation tree := (tree V).

Lemma after_child_path (n : tree) sl c' : t_path (after_child n sl c') = t_path n.
Proof.
  unfold after_child, delete_child, put_child, drop_child.
  destruct (is_nil (t_vals c')); [|destruct sl; destruct n; reflexivity].
  destruct (mergeable c' && _); [destruct sl; destruct n; reflexivity|].
  destruct (is_leaf V _); destruct sl; destruct n; reflexivity.
Qed.

Lemma after_child_wild (n : tree) sl c' : sl <> SWild -> t_wild (after_child n sl c') = t_wild n.
Proof.
  intro Hs. unfold after_child, delete_child, put_child, drop_child.
  destruct (is_nil (t_vals c')); [|destruct sl; try congruence; destruct n; reflexivity].
  destruct (mergeable c' && _); [destruct sl; try congruence; destruct n; reflexivity|].
  destruct (is_leaf V _); destruct sl; try congruence; destruct n; reflexivity.
Qed.

Lemma after_child_catch (n : tree) sl c' : sl <> SCatch -> t_catch (after_child n sl c') = t_catch n.
Proof.
  intro Hs. unfold after_child, delete_child, put_child, drop_child.
  destruct (is_nil (t_vals c')); [|destruct sl; try congruence; destruct n; reflexivity].
  destruct (mergeable c' && _); [destruct sl; try congruence; destruct n; reflexivity|].
  destruct (is_leaf V _); destruct sl; try congruence; destruct n; reflexivity.
Qed.

Lemma after_child_here (n : tree) sl c' :
  t_vals (after_child n sl c') = t_vals n /\ t_keys (after_child n sl c') = t_keys n /\ t_bt (after_child n sl c') = t_bt n.
Proof.
  unfold after_child, delete_child, put_child, drop_child.
  destruct (is_nil (t_vals c')); [|destruct sl; destruct n; auto].
  destruct (mergeable c' && _); [destruct sl; destruct n; auto|].
  destruct (is_leaf V _); destruct sl; destruct n; auto.
Qed.

Lemma after_child_statics (n : tree) sl c' (P : ascii * tree -> bool) :
  (forall d x y, P (d, x) = P (d, y)) ->
  forallb P (t_statics n) = true -> forallb P (t_statics (after_child n sl c')) = true.
Proof.
  intros HP H.
  assert (Hput : forall x, forallb P (t_statics (put_child n sl x)) = true).
  { intro x. destruct sl as [| |c]; try (destruct n; exact H).
    replace (t_statics (put_child n (SStatic c) x)) with (replace_static V c x (t_statics n)) by (destruct n; reflexivity).
    clear -HP H. induction (t_statics n) as [|[d y] r IH]; [reflexivity|]. cbn [forallb] in H.
    apply andb_true_iff in H as [H1 H2]. cbn [replace_static]. destruct (Ascii.eqb c d); cbn [forallb].
    - rewrite (HP d x y), H1, H2. reflexivity.
    - rewrite H1, (IH H2). reflexivity. }
  assert (Hdrop : forallb P (t_statics (drop_child n sl)) = true).
  { destruct sl as [| |c]; try (destruct n; exact H).
    replace (t_statics (drop_child n (SStatic c))) with (remove_static c (t_statics n)) by (destruct n; reflexivity).
    apply forallb_remove. exact H. }
  unfold after_child, delete_child.
  destruct (is_nil (t_vals c')); [|apply Hput].
  destruct (mergeable c' && _); [apply Hput|]. destruct (is_leaf V _); [apply Hdrop | apply Hput].
Qed.

Lemma del_here_frame (n n' : tree) : del_here fm n = Some n' ->
  t_path n' = t_path n /\ t_statics n' = t_statics n /\ t_wild n' = t_wild n /\ t_catch n' = t_catch n.
Proof.
  unfold del_here. destruct (t_vals n); [discriminate|]. destruct (Nat.eqb _ _); [discriminate|].
  destruct (filter _ _); intro H; inversion H; subst; cbn; auto.
Qed.

(** the node Delete comes back with: same path, no new wildcard children, no new static index *)
Lemma del_node_frame fuel (n n' : tree) path ins : del_node fm fuel n path ins = Some n' ->
  t_path n' = t_path n /\ (no_wc n = true -> no_wc n' = true) /\
  (only_slash (t_statics n) = true -> only_slash (t_statics n') = true).
Proof.
  destruct fuel as [|f]; [discriminate|]. destruct path as [|token rest0]; cbn [del_node].
  - intro H. apply del_here_frame in H as (H1 & H2 & H3 & H4). unfold no_wc. rewrite H1, H2, H3, H4. auto.
  - assert (Hos : forall sl c', only_slash (t_statics n) = true -> only_slash (t_statics (after_child n sl c')) = true).
    { intros sl c'. apply after_child_statics. intros d x y. reflexivity. }
    destruct (negb ins && Ascii.eqb token ch_colon).
    { destruct (t_wild n) as [w|] eqn:Ew; [|discriminate]. destruct (del_node fm f w _ false) as [w'|]; [|discriminate].
      intro H. inversion H; subst n'. split; [apply after_child_path|]. split; [|apply Hos].
      unfold no_wc. rewrite Ew. discriminate. }
    destruct (negb ins && Ascii.eqb token ch_star).
    { destruct (t_catch n) as [c|] eqn:Ec; [|discriminate]. destruct (del_node fm f c [] false) as [c'|]; [|discriminate].
      intro H. inversion H; subst n'. split; [apply after_child_path|]. split; [|apply Hos].
      unfold no_wc. rewrite Ec, andb_false_r. discriminate. }
    cbv zeta. destruct (find_static _ (t_statics n)) as [child|]; [|discriminate].
    destruct (is_prefix _ _); [|discriminate]. destruct (del_node fm f child _ _) as [c'|]; [|discriminate].
    intro H. inversion H; subst n'. split; [apply after_child_path|]. split; [|apply Hos].
    unfold no_wc. rewrite after_child_wild, after_child_catch by discriminate. auto.
Qed.

End Frame.

(** ** delNode does what the machine's delete does *)

Section DelSpec.
Variable V : Type.
Variable fm : V -> bool.
Notation tree := (tree V).
Notation node := (node V).
Notation db := (db V).

Definition del_spec (fuel : nat) (n : tree) (path : str) (ins : bool) : Prop :=
  match parse2 (mode ins) path with
  | None => True
  | Some (q, _) =>
    let x := assoc q (abs n) in
    match del_node fm fuel n path ins with
    | None => del_upd fm x = None
    | Some n' => exists y, del_upd fm x = Some y /\ wfd n' = true /\ updated V (abs n) (abs n') q y
    end
  end.

Definition dspec_at (f : nat) : Prop :=
  forall n path ins, wfd n = true -> length path < f -> del_spec f n path ins.

(** the same statics and single-wildcard child: the same [shape] *)
Lemma wfd_same_children (n n' : tree) : wfd n = true -> wfb n' = true ->
  t_statics n' = t_statics n -> t_wild n' = t_wild n -> wfd n' = true.
Proof.
  intros H Hw Hs Hwi. apply wfd_parts in H as (_ & H2 & H3). apply wfd_build; [exact Hw | rewrite Hs; exact H2 | rewrite Hwi; exact H3].
Qed.

(** *** the expression ends at this node *)
Lemma del_spec_nil f (n : tree) ins : wfd n = true -> del_spec (S f) n [] ins.
Proof.
  intro Hwd. pose proof (wfd_leaf_or V n Hwd) as Hwf.
  unfold del_spec. rewrite parse2_nil. cbv zeta. rewrite (assoc_nil_abs V n Hwf). cbn [del_node]. unfold del_here.
  destruct (t_vals n) as [|v0 vs0] eqn:Ev; [reflexivity|].
  unfold del_upd. cbn [node_of vals flag keys]. rewrite Ev.
  destruct (Nat.eqb _ _); [reflexivity|].
  destruct (filter (fun v => negb (fm v)) (v0 :: vs0)) as [|v1 vs1] eqn:Ef.
  - exists None. split; [reflexivity|]. destruct (lift_here_clear V n Hwf) as [Hw' Hu].
    split; [|exact Hu]. apply (wfd_same_children n); [exact Hwd | exact Hw' | reflexivity | reflexivity].
  - eexists. split; [reflexivity|].
    destruct (lift_here V n (v1 :: vs1) (t_keys n) (t_bt n) Hwf ltac:(discriminate)) as [Hw' Hu].
    split; [|exact Hu]. apply (wfd_same_children n); [exact Hwd | exact Hw' | reflexivity | reflexivity].
Qed.

(** *** a static child: what the parent does with the child Delete came back from *)



Section StaticSlot.
Variables (n child : tree) (c : ascii) (cp' : str).
Hypothesis Hwd : wfd n = true.
Hypothesis Hf : find_static c (t_statics n) = Some child.
Hypothesis Hcp : t_path child = c :: cp'.

Lemma put_ok (child2 : tree) a' (D' : db) q0 y :
  wfd child2 = true -> t_path child2 = c :: a' -> seg_ok child2 = true ->
  same_entries V (map (pre (lits cp')) D') (map (pre (lits a')) (abs child2)) ->
  updated V (abs child) D' q0 y ->
  wfd (put_child n (SStatic c) child2) = true /\
  updated V (abs n) (abs (put_child n (SStatic c) child2)) (L c :: lits cp' ++ q0) y.
Proof.
  intros Hw2 Hp2 Hso Hsame Hu. apply wfd_parts in Hw2 as (Hwb2 & Hs2a & Hs2b).
  pose proof (wfd_parts V n Hwd) as (Hwf & Hsh1 & Hsh2).
  destruct (lift_static_put V n c child cp' child2 a' D' q0 y Hwf Hf Hcp Hwb2 Hp2 Hsame Hu) as [Hw' Hu'].
  cbn [put_child]. split; [|exact Hu'].
  apply wfd_build; [exact Hw' | |].
  - replace (t_statics (set_statics V n (replace_static V c child2 (t_statics n)))) with (replace_static V c child2 (t_statics n))
      by (destruct n; reflexivity).
    apply forallb_replace; [exact Hsh1|]. intro d. cbn [snd]. rewrite Hso. rewrite shape_unfold, Hs2a, Hs2b. reflexivity.
  - replace (t_wild (set_statics V n (replace_static V c child2 (t_statics n)))) with (t_wild n) by (destruct n; reflexivity).
    exact Hsh2.
Qed.

Lemma drop_ok (D' : db) q0 y :
  D' = [] -> updated V (abs child) D' q0 y ->
  wfd (drop_child n (SStatic c)) = true /\
  updated V (abs n) (abs (drop_child n (SStatic c))) (L c :: lits cp' ++ q0) y.
Proof.
  intros HD Hu. pose proof (wfd_parts V n Hwd) as (Hwf & Hsh1 & Hsh2).
  destruct (lift_static_drop V n c child cp' D' q0 y Hwf Hf Hcp HD Hu) as [Hw' Hu'].
  cbn [drop_child]. split; [|exact Hu'].
  apply wfd_build; [exact Hw' | |].
  - replace (t_statics (set_statics V n (remove_static c (t_statics n)))) with (remove_static c (t_statics n)) by (destruct n; reflexivity).
    apply forallb_remove. exact Hsh1.
  - replace (t_wild (set_statics V n (remove_static c (t_statics n)))) with (t_wild n) by (destruct n; reflexivity).
    exact Hsh2.
Qed.

Lemma static_after (c' : tree) q0 y :
  wfd c' = true -> t_path c' = c :: cp' -> seg_ok c' = true ->
  updated V (abs child) (abs c') q0 y ->
  wfd (after_child n (SStatic c) c') = true /\
  updated V (abs n) (abs (after_child n (SStatic c) c')) (L c :: lits cp' ++ q0) y.
Proof.
  intros Hwc Hpc Hsoc Hu.
  assert (Hplain : wfd (put_child n (SStatic c) c') = true /\
                   updated V (abs n) (abs (put_child n (SStatic c) c')) (L c :: lits cp' ++ q0) y).
  { apply (put_ok c' cp' (abs c') q0 y Hwc Hpc Hsoc); [intro r; reflexivity | exact Hu]. }
  unfold after_child. destruct (is_nil (t_vals c')) eqn:Ev; [|exact Hplain].
  assert (Hv : t_vals c' = []) by (destruct (t_vals c'); [reflexivity | discriminate]).
  unfold delete_child. destruct (mergeable c') eqn:Em.
  - (* the value-less child is merged with its only child *)
    unfold mergeable in Em. unfold merged.
    destruct (t_statics c') as [|[i g] [|? ?]] eqn:Est; try discriminate.
    apply andb_true_iff in Em as [Ei Ep]. apply negb_true_iff in Ei. apply negb_true_iff in Ep.
    assert (Ecs : Ascii.eqb c ch_slash = false).
    { destruct (Ascii.eqb c ch_slash) eqn:E; [|reflexivity]. apply Ascii.eqb_eq in E. subst c.
      pose proof (seg_ok_slash V c' cp' Hpc Hsoc) as Hnil. rewrite Hnil in Hpc. rewrite Hpc in Ep. discriminate. }
    destruct (seg_ok_inside V c' c cp' Hpc Ecs Hsoc) as [Hns Hnw].
    pose proof (wfd_parts V c' Hwc) as (Hwbc & Hshc & _).
    assert (Hg : find_static i (t_statics c') = Some g) by (rewrite Est; cbn [find_static]; rewrite Ascii.eqb_refl; reflexivity).
    assert (Hwdc : wfd c' = true) by exact Hwc.
    destruct (wfd_static_child V c' i g Hwdc Hg) as ([gp' Hgp] & Hwg & Hsog).
    destruct (seg_ok_inside V g i gp' Hgp Ei Hsog) as [Hnsg Hnwg].
    set (g1 := set_path V g (t_path c' ++ t_path g)).
    assert (Hpg1 : t_path g1 = c :: (cp' ++ t_path g)) by (unfold g1; destruct g as [gp gs gw gc gv gk gb]; cbn [set_path t_path]; rewrite Hpc; reflexivity).
    assert (Hwg1 : wfd g1 = true) by (unfold wfd, g1; rewrite wfb_set_path, shape_set_path; exact Hwg).
    assert (Hso1 : seg_ok g1 = true).
    { unfold seg_ok. rewrite Hpg1. apply orb_true_iff. right.
      replace (no_wc g1) with (no_wc g) by (unfold g1; destruct g; reflexivity). rewrite Hnwg, andb_true_r.
      apply negb_true_iff. change (c :: cp' ++ t_path g) with ((c :: cp') ++ t_path g).
      rewrite has_slash_app, Hns, Hgp, Hnsg. reflexivity. }
    assert (Habs : abs c' = map (pre (lits (t_path g))) (abs g)).
    { rewrite (abs_unfold V c'). unfold here_entry. rewrite Hv, Est. unfold no_wc in Hnw.
      apply andb_true_iff in Hnw as [Hn1 Hn2]. destruct (t_wild c'); [discriminate|]. destruct (t_catch c'); [discriminate|].
      cbn [abs_statics flat_map snd abs_wild abs_catch app]. rewrite !app_nil_r. reflexivity. }
    assert (Hsame : same_entries V (map (pre (lits cp')) (abs c')) (map (pre (lits (cp' ++ t_path g))) (abs g1))).
    { intro r. unfold g1. rewrite abs_set_path, Habs, map_pre_pre, lits_app. reflexivity. }
    assert (Hmerged : wfd (put_child n (SStatic c) g1) = true /\
                      updated V (abs n) (abs (put_child n (SStatic c) g1)) (L c :: lits cp' ++ q0) y).
    { apply (put_ok g1 (cp' ++ t_path g) (abs c') q0 y Hwg1 Hpg1 Hso1 Hsame Hu). }
    fold g1. cbn [andb]. destruct (negb (is_nil (t_vals g1))) eqn:Evg; [exact Hmerged|].
    destruct (is_leaf V g1) eqn:El; [|exact Hmerged].
    apply (drop_ok (abs c') q0 y); [|exact Hu].
    rewrite Habs. replace (abs g) with (@nil (pat * node)); [reflexivity|]. symmetry.
    apply negb_false_iff in Evg. apply abs_empty_leaf.
    + replace (t_vals g) with (t_vals g1) by (unfold g1; destruct g; reflexivity). destruct (t_vals g1); [reflexivity | discriminate].
    + replace (is_leaf V g) with (is_leaf V g1) by (unfold g1; destruct g; reflexivity). exact El.
  - cbn [andb]. destruct (is_leaf V c') eqn:El; [|exact Hplain].
    apply (drop_ok (abs c') q0 y); [|exact Hu]. apply abs_empty_leaf; assumption.
Qed.

End StaticSlot.

(** *** the static branch of delNode *)

Definition static_D (f : nat) (n : tree) (c : ascii) (path' : str) (ins' : bool) : option tree :=
  match find_static c (t_statics n) with
  | None => None
  | Some child =>
    if is_prefix (t_path child) path' then
      match del_node fm f child (skipn (length (t_path child)) path') ins' with
      | Some c' => Some (after_child n (SStatic c) c')
      | None => None
      end
    else None
  end.

Lemma del_node_cons f (n : tree) token rest0 ins :
  del_node fm (S f) n (token :: rest0) ins =
  let path := token :: rest0 in
  if negb ins && Ascii.eqb token ch_colon then
    match t_wild n with
    | None => None
    | Some w => match del_node fm f w (snd (take_seg path)) false with
                | Some w' => Some (after_child n SWild w')
                | None => None
                end
    end
  else if negb ins && Ascii.eqb token ch_star then
    match t_catch n with
    | None => None
    | Some c => match del_node fm f c [] false with
                | Some c' => Some (after_child n SCatch c')
                | None => None
                end
    end
  else
    let esc := negb ins && is_escape path in
    let path' := if esc then skipn 1 path else path in
    let token' := if esc then match path with _ :: c2 :: _ => c2 | _ => token end else token in
    static_D f n token' path' (negb (Ascii.eqb token' ch_slash)).
Proof. reflexivity. Qed.

Lemma static_step_del f (n : tree) c tt' remaining :
  dspec_at f -> wfd n = true ->
  (Ascii.eqb c ch_slash = true -> tt' = []) ->
  (Ascii.eqb c ch_slash = false -> has_slash tt' = false /\ seg_end remaining) ->
  length (tt' ++ remaining) < f ->
  let ins' := negb (Ascii.eqb c ch_slash) in
  (forall a' b, tt' = a' ++ b ->
     parse2 (mode ins') (b ++ remaining) = on_parse (app (lits b)) (fun ks => ks) (parse2 (mode ins') remaining)) ->
  match parse2 (mode ins') remaining with
  | None => True
  | Some (q_rem, _) =>
    let q := lits (c :: tt') ++ q_rem in
    let x := assoc q (abs n) in
    match static_D f n c (c :: tt' ++ remaining) ins' with
    | None => del_upd fm x = None
    | Some n' => exists y, del_upd fm x = Some y /\ wfd n' = true /\ updated V (abs n) (abs n') q y
    end
  end.
Proof.
  intros IH Hwd Hsl Hin Hlen ins' Hparse.
  destruct (parse2 (mode ins') remaining) as [[q_rem ks]|] eqn:Eprem; [|exact I]. cbv zeta.
  pose proof (wfd_parts V n Hwd) as (Hwf & _ & _).
  pose proof Hwf as Hparts. apply wfb_parts in Hparts as (H1 & _ & H3 & _).
  unfold static_D. destruct (find_static c (t_statics n)) as [child|] eqn:Ef.
  2:{ replace (assoc (lits (c :: tt') ++ q_rem) (abs n)) with (@None node); [reflexivity|].
      cbn [lits map app]. rewrite <- assoc_deriv, (deriv_L_abs V c n H1 H3), Ef. reflexivity. }
  destruct (wfd_static_child V n c child Hwd Ef) as ([cp' Hcp] & Hwch & Hsoch).
  rewrite Hcp. cbn [is_prefix length skipn]. rewrite Ascii.eqb_refl. cbn [andb].
  assert (Eassoc0 : assoc (lits (c :: tt') ++ q_rem) (abs n) =
                    match strip_prefix (lits cp') (lits tt' ++ q_rem) with Some r' => assoc r' (abs child) | None => None end).
  { cbn [lits map app]. rewrite <- assoc_deriv, (deriv_L_abs V c n H1 H3), Ef, Hcp. cbn [tl]. rewrite assoc_pre. reflexivity. }
  (* the child's path inside the token *)
  assert (Hcase : (is_prefix cp' (tt' ++ remaining) = true /\ exists b, tt' = cp' ++ b /\ skipn (length cp') (tt' ++ remaining) = b ++ remaining)
                  \/ (is_prefix cp' (tt' ++ remaining) = false /\ strip_prefix (lits cp') (lits tt' ++ q_rem) = None)).
  { destruct (Ascii.eqb c ch_slash) eqn:Ec.
    - apply Ascii.eqb_eq in Ec. subst c. rewrite (seg_ok_slash V child cp' Hcp Hsoch). left.
      split; [reflexivity|]. exists tt'. split; reflexivity.
    - destruct (Hin eq_refl) as [Hns Hse]. destruct (seg_ok_inside V child c cp' Hcp Ec Hsoch) as [Hnsc _].
      cbn [has_slash] in Hnsc. apply orb_false_iff in Hnsc as [_ Hnsc].
      destruct (is_prefix cp' (tt' ++ remaining)) eqn:Ep.
      + left. split; [reflexivity|]. apply is_prefix_within; assumption.
      + right. split; [reflexivity|].
        destruct (strip_prefix (lits cp') (lits tt' ++ q_rem)) as [r0|] eqn:Es; [|reflexivity].
        rewrite (strip_lits_prefix cp' tt' q_rem remaining r0 Hnsc (parse2_seg_end_shape _ _ _ _ Hse Eprem) Es) in Ep. discriminate. }
  destruct Hcase as [[Ep (b & Htt & Hsk)] | [Ep Es]].
  2:{ rewrite Ep, Eassoc0, Es. reflexivity. }
  rewrite Ep, Hsk.
  assert (Hlenb : length (b ++ remaining) < f).
  { rewrite Htt in Hlen. rewrite !app_length in *. lia. }
  pose proof (IH child (b ++ remaining) ins' (Hwch) Hlenb) as Hc. unfold del_spec in Hc.
  rewrite (Hparse cp' b Htt) in Hc. cbn [on_parse] in Hc. cbv zeta in Hc.
  assert (Eq : lits (c :: tt') ++ q_rem = L c :: lits cp' ++ (lits b ++ q_rem)).
  { rewrite Htt. cbn [lits map app]. change (map L (cp' ++ b)) with (lits (cp' ++ b)). rewrite lits_app, <- app_assoc. reflexivity. }
  assert (Eassoc : assoc (lits (c :: tt') ++ q_rem) (abs n) = assoc (lits b ++ q_rem) (abs child)).
  { rewrite Eassoc0. rewrite Htt, lits_app, <- app_assoc, strip_prefix_app. reflexivity. }
  rewrite Eassoc.
  destruct (del_node fm f child (b ++ remaining) ins') as [c'|] eqn:Ed; [|exact Hc].
  destruct Hc as (y & Hy & Hwc' & Hu). exists y. split; [exact Hy|].
  destruct (del_node_frame V fm f child c' _ _ Ed) as (Hpc' & Hnw' & _).
  rewrite Eq. apply (static_after n child c cp' Hwd Ef Hcp c' (lits b ++ q_rem) y Hwc'); [congruence | | exact Hu].
  (* the child is still a piece of a segment *)
  unfold seg_ok in *. rewrite Hpc'. apply orb_true_iff in Hsoch as [Hs|Hs]; [rewrite Hs; reflexivity|].
  apply andb_true_iff in Hs as [Hs1 Hs2]. rewrite Hs1, (Hnw' Hs2). apply orb_true_r.
Qed.

(** *** the path goes on with '/' *)
Lemma del_spec_cons_slash f (n : tree) rest0 ins :
  dspec_at f -> wfd n = true -> length rest0 < f -> del_spec (S f) n (ch_slash :: rest0) ins.
Proof.
  intros IH Hwd Hlen. unfold del_spec. rewrite del_node_cons. cbv zeta.
  change (Ascii.eqb ch_slash ch_colon) with false. change (Ascii.eqb ch_slash ch_star) with false.
  rewrite !andb_false_r. cbv iota.
  replace (negb ins && is_escape (ch_slash :: rest0)) with false by (destruct ins; destruct rest0; reflexivity). cbv iota.
  rewrite parse2_slash.
  pose proof (static_step_del f n ch_slash [] rest0 IH Hwd ltac:(reflexivity) ltac:(discriminate) Hlen) as HS.
  cbv zeta in HS. change (negb (Ascii.eqb ch_slash ch_slash)) with false in *. cbn [mode] in HS.
  assert (HS' := HS ltac:(intros a' b H; symmetry in H; apply app_eq_nil in H as [-> ->]; cbn [app]; rewrite on_parse_id; reflexivity)).
  clear HS. destruct (parse2 SegStart rest0) as [[q_rem ks]|]; cbn [on_parse]; exact HS'.
Qed.

(** *** a single wildcard *)


Lemma del_spec_cons_colon f (n : tree) rest0 :
  dspec_at f -> wfd n = true -> length rest0 < f -> del_spec (S f) n (ch_colon :: rest0) false.
Proof.
  intros IH Hwd Hlen. unfold del_spec. rewrite del_node_cons. cbv zeta.
  rewrite Ascii.eqb_refl. cbn [negb andb mode].
  rewrite (take_seg_cons_noslash ch_colon rest0 eq_refl). cbn [snd].
  set (name := fst (take_seg rest0)). set (remaining := snd (take_seg rest0)).
  assert (Hrest : rest0 = name ++ remaining) by apply take_seg_app.
  replace (parse2 SegStart (ch_colon :: rest0)) with (parse2 SegStart (ch_colon :: name ++ remaining))
    by (f_equal; f_equal; symmetry; exact Hrest).
  rewrite (parse2_segstart_colon name remaining (take_seg_noslash rest0) (take_seg_rest rest0)).
  assert (Hlen' : length remaining < f) by (rewrite Hrest, app_length in Hlen; lia).
  pose proof (wfd_parts V n Hwd) as (Hwf & Hsh1 & Hsh2).
  pose proof Hwf as Hparts. apply wfb_parts in Hparts as (H1 & H2 & H3 & H4 & H5).
  destruct (parse2 SegStart remaining) as [[q' ks']|] eqn:Eprem; cbn [on_parse]; [|exact I]. cbv zeta.
  assert (Hdw : assoc (W :: q') (abs n) = assoc q' (match t_wild n with Some w => abs w | None => [] end)).
  { rewrite <- assoc_deriv, (deriv_W_abs V n H3). reflexivity. }
  rewrite Hdw. destruct (t_wild n) as [w|] eqn:Ew; [|reflexivity].
  destruct (wfd_wild_child V n w Hwd Ew) as [Hww Hos].
  pose proof (IH w remaining false Hww Hlen') as Hc. unfold del_spec in Hc. cbn [mode] in Hc. rewrite Eprem in Hc. cbv zeta in Hc.
  destruct (del_node fm f w remaining false) as [w'|] eqn:Ed; [|exact Hc].
  destruct Hc as (y & Hy & Hww' & Hu). exists y. split; [exact Hy|].
  destruct (del_node_frame V fm f w w' _ _ Ed) as (_ & _ & Hos'). specialize (Hos' Hos).
  pose proof (wfd_parts V w' Hww') as (Hwbw' & Hshw'a & Hshw'b).
  assert (Hset : wfd (set_wild V n w') = true /\ updated V (abs n) (abs (set_wild V n w')) (W :: q') y).
  { destruct (lift_wild V n w w' q' y Hwf ltac:(rewrite Ew; reflexivity) Hwbw' Hu) as [Hw' Hu'].
    split; [|exact Hu']. apply wfd_build; [exact Hw' | destruct n; exact Hsh1 |].
    replace (t_wild (set_wild V n w')) with (Some w') by (destruct n; reflexivity).
    cbn [shape_wild]. rewrite Hos'. rewrite shape_unfold, Hshw'a, Hshw'b. reflexivity. }
  unfold after_child. destruct (is_nil (t_vals w')) eqn:Ev; [|exact Hset].
  unfold delete_child. rewrite (only_slash_not_mergeable V w' Hos'). cbn [andb put_child].
  destruct (is_leaf V w') eqn:El; [|exact Hset].
  assert (Hv : t_vals w' = []) by (destruct (t_vals w'); [reflexivity | discriminate]).
  rewrite (abs_empty_leaf V w' Hv El) in Hu.
  destruct (lift_wild_clear V n w q' y Hwf Ew Hu) as [Hw' Hu']. cbn [drop_child].
  split; [|exact Hu']. apply wfd_build; [exact Hw' | destruct n; exact Hsh1 | destruct n; reflexivity].
Qed.

(** *** a free wildcard *)
Lemma del_spec_cons_star f (n : tree) rest0 : wfd n = true -> del_spec (S (S f)) n (ch_star :: rest0) false.
Proof.
  intros Hwd. unfold del_spec. rewrite del_node_cons. cbv zeta.
  change (Ascii.eqb ch_star ch_colon) with false. rewrite andb_false_r. cbv iota.
  rewrite Ascii.eqb_refl. cbn [negb andb mode]. rewrite parse2_segstart_star.
  destruct (has_slash rest0); [exact I|]. cbv zeta.
  pose proof (wfd_parts V n Hwd) as (Hwf & Hsh1 & Hsh2).
  rewrite (assoc_C_abs V n Hwf).
  pose proof Hwf as Hparts. apply wfb_parts in Hparts as (H1 & H2 & H3 & H4 & H5).
  destruct (t_catch n) as [c|] eqn:Ec; [|reflexivity].
  unfold wf_catch in H5. rewrite Ec in H5.
  apply andb_true_iff in H5 as [H5 Hfl]. apply andb_true_iff in H5 as [H5 Hlk].
  apply andb_true_iff in H5 as [Hleaf Hv].
  cbn [del_node]. unfold del_here, del_upd. cbn [node_of vals flag keys].
  destruct (t_vals c) as [|v0 vs0] eqn:Evc; [discriminate|].
  destruct (Nat.eqb _ _); [reflexivity|].
  assert (Hshape : forall n', t_statics n' = t_statics n -> t_wild n' = t_wild n -> wfb n' = true -> wfd n' = true).
  { intros n' E1 E2 Hw'. apply (wfd_same_children n); assumption. }
  destruct (filter (fun v => negb (fm v)) (v0 :: vs0)) as [|v1 vs1] eqn:Ef.
  - exists None. split; [reflexivity|]. unfold after_child. cbn [t_vals is_nil]. unfold delete_child.
    replace (mergeable _) with false.
    2:{ unfold mergeable. cbn [t_statics]. unfold is_leaf in Hleaf. destruct (t_statics c); [reflexivity | discriminate]. }
    cbn [andb]. replace (is_leaf V _) with true by (symmetry; exact Hleaf). cbn [drop_child].
    destruct (lift_catch_clear V n Hwf) as [Hw' Hu']. split; [|exact Hu'].
    apply Hshape; [destruct n; reflexivity | destruct n; reflexivity | exact Hw'].
  - eexists. split; [reflexivity|]. unfold after_child. cbn [t_vals is_nil put_child].
    match goal with |- context [set_catch V n ?cc] => set (c' := cc) end.
    assert (Hv' : t_vals c' <> []) by (unfold c'; cbn [t_vals]; discriminate).
    destruct (lift_catch V n c' Hwf Hleaf Hv' Hlk Hfl) as [Hw' Hu']. split; [|exact Hu'].
    apply Hshape; [destruct n; reflexivity | destruct n; reflexivity | exact Hw'].
Qed.

(** *** a static token *)
Lemma del_spec_cons_static f (n : tree) token rest0 ins :
  dspec_at f -> wfd n = true -> length rest0 < f ->
  Ascii.eqb token ch_slash = false ->
  (negb ins && Ascii.eqb token ch_star) = false -> (negb ins && Ascii.eqb token ch_colon) = false ->
  del_spec (S f) n (token :: rest0) ins.
Proof.
  intros IH Hwd Hlen Esl Estar Ecolon. unfold del_spec. rewrite del_node_cons. cbv zeta.
  rewrite Estar, Ecolon. cbv iota.
  set (seg0 := fst (take_seg rest0)). set (remaining := snd (take_seg rest0)).
  assert (Hrest : rest0 = seg0 ++ remaining) by apply take_seg_app.
  assert (Hns : has_slash seg0 = false) by apply take_seg_noslash.
  assert (Hse : seg_end remaining) by apply take_seg_rest.
  assert (Hinseg : forall b, has_slash b = false ->
            parse2 (mode true) (b ++ remaining) = on_parse (app (lits b)) (fun ks => ks) (parse2 (mode true) remaining))
    by (intros b Hb; apply parse2_inseg; exact Hb).
  destruct (negb ins && is_escape (token :: rest0)) eqn:Eesc.
  - (* an escaped first byte *)
    apply andb_true_iff in Eesc as [Ei Eesc]. apply negb_true_iff in Ei. subst ins.
    destruct rest0 as [|c2 rest1]; [discriminate|]. cbn [is_escape] in Eesc.
    apply andb_true_iff in Eesc as [Eb Esp]. apply Ascii.eqb_eq in Eb. subst token.
    pose proof (is_special_not_slash c2 Esp) as Ec2.
    assert (Hseg : exists seg1, seg0 = c2 :: seg1 /\ rest1 = seg1 ++ remaining).
    { unfold seg0, remaining in *. rewrite (take_seg_cons_noslash c2 rest1 Ec2) in *. cbn [fst snd] in *.
      eexists. split; [reflexivity|]. inversion Hrest as [Hr]. rewrite <- Hr. exact Hr. }
    destruct Hseg as (seg1 & Hseg0 & Hrest1). rewrite Hseg0 in Hns. cbn [has_slash] in Hns.
    apply orb_false_iff in Hns as [_ Hns1]. cbn [skipn]. rewrite Ec2. cbn [negb].
    pose proof (static_step_del f n c2 seg1 remaining IH Hwd ltac:(congruence) ltac:(auto)) as HS.
    cbv zeta in HS. rewrite Ec2 in HS. cbn [negb] in HS.
    assert (HS' := HS
      ltac:(rewrite Hrest1 in Hlen; cbn [length] in Hlen; lia)
      ltac:(intros a' b H; apply Hinseg; rewrite H, has_slash_app in Hns1; apply orb_false_iff in Hns1; tauto)).
    clear HS. cbn [mode].
    replace (parse2 SegStart (ch_bslash :: c2 :: rest1)) with
      (on_parse (app (lits (c2 :: seg1))) (fun ks => ks) (parse2 InSeg remaining)).
    2:{ rewrite Hrest1. rewrite (parse2_segstart_escape c2 (seg1 ++ remaining) Esp).
        rewrite (parse2_inseg seg1 remaining Hns1). destruct (parse2 InSeg remaining) as [[p ks]|]; reflexivity. }
    rewrite Hrest1. cbn [mode] in HS'. destruct (parse2 InSeg remaining) as [[q_rem ks]|]; cbn [on_parse]; exact HS'.
  - (* the token as written *)
    rewrite Esl. cbn [negb].
    pose proof (static_step_del f n token seg0 remaining IH Hwd ltac:(congruence) ltac:(auto)) as HS.
    cbv zeta in HS. rewrite Esl in HS. cbn [negb] in HS.
    assert (HS' := HS
      ltac:(rewrite Hrest in Hlen; exact Hlen)
      ltac:(intros a' b H; apply Hinseg; rewrite H, has_slash_app in Hns; apply orb_false_iff in Hns; tauto)).
    clear HS.
    replace (parse2 (mode ins) (token :: rest0)) with
      (on_parse (app (lits (token :: seg0))) (fun ks => ks) (parse2 InSeg remaining)).
    2:{ assert (Hin : parse2 InSeg (token :: rest0) = on_parse (app (lits (token :: seg0))) (fun ks => ks) (parse2 InSeg remaining)).
        { rewrite Hrest. change (token :: seg0 ++ remaining) with ((token :: seg0) ++ remaining).
          apply parse2_inseg. cbn [has_slash]. rewrite Esl, Hns. reflexivity. }
        rewrite <- Hin. destruct ins; [reflexivity|]. cbn [mode negb andb] in *.
        symmetry. apply parse2_segstart_plain; try assumption.
        destruct (Ascii.eqb token ch_bslash) eqn:Eb; [right | left; reflexivity].
        destruct rest0 as [|c2 rest1]; [exact I|]. cbn [is_escape] in Eesc. rewrite Eb in Eesc. exact Eesc. }
    replace (token :: rest0) with (token :: seg0 ++ remaining) by (f_equal; symmetry; exact Hrest). cbn [mode] in HS'. destruct (parse2 InSeg remaining) as [[q_rem ks]|]; cbn [on_parse]; exact HS'.
Qed.

(** *** all cases *)
Theorem del_node_spec : forall f, dspec_at f.
Proof.
  induction f as [|f IH]; intros n path ins Hwd Hlen; [lia|].
  destruct path as [|token rest0]; [apply del_spec_nil; exact Hwd|].
  cbn [length] in Hlen. assert (Hl : length rest0 < f) by lia.
  destruct (Ascii.eqb token ch_slash) eqn:Esl.
  { apply Ascii.eqb_eq in Esl. subst token. apply del_spec_cons_slash; assumption. }
  destruct (negb ins && Ascii.eqb token ch_star) eqn:Es.
  { apply andb_true_iff in Es as [Ei Es]. apply negb_true_iff in Ei. apply Ascii.eqb_eq in Es. subst ins token.
    destruct f as [|f']; [lia|]. apply del_spec_cons_star. exact Hwd. }
  destruct (negb ins && Ascii.eqb token ch_colon) eqn:Ec.
  { apply andb_true_iff in Ec as [Ei Ec]. apply negb_true_iff in Ei. apply Ascii.eqb_eq in Ec. subst ins token.
    apply del_spec_cons_colon; assumption. }
  apply del_spec_cons_static; assumption.
Qed.

End DelSpec.

(** ** Delete on the tree and on the machine *)

Section DelRefines.
Variable V : Type.
Variable fm : V -> bool.
Notation tree := (tree V).
Notation db := (db V).

(** one Delete of a valid expression: it fails on the tree iff it fails on the machine;
    otherwise the invariant is kept and the new tree holds the entries of the machine's
    new index *)
Theorem tree_delete_refines (t : tree) (e : str) p ks :
  wfd t = true -> parse_expr e = Some (p, ks) ->
  match tree_delete fm t e with
  | None => delete (abs t) p fm = DFailed
  | Some t' => wfd t' = true /\ exists d', delete (abs t) p fm = DOk d' /\ same_entries V (abs t') d'
  end.
Proof.
  intros Hwd Hp. unfold tree_delete.
  pose proof (del_node_spec V fm (S (length e)) t e false Hwd ltac:(lia)) as H.
  unfold del_spec in H. cbn [mode] in H.
  assert (Hp2 : parse2 SegStart e = Some (p, ks)).
  { unfold parse_expr in Hp. unfold parse2. destruct (parse_go SegStart e) as [[[p0 cur] ks0]|]; [exact Hp | discriminate]. }
  rewrite Hp2 in H. cbv zeta in H.
  pose proof (delete_assoc V fm (abs t) p (abs_NoDup V t (wfd_leaf_or V t Hwd))) as Hd.
  destruct (del_node fm (S (length e)) t e false) as [t'|].
  - destruct H as (y & Hy & Hw' & Hu). split; [exact Hw'|].
    destruct (delete (abs t) p fm) as [d'|]; [|congruence].
    destruct Hd as (y' & Hy' & Hu'). exists d'. split; [reflexivity|].
    assert (y' = y) by congruence. subst y'. intro r. rewrite (Hu r), (Hu' r). reflexivity.
  - destruct (delete (abs t) p fm) as [d'|]; [|reflexivity]. destruct Hd as (y' & Hy' & _). congruence.
Qed.

(** the machine's delete only looks at the entries *)
Lemma delete_same_entries (d1 d2 : db) p :
  NoDup (map fst d1) -> NoDup (map fst d2) -> same_entries V d1 d2 ->
  match delete d1 p fm, delete d2 p fm with
  | DOk d1', DOk d2' => same_entries V d1' d2'
  | DFailed, DFailed => True
  | _, _ => False
  end.
Proof.
  intros N1 N2 H. pose proof (delete_assoc V fm d1 p N1) as A1. pose proof (delete_assoc V fm d2 p N2) as A2.
  rewrite (H p) in A1.
  destruct (delete d1 p fm) as [d1'|], (delete d2 p fm) as [d2'|].
  - destruct A1 as (y1 & Hy1 & Hu1). destruct A2 as (y2 & Hy2 & Hu2). assert (y1 = y2) by congruence. subst y2.
    intro r. rewrite (Hu1 r), (Hu2 r), (H r). reflexivity.
  - destruct A1 as (y1 & Hy1 & _). congruence.
  - destruct A2 as (y2 & Hy2 & _). congruence.
  - exact I.
Qed.

End DelRefines.
