(** C06/StepFacts.v — one operation of the repository against one step of the
    specification: the invariant that carries the main theorem. *)
From HV Require Import Base.Prelude C06.Pat C06.Model C06.Spec C06.DbFacts C06.ReprFacts C06.RepoFacts C06.SpecFacts.
From Coq Require Import Permutation.

Section Fx.
Variable fx : fixes.
Notation KInv := (KInv fx).
Notation base_good := (base_good fx).

(** ** invariants, relative to the list [D] of sources that are in the state
    C06-F1 / C06-F2 leave (order of rules sharing an expression, node flags): for
    those nothing is claimed about order and flags; everything else holds for them
    too *)

(** the model state is consistent *)
Record Inv (D : list nat) (st : repo) : Prop := {
  i_k : KInv (known st);
  i_v : ReprV (index st) (routes (known st));
  i_f : ReprF (clean D) (index st);
  i_bt : btuni (clean D) (routes (known st)) }.

(** the known rules are the current rule sets: same rules, and per (clean) source
    and pattern the same sequence of routes *)
Record Rel (D : list nat) (K : list rule) (S : sets) : Prop := {
  r_mem : forall r, In r K <-> In (r_def r) (get_set S (r_src r));
  r_ord : forall s q, clean D s = true ->
            at_q q (routes (filter (from_src s) K)) = at_q q (routes (stamp s (get_set S s))) }.

(** the current rule sets are consistent (they were accepted) *)
Record SInv (D : list nat) (S : sets) : Prop := {
  s_nodup : NoDup (map fst S);
  s_good : forall s ds, In (s, ds) S ->
             base_good ds = true /\ forallb valid_expr (exprs ds) = true /\ keys_ok ds = true;
  s_f2 : forall s ds, In (s, ds) S -> clean D s = true -> f2_set ds = false;
  s_disj : forall s t ds dt p, In (s, ds) S -> In (t, dt) S -> s <> t -> In p (pats ds) -> ~ In p (pats dt) }.

Lemma Inv_empty D : Inv D empty.
Proof.
  split; simpl.
  - split; simpl; try constructor; try tauto; try (intros x y q []); try (intros x y []).
  - apply ReprV_nil.
  - apply ReprF_nil.
  - intros x y q [].
Qed.

Lemma Rel_empty D : Rel D [] [].
Proof. split; simpl; [tauto | reflexivity]. Qed.

Lemma SInv_empty D : SInv D [].
Proof. split; simpl; [constructor | tauto | tauto | tauto]. Qed.

(** ** the rules a consistent set of rule sets holds are consistent *)

Lemma base_good_parts ds : base_good ds = true ->
  (fix_F4 fx = false -> negb (f4_set ds) = true) /\ negb (dupid_set ds) = true.
Proof.
  unfold SpecFacts.base_good. rewrite !andb_true_iff, orb_true_iff. intros [B C]. split; [|exact C].
  intro F4. destruct B as [B|B]; [congruence | exact B].
Qed.

Lemma route_in_set D S r x : SInv D S -> In (r_def r) (get_set S (r_src r)) -> In x (routes_of r) ->
  exists ds, In (r_src r, ds) S /\ In (r_def r) ds /\ In x (routes (stamp (r_src r) ds)).
Proof.
  intros SI Hr Hx. destruct (get_set_in _ _ _ Hr) as (ds & Hds & Hd). exists ds. split; [exact Hds|]. split; [exact Hd|].
  apply in_routes. exists r. split; [|exact Hx]. apply in_stamp. tauto.
Qed.

Lemma keys_ok_spec ds : keys_ok ds = true <->
  forall a b, In a (exprs ds) -> In b (exprs ds) -> keys_compat a b = true.
Proof.
  unfold keys_ok. rewrite forallb_forall. split.
  - intros H a b Ha Hb. specialize (H a Ha). rewrite forallb_forall in H. apply H. exact Hb.
  - intros H a Ha. apply forallb_forall. intros b Hb. apply H; assumption.
Qed.

Lemma route_path_in_exprs s ds x : In x (routes (stamp s ds)) -> In (rt_path x) (exprs ds).
Proof.
  intro Hx. apply in_routes_stamp in Hx as (d & Hd & _ & He). unfold exprs. apply in_flat_map. exists d. tauto.
Qed.

Lemma KInv_of_sets D K S : NoDup (map rkey K) -> SInv D S ->
  (forall r, In r K -> In (r_def r) (get_set S (r_src r))) -> KInv K /\ btuni (clean D) (routes K).
Proof.
  intros ND SI H.
  assert (Hroute : forall x, In x (routes K) ->
            exists ds, In (rt_src x, ds) S /\ In (r_def (rt_rule x)) ds /\ In x (routes (stamp (rt_src x) ds))).
  { intros x Hx. apply in_routes in Hx as (r & Hr & Hx). pose proof (routes_of_rule _ _ Hx) as E.
    unfold rt_src. rewrite E. apply (route_in_set D S r x SI (H r Hr) Hx). }
  assert (Hvalid : forall x, In x (routes K) -> rpat x <> None).
  { intros x Hx. destruct (Hroute x Hx) as (ds & Hds & _ & Hxs).
    destruct (s_good _ _ SI _ _ Hds) as (_ & V & _). apply (proj1 (valid_exprs_routes (rt_src x) ds) V x Hxs). }
  assert (Hsrc : srcuni (routes K)).
  { intros x y q Hx Hy Hqx Hqy.
    destruct (Hroute x Hx) as (dx & Hdx & _ & Hxs). destruct (Hroute y Hy) as (dy & Hdy & _ & Hys).
    destruct (Nat.eq_dec (rt_src x) (rt_src y)) as [E|N]; [exact E|]. exfalso.
    apply (s_disj _ _ SI _ _ _ _ q Hdx Hdy N).
    - apply (pats_routes (rt_src x)). exists x. tauto.
    - apply (pats_routes (rt_src y)). exists y. tauto. }
  assert (Hsame : forall x y, In x (routes K) -> In y (routes K) -> rt_src x = rt_src y ->
            exists ds, In (rt_src x, ds) S /\ In (r_def (rt_rule x)) ds /\ In (r_def (rt_rule y)) ds /\
                       In x (routes (stamp (rt_src x) ds)) /\ In y (routes (stamp (rt_src x) ds))).
  { intros x y Hx Hy Es.
    destruct (Hroute x Hx) as (dx & Hdx & Hdefx & Hxs). destruct (Hroute y Hy) as (dy & Hdy & Hdefy & Hys).
    rewrite <- Es in Hdy, Hys.
    assert (dy = dx).
    { rewrite <- (in_get_set S _ _ (s_nodup _ _ SI) Hdx), <- (in_get_set S _ _ (s_nodup _ _ SI) Hdy). reflexivity. }
    subst dy. exists dx. tauto. }
  split; [split|].
  - exact ND.
  - exact Hvalid.
  - intros F4 r Hr. destruct r as [s d]. destruct (get_set_in _ _ _ (H _ Hr)) as (ds & Hds & Hd). simpl in *.
    destruct (s_good _ _ SI _ _ Hds) as (G & V & _). apply base_good_parts in G as (G4 & _).
    rewrite def_pats_routes.
    + apply NoDup_map_Some. apply (good_f4 ds (G4 F4) d Hd).
    + intros e He. unfold valid_expr in V. rewrite forallb_forall in V.
      specialize (V e). destruct (pat_of e); [discriminate|].
      assert (false = true); [|discriminate]. apply V. apply in_flat_map. exists d. tauto.
  - split; [exact Hsrc|].
    intros x y Hx Hy. destruct (Nat.eq_dec (rt_src x) (rt_src y)) as [Es|N].
    + destruct (Hsame x y Hx Hy Es) as (ds & Hds & _ & _ & Hxs & Hys).
      destruct (s_good _ _ SI _ _ Hds) as (_ & _ & KO). rewrite keys_ok_spec in KO.
      apply KO; eapply route_path_in_exprs; eassumption.
    + (* different sources: different patterns *)
      destruct (rpat y) as [p|] eqn:Ey; [|exfalso; apply (Hvalid y Hy Ey)].
      apply (kcompat_other_pat x y p Ey).
      destruct (has_pat p x) eqn:Hp; [|reflexivity]. exfalso. apply N.
      apply (Hsrc x y p Hx Hy Hp). apply has_pat_rpat. exact Ey.
  - intros x y q Hx Hy Hqx Hqy Hc.
    pose proof (Hsrc x y q Hx Hy Hqx Hqy) as Es.
    destruct (Hsame x y Hx Hy Es) as (dx & Hdx & Hdefx & Hdefy & _ & _).
    assert (G2 : negb (f2_set dx) = true) by (rewrite (s_f2 _ _ SI _ _ Hdx Hc); reflexivity).
    unfold rt_bt. apply (good_f2 dx G2 _ _ Hdefx Hdefy).
    apply share_pat_spec. exists q.
    apply in_routes in Hx as (rx & _ & Hx). apply in_routes in Hy as (ry & _ & Hy).
    apply routes_of_in in Hx as [Erx Hex]. apply routes_of_in in Hy as [Ery Hey].
    apply has_pat_rpat in Hqx, Hqy. unfold rpat in *.
    split; apply in_def_pats; [exists (rt_path x) | exists (rt_path y)]; rewrite ?Erx, ?Ery in *; tauto.
Qed.

(** ** the diff of UpdateRuleSet *)

Lemma NoDup_keys_stamp s ds : NoDup (map d_id ds) -> NoDup (map rkey (stamp s ds)).
Proof.
  unfold stamp. rewrite map_map. unfold rkey. simpl.
  induction ds as [|d ds IH]; simpl; intro H; [constructor|].
  inversion H; subst. constructor; [|apply IH; assumption].
  intro Hin. apply in_map_iff in Hin as (x & E & Hx). inversion E. apply H2. apply in_map_iff. exists x. tauto.
Qed.

Lemma to_be_added_spec app rs : NoDup (map rkey app) ->
  to_be_added app rs = filter (fun n => negb (mem_rule n app)) rs.
Proof.
  intro ND. unfold to_be_added. apply filter_ext. intro n.
  destruct (mem_rule n app) eqn:M; simpl.
  - apply mem_rule_in in M.
    assert (A : existsb (fun e => sameas e n) app = true).
    { apply existsb_exists. exists n. split; [exact M | apply sameas_refl]. }
    rewrite A. simpl.
    apply not_true_is_false. intro Hex. apply existsb_exists in Hex as (e & He & Hc).
    apply andb_true_iff in Hc as [Hs Hn]. apply sameas_key in Hs.
    rewrite (NoDup_key_eq app e n ND He M Hs) in Hn.
    rewrite (proj2 (equalto_eq n n) eq_refl) in Hn. discriminate.
  - destruct (existsb (fun e => sameas e n) app) eqn:A; simpl; [|reflexivity].
    apply existsb_exists in A as (e & He & Hs). apply existsb_exists. exists e. split; [exact He|].
    rewrite Hs. simpl. apply negb_true_iff. apply not_true_is_false. intro Heq. apply equalto_eq in Heq. subst e.
    apply mem_rule_false in M. contradiction.
Qed.

Lemma to_be_deleted_spec app rs : NoDup (map rkey rs) ->
  to_be_deleted app rs = filter (fun e => negb (mem_rule e rs)) app.
Proof.
  intro ND. unfold to_be_deleted. apply filter_ext. intro e.
  destruct (mem_rule e rs) eqn:M; simpl.
  - apply mem_rule_in in M.
    assert (A : existsb (fun n => sameas n e) rs = true).
    { apply existsb_exists. exists e. split; [exact M | apply sameas_refl]. }
    rewrite A. simpl.
    apply not_true_is_false. intro Hex. apply existsb_exists in Hex as (n & Hn & Hc).
    apply andb_true_iff in Hc as [Hs Hne]. apply sameas_key in Hs.
    rewrite (NoDup_key_eq rs n e ND Hn M Hs) in Hne.
    rewrite (proj2 (equalto_eq e e) eq_refl) in Hne. discriminate.
  - destruct (existsb (fun n => sameas n e) rs) eqn:A; simpl; [|reflexivity].
    apply existsb_exists in A as (n & Hn & Hs). apply existsb_exists. exists n. split; [exact Hn|].
    rewrite Hs. simpl. apply negb_true_iff. apply not_true_is_false. intro Heq. apply equalto_eq in Heq. subst n.
    apply mem_rule_false in M. contradiction.
Qed.

(** ** routes of a stamped list, per pattern *)

Definition rq (s : nat) (q : pat) (d : rdef) : list route :=
  at_q q (routes_of {| r_src := s; r_def := d |}).

Lemma at_q_stamp s q l : at_q q (routes (stamp s l)) = flat_map (rq s q) l.
Proof.
  induction l as [|d l IH]; simpl; [reflexivity|].
  unfold routes in *. simpl. rewrite at_q_app, IH. reflexivity.
Qed.

Lemma rq_nil s q d : mem_pat q (def_pats d) = false -> rq s q d = [].
Proof.
  intro H. unfold rq, at_q. apply filter_all_false. intros x Hx.
  destruct (has_pat q x) eqn:E; [|reflexivity]. exfalso.
  assert (mem_pat q (def_pats d) = true); [|congruence].
  apply mem_pat_in. apply in_def_pats.
  apply routes_of_in in Hx as [_ He]. simpl in He.
  apply has_pat_rpat in E. unfold rpat in E. exists (rt_path x). tauto.
Qed.

Lemma flat_map_at_pat s q l : flat_map (rq s q) l = flat_map (rq s q) (at_pat q l).
Proof.
  induction l as [|d l IH]; simpl; [reflexivity|].
  destruct (mem_pat q (def_pats d)) eqn:E; simpl.
  - rewrite IH. reflexivity.
  - rewrite (rq_nil s q d E). exact IH.
Qed.

Lemma at_pat_app q a b : at_pat q (a ++ b) = at_pat q a ++ at_pat q b.
Proof. apply filter_app. Qed.

Lemma at_q_stamp_none s q l ds : incl l ds -> ~ In q (pats ds) -> at_q q (routes (stamp s l)) = [].
Proof.
  intros I N. unfold at_q. apply filter_all_false. intros x Hx.
  destruct (has_pat q x) eqn:E; [|reflexivity]. exfalso. apply N.
  apply (pats_routes s). exists x. split; [|exact E].
  apply in_routes in Hx as (r & Hr & Hx). apply in_routes. exists r. split; [|exact Hx].
  apply in_stamp in Hr as [Es Hd]. apply in_stamp. split; [exact Es | apply I; exact Hd].
Qed.

Lemma rdef_list_eqb_eq a b : list_eqb rdef_eqb a b = true <-> a = b.
Proof. apply list_eqb_spec. apply rdef_eqb_eq. Qed.

Lemma unchanged_in_spec l d : unchanged_in l d = true <-> In d l.
Proof.
  unfold unchanged_in. rewrite existsb_exists. split.
  - intros (x & Hx & E). apply rdef_eqb_eq in E. subst. exact Hx.
  - intro H. exists d. split; [exact H | apply rdef_eqb_refl].
Qed.

Lemma NoDup_map_app {A B} (f : A -> B) l1 l2 :
  NoDup (map f l1) -> NoDup (map f l2) -> (forall a b, In a l1 -> In b l2 -> f a <> f b) -> NoDup (map f (l1 ++ l2)).
Proof.
  induction l1 as [|a l1 IH]; simpl; intros H1 H2 H; [exact H2|].
  inversion H1; subst. constructor.
  - rewrite map_app, in_app_iff. intros [Hin|Hin]; [contradiction|].
    apply in_map_iff in Hin as (b & E & Hb). apply (H a b); [left; reflexivity | exact Hb | congruence].
  - apply IH; try assumption. intros x y Hx Hy. apply H; [right; exact Hx | exact Hy].
Qed.

Lemma KInv_filter K (P : rule -> bool) : KInv K -> KInv (filter P K).
Proof.
  intro I.
  assert (Incl : incl (routes (filter P K)) (routes K)).
  { intros x Hx. rewrite routes_filter in Hx. apply filter_In in Hx. tauto. }
  split.
  - apply NoDup_map_incl_filter. apply (k_keys _ _ I).
  - intros x Hx. apply (k_valid _ _ I). apply Incl. exact Hx.
  - intros F4 r Hr. apply filter_In in Hr as [Hr _]. apply (k_pats _ _ I F4 r Hr).
  - eapply uni_incl; [exact Incl | apply (k_uni _ _ I)].
Qed.

Lemma bool_eq_iff (a b : bool) : (a = true <-> b = true) -> a = b.
Proof. destruct a, b; intros [H1 H2]; try reflexivity; [symmetry; apply H1 | apply H2]; reflexivity. Qed.

Lemma at_q_filter q (f : route -> bool) L : at_q q (filter f L) = filter f (at_q q L).
Proof.
  unfold at_q. rewrite !filter_filter. apply filter_ext. intro x. apply andb_comm.
Qed.

(** ** UpdateRuleSet against the specification *)

Section Update.
Variables (D : list nat) (st : repo) (S : sets) (s : nat) (ds : list rdef).
Hypothesis HI : Inv D st.
Hypothesis HR : Rel D (known st) S.
Hypothesis HS : SInv D S.
Hypothesis Hgood : base_good ds = true.

Let K := known st.
Let rs := stamp s ds.
Let app := filter (from_src s) K.
Let old := get_set S s.
Let P := fun r : rule => from_src s r && negb (mem_rule r rs).
Let K0 := filter (fun r => negb (P r)) K.
Let tba := filter (fun n => negb (mem_rule n app)) rs.
Let S' := put_set S s ds.
Let D' := dirty_step S (Update s ds) D.

(** what being clean after the step means *)
Lemma clean_step t : spec_accepts S s ds = true -> clean D' t = true ->
  clean D t = true /\ (t = s -> f1_step old ds = false /\ f2_set ds = false).
Proof.
  intros A. unfold D', dirty_step, dirty2_step, dirty1_step. rewrite A. simpl. fold old.
  destruct (f1_step old ds) eqn:F1, (f2_set ds) eqn:F2; rewrite ?clean_cons; intro H;
    repeat match goal with H : _ && _ = true |- _ => apply andb_true_iff in H as [? H] end;
    (split; [assumption|]); intro E; subst t;
    repeat match goal with H : negb (Nat.eqb s s) = true |- _ => rewrite Nat.eqb_refl in H; discriminate end;
    split; reflexivity.
Qed.

Lemma clean_step_mono t : clean D' t = true -> clean D t = true.
Proof.
  unfold D', dirty_step, dirty2_step, dirty1_step.
  destruct (spec_accepts S s ds && f1_step (get_set S s) ds), (spec_accepts S s ds && f2_set ds);
    rewrite ?clean_cons; intro H;
    repeat match goal with H : _ && _ = true |- _ => apply andb_true_iff in H as [_ H] end; exact H.
Qed.

Lemma upd_keys_rs : NoDup (map rkey rs).
Proof.
  apply NoDup_keys_stamp. apply good_dupid. apply base_good_parts in Hgood. tauto.
Qed.

Lemma upd_keys_app : NoDup (map rkey app).
Proof. apply NoDup_map_incl_filter. apply (k_keys _ _ (i_k _ _ HI)). Qed.

Lemma upd_tbd : to_be_deleted app rs = filter P K.
Proof.
  rewrite (to_be_deleted_spec app rs upd_keys_rs). unfold app. rewrite filter_filter. reflexivity.
Qed.

Lemma upd_tba : to_be_added app rs = tba.
Proof. apply (to_be_added_spec app rs upd_keys_app). Qed.

Lemma upd_known : filter (fun r => negb (mem_rule r (to_be_deleted app rs))) K = K0.
Proof.
  rewrite upd_tbd. apply filter_ext_in. intros r Hr. f_equal.
  destruct (P r) eqn:E.
  - apply mem_rule_in. apply filter_In. tauto.
  - apply mem_rule_false. intro H. apply filter_In in H. destruct H. congruence.
Qed.

Lemma upd_del_phase : exists d1, del_rules db (m_del1 fx) (index st) (to_be_deleted app rs) = inl d1 /\
                                 ReprV d1 (routes K0) /\ ReprF (clean D) d1.
Proof. rewrite upd_tbd. apply (del_rules_spec fx (clean D) K P (index st) (i_k _ _ HI) (i_v _ _ HI) (i_f _ _ HI)). Qed.

Lemma mem_rs r : mem_rule r rs = true <-> r_src r = s /\ In (r_def r) ds.
Proof. rewrite mem_rule_in. apply in_stamp. Qed.

Lemma in_K0 r : In r K0 <-> In r K /\ (r_src r <> s \/ In r rs).
Proof.
  unfold K0, P, from_src. rewrite filter_In. split; intros [A B]; (split; [exact A|]).
  - apply negb_true_iff in B. apply andb_false_iff in B as [B|B].
    + left. apply Nat.eqb_neq. exact B.
    + right. apply mem_rule_in. apply negb_false_iff. exact B.
  - apply negb_true_iff. apply andb_false_iff. destruct B as [B|B].
    + left. apply Nat.eqb_neq. exact B.
    + right. apply negb_false_iff. apply mem_rule_in. exact B.
Qed.

Lemma in_tba r : In r tba <-> In r rs /\ ~ In r K.
Proof.
  unfold tba. rewrite filter_In, negb_true_iff, mem_rule_false. unfold app. rewrite filter_In.
  split; intros [A B]; (split; [exact A|]).
  - intro H. apply B. split; [exact H|]. apply in_stamp in A. unfold from_src. apply Nat.eqb_eq. tauto.
  - intros [H _]. contradiction.
Qed.

Lemma upd_mem r : In r (K0 ++ tba) <-> In (r_def r) (get_set S' (r_src r)).
Proof.
  unfold S'. rewrite get_put_set, in_app_iff, in_K0, in_tba.
  destruct (Nat.eqb s (r_src r)) eqn:E.
  - apply Nat.eqb_eq in E. symmetry in E.
    assert (Hrs : In r rs <-> In (r_def r) ds) by (unfold rs; rewrite in_stamp; intuition).
    rewrite <- Hrs. destruct (mem_rule r K) eqn:M.
    + apply mem_rule_in in M. intuition.
    + apply mem_rule_false in M. intuition.
  - apply Nat.eqb_neq in E. assert (E' : r_src r <> s) by congruence.
    assert (Hrs : ~ In r rs) by (unfold rs; rewrite in_stamp; intuition).
    rewrite <- (r_mem _ _ _ HR r). intuition.
Qed.

Lemma upd_keys : NoDup (map rkey (K0 ++ tba)).
Proof.
  apply NoDup_map_app.
  - apply NoDup_map_incl_filter. apply (k_keys _ _ (i_k _ _ HI)).
  - apply NoDup_map_incl_filter. apply upd_keys_rs.
  - intros a b Ha Hb E. apply in_K0 in Ha as [HaK Ha]. apply in_tba in Hb as [Hb HbK].
    assert (Hs : r_src a = s).
    { unfold rkey in E. inversion E as [[E1 E2]]. apply in_stamp in Hb. destruct Hb as [Hb _]. congruence. }
    destruct Ha as [Ha|Ha]; [contradiction|].
    rewrite (NoDup_key_eq rs a b upd_keys_rs Ha Hb E) in HaK. contradiction.
Qed.

(** *** the specification accepts: the new rule sets are consistent *)

Lemma not_owned_spec : not_owned S s ds = true <->
  forall t dt p, In (t, dt) S -> t <> s -> In p (pats ds) -> ~ In p (pats dt).
Proof.
  unfold not_owned. rewrite forallb_forall. split.
  - intros H t dt p Ht N Hp. specialize (H (t, dt) Ht). simpl in H.
    apply orb_true_iff in H as [H|H]; [apply Nat.eqb_eq in H; contradiction|].
    rewrite forallb_forall in H. specialize (H p Hp). apply negb_true_iff in H.
    intro Hin. apply mem_pat_in in Hin. congruence.
  - intros H [t dt] Ht. simpl. destruct (Nat.eqb t s) eqn:E; [reflexivity|]. simpl.
    apply Nat.eqb_neq in E. apply forallb_forall. intros p Hp. apply negb_true_iff.
    destruct (mem_pat p (pats dt)) eqn:M; [|reflexivity]. apply mem_pat_in in M.
    exfalso. apply (H t dt p Ht E Hp M).
Qed.

Lemma accepts_parts : spec_accepts S s ds = true <->
  forallb valid_expr (exprs ds) = true /\ keys_ok ds = true /\ not_owned S s ds = true.
Proof. unfold spec_accepts. rewrite !andb_true_iff. tauto. Qed.

Lemma upd_SInv : spec_accepts S s ds = true -> SInv D' S'.
Proof.
  intro A0. pose proof A0 as A. apply accepts_parts in A as (V & KO & NO). rewrite not_owned_spec in NO.
  split.
  - apply put_set_nodup. apply (s_nodup _ _ HS).
  - intros t dt Ht. apply (put_set_in S s ds t dt (s_nodup _ _ HS)) in Ht as [[E1 E2]|[N Ht]].
    + subst. tauto.
    + apply (s_good _ _ HS t dt Ht).
  - intros t dt Ht Hc. destruct (clean_step t A0 Hc) as [Hc0 Hs].
    apply (put_set_in S s ds t dt (s_nodup _ _ HS)) in Ht as [[E1 E2]|[N Ht]].
    + subst. apply Hs. reflexivity.
    + apply (s_f2 _ _ HS t dt Ht Hc0).
  - intros t u dt du p Ht Hu N Hp.
    apply (put_set_in S s ds t dt (s_nodup _ _ HS)) in Ht as [[E1 E2]|[Nt Ht]];
    apply (put_set_in S s ds u du (s_nodup _ _ HS)) in Hu as [[E3 E4]|[Nu Hu]]; subst.
    + contradiction.
    + apply (NO u du p Hu Nu Hp).
    + intro Hq. apply (NO t dt p Ht Nt Hq Hp).
    + apply (s_disj _ _ HS t u dt du p Ht Hu N Hp).
Qed.

Lemma upd_KInv : spec_accepts S s ds = true -> KInv (K0 ++ tba) /\ btuni (clean D') (routes (K0 ++ tba)).
Proof.
  intro A. apply (KInv_of_sets D' _ S' upd_keys (upd_SInv A)). intros r Hr. apply upd_mem. exact Hr.
Qed.

Lemma upd_add_phase d1 : ReprV d1 (routes K0) ->
  match add_rules d1 tba with
  | inl d2 => (forall x, In x (routes tba) -> rpat x <> None) /\
              ReprV d2 (routes (K0 ++ tba)) /\ uni (routes (K0 ++ tba))
  | inr _ => (exists x, In x (routes tba) /\ rpat x = None) \/ ~ uni (routes (K0 ++ tba))
  end.
Proof.
  intros R. rewrite add_rules_flat, routes_app.
  apply add_routes_spec; [exact R|]. apply (k_uni _ _ (KInv_filter K _ (i_k _ _ HI))).
Qed.

Lemma upd_accept d1 : ReprV d1 (routes K0) -> ReprF (clean D) d1 -> spec_accepts S s ds = true ->
  exists d2, add_rules d1 tba = inl d2 /\ ReprV d2 (routes (K0 ++ tba)) /\ ReprF (clean D') d2.
Proof.
  intros R F A. destruct (upd_KInv A) as [KI KB]. pose proof (upd_add_phase d1 R) as Ph.
  destruct (add_rules d1 tba) as [d2|e] eqn:E.
  - exists d2. split; [reflexivity|]. destruct Ph as (_ & R2 & _). split; [exact R2|].
    rewrite add_rules_flat in E.
    apply (add_routes_flag (clean D') (routes tba) d1 (routes K0) d2 R (k_uni _ _ (KInv_filter K _ (i_k _ _ HI)))
             (ReprF_mono _ _ d1 clean_step_mono F) E).
    rewrite <- routes_app. exact KB.
  - exfalso. destruct Ph as [(x & Hx & Ex)|N].
    + apply (k_valid _ _ KI x); [|exact Ex]. rewrite routes_app. apply in_app_iff. right. exact Hx.
    + apply N. apply (k_uni _ _ KI).
Qed.

(** *** the repository accepts: so does the specification *)

Lemma rs_in_new r : In r rs -> In r (K0 ++ tba).
Proof.
  intro Hr. apply in_app_iff. destruct (mem_rule r K) eqn:M.
  - left. apply in_K0. apply mem_rule_in in M. tauto.
  - right. apply in_tba. apply mem_rule_false in M. tauto.
Qed.

Lemma upd_complete d1 d2 : ReprV d1 (routes K0) ->
  add_rules d1 tba = inl d2 -> spec_accepts S s ds = true.
Proof.
  intros R E. pose proof (upd_add_phase d1 R) as Ph. rewrite E in Ph. destruct Ph as (V & _ & [U KU]).
  apply accepts_parts. split; [|split].
  - apply (valid_exprs_routes s). intros x Hx. fold rs in Hx.
    apply in_routes in Hx as (r & Hr & Hx).
    destruct (mem_rule r K) eqn:M.
    + apply mem_rule_in in M. apply (k_valid _ _ (i_k _ _ HI)). apply in_routes. exists r. tauto.
    + apply mem_rule_false in M. apply V. apply in_routes. exists r. split; [apply in_tba; tauto | exact Hx].
  - apply keys_ok_spec. intros a b Ha Hb.
    assert (Hex : forall e, In e (exprs ds) -> exists x, In x (routes (K0 ++ tba)) /\ rt_path x = e).
    { intros e He. unfold exprs in He. apply in_flat_map in He as (d & Hd & He).
      destruct (routes_stamp_ex s ds d e Hd He) as (x & Hx & _ & Ep). exists x. split; [|exact Ep].
      fold rs in Hx. apply in_routes in Hx as (r & Hr & Hx). apply in_routes. exists r.
      split; [apply rs_in_new; exact Hr | exact Hx]. }
    destruct (Hex a Ha) as (x & Hx & Ex). destruct (Hex b Hb) as (y & Hy & Ey).
    rewrite <- Ex, <- Ey. apply (KU x y Hx Hy).
  - apply not_owned_spec. intros t dt p Ht N Hp Hq.
    apply (pats_routes s) in Hp as (x & Hx & Hpx). apply (pats_routes t) in Hq as (y & Hy & Hpy).
    fold rs in Hx.
    assert (Hx' : In x (routes (K0 ++ tba))).
    { apply in_routes in Hx as (r & Hr & Hx). apply in_routes. exists r. split; [apply rs_in_new; exact Hr | exact Hx]. }
    assert (Hy' : In y (routes (K0 ++ tba))).
    { apply in_routes in Hy as (r & Hr & Hy). apply in_routes. exists r. split; [|exact Hy].
      apply in_stamp in Hr as [Es Hd]. apply in_app_iff. left. apply in_K0. split; [|left; congruence].
      apply (r_mem _ _ _ HR). rewrite Es, (in_get_set S t dt (s_nodup _ _ HS) Ht). exact Hd. }
    pose proof (U x y p Hx' Hy' Hpx Hpy) as Es.
    apply in_routes_rule in Hx, Hy. apply in_stamp in Hx as [Ex _]. apply in_stamp in Hy as [Ey _].
    unfold rt_src in Es. congruence.
Qed.

(** *** per source and pattern, the routes are those of the new version, in its order *)

Lemma upd_from_s_K0 : filter (from_src s) K0 = filter (fun r => mem_rule r rs) app.
Proof.
  unfold K0, app. rewrite !filter_filter. apply filter_ext. intro r. unfold P.
  destruct (from_src s r), (mem_rule r rs); reflexivity.
Qed.

Lemma upd_from_t_K0 t : t <> s -> filter (from_src t) K0 = filter (from_src t) K.
Proof.
  intro N. unfold K0. rewrite filter_filter. apply filter_ext. intro r. unfold P, from_src.
  destruct (Nat.eqb (r_src r) t) eqn:E; [|apply andb_false_r].
  apply Nat.eqb_eq in E. assert (E2 : Nat.eqb (r_src r) s = false) by (apply Nat.eqb_neq; congruence).
  rewrite E2. reflexivity.
Qed.

Lemma upd_tba_stamp : tba = stamp s (filter (fun d => negb (unchanged_in old d)) ds).
Proof.
  rewrite stamp_filter. unfold tba. apply filter_ext_in. intros r Hr. f_equal.
  apply bool_eq_iff. rewrite mem_rule_in, unchanged_in_spec. unfold app. rewrite filter_In.
  apply in_stamp in Hr as [Es _]. unfold old. rewrite <- Es. rewrite <- (r_mem _ _ _ HR r).
  unfold from_src. rewrite Nat.eqb_eq. tauto.
Qed.

Lemma upd_kept_stamp q (Hcs : clean D s = true) :
  at_q q (routes (filter (fun r => mem_rule r rs) app)) =
  at_q q (routes (stamp s (filter (unchanged_in ds) old))).
Proof.
  rewrite routes_filter, at_q_filter. unfold app, K. rewrite (r_ord _ _ _ HR s q Hcs). fold old.
  rewrite <- at_q_filter, <- (routes_filter (fun r => mem_rule r rs)). f_equal. f_equal.
  rewrite stamp_filter. apply filter_ext_in. intros r Hr.
  apply bool_eq_iff. rewrite mem_rs, unchanged_in_spec. apply in_stamp in Hr. tauto.
Qed.

Lemma upd_ord : spec_accepts S s ds = true ->
  forall t q, clean D' t = true ->
    at_q q (routes (filter (from_src t) (K0 ++ tba))) = at_q q (routes (stamp t (get_set S' t))).
Proof.
  intros A t q Hc. unfold S'. rewrite get_put_set, filter_app.
  destruct (Nat.eqb s t) eqn:E.
  - apply Nat.eqb_eq in E. subst t. destruct (clean_step s A Hc) as [Hcs HF]. destruct (HF eq_refl) as [F1 _].
    assert (Et : filter (from_src s) tba = tba).
    { apply filter_all_true. intros r Hr. apply in_tba in Hr as [Hr _]. apply in_stamp in Hr as [Es _].
      unfold from_src. apply Nat.eqb_eq. exact Es. }
    rewrite Et, upd_from_s_K0, routes_app, at_q_app, (upd_kept_stamp q Hcs), upd_tba_stamp.
    rewrite <- at_q_app, <- routes_app, <- stamp_app.
    set (kept := filter (unchanged_in ds) old). set (moved := filter (fun d => negb (unchanged_in old d)) ds).
    destruct (mem_pat q (pats ds)) eqn:M.
    + rewrite !at_q_stamp, (flat_map_at_pat s q (kept ++ moved)), (flat_map_at_pat s q ds). f_equal.
      unfold f1_step in F1. apply negb_false_iff in F1. rewrite forallb_forall in F1.
      apply mem_pat_in in M. specialize (F1 q M). apply rdef_list_eqb_eq in F1.
      rewrite at_pat_app. symmetry. exact F1.
    + assert (N : ~ In q (pats ds)) by (intro H; apply mem_pat_in in H; congruence).
      rewrite (at_q_stamp_none s q ds ds (incl_refl _) N).
      apply (at_q_stamp_none s q _ ds); [|exact N].
      intros d Hd. apply in_app_iff in Hd as [Hd|Hd].
      * apply filter_In in Hd as [_ Hd]. apply unchanged_in_spec in Hd. exact Hd.
      * apply filter_In in Hd. tauto.
  - apply Nat.eqb_neq in E.
    assert (Et : filter (from_src t) tba = []).
    { apply filter_all_false. intros r Hr. apply in_tba in Hr as [Hr _]. apply in_stamp in Hr as [Es _].
      unfold from_src. apply Nat.eqb_neq. congruence. }
    rewrite Et, app_nil_r, upd_from_t_K0; [|congruence]. apply (r_ord _ _ _ HR t q (clean_step_mono t Hc)).
Qed.

End Update.

End Fx.
