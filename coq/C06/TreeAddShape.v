(** C06/TreeAddShape.v — Add (Radix/Tree.v [add_node], proved in Radix/TreeAddProofs.v to
    keep [wfb] and to refine the machine's [add]) also keeps [shape], the part of the tree
    invariant that Delete needs (C06/TreeDel.v):

      [add_node_shape]   every node [add_node] comes back with satisfies [shape]; inside a
                         static token it gets no wildcard children; on a path that is empty
                         or starts with '/' it gets no static index other than '/'
      [tree_add_wfd]     [tree_add] preserves [wfd] *)
From HV Require Import Base.Prelude Radix.Spec Radix.SpecProofs Radix.Machine Radix.MachineProofs
  Radix.Load Radix.LoadProofs Radix.Tree Radix.TreeProofs Radix.TreeAddProofs C06.TreeDel C06.TreeDelFacts.

Lemma has_slash_firstn i s : has_slash s = false -> has_slash (firstn i s) = false.
Proof.
  revert i. induction s as [|c r IH]; intros [|i] H; try reflexivity.
  cbn [has_slash firstn] in *. apply orb_false_iff in H as [H1 H2]. rewrite H1, (IH i H2). reflexivity.
Qed.

Lemma has_slash_skipn i s : has_slash s = false -> has_slash (skipn i s) = false.
Proof.
  revert i. induction s as [|c r IH]; intros [|i] H; try reflexivity; try exact H.
  cbn [has_slash skipn] in *. apply orb_false_iff in H as [H1 H2]. apply IH. exact H2.
Qed.

Section AddShape.
Variable V : Type.
Variable can_add : list V -> V -> bool.
Variable v : V.
Variable flag : bool.
Notation tree := (tree V).

(** [add_node] keeps [wfb] and the node's path (from [add_node_spec]) *)
Lemma add_ok_wfb f (n n' : tree) path wk ins :
  wfb n = true -> length path < f -> add_node can_add f n path wk ins v flag = TOk n' ->
  wfb n' = true /\ t_path n' = t_path n.
Proof.
  intros Hw Hl Ha. pose proof (add_node_spec V can_add v flag f n path wk ins Hw Hl) as H. unfold add_spec in H.
  destruct (parse2 (mode ins) path) as [[q ks]|]; [|congruence].
  cbv zeta in H. destruct H as [_ H]. destruct (H n' Ha) as (H1 & H2 & _). auto.
Qed.

Definition ashape_at (f : nat) : Prop :=
  forall (n n' : tree) path wk ins, wfd n = true -> length path < f ->
    add_node can_add f n path wk ins v flag = TOk n' ->
    shape n' = true /\
    (ins = true -> t_wild n' = t_wild n /\ t_catch n' = t_catch n) /\
    (seg_end path -> only_slash (t_statics n) = true -> only_slash (t_statics n') = true).

Lemma shape_child_created (n : tree) : shape (child_created V n) = shape n.
Proof. destruct n. reflexivity. Qed.

Lemma wfd_child_created (n : tree) : wfd n = true -> wfd (child_created V n) = true.
Proof.
  unfold wfd. intro H. apply andb_true_iff in H as [H1 H2]. rewrite shape_child_created, H2, (wfb_child_created V n H1). reflexivity.
Qed.

Lemma wfd_leaf p : wfd (leaf (V:=V) p) = true.
Proof. reflexivity. Qed.

(** splitCommonPrefix keeps the child a piece of a segment *)
Lemma split_shape (child : tree) c cp' tt' :
  wfd child = true -> seg_ok child = true -> t_path child = c :: cp' ->
  (Ascii.eqb c ch_slash = true -> tt' = []) -> (Ascii.eqb c ch_slash = false -> has_slash tt' = false) ->
  shape (fst (split_common_prefix V child (c :: tt'))) = true /\
  seg_ok (fst (split_common_prefix V child (c :: tt'))) = true.
Proof.
  intros Hwd Hso Hp Hsl Hns. pose proof (wfd_parts V child Hwd) as (_ & Hs1 & Hs2).
  assert (Hsh : shape child = true) by (rewrite shape_unfold, Hs1, Hs2; reflexivity).
  unfold split_common_prefix. rewrite Hp.
  destruct (is_prefix (c :: cp') (c :: tt')) eqn:Epre; [cbn [fst]; auto|].
  destruct (skipn (common_prefix_len (c :: cp') (c :: tt')) (c :: cp')) as [|x rest] eqn:Er; [cbn [fst]; auto|].
  cbn [fst].
  assert (Ec : Ascii.eqb c ch_slash = false).
  { destruct (Ascii.eqb c ch_slash) eqn:E; [|reflexivity]. exfalso. pose proof E as E'. apply Ascii.eqb_eq in E'. subst c.
    rewrite (Hsl eq_refl) in Epre. rewrite (seg_ok_slash V child cp' Hp Hso) in Epre. discriminate. }
  unfold seg_ok in Hso. rewrite Hp in Hso. apply orb_true_iff in Hso as [Hso|Hso].
  { unfold str_eqb in Hso. cbn [list_eqb] in Hso. rewrite Ec in Hso. discriminate. }
  apply andb_true_iff in Hso as [Hnsl Hnw]. apply negb_true_iff in Hnsl.
  assert (Hx : has_slash (x :: rest) = false) by (rewrite <- Er; apply has_slash_skipn; exact Hnsl).
  assert (Hsp : seg_ok (set_path V child (x :: rest)) = true).
  { unfold seg_ok. replace (t_path (set_path V child (x :: rest))) with (x :: rest) by (destruct child; reflexivity).
    replace (no_wc (set_path V child (x :: rest))) with (no_wc child) by (destruct child; reflexivity).
    rewrite Hx, Hnw. apply orb_true_r. }
  split.
  - cbn [shape t_statics t_wild]. rewrite Hsp, shape_set_path, Hsh. reflexivity.
  - unfold seg_ok. cbn [t_path]. apply orb_true_iff. right. apply andb_true_iff. split; [|reflexivity].
    apply negb_true_iff. apply has_slash_firstn. cbn [has_slash]. rewrite Ec, (Hns Ec). reflexivity.
Qed.

Lemma shape_of_parts (n : tree) : shape_statics V (t_statics n) = true -> shape_wild V (t_wild n) = true -> shape n = true.
Proof. intros H1 H2. rewrite shape_unfold, H1, H2. reflexivity. Qed.

(** the static branch *)
Lemma static_shape f (n n' : tree) wk c tt' remaining (P : nat -> str) :
  ashape_at f -> wfd n = true ->
  (Ascii.eqb c ch_slash = true -> tt' = []) -> (Ascii.eqb c ch_slash = false -> has_slash tt' = false) ->
  (forall a' b, tt' = a' ++ b -> length (P (S (length a'))) < f) -> length remaining < f ->
  static_R V can_add v flag f n wk c (c :: tt') remaining (negb (Ascii.eqb c ch_slash)) P = TOk n' ->
  shape n' = true /\ t_wild n' = t_wild n /\ t_catch n' = t_catch n /\
  (Ascii.eqb c ch_slash = true -> only_slash (t_statics n) = true -> only_slash (t_statics n') = true).
Proof.
  intros IH Hwd Hsl Hns HlenP Hlenr. unfold static_R.
  pose proof (wfd_parts V n Hwd) as (Hwf & Hs1 & Hs2).
  destruct (find_static c (t_statics n)) as [child|] eqn:Ef.
  - destruct (wfd_static_child V n c child Hwd Ef) as ([cp' Hcp] & Hwch & Hsoch).
    pose proof (wfd_parts V child Hwch) as (Hwbch & _ & _).
    destruct (split_common_prefix_spec V child c cp' tt' Hcp Hwbch) as (a' & b & child1 & Hsp & Htt & Hp1 & Hw1 & _).
    destruct (split_shape child c cp' tt' Hwch Hsoch Hcp Hsl Hns) as [Hsh1 Hso1]. rewrite Hsp in Hsh1, Hso1. cbn [fst] in Hsh1, Hso1.
    rewrite Hsp.
    destruct (add_node can_add f child1 (P (S (length a'))) wk (negb (Ascii.eqb c ch_slash)) v flag) as [child2| | |] eqn:Ea; try discriminate.
    intro H. inversion H; subst n'. clear H.
    assert (Hwd1 : wfd child1 = true) by (unfold wfd; rewrite Hw1, Hsh1; reflexivity).
    destruct (IH child1 child2 _ wk _ Hwd1 (HlenP a' b Htt) Ea) as (Hsh2 & Hfr & _).
    destruct (add_ok_wfb f child1 child2 _ wk _ Hw1 (HlenP a' b Htt) Ea) as [_ Hp2].
    assert (Hso2 : seg_ok child2 = true).
    { unfold seg_ok in *. rewrite Hp2. apply orb_true_iff in Hso1 as [Hs|Hs]; [rewrite Hs; reflexivity|].
      apply andb_true_iff in Hs as [Hsa Hsb]. rewrite Hsa. cbn [andb].
      destruct (Ascii.eqb c ch_slash) eqn:Ec.
      - exfalso. rewrite Hp1 in Hsa. cbn [has_slash] in Hsa. rewrite Ec in Hsa. discriminate.
      - destruct (Hfr eq_refl) as [Hf1 Hf2]. unfold no_wc in *. rewrite Hf1, Hf2, Hsb. apply orb_true_r. }
    replace (t_wild (set_statics V n _)) with (t_wild n) by (destruct n; reflexivity).
    replace (t_catch (set_statics V n _)) with (t_catch n) by (destruct n; reflexivity).
    replace (t_statics (set_statics V n (replace_static V c child2 (t_statics n)))) with (replace_static V c child2 (t_statics n))
      by (destruct n; reflexivity).
    split; [|split; [reflexivity | split; [reflexivity|]]].
    + apply shape_of_parts.
      * replace (t_statics (set_statics V n (replace_static V c child2 (t_statics n)))) with (replace_static V c child2 (t_statics n))
          by (destruct n; reflexivity).
        apply forallb_replace; [exact Hs1|]. intro d. cbn [snd]. rewrite Hso2, Hsh2. reflexivity.
      * replace (t_wild (set_statics V n _)) with (t_wild n) by (destruct n; reflexivity). exact Hs2.
    + intros _ Hos. apply forallb_replace_fst; [intros d x y; reflexivity | exact Hos].
  - destruct (add_node can_add f (leaf (c :: tt')) remaining wk (negb (Ascii.eqb c ch_slash)) v flag) as [child'| | |] eqn:Ea; try discriminate.
    intro H. inversion H; subst n'. clear H.
    destruct (IH (leaf (c :: tt')) child' remaining wk _ (wfd_leaf _) Hlenr Ea) as (Hsh2 & Hfr & _).
    destruct (add_ok_wfb f (leaf (c :: tt')) child' remaining wk _ eq_refl Hlenr Ea) as [_ Hp2]. cbn [leaf t_path] in Hp2.
    assert (Hso2 : seg_ok child' = true).
    { unfold seg_ok. rewrite Hp2. destruct (Ascii.eqb c ch_slash) eqn:Ec.
      - pose proof Ec as Ec'. apply Ascii.eqb_eq in Ec'. subst c. rewrite (Hsl eq_refl). reflexivity.
      - apply orb_true_iff. right. destruct (Hfr eq_refl) as [Hf1 Hf2]. unfold no_wc. rewrite Hf1, Hf2. cbn [leaf t_wild t_catch is_none andb].
        rewrite andb_true_r. apply negb_true_iff. cbn [has_slash]. rewrite Ec, (Hns eq_refl). reflexivity. }
    replace (t_wild (set_statics V (child_created V n) _)) with (t_wild n) by (destruct n; reflexivity).
    replace (t_catch (set_statics V (child_created V n) _)) with (t_catch n) by (destruct n; reflexivity).
    replace (t_statics (set_statics V (child_created V n) (t_statics n ++ [(c, child')]))) with (t_statics n ++ [(c, child')])
      by (destruct n; reflexivity).
    split; [|split; [reflexivity | split; [reflexivity|]]].
    + apply shape_of_parts.
      * replace (t_statics (set_statics V (child_created V n) (t_statics n ++ [(c, child')]))) with (t_statics n ++ [(c, child')])
          by (destruct n; reflexivity).
        unfold shape_statics. rewrite forallb_app. fold (shape_statics V (t_statics n)). rewrite Hs1. cbn [forallb snd].
        rewrite Hso2, Hsh2. reflexivity.
      * replace (t_wild (set_statics V (child_created V n) _)) with (t_wild n) by (destruct n; reflexivity). exact Hs2.
    + intros Ec Hos. unfold only_slash. rewrite forallb_app. fold (only_slash (t_statics n)). rewrite Hos. cbn [forallb fst].
      rewrite Ec. reflexivity.
Qed.

Lemma put_value_frame (n n' : tree) : put_value V can_add v flag n = TOk n' ->
  t_statics n' = t_statics n /\ t_wild n' = t_wild n /\ t_catch n' = t_catch n.
Proof. unfold put_value. destruct (can_add (t_vals n) v); [|discriminate]. intro H. inversion H. cbn. auto. Qed.

Lemma shape_same_children (n n' : tree) : shape n = true -> t_statics n' = t_statics n -> t_wild n' = t_wild n -> shape n' = true.
Proof. intros H H1 H2. rewrite shape_unfold in *. rewrite H1, H2. exact H. Qed.

Lemma wfd_shape (n : tree) : wfd n = true -> shape n = true.
Proof. unfold wfd. intro H. apply andb_true_iff in H. tauto. Qed.

Theorem add_node_shape : forall f, ashape_at f.
Proof.
  induction f as [|f IH]; intros n n' path wk ins Hwd Hlen Ha; [lia|].
  pose proof (wfd_shape n Hwd) as Hsh.
  destruct path as [|token rest0].
  - (* the end of the path *)
    cbn [add_node] in Ha.
    assert (Hfr : t_statics n' = t_statics n /\ t_wild n' = t_wild n /\ t_catch n' = t_catch n).
    { destruct (is_nil wk); [apply put_value_frame; exact Ha|].
      destruct (negb (is_nil (t_keys n)) && negb (keys_eqb (t_keys n) wk)); [discriminate|].
      apply put_value_frame in Ha. destruct n; exact Ha. }
    destruct Hfr as (F1 & F2 & F3). split; [apply (shape_same_children n); assumption|].
    split; [auto|]. intros _ Hos. rewrite F1. exact Hos.
  - cbn [length] in Hlen. assert (Hl : length rest0 < f) by lia.
    rewrite add_node_cons in Ha. cbv zeta in Ha. revert Ha.
    destruct (negb ins && Ascii.eqb token ch_star) eqn:Es.
    { (* a free wildcard *)
      intro Ha. apply andb_true_iff in Es as [Ei Es]. apply negb_true_iff in Ei. apply Ascii.eqb_eq in Es. subst ins token.
      destruct (index_slash (ch_star :: rest0)); [discriminate|].
      set (pr := match t_catch n with Some c => (n, c) | None => (child_created V n, leaf _) end) in Ha.
      assert (Hn1 : t_statics (fst pr) = t_statics n /\ t_wild (fst pr) = t_wild n).
      { subst pr. destruct (t_catch n); cbn [fst]; [auto|]. destruct n; auto. }
      destruct pr as [n1 c]. cbn [fst] in Hn1. destruct Hn1 as [Hn1a Hn1b].
      destruct (negb (str_eqb _ (t_path c))); [discriminate|].
      destruct (negb (is_nil (t_keys c)) && _); [discriminate|].
      destruct (put_value V can_add v flag _) as [c'| | |]; try discriminate.
      inversion Ha; subst n'. split.
      - apply (shape_same_children n); [exact Hsh | destruct n1; exact Hn1a | destruct n1; exact Hn1b].
      - split; [discriminate|]. intros [He|[r He]]; [discriminate | inversion He]. }
    destruct (negb ins && Ascii.eqb token ch_colon) eqn:Ec.
    { (* a single wildcard *)
      intro Ha. apply andb_true_iff in Ec as [Ei Ec]. apply negb_true_iff in Ei. apply Ascii.eqb_eq in Ec. subst ins token.
      change (Ascii.eqb ch_colon ch_slash) with false in Ha. cbv iota in Ha.
      destruct (token_cut ch_colon rest0 eq_refl) as (_ & Hsk & _ & _ & Hse & _). cbv zeta in Hsk. rewrite Hsk in Ha.
      set (remaining := snd (take_seg rest0)) in *.
      assert (Hlen' : length remaining < f).
      { pose proof (take_seg_length rest0). unfold remaining. lia. }
      pose proof (wfd_parts V n Hwd) as (Hwf & Hs1 & Hs2).
      set (pr := match t_wild n with Some w => (n, w) | None => (child_created V n, leaf _) end) in Ha.
      assert (Hpr : t_statics (fst pr) = t_statics n /\ wfd (snd pr) = true /\ only_slash (t_statics (snd pr)) = true).
      { subst pr. destruct (t_wild n) as [w|] eqn:Ew; cbn [fst snd].
        - destruct (wfd_wild_child V n w Hwd Ew) as [A B]. auto.
        - split; [destruct n; reflexivity|]. split; reflexivity. }
      destruct pr as [n1 w]. cbn [fst snd] in Hpr. destruct Hpr as (Hn1 & Hww & Hos).
      destruct (add_node can_add f w remaining _ false v flag) as [w'| | |] eqn:Ea; try discriminate.
      inversion Ha; subst n'.
      destruct (IH w w' remaining _ false Hww Hlen' Ea) as (Hshw & _ & Hosw).
      split.
      - apply shape_of_parts.
        + replace (t_statics (set_wild V n1 w')) with (t_statics n1) by (destruct n1; reflexivity). rewrite Hn1. exact Hs1.
        + replace (t_wild (set_wild V n1 w')) with (Some w') by (destruct n1; reflexivity). cbn [shape_wild].
          rewrite (Hosw Hse Hos), Hshw. reflexivity.
      - split; [discriminate|]. intros [He|[r He]]; [discriminate | inversion He]. }
    (* a static token *)
    destruct (Ascii.eqb token ch_slash) eqn:Esl.
    + intro Ha. apply Ascii.eqb_eq in Esl. subst token. cbn [firstn skipn] in Ha.
      replace (negb ins && false) with false in Ha by (destruct ins; reflexivity). cbv iota in Ha.
      pose proof (static_shape f n n' wk ch_slash [] rest0 (fun split => skipn split (ch_slash :: rest0)) IH Hwd
                    ltac:(reflexivity) ltac:(discriminate)) as HS.
      change (negb (Ascii.eqb ch_slash ch_slash)) with false in HS.
      destruct (HS ltac:(intros a' b H; symmetry in H; apply app_eq_nil in H as [-> ->]; exact Hl) Hl Ha) as (A & B & C & D).
      split; [exact A|]. split; [auto|]. intros _. apply D. reflexivity.
    + destruct (token_cut token rest0 Esl) as (Hft & Hsk & Hpath & Hns & Hse & _). cbv zeta in Hft, Hsk.
      rewrite Hft, Hsk.
      set (seg0 := fst (take_seg rest0)) in *. set (remaining := snd (take_seg rest0)) in *.
      assert (Hrest : rest0 = seg0 ++ remaining) by apply take_seg_app.
      assert (Hlenr : length remaining < f) by (rewrite Hrest, app_length in Hl; lia).
      assert (Hnoseg : ~ seg_end (token :: rest0)).
      { intros [He|[r He]]; [discriminate|]. inversion He. subst token. discriminate. }
      destruct (negb ins && match token :: seg0 with
                            | c1 :: c2 :: _ => Ascii.eqb c1 ch_bslash && is_special c2
                            | _ => false
                            end) eqn:Eesc.
      * (* an escaped first byte *)
        intro Ha. apply andb_true_iff in Eesc as [Ei Eesc]. destruct seg0 as [|c2 seg1] eqn:Eseg; [discriminate|].
        apply andb_true_iff in Eesc as [Eb Esp]. cbn [skipn] in Ha.
        pose proof (is_special_not_slash c2 Esp) as Ec2. cbn [has_slash] in Hns. apply orb_false_iff in Hns as [_ Hns1].
        pose proof (static_shape f n n' wk c2 seg1 remaining (fun split => skipn (S split) (token :: rest0)) IH Hwd
                      ltac:(congruence) ltac:(auto)) as HS.
        destruct (HS ltac:(intros a' b H; rewrite Hrest, H; cbn [app skipn]; rewrite <- app_assoc, skipn_app_exact;
                           rewrite Hrest, H in Hl; cbn [app length] in Hl; rewrite !app_length in *; lia) Hlenr Ha) as (A & B & C & _).
        split; [exact A|]. split; [auto|]. intro H. contradiction.
      * intro Ha.
        pose proof (static_shape f n n' wk token seg0 remaining (fun split => skipn split (token :: rest0)) IH Hwd
                      ltac:(congruence) ltac:(auto)) as HS.
        destruct (HS ltac:(intros a' b H; rewrite Hrest, H; cbn [skipn]; rewrite <- app_assoc, skipn_app_exact;
                           rewrite Hrest, H in Hl; rewrite !app_length in *; lia) Hlenr Ha) as (A & B & C & _).
        split; [exact A|]. split; [auto|]. intro H. contradiction.
Qed.

(** Add keeps the whole invariant *)
Theorem add_node_wfd f (t t' : tree) e wk ins :
  wfd t = true -> length e < f -> add_node can_add f t e wk ins v flag = TOk t' -> wfd t' = true.
Proof.
  intros Hwd Hl Ha.
  destruct (add_ok_wfb _ t t' e wk ins (wfd_leaf_or V t Hwd) Hl Ha) as [Hw _].
  destruct (add_node_shape _ t t' e wk ins Hwd Hl Ha) as (Hs & _).
  unfold wfd. rewrite Hw, Hs. reflexivity.
Qed.

Theorem tree_add_wfd (t t' : tree) e :
  wfd t = true -> tree_add can_add t e v flag = TOk t' -> wfd t' = true.
Proof. intros Hwd Ha. unfold tree_add in Ha. eapply add_node_wfd; [exact Hwd | | exact Ha]. lia. Qed.

End AddShape.
