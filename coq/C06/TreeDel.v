(** C06/TreeDel.v — the Delete side of internal/x/radixtree/tree.go ([delNode],
    [deleteChild], [delEdge], [Delete]) on the compressed tree of Radix/Tree.v, for the
    code as it is now (repairs 2d9cd1f, 003095f, f6ce52b of C06-F3 / F4 / F5):

    - ':' '*' and backslash escapes are special only at the start of a segment
      ([in_static], as in addNode);
    - the length test on the child's path is made after an escape's backslash was
      dropped (so the slice expression cannot go out of range: the test is [is_prefix]);
    - a node whose last value goes loses its wildcard key names and gets its flag forced.

    [shape] is the part of the tree invariant that only Delete needs (Radix/Tree.v's [wfb]
    is what Find and Add need): a static child either is a "/" node or lies inside a
    segment (no '/' in its path) and then has no wildcard children; the static children of
    a single-wildcard node are "/" nodes.  [deleteChild] merges a value-less node with
    its only child by overwriting the node ([*child = *grandChild]): without [shape]
    that would drop wildcard children or merge a wildcard node.

    Definitions and the frame lemmas (what Delete never touches) only; the refinement
    proof is in C06/TreeDelProofs.v; C06/TreeBridge.v shows that C06/Tree.v's [del_node
    all_fix] (the transcription the implementation is compared with) is this function. *)
From HV Require Import Base.Prelude Radix.Spec Radix.Machine Radix.Tree.

Section Del.
Variable V : Type.
Notation tree := (tree V).

Definition clear_wild (n : tree) : tree :=
  {| t_path := t_path n; t_statics := t_statics n; t_wild := None; t_catch := t_catch n;
     t_vals := t_vals n; t_keys := t_keys n; t_bt := t_bt n |}.
Definition clear_catch (n : tree) : tree :=
  {| t_path := t_path n; t_statics := t_statics n; t_wild := t_wild n; t_catch := None;
     t_vals := t_vals n; t_keys := t_keys n; t_bt := t_bt n |}.

(** delEdge *)
Fixpoint remove_static (c : ascii) (l : list (ascii * tree)) : list (ascii * tree) :=
  match l with
  | [] => []
  | (d, t) :: r => if Ascii.eqb c d then r else (d, t) :: remove_static c r
  end.

(** where a child hangs below its parent *)
Inductive slot := SWild | SCatch | SStatic (c : ascii).

Definition put_child (n : tree) (sl : slot) (child : tree) : tree :=
  match sl with
  | SWild => set_wild V n child
  | SCatch => set_catch V n child
  | SStatic c => set_statics V n (replace_static V c child (t_statics n))
  end.

Definition drop_child (n : tree) (sl : slot) : tree :=
  match sl with
  | SWild => clear_wild n
  | SCatch => clear_catch n
  | SStatic c => set_statics V n (remove_static c (t_statics n))
  end.

(** "len(child.staticIndices) == 1 && child.staticIndices[0] != '/' && child.path != "/"" *)
Definition mergeable (child : tree) : bool :=
  match t_statics child with
  | [(i, _)] => negb (Ascii.eqb i ch_slash) && negb (str_eqb (t_path child) [ch_slash])
  | _ => false
  end.

(** "*child = *grandChild" with the paths concatenated *)
Definition merged (child : tree) : tree :=
  match t_statics child with
  | [(_, g)] => set_path V g (t_path child ++ t_path g)
  | _ => child
  end.

(** deleteChild *)
Definition delete_child (n : tree) (sl : slot) (child : tree) : tree :=
  let child1 := if mergeable child then merged child else child in
  if mergeable child && negb (is_nil (t_vals child1)) then put_child n sl child1
  else if is_leaf V child1 then drop_child n sl
  else put_child n sl child1.

(** what delNode does with the child it came back from *)
Definition after_child (n : tree) (sl : slot) (child' : tree) : tree :=
  if is_nil (t_vals child') then delete_child n sl child' else put_child n sl child'.

Definition is_escape (s : str) : bool :=
  match s with
  | a :: b :: _ => Ascii.eqb a ch_bslash && is_special b
  | _ => false
  end.

Variable f : V -> bool.     (* ValueMatcher: the values to remove *)

(** the end of the path: remove the matching values *)
Definition del_here (n : tree) : option tree :=
  match t_vals n with
  | [] => None
  | _ =>
    let vs := filter (fun v => negb (f v)) (t_vals n) in
    if Nat.eqb (length vs) (length (t_vals n)) then None
    else Some (match vs with
               | [] => {| t_path := t_path n; t_statics := t_statics n; t_wild := t_wild n; t_catch := t_catch n;
                          t_vals := []; t_keys := []; t_bt := true |}
               | _ => {| t_path := t_path n; t_statics := t_statics n; t_wild := t_wild n; t_catch := t_catch n;
                         t_vals := vs; t_keys := t_keys n; t_bt := t_bt n |}
               end)
  end.

(** delNode; [None] = false *)
Fixpoint del_node (fuel : nat) (n : tree) (path : str) (in_static : bool) : option tree :=
  match fuel with
  | O => None
  | S fuel' =>
    match path with
    | [] => del_here n
    | token :: _ =>
      if negb in_static && Ascii.eqb token ch_colon then
        match t_wild n with
        | None => None
        | Some w =>
          match del_node fuel' w (snd (take_seg path)) false with
          | Some w' => Some (after_child n SWild w')
          | None => None
          end
        end
      else if negb in_static && Ascii.eqb token ch_star then
        match t_catch n with
        | None => None
        | Some c =>
          match del_node fuel' c [] false with
          | Some c' => Some (after_child n SCatch c')
          | None => None
          end
        end
      else
        let esc := negb in_static && is_escape path in
        let path' := if esc then skipn 1 path else path in
        let token' := if esc then match path with _ :: c2 :: _ => c2 | _ => token end else token in
        match find_static token' (t_statics n) with
        | None => None
        | Some child =>
          if is_prefix (t_path child) path' then
            match del_node fuel' child (skipn (length (t_path child)) path') (negb (Ascii.eqb token' ch_slash)) with
            | Some c' => Some (after_child n (SStatic token') c')
            | None => None
            end
          else None
        end
    end
  end.

(** Tree.Delete(path, matcher): [None] = ErrFailedToDelete *)
Definition tree_delete (t : tree) (path : str) : option tree :=
  del_node (S (length path)) t path false.

End Del.

Arguments clear_wild {V}.
Arguments clear_catch {V}.
Arguments remove_static {V}.
Arguments put_child {V}.
Arguments drop_child {V}.
Arguments mergeable {V}.
Arguments merged {V}.
Arguments delete_child {V}.
Arguments after_child {V}.
Arguments del_here {V}.
Arguments del_node {V}.
Arguments tree_delete {V}.

(** ** the shape invariant of Delete *)

Section Shape.
Variable V : Type.
Notation tree := (tree V).

Definition is_none {A} (o : option A) : bool := match o with None => true | Some _ => false end.

Definition no_wc (n : tree) : bool := is_none (t_wild n) && is_none (t_catch n).

(** a static child: a "/" node, or a piece of a segment without wildcard children *)
Definition seg_ok (ch : tree) : bool :=
  str_eqb (t_path ch) [ch_slash] || (negb (has_slash (t_path ch)) && no_wc ch).

Definition only_slash (l : list (ascii * tree)) : bool :=
  forallb (fun x => Ascii.eqb (fst x) ch_slash) l.

Fixpoint shape (n : tree) : bool :=
  (fix go (l : list (ascii * tree)) : bool :=
     match l with
     | [] => true
     | (_, ch) :: r => seg_ok ch && shape ch && go r
     end) (t_statics n)
  && match t_wild n with Some w => only_slash (t_statics w) && shape w | None => true end.

(** the invariant of the index: what Find/Add need and what Delete needs *)
Definition wfd (n : tree) : bool := wfb n && shape n.

End Shape.

Arguments no_wc {V}.
Arguments seg_ok {V}.
Arguments only_slash {V}.
Arguments shape {V}.
Arguments wfd {V}.
