(** C06/TreeRepo.v — the repository over the compressed radix tree of Radix/Tree.v with the
    Delete of C06/TreeDel.v ([r_step]) simulates, operation by operation and for every
    history, the repository over the abstract index ([step all_fix], the one the C06
    theorems are about): same outcomes, same known rules, every lookup finds the same rule. *)
From HV Require Import Base.Prelude C06.Pat C06.Model C06.RepoSim.
From HV Require Radix.Spec Radix.Machine Radix.Tree C06.TreeDel C06.TreeRefine.

Definition rtree := Radix.Tree.tree route.

(** Tree.Add(route.Path(), route, WithBacktracking(...)) *)
Definition r_add1 (t : rtree) (v : route) : rtree + err :=
  match C06.TreeRefine.tree_add_f route can_add (S (length (rt_path v))) t (rt_path v) v (rt_bt v) with
  | Radix.Tree.TOk t' => inl t'
  | Radix.Tree.TInvalid => inr EInvalidPath
  | Radix.Tree.TConstraint => inr EConstraint
  | Radix.Tree.TFuel => inr EPanic
  end.

(** Tree.Delete(route.Path(), matcher) *)
Definition r_del1 (t : rtree) (r : rule) (v : route) : rtree + err :=
  match C06.TreeDel.tree_delete (del_matcher all_fix r v) t (rt_path v) with
  | Some t' => inl t'
  | None => inr EDelete
  end.

Definition r_find_rule (t : rtree) (path : str) (m : route -> bool) : option rule :=
  match Radix.Tree.tree_find true true true (fun v _ _ => m v) t path with
  | Radix.Spec.Found v _ _ => Some (rt_rule v)
  | Radix.Spec.NoMatch => None
  end.

Definition rrepo := grepo rtree.
Definition r_empty_repo : rrepo := {| known := []; index := Radix.Tree.empty_tree |}.
Definition r_step : rrepo -> op -> rrepo * option err := gstep rtree r_add1 r_del1.
Definition r_run_from (st : rrepo) (ops : list op) : rrepo := grun_from rtree r_add1 r_del1 st ops.
Definition r_run (ops : list op) : rrepo := r_run_from r_empty_repo ops.

Lemma r_add1_sim t d v : C06.TreeRefine.trel t d -> osim C06.TreeRefine.trel (r_add1 t v) (m_add1 d v).
Proof.
  intro H. pose proof (C06.TreeRefine.sim_add (S (length (rt_path v))) t d v H ltac:(lia)) as HS. unfold r_add1, osim.
  destruct (C06.TreeRefine.tree_add_f route can_add (S (length (rt_path v))) t (rt_path v) v (rt_bt v)) as [t'| | |];
    destruct (m_add1 d v) as [d'|[]]; try contradiction; try reflexivity; exact HS.
Qed.

Lemma valid_parse v : valid v -> exists p ks, Radix.Spec.parse_expr (rt_path v) = Some (p, ks).
Proof.
  unfold valid. rewrite C06.TreeRefine.pat_of_cv.
  destruct (Radix.Spec.parse_expr (rt_path v)) as [[p ks]|]; [eauto | congruence].
Qed.

Lemma r_del1_sim t d r v : C06.TreeRefine.trel t d -> valid v ->
  osim C06.TreeRefine.trel (r_del1 t r v) (m_del1 all_fix d r v).
Proof.
  intros H Hv. destruct (valid_parse v Hv) as (p & ks & Ep).
  pose proof (C06.TreeRefine.sim_del (del_matcher all_fix r v) t d (rt_path v) p ks H Ep) as S.
  unfold r_del1, m_del1, osim. rewrite C06.TreeRefine.pat_of_cv, Ep.
  destruct (C06.TreeDel.tree_delete (del_matcher all_fix r v) t (rt_path v)) as [t'|];
    destruct (delete d (C06.TreeRefine.cvp p) (del_matcher all_fix r v)) as [d'|]; try contradiction; [exact S | reflexivity].
Qed.

Lemma m_add1_valid d v d' : m_add1 d v = inl d' -> valid v.
Proof. unfold m_add1, valid. destruct (pat_of (rt_path v)); [discriminate | discriminate]. Qed.

Definition rm_rel : rrepo -> repo -> Prop := srel rtree db C06.TreeRefine.trel.

Lemma rm_rel_empty : rm_rel r_empty_repo empty.
Proof. split; [reflexivity|]. split; [exact C06.TreeRefine.trel_empty | intros r []]. Qed.

(** one operation *)
Theorem r_step_sim (s1 : rrepo) (s2 : repo) o : rm_rel s1 s2 ->
  snd (r_step s1 o) = snd (step all_fix s2 o) /\ rm_rel (fst (r_step s1 o)) (fst (step all_fix s2 o)).
Proof.
  apply (gstep_sim rtree db r_add1 r_del1 m_add1 (m_del1 all_fix) C06.TreeRefine.trel).
  - exact r_add1_sim.
  - exact r_del1_sim.
  - exact m_add1_valid.
Qed.

(** every history *)
Theorem r_run_sim ops : rm_rel (r_run ops) (run all_fix ops).
Proof.
  apply (grun_sim rtree db r_add1 r_del1 m_add1 (m_del1 all_fix) C06.TreeRefine.trel r_add1_sim r_del1_sim m_add1_valid).
  exact rm_rel_empty.
Qed.

(** related repositories answer every lookup alike *)
Theorem rm_rel_find (s1 : rrepo) (s2 : repo) path m : rm_rel s1 s2 ->
  r_find_rule (index s1) path m = find_rule false (index s2) path m.
Proof. intros (_ & H & _). apply C06.TreeRefine.sim_find. exact H. Qed.
